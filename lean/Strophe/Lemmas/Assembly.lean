/-
Helper lemmas for C10.

Proof device: an *abstract* assembler `Abs` that keeps only what determines behaviour — depth, the
elements under construction and the pending text — and has no buffer bookkeeping (`used`, `size`),
hence no way to misuse the buffer.  `step_abs` shows that the C-shaped model of
Model/Assembly.lean refines it whenever the bookkeeping invariant `TextInv`
(`inner_text == NULL → used = 0 ∧ size = 0`) holds, and that every step re-establishes `TextInv`
(this is exactly what failed for `parser_reset` before commit 86b91cf).  Everything else is proved
on the abstract machine, where two states reached under different splittings of the character data
are *equal*.
-/
import Strophe.Spec.ExpatTrace

set_option linter.unusedSimpArgs false

namespace Strophe.Assembly

/-! ### bookkeeping invariant -/

/-- `inner_text == NULL → inner_text_used == 0 ∧ inner_text_size == 0`, and while text is pending
    `strlen(inner_text) ≤ inner_text_used < inner_text_size` -/
structure TextInv (s : State) : Prop where
  null : s.innerText = none → s.used = 0 ∧ s.size = 0
  pending : ∀ t, s.innerText = some t → t.length ≤ s.used ∧ s.used < s.size

theorem textInv_init : TextInv init := ⟨fun _ => ⟨rfl, rfl⟩, fun t h => by simp [init] at h⟩

theorem TextInv.of_eq {s s' : State} (h : TextInv s) (h1 : s'.innerText = s.innerText)
    (h2 : s'.used = s.used) (h3 : s'.size = s.size) : TextInv s' :=
  ⟨fun hn => by rw [h2, h3]; exact h.null (h1 ▸ hn), fun t ht => by rw [h2, h3]; exact h.pending t (h1 ▸ ht)⟩

theorem cstr_length (d : Bytes) : (cstr d).length ≤ d.length := by
  induction d with
  | nil => simp [cstr]
  | cons c rest ih =>
    by_cases hc : c = 0
    · simp [cstr, hc]
    · simp [cstr, hc]; omega

/-! ### the abstract assembler -/

structure Abs where
  depth : Int
  path : List Frame
  text : Option Bytes

def abs (s : State) : Abs := ⟨s.depth, s.path, s.innerText⟩

def aComplete (σ : Abs) : Except Site Abs :=
  match σ.text with
  | none => .ok σ
  | some t =>
    match σ.path with
    | [] => .error .textParentNull
    | f :: rest => .ok { σ with path := f.addChild (.text t) :: rest, text := none }

def aStart (σ : Abs) (nsname : Bytes) (attrs : List Attr) : Except Site (Abs × List Ev) :=
  if σ.depth = 0 then
    .ok ({ σ with depth := σ.depth + 1 }, [.open_ (xmlName nsname) attrs])
  else if σ.path.isEmpty && σ.depth != 1 then
    .ok ({ σ with depth := σ.depth + 1 }, [])
  else
    match σ.path with
    | [] => .ok ({ σ with path := [newChild nsname attrs], depth := σ.depth + 1 }, [])
    | _ :: _ => do
      let σ' ← aComplete σ
      .ok ({ σ' with path := newChild nsname attrs :: σ'.path, depth := σ'.depth + 1 }, [])

def aEnd (σ : Abs) (nsname : Bytes) : Except Site (Abs × List Ev) :=
  let σ := { σ with depth := σ.depth - 1 }
  if σ.depth = 0 then
    .ok (σ, [.close nsname])
  else do
    let σ ← aComplete σ
    match σ.path with
    | [] => .error .endStanzaNull
    | [f] => .ok ({ σ with path := [] }, [.stanza f.toNode])
    | f :: p :: rest => .ok ({ σ with path := p.addChild f.toNode :: rest }, [])

def aChars (σ : Abs) (d : Bytes) : Abs :=
  if σ.depth < 2 then σ else { σ with text := some (σ.text.getD [] ++ cstr d) }

def aInit : Abs := ⟨0, [], none⟩

def aStep (σ : Abs) : In → Except Site (Abs × List Ev)
  | .start n a => aStart σ n a
  | .end_ n => aEnd σ n
  | .chars d => .ok (aChars σ d, [])
  | .err => .ok (σ, [.error])
  | .reset => .ok (aInit, [])

def aRun (σ : Abs) : List In → Out
  | [] => ⟨[], none⟩
  | i :: rest =>
    match aStep σ i with
    | .error site => ⟨[], some site⟩
    | .ok (σ', e) =>
      let o := aRun σ' rest
      ⟨e ++ o.evs, o.crash⟩

def aExec (σ : Abs) : List In → Except Site Abs
  | [] => .ok σ
  | i :: rest =>
    match aStep σ i with
    | .error site => .error site
    | .ok (σ', _) => aExec σ' rest

/-! ### refinement -/

theorem pin_minDepth : (Gen.parserTextMinDepth : Int) = 2 := by decide

theorem complete_abs (s : State) :
    (completeInnerText s).map abs = aComplete (abs s) := by
  unfold completeInnerText aComplete abs
  cases h : s.innerText with
  | none => simp [Except.map, h]
  | some t =>
    cases hp : s.path with
    | nil => simp [Except.map]
    | cons f rest => simp [Except.map]

theorem complete_inv (s s' : State) (hi : TextInv s) (h : completeInnerText s = .ok s') :
    TextInv s' ∧ s'.depth = s.depth := by
  unfold completeInnerText at h
  cases ht : s.innerText with
  | none =>
    simp [ht] at h
    subst h
    exact ⟨hi, rfl⟩
  | some t =>
    cases hp : s.path with
    | nil => simp [ht, hp] at h
    | cons f rest =>
      simp [ht, hp] at h
      subst h
      exact ⟨⟨fun _ => ⟨rfl, rfl⟩, fun t h => by simp at h⟩, rfl⟩

/-- the projection applied to the result of a step -/
def absR (r : Except Site (State × List Ev)) : Except Site (Abs × List Ev) :=
  r.map fun p => (abs p.1, p.2)

theorem start_abs (s : State) (n : Bytes) (a : List Attr) :
    absR (startElement s n a) = aStart (abs s) n a := by
  unfold startElement aStart absR
  by_cases h0 : s.depth = 0
  · simp [h0, abs, Except.map]
  · by_cases h1 : (s.path.isEmpty && s.depth != 1) = true
    · simp [h0, h1, abs, Except.map]
    · cases hp : s.path with
      | nil => simp [h0, hp, abs, Except.map] at h1 ⊢; simp [h1]
      | cons f rest =>
        have hc := complete_abs s
        cases hc' : completeInnerText s with
        | error e =>
          simp [hc', Except.map] at hc
          simp [h0, hp, abs, Except.map, hc', bind, Except.bind] at hc ⊢
          simp [← hc, bind, Except.bind]
        | ok s' =>
          simp [hc', Except.map] at hc
          simp [h0, hp, abs, Except.map, hc', bind, Except.bind] at hc ⊢
          simp [← hc, bind, Except.bind, abs]

theorem end_abs (s : State) (n : Bytes) :
    absR (endElement s n) = aEnd (abs s) n := by
  unfold endElement aEnd absR
  by_cases h0 : s.depth - 1 = 0
  · simp [h0, abs, Except.map]
  · have hc := complete_abs { s with depth := s.depth - 1 }
    cases hc' : completeInnerText { s with depth := s.depth - 1 } with
    | error e =>
      simp [hc', Except.map] at hc
      simp [h0, abs, Except.map, hc', bind, Except.bind] at hc ⊢
      simp [← hc, bind, Except.bind]
    | ok s' =>
      simp [hc', Except.map] at hc
      simp [h0, abs, Except.map, hc', bind, Except.bind] at hc ⊢
      simp [← hc, bind, Except.bind]
      cases hp : s'.path with
      | nil => simp [abs, hp]
      | cons f rest =>
        cases rest with
        | nil => simp [abs, hp]
        | cons p rest' => simp [abs, hp]

theorem appendText_ok (s : State) (t d : Bytes) (h : t.length + d.length + 1 ≤ s.size) :
    appendText s t d = .ok ({ s with innerText := some (t ++ cstr d), used := s.used + d.length }, []) := by
  unfold appendText
  have := cstr_length d
  have hl : (t ++ cstr d).length + 1 ≤ s.size := by simp; omega
  simp only [hl, if_true]

/-- what `_characters` does at depth ≥ 2 under the invariant -/
theorem chars_ok (s : State) (d : Bytes) (hi : TextInv s) (h2 : ¬ s.depth < 2) :
    ∃ sz, characters s d = .ok ({ s with innerText := some (s.innerText.getD [] ++ cstr d),
                                         used := s.used + d.length, size := sz }, []) ∧
          s.used + d.length < sz := by
  unfold characters
  rw [pin_minDepth]
  cases ht : s.innerText with
  | none =>
    obtain ⟨hu, hs⟩ := hi.null ht
    refine ⟨d.length + 1 + padding, ?_, by omega⟩
    simp only [h2, hu, hs, if_false]
    simp only [Nat.zero_add, ge_iff_le, Nat.zero_le, if_true]
    rw [appendText_ok _ [] d (by simp)]
    simp [hu]
  | some t =>
    obtain ⟨hl, hus⟩ := hi.pending t ht
    by_cases hr : s.used + d.length ≥ s.size
    · refine ⟨s.used + d.length + 1 + padding, ?_, by omega⟩
      simp only [h2, hr, if_false, if_true]
      rw [List.take_of_length_le hl]
      rw [appendText_ok _ t d (by simp; omega)]
      simp
    · refine ⟨s.size, ?_, by omega⟩
      simp only [h2, hr, if_false]
      rw [appendText_ok _ t d (by omega)]
      simp

theorem chars_abs (s : State) (d : Bytes) (hi : TextInv s) :
    absR (characters s d) = .ok (aChars (abs s) d, []) := by
  by_cases h2 : s.depth < 2
  · unfold characters aChars absR
    rw [pin_minDepth]
    simp [h2, abs, Except.map]
  · obtain ⟨sz, hc, _⟩ := chars_ok s d hi h2
    rw [hc]
    simp [absR, Except.map, aChars, abs, h2]

theorem step_abs (s : State) (i : In) (hi : TextInv s) :
    absR (step s i) = aStep (abs s) i := by
  cases i with
  | start n a => exact start_abs s n a
  | end_ n => exact end_abs s n
  | chars d => exact chars_abs s d hi
  | err => simp [step, aStep, absR, Except.map]
  | reset => simp [step, aStep, absR, Except.map, reset, abs, aInit]

theorem step_inv (s s' : State) (i : In) (e : List Ev) (hi : TextInv s) (h : step s i = .ok (s', e)) :
    TextInv s' := by
  cases i with
  | start n a =>
    simp only [step, startElement] at h
    by_cases h0 : s.depth = 0
    · simp [h0] at h; rw [← h.1]; exact hi.of_eq rfl rfl rfl
    · by_cases h1 : (s.path.isEmpty && s.depth != 1) = true
      · simp [h0, h1] at h; rw [← h.1]; exact hi.of_eq rfl rfl rfl
      · cases hp : s.path with
        | nil => simp [h0, hp] at h1 h; simp [h1] at h; rw [← h.1]; exact hi.of_eq rfl rfl rfl
        | cons f rest =>
          cases hc : completeInnerText s with
          | error x => simp [h0, hp, hc, bind, Except.bind] at h
          | ok s1 =>
            simp [h0, hp, hc, bind, Except.bind] at h
            have := (complete_inv s s1 hi hc).1
            rw [← h.1]; exact this.of_eq rfl rfl rfl
  | end_ n =>
    simp only [step, endElement] at h
    by_cases h0 : s.depth - 1 = 0
    · simp [h0] at h; rw [← h.1]; exact hi.of_eq rfl rfl rfl
    · cases hc : completeInnerText { s with depth := s.depth - 1 } with
      | error x => simp [h0, hc, bind, Except.bind] at h
      | ok s1 =>
        have hi1 := (complete_inv _ s1 (hi.of_eq rfl rfl rfl : TextInv { s with depth := s.depth - 1 }) hc).1
        simp [h0, hc, bind, Except.bind] at h
        cases hp : s1.path with
        | nil => simp [hp] at h
        | cons f rest =>
          cases rest with
          | nil => simp [hp] at h; rw [← h.1]; exact hi1.of_eq rfl rfl rfl
          | cons p rest' => simp [hp] at h; rw [← h.1]; exact hi1.of_eq rfl rfl rfl
  | chars d =>
    simp only [step] at h
    by_cases h2 : s.depth < 2
    · unfold characters at h
      rw [pin_minDepth] at h
      simp [h2] at h; rw [← h.1]; exact hi.of_eq rfl rfl rfl
    · obtain ⟨sz, hc, hsz⟩ := chars_ok s d hi h2
      rw [hc] at h
      simp at h
      rw [← h.1]
      refine ⟨fun hn => by simp at hn, fun t ht => ?_⟩
      simp at ht
      subst ht
      refine ⟨?_, hsz⟩
      have := cstr_length d
      cases hx : s.innerText with
      | none => simp [hx]; omega
      | some t0 =>
        have := (hi.pending t0 hx).1
        simp [hx]; omega
  | err => simp [step] at h; rw [← h.1]; exact hi.of_eq rfl rfl rfl
  | reset =>
    simp [step] at h; rw [← h.1]
    exact ⟨fun _ => ⟨rfl, rfl⟩, fun t ht => by simp [reset] at ht⟩

theorem run_abs (s : State) (ins : List In) (hi : TextInv s) : run s ins = aRun (abs s) ins := by
  induction ins generalizing s with
  | nil => rfl
  | cons i rest ih =>
    have h := step_abs s i hi
    unfold run aRun
    cases hs : step s i with
    | error e =>
      simp [hs, absR, Except.map] at h
      simp [← h]
    | ok p =>
      obtain ⟨s', e⟩ := p
      simp [hs, absR, Except.map] at h
      simp [← h]
      rw [ih s' (step_inv s s' i e hi hs)]
      exact ⟨rfl, rfl⟩

theorem exec_abs (s : State) (ins : List In) (hi : TextInv s) :
    (exec s ins).map abs = aExec (abs s) ins := by
  induction ins generalizing s with
  | nil => rfl
  | cons i rest ih =>
    have h := step_abs s i hi
    unfold exec aExec
    cases hs : step s i with
    | error e =>
      simp [hs, absR, Except.map] at h
      simp [← h, Except.map]
    | ok p =>
      obtain ⟨s', e⟩ := p
      simp [hs, absR, Except.map] at h
      simp [← h]
      exact ih s' (step_inv s s' i e hi hs)

theorem exec_inv (s s' : State) (ins : List In) (hi : TextInv s) (h : exec s ins = .ok s') :
    TextInv s' := by
  induction ins generalizing s with
  | nil => simp [exec] at h; rw [← h]; exact hi
  | cons i rest ih =>
    unfold exec at h
    cases hs : step s i with
    | error e => simp [hs] at h
    | ok p =>
      obtain ⟨s1, e⟩ := p
      simp [hs] at h
      exact ih s1 (step_inv s s1 i e hi hs) h

/-! ### character data on the abstract machine -/

theorem cstr_nulFree (d : Bytes) (h : (0 : UInt8) ∉ d) : cstr d = d := by
  induction d with
  | nil => rfl
  | cons c rest ih =>
    have hc : c ≠ 0 := fun e => h (by simp [e])
    have hr : (0 : UInt8) ∉ rest := fun e => h (by simp [e])
    simp [cstr, hc, ih hr]

theorem cstr_append (a b : Bytes) (h : (0 : UInt8) ∉ a) : cstr (a ++ b) = a ++ cstr b := by
  induction a with
  | nil => rfl
  | cons c rest ih =>
    have hc : c ≠ 0 := fun e => h (by simp [e])
    have hr : (0 : UInt8) ∉ rest := fun e => h (by simp [e])
    simp [cstr, hc, ih hr]

theorem aChars_append (σ : Abs) (a b : Bytes) (h : (0 : UInt8) ∉ a) :
    aChars (aChars σ a) b = aChars σ (a ++ b) := by
  unfold aChars
  by_cases h2 : σ.depth < 2
  · simp [h2]
  · simp [h2, cstr_append a b h, cstr_nulFree a h]

theorem aRun_append (σ : Abs) (pre post : List In) :
    aRun σ (pre ++ post) =
      match aExec σ pre with
      | .error _ => aRun σ pre
      | .ok σ' => ⟨(aRun σ pre).evs ++ (aRun σ' post).evs, (aRun σ' post).crash⟩ := by
  induction pre generalizing σ with
  | nil => simp [aExec, aRun]
  | cons i rest ih =>
    simp only [List.cons_append, aRun, aExec]
    cases hs : aStep σ i with
    | error e => simp
    | ok p =>
      obtain ⟨σ1, e⟩ := p
      simp only [ih σ1]
      cases hx : aExec σ1 rest with
      | error e' => simp
      | ok σ2 => simp [List.append_assoc]

theorem aRun_split (σ : Abs) (pre post : List In) (a b : Bytes) (h : (0 : UInt8) ∉ a) :
    aRun σ (pre ++ In.chars (a ++ b) :: post) = aRun σ (pre ++ In.chars a :: In.chars b :: post) := by
  rw [aRun_append, aRun_append]
  cases hx : aExec σ pre with
  | error e => rfl
  | ok σ' =>
    simp [aRun, aStep, aChars_append σ' a b h]

/-! ### traces equal up to character-data splitting -/

theorem nulFree_append (l l' : List In) : NulFree (l ++ l') ↔ NulFree l ∧ NulFree l' := by
  simp only [NulFree, List.mem_append]
  constructor
  · intro h; exact ⟨fun i hi => h i (Or.inl hi), fun i hi => h i (Or.inr hi)⟩
  · intro ⟨h1, h2⟩ i hi; cases hi with
    | inl x => exact h1 i x
    | inr x => exact h2 i x

theorem nulFree_cons (i : In) (l : List In) : NulFree (i :: l) ↔ i.nulFree ∧ NulFree l := by
  simp [NulFree]

theorem nulFree_split (pre post : List In) (a b : Bytes) :
    NulFree (pre ++ In.chars (a ++ b) :: post) ↔ NulFree (pre ++ In.chars a :: In.chars b :: post) := by
  simp only [nulFree_append, nulFree_cons, In.nulFree, List.mem_append, not_or]
  constructor
  · intro ⟨h1, ⟨ha, hb⟩, h3⟩; exact ⟨h1, ha, hb, h3⟩
  · intro ⟨h1, ha, hb, h3⟩; exact ⟨h1, ⟨ha, hb⟩, h3⟩

theorem nulFree_errTail (pre post : List In) (a : Bytes) (ha : (0 : UInt8) ∉ a) :
    NulFree (pre ++ In.chars a :: In.err :: post) ↔ NulFree (pre ++ In.err :: post) := by
  simp only [nulFree_append, nulFree_cons, In.nulFree]
  constructor
  · intro ⟨h1, _, h3⟩; exact ⟨h1, h3⟩
  · intro ⟨h1, h3⟩; exact ⟨h1, ha, h3⟩

/-! ### a failed parser stays failed -/

theorem errFinal_split (f : Bool) (pre post : List In) (a b : Bytes) :
    errFinalFrom f (pre ++ In.chars (a ++ b) :: post) = errFinalFrom f (pre ++ In.chars a :: In.chars b :: post) := by
  induction pre generalizing f with
  | nil => simp [errFinalFrom]
  | cons i rest ih =>
    cases i <;> cases f <;> simp [errFinalFrom, ih]

theorem errFinal_errTail (f : Bool) (pre post : List In) (a : Bytes) :
    errFinalFrom f (pre ++ In.chars a :: In.err :: post) = errFinalFrom f (pre ++ In.err :: post) := by
  induction pre generalizing f with
  | nil => simp [errFinalFrom]
  | cons i rest ih =>
    cases i <;> cases f <;> simp [errFinalFrom, ih]

theorem errFinal_suffix (f : Bool) (pre post : List In) (h : errFinalFrom f (pre ++ In.err :: post) = true) :
    errFinalFrom true post = true := by
  induction pre generalizing f with
  | nil => simpa [errFinalFrom] using h
  | cons i rest ih =>
    cases i <;> cases f <;> simp [errFinalFrom] at h <;> exact ih _ h

theorem errFinal_append_reset (f : Bool) (a r : List In) :
    errFinalFrom f (a ++ In.reset :: r) = (errFinalFrom f a && errFinalFrom false r) := by
  induction a generalizing f with
  | nil => simp [errFinalFrom]
  | cons i rest ih =>
    cases i <;> cases f <;> simp [errFinalFrom, ih]

theorem same_errFinal {l l' : List In} (h : SameUpToCharSplit l l') (f : Bool) :
    errFinalFrom f l = errFinalFrom f l' := by
  induction h with
  | refl l => rfl
  | split pre a b post => exact errFinal_split f pre post a b
  | errTail pre a post _ => exact errFinal_errTail f pre post a
  | symm _ ih => exact ih.symm
  | trans _ _ ih1 ih2 => exact ih1.trans ih2

/-- after a failure nothing that happens before the next reset depends on the pending text -/
theorem aRun_failed (σ₁ σ₂ : Abs) (post : List In) (hd : σ₁.depth = σ₂.depth) (hp : σ₁.path = σ₂.path)
    (h : errFinalFrom true post = true) : aRun σ₁ post = aRun σ₂ post := by
  induction post generalizing σ₁ σ₂ with
  | nil => rfl
  | cons i rest ih =>
    cases i with
    | start n a => simp [errFinalFrom] at h
    | end_ n => simp [errFinalFrom] at h
    | chars d =>
      simp only [aRun, aStep]
      have h' : errFinalFrom true rest = true := by simpa [errFinalFrom] using h
      have := ih (aChars σ₁ d) (aChars σ₂ d)
        (by unfold aChars; rw [hd]; split <;> simp [hd])
        (by unfold aChars; rw [hd]; split <;> simp [hp]) h'
      rw [this]
    | err =>
      simp only [aRun, aStep]
      have h' : errFinalFrom true rest = true := by simpa [errFinalFrom] using h
      rw [ih σ₁ σ₂ hd hp h']
    | reset => simp only [aRun, aStep]

theorem aRun_errTail (σ : Abs) (pre post : List In) (a : Bytes) (f : Bool)
    (h : errFinalFrom f (pre ++ In.err :: post) = true) :
    aRun σ (pre ++ In.chars a :: In.err :: post) = aRun σ (pre ++ In.err :: post) := by
  rw [aRun_append, aRun_append]
  cases hx : aExec σ pre with
  | error e => rfl
  | ok σ' =>
    have hq := errFinal_suffix f pre post h
    have : aRun (aChars σ' a) post = aRun σ' post :=
      aRun_failed _ _ post (by unfold aChars; split <;> rfl) (by unfold aChars; split <;> rfl) hq
    simp [aRun, aStep, this]

theorem same_nulFree {l l' : List In} (h : SameUpToCharSplit l l') : NulFree l ↔ NulFree l' := by
  induction h with
  | refl l => exact Iff.rfl
  | split pre a b post => exact nulFree_split pre post a b
  | errTail pre a post ha => exact nulFree_errTail pre post a ha
  | symm _ ih => exact ih.symm
  | trans _ _ ih1 ih2 => exact ih1.trans ih2

theorem same_aRun {l l' : List In} (h : SameUpToCharSplit l l') (hn : NulFree l) (f : Bool)
    (he : errFinalFrom f l = true) (σ : Abs) :
    aRun σ l = aRun σ l' := by
  induction h generalizing σ with
  | refl l => rfl
  | errTail pre a post _ =>
    exact aRun_errTail σ pre post a f (by rw [← errFinal_errTail]; exact he)
  | split pre a b post =>
    have : NulFree (pre ++ In.chars a :: In.chars b :: post) := (nulFree_split pre post a b).mp hn
    have ha : (0 : UInt8) ∉ a := by
      have := ((nulFree_cons _ _).mp ((nulFree_append _ _).mp this).2).1
      exact this
    exact aRun_split σ pre post a b ha
  | symm h ih => exact (ih ((same_nulFree h).mpr hn) (by rw [same_errFinal h]; exact he) σ).symm
  | trans h1 _ ih1 ih2 =>
    exact (ih1 hn he σ).trans (ih2 ((same_nulFree h1).mp hn) (by rw [← same_errFinal h1]; exact he) σ)

theorem same_context {l l' : List In} (h : SameUpToCharSplit l l') (p q : List In) :
    SameUpToCharSplit (p ++ l ++ q) (p ++ l' ++ q) := by
  induction h with
  | refl l => exact .refl _
  | split pre a b post =>
    have := SameUpToCharSplit.split (p ++ pre) a b (post ++ q)
    simpa [List.append_assoc] using this
  | errTail pre a post ha =>
    have := SameUpToCharSplit.errTail (p ++ pre) a (post ++ q) ha
    simpa [List.append_assoc] using this
  | symm _ ih => exact .symm ih
  | trans _ _ ih1 ih2 => exact .trans ih1 ih2

/-- a run of pieces is the same as the one callback with their concatenation -/
theorem same_pieces (d : Bytes) (ds : List Bytes) :
    SameUpToCharSplit ((d :: ds).map In.chars) [In.chars (d :: ds).flatten] := by
  induction ds generalizing d with
  | nil => simp; exact .refl _
  | cons e rest ih =>
    -- merge the first two pieces, then use the induction hypothesis on (d ++ e) :: rest
    have h1 : SameUpToCharSplit ((d :: e :: rest).map In.chars) (((d ++ e) :: rest).map In.chars) := by
      have := SameUpToCharSplit.split [] d e (rest.map In.chars)
      simpa using SameUpToCharSplit.symm this
    have h2 := ih (d ++ e)
    have : ((d ++ e) :: rest).flatten = (d :: e :: rest).flatten := by simp [List.append_assoc]
    rw [this] at h2
    exact .trans h1 h2

/-! ### safety -/

/-- the shape invariant of the abstract machine at nesting depth `d` -/
structure Shape (σ : Abs) (d : Nat) : Prop where
  depth : σ.depth = (d : Int)
  path : σ.path.length = d - 1
  text : σ.text.isSome → σ.path ≠ []

theorem shape_init : Shape aInit 0 := ⟨rfl, rfl, by simp [aInit]⟩

theorem aComplete_shape (σ : Abs) (d : Nat) (h : Shape σ d) :
    ∃ σ', aComplete σ = .ok σ' ∧ Shape σ' d ∧ σ'.text = none := by
  unfold aComplete
  cases ht : σ.text with
  | none => exact ⟨σ, rfl, h, ht⟩
  | some t =>
    have hne := h.text (by simp [ht])
    cases hp : σ.path with
    | nil => exact absurd hp hne
    | cons f rest =>
      refine ⟨_, rfl, ⟨h.depth, ?_, by simp⟩, rfl⟩
      have := h.path
      simp [hp] at this ⊢
      exact this

theorem aStep_safe (σ : Abs) (d : Nat) (i : In) (h : Shape σ d)
    (hb : ∀ n, i = In.end_ n → d ≠ 0) :
    ∃ σ' e, aStep σ i = .ok (σ', e) ∧
      Shape σ' (match i with
        | .start _ _ => d + 1
        | .end_ _ => d - 1
        | .reset => 0
        | _ => d) := by
  cases i with
  | start n a =>
    simp only [aStep, aStart]
    by_cases h0 : σ.depth = 0
    · have hd : d = 0 := by have := h.depth; omega
      subst hd
      have hp : σ.path = [] := by
        have := h.path; simpa using this
      refine ⟨_, _, by simp [h0]; exact ⟨rfl, rfl⟩, ⟨by simp [h0], by simp [hp], ?_⟩⟩
      intro ht; exact absurd hp (h.text ht)
    · have hd : d ≠ 0 := by intro e; subst e; exact h0 h.depth
      by_cases h1 : σ.depth = 1
      · have hd1 : d = 1 := by have := h.depth; omega
        subst hd1
        have hp : σ.path = [] := by have := h.path; simpa using this
        refine ⟨_, _, by simp [h0, h1, hp]; exact ⟨rfl, rfl⟩, ⟨by simp [h1], by simp, ?_⟩⟩
        intro ht; exact absurd hp (h.text ht)
      · have hd2 : 2 ≤ d := by have := h.depth; omega
        cases hp : σ.path with
        | nil => have := h.path; simp [hp] at this; omega
        | cons f rest =>
          obtain ⟨σ', hc, hs, htn⟩ := aComplete_shape σ d h
          refine ⟨_, _, by simp [h0, h1, hp, hc, bind, Except.bind]; exact ⟨rfl, rfl⟩, ⟨?_, ?_, ?_⟩⟩
          · simp [hs.depth]
          · simp [hs.path]; omega
          · simp
  | end_ n =>
    have hd : d ≠ 0 := hb n rfl
    simp only [aStep, aEnd]
    by_cases h0 : σ.depth - 1 = 0
    · have hd1 : d = 1 := by have := h.depth; omega
      subst hd1
      have hp : σ.path = [] := by have := h.path; simpa using this
      refine ⟨_, _, by simp [h0]; exact ⟨rfl, rfl⟩, ⟨by simp [h0], by simp [hp], ?_⟩⟩
      intro ht; exact absurd hp (h.text ht)
    · have hd2 : 2 ≤ d := by have := h.depth; omega
      have hsh : Shape { σ with depth := σ.depth - 1 } d → True := fun _ => trivial
      -- complete the inner text on the state with the decremented depth
      have hS : Shape { σ with depth := (d : Int) } d := ⟨rfl, h.path, h.text⟩
      obtain ⟨σ', hc, hs, htn⟩ := aComplete_shape { σ with depth := (d : Int) } d hS
      have hc' : aComplete { σ with depth := σ.depth - 1 } = .ok { σ' with depth := σ.depth - 1 } := by
        unfold aComplete at hc ⊢
        cases ht : σ.text with
        | none => simp [ht] at hc ⊢; subst hc; simp
        | some t =>
          cases hp : σ.path with
          | nil => simp [ht, hp] at hc
          | cons f rest => simp [ht, hp] at hc ⊢; subst hc; simp
      cases hp : σ'.path with
      | nil => have := hs.path; simp [hp] at this; omega
      | cons f rest =>
        cases rest with
        | nil =>
          have hl := hs.path; simp [hp] at hl
          refine ⟨_, _, by simp [h0, hc', bind, Except.bind, hp]; exact ⟨rfl, rfl⟩, ⟨?_, ?_, ?_⟩⟩
          · simp [h.depth]; omega
          · simp; omega
          · simp [htn]
        | cons p rest' =>
          have hl := hs.path; simp [hp] at hl
          refine ⟨_, _, by simp [h0, hc', bind, Except.bind, hp]; exact ⟨rfl, rfl⟩, ⟨?_, ?_, ?_⟩⟩
          · simp [h.depth]; omega
          · simp; omega
          · simp
  | chars dta =>
    refine ⟨_, _, rfl, ?_⟩
    simp only [aChars]
    by_cases h2 : σ.depth < 2
    · rw [if_pos h2]; exact h
    · rw [if_neg h2]
      refine ⟨h.depth, h.path, fun _ => ?_⟩
      have : 2 ≤ d := by have := h.depth; omega
      intro hp
      have hp' : σ.path = [] := hp
      have := h.path
      rw [hp'] at this
      simp at this
      omega
  | err => exact ⟨_, _, rfl, h⟩
  | reset => exact ⟨_, _, rfl, shape_init⟩

theorem aRun_safe (σ : Abs) (d : Nat) (ins : List In) (h : Shape σ d) (hb : balancedFrom d ins = true) :
    (aRun σ ins).crash = none := by
  induction ins generalizing σ d with
  | nil => rfl
  | cons i rest ih =>
    have hend : ∀ n, i = In.end_ n → d ≠ 0 := by
      intro n hi hd; subst hi; subst hd; simp [balancedFrom] at hb
    obtain ⟨σ', e, hs, hsh⟩ := aStep_safe σ d i h hend
    simp only [aRun, hs]
    cases i with
    | start n a => exact ih σ' (d + 1) hsh (by simpa [balancedFrom] using hb)
    | end_ n =>
      cases d with
      | zero => exact absurd rfl (hend n rfl)
      | succ k => exact ih σ' k (by simpa using hsh) (by simpa [balancedFrom] using hb)
    | chars dta => exact ih σ' d hsh (by simpa [balancedFrom] using hb)
    | err => exact ih σ' d hsh (by simpa [balancedFrom] using hb)
    | reset => exact ih σ' 0 hsh (by simpa [balancedFrom] using hb)

theorem aExec_shape (σ : Abs) (d : Nat) (ins : List In) (h : Shape σ d) (hb : balancedFrom d ins = true) :
    ∃ σ' d', aExec σ ins = .ok σ' ∧ Shape σ' d' := by
  induction ins generalizing σ d with
  | nil => exact ⟨σ, d, rfl, h⟩
  | cons i rest ih =>
    have hend : ∀ n, i = In.end_ n → d ≠ 0 := by
      intro n hi hd; subst hi; subst hd; simp [balancedFrom] at hb
    obtain ⟨σ', e, hs, hsh⟩ := aStep_safe σ d i h hend
    simp only [aExec, hs]
    cases i with
    | start n a => exact ih σ' (d + 1) hsh (by simpa [balancedFrom] using hb)
    | end_ n =>
      cases d with
      | zero => exact absurd rfl (hend n rfl)
      | succ k => exact ih σ' k (by simpa using hsh) (by simpa [balancedFrom] using hb)
    | chars dta => exact ih σ' d hsh (by simpa [balancedFrom] using hb)
    | err => exact ih σ' d hsh (by simpa [balancedFrom] using hb)
    | reset => exact ih σ' 0 hsh (by simpa [balancedFrom] using hb)

theorem balancedFrom_append_reset (d : Nat) (a r : List In) :
    balancedFrom d (a ++ In.reset :: r) = (balancedFrom d a && balancedFrom 0 r) := by
  induction a generalizing d with
  | nil => simp [balancedFrom]
  | cons i rest ih =>
    cases i with
    | start n at' => simp [balancedFrom, ih]
    | end_ n =>
      cases d with
      | zero => simp [balancedFrom]
      | succ k => simp [balancedFrom, ih]
    | chars dta => simp [balancedFrom, ih]
    | err => simp [balancedFrom, ih]
    | reset => simp [balancedFrom, ih]

/-! ### appending traces (concrete machine) -/

theorem run_append (s : State) (pre post : List In) :
    run s (pre ++ post) =
      match exec s pre with
      | .error _ => run s pre
      | .ok s' => ⟨(run s pre).evs ++ (run s' post).evs, (run s' post).crash⟩ := by
  induction pre generalizing s with
  | nil => simp [exec, run]
  | cons i rest ih =>
    simp only [List.cons_append, run, exec]
    cases hs : step s i with
    | error e => simp
    | ok p =>
      obtain ⟨s1, e⟩ := p
      simp only [ih s1]
      cases hx : exec s1 rest with
      | error e' => simp
      | ok s2 => simp [List.append_assoc]

theorem exec_ok_of_no_crash (s : State) (ins : List In) (h : (run s ins).crash = none) :
    ∃ s', exec s ins = .ok s' := by
  induction ins generalizing s with
  | nil => exact ⟨s, rfl⟩
  | cons i rest ih =>
    unfold run at h
    unfold exec
    cases hs : step s i with
    | error e => simp [hs] at h
    | ok p =>
      obtain ⟨s1, e⟩ := p
      simp [hs] at h
      exact ih s1 h

/-! ### names -/

theorem afterSep_none (s : Bytes) (h : sep ∉ s) : afterSep s = none := by
  induction s with
  | nil => rfl
  | cons c rest ih =>
    have hc : c ≠ sep := fun e => h (by simp [e])
    have hr : sep ∉ rest := fun e => h (by simp [e])
    simp [afterSep, hc, ih hr]

theorem afterSep_append (ns name : Bytes) (h : sep ∉ ns) : afterSep (ns ++ sep :: name) = some name := by
  induction ns with
  | nil => simp [afterSep]
  | cons c rest ih =>
    have hc : c ≠ sep := fun e => h (by simp [e])
    have hr : sep ∉ rest := fun e => h (by simp [e])
    simp [afterSep, hc, ih hr]

theorem beforeSep_append (ns name : Bytes) (h : sep ∉ ns) : beforeSep (ns ++ sep :: name) = ns := by
  induction ns with
  | nil => simp [beforeSep]
  | cons c rest ih =>
    have hc : c ≠ sep := fun e => h (by simp [e])
    have hr : sep ∉ rest := fun e => h (by simp [e])
    simp [beforeSep, hc, ih hr]

theorem beforeSep_not_mem (s : Bytes) : sep ∉ beforeSep s := by
  induction s with
  | nil => simp [beforeSep]
  | cons c rest ih =>
    by_cases hc : c = sep
    · simp [beforeSep, hc]
    · simp [beforeSep, hc, ih]; exact fun e => hc e.symm

theorem afterSep_some (s r : Bytes) (h : afterSep s = some r) : s = beforeSep s ++ sep :: r := by
  induction s with
  | nil => simp [afterSep] at h
  | cons c rest ih =>
    by_cases hc : c = sep
    · simp [afterSep, hc] at h; simp [beforeSep, hc, h]
    · simp [afterSep, hc] at h; simp [beforeSep, hc]; exact ih h

theorem afterSep_none_iff (s : Bytes) (h : afterSep s = none) : sep ∉ s := by
  induction s with
  | nil => simp
  | cons c rest ih =>
    by_cases hc : c = sep
    · simp [afterSep, hc] at h
    · simp [afterSep, hc] at h
      simp; exact ⟨fun e => hc e.symm, ih h⟩

def lookupAttr (k : Bytes) : List Attr → Option Bytes
  | [] => none
  | (k', v) :: rest => if k' = k then some v else lookupAttr k rest

theorem lookup_setAttr (l : List Attr) (k v : Bytes) : lookupAttr k (setAttr l k v) = some v := by
  induction l with
  | nil => simp [setAttr, lookupAttr]
  | cons x rest ih =>
    obtain ⟨k', v'⟩ := x
    by_cases hk : k' = k
    · simp [setAttr, lookupAttr, hk]
    · simp [setAttr, lookupAttr, hk, ih]

end Strophe.Assembly
