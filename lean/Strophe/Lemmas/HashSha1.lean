/-
C17 helper lemmas, part 3: src/sha1.c.  `update` refines the generic block fold, the bit
counter is exact, and `final` (padding by repeated one-byte updates) produces the FIPS 180-4
padding.
-/
import Strophe.Lemmas.HashBytes

namespace Strophe.Hash.Sha1
open Strophe Strophe.Hash Spec.Hash

/-- the context represents "state `st`, pending bytes `pend`, `n` bytes absorbed so far" -/
structure Inv (ctx : Ctx) (st : State) (pend : Bytes) (n : Nat) : Prop where
  state : ctx.state = st
  buf : HasPrefix 64 ctx.buffer pend
  plen : pend.length = n % 64
  count : Count32 ctx.count0 ctx.count1 n

theorem init_inv : Inv init iv [] 0 :=
  ⟨rfl, HasPrefix.nil (by simp [init, zeros]), rfl, count32_zero⟩

/-- `crypto_SHA1_Update` = absorb `pend ++ data` with the generic block fold -/
theorem update_inv {ctx : Ctx} {st : State} {pend : Bytes} {n : Nat} (h : Inv ctx st pend n)
    (data : Bytes) :
    Inv (update ctx data) (blocksFold 64 transform st (pend ++ data)).1
      (blocksFold 64 transform st (pend ++ data)).2 (n + data.length) := by
  obtain ⟨hst, hbuf, hpl, hcnt⟩ := h
  have hj : ((ctx.count0 >>> 3) &&& 63).toNat = pend.length := by rw [count_index hcnt, hpl]
  have hp64 : pend.length < 64 := by rw [hpl]; exact Nat.mod_lt _ (by decide)
  have hcnt' := count32_step_sha1 hcnt data.length
  have hlen' : (blocksFold 64 transform st (pend ++ data)).2.length = (n + data.length) % 64 := by
    rw [blocksFold_snd_length (by decide), List.length_append, hpl]; omega
  unfold update
  simp only [hj]
  split
  · rename_i hgt
    have hfull : memcpy ctx.buffer pend.length (data.take (64 - pend.length))
        = pend ++ data.take (64 - pend.length) := by
      apply HasPrefix.full (hbuf.memcpy _ (by simp [List.length_take]; omega))
      simp [List.length_take]; omega
    rw [hfull, foldBlocks_eq_blocksFold 64 transform _ _ _ (by simp [List.length_drop]),
      blocksFold_pend (by decide) transform st pend data (by omega) (by omega), hst]
    refine ⟨rfl, ?_, ?_, hcnt'⟩
    · apply HasPrefix.memcpy0
      · simp [List.length_take]; omega
      · exact Nat.le_of_lt (blocksFold_snd_lt (by decide) _ _ _)
    · rw [← blocksFold_pend (by decide) transform st pend data (by omega) (by omega)]
      exact hlen'
  · rename_i hle
    rw [blocksFold_lt transform st (d := pend ++ data) (by simp; omega)]
    refine ⟨hst, hbuf.memcpy data (by omega), ?_, hcnt'⟩
    rw [blocksFold_lt transform st (d := pend ++ data) (by simp; omega)] at hlen'
    exact hlen'

/-- the context after any sequence of updates -/
theorem foldl_update_inv (chunks : List Bytes) {ctx : Ctx} {msg : Bytes}
    (h : Inv ctx (blocksFold 64 transform iv msg).1 (blocksFold 64 transform iv msg).2 msg.length) :
    Inv (chunks.foldl update ctx) (blocksFold 64 transform iv (msg ++ chunks.flatten)).1
      (blocksFold 64 transform iv (msg ++ chunks.flatten)).2 (msg ++ chunks.flatten).length := by
  induction chunks generalizing ctx msg with
  | nil => simpa using h
  | cons x xs ih =>
    simp only [List.foldl_cons, List.flatten_cons, ← List.append_assoc]
    apply ih
    have := update_inv h x
    rw [blocksFold_append (by decide)] at this
    simpa using this

theorem stream_inv (chunks : List Bytes) :
    Inv (chunks.foldl update init) (blocksFold 64 transform iv chunks.flatten).1
      (blocksFold 64 transform iv chunks.flatten).2 chunks.flatten.length := by
  have := foldl_update_inv chunks (ctx := init) (msg := []) (by
    rw [blocksFold_lt _ _ (by decide)]; exact init_inv)
  simpa using this

end Strophe.Hash.Sha1

namespace Strophe.Hash.Sha1
open Strophe Strophe.Hash Spec.Hash

/-! ### `crypto_SHA1_Final` -/

theorem b3 (x : UInt32) : ((x >>> 24) &&& 255).toUInt8 = UInt8.ofNat (x.toNat / 256 ^ 3 % 256) := by
  rw [mask255]; exact byte32 x 24 3 (by decide) (by decide)
theorem b2 (x : UInt32) : ((x >>> 16) &&& 255).toUInt8 = UInt8.ofNat (x.toNat / 256 ^ 2 % 256) := by
  rw [mask255]; exact byte32 x 16 2 (by decide) (by decide)
theorem b1 (x : UInt32) : ((x >>> 8) &&& 255).toUInt8 = UInt8.ofNat (x.toNat / 256 ^ 1 % 256) := by
  rw [mask255]; exact byte32 x 8 1 (by decide) (by decide)
theorem b0 (x : UInt32) : ((x >>> 0) &&& 255).toUInt8 = UInt8.ofNat (x.toNat / 256 ^ 0 % 256) := by
  rw [mask255]; exact byte32 x 0 0 (by decide) (by decide)

theorem finalcount_unfold (ctx : Ctx) : finalcount ctx =
    [((ctx.count1 >>> 24) &&& 255).toUInt8, ((ctx.count1 >>> 16) &&& 255).toUInt8,
     ((ctx.count1 >>> 8) &&& 255).toUInt8, ((ctx.count1 >>> 0) &&& 255).toUInt8,
     ((ctx.count0 >>> 24) &&& 255).toUInt8, ((ctx.count0 >>> 16) &&& 255).toUInt8,
     ((ctx.count0 >>> 8) &&& 255).toUInt8, ((ctx.count0 >>> 0) &&& 255).toUInt8] := by
  rfl

theorem digestOf_unfold (st : State) : digestOf st =
    [((st.h0 >>> 24) &&& 255).toUInt8, ((st.h0 >>> 16) &&& 255).toUInt8,
     ((st.h0 >>> 8) &&& 255).toUInt8, ((st.h0 >>> 0) &&& 255).toUInt8,
     ((st.h1 >>> 24) &&& 255).toUInt8, ((st.h1 >>> 16) &&& 255).toUInt8,
     ((st.h1 >>> 8) &&& 255).toUInt8, ((st.h1 >>> 0) &&& 255).toUInt8,
     ((st.h2 >>> 24) &&& 255).toUInt8, ((st.h2 >>> 16) &&& 255).toUInt8,
     ((st.h2 >>> 8) &&& 255).toUInt8, ((st.h2 >>> 0) &&& 255).toUInt8,
     ((st.h3 >>> 24) &&& 255).toUInt8, ((st.h3 >>> 16) &&& 255).toUInt8,
     ((st.h3 >>> 8) &&& 255).toUInt8, ((st.h3 >>> 0) &&& 255).toUInt8,
     ((st.h4 >>> 24) &&& 255).toUInt8, ((st.h4 >>> 16) &&& 255).toUInt8,
     ((st.h4 >>> 8) &&& 255).toUInt8, ((st.h4 >>> 0) &&& 255).toUInt8] := by
  rfl

/-- `finalcount` is the 64-bit big-endian bit count -/
theorem finalcount_eq {ctx : Ctx} {n : Nat} (h : Count32 ctx.count0 ctx.count1 n) :
    finalcount ctx = beBytes 8 (8 * n) := by
  rw [finalcount_unfold, beBytes8_split, ← h.1, ← h.2]
  simp only [b3, b2, b1, b0, beBytes, List.cons_append, List.nil_append]

/-- the digest is the five state words, big-endian -/
theorem digestOf_eq (st : State) : digestOf st = sha1MD.encode st := by
  rw [digestOf_unfold]
  simp only [b3, b2, b1, b0, sha1MD, List.flatMap_cons, List.flatMap_nil, beBytes,
    List.cons_append, List.nil_append, List.append_nil]

theorem digestOf_length (st : State) : (digestOf st).length = 20 := by simp [digestOf]

/-- the loop test `(count[0] & 504) != 448` means "the buffer does not hold 56 bytes" -/
theorem padLoop_cond {c0 c1 : UInt32} {n : Nat} (h : Count32 c0 c1 n) :
    ((c0 &&& 504) != 448) = true ↔ n % 64 ≠ 56 := by
  have key : ∀ y : Fin 512, (y.val &&& 504 = 448) ↔ y.val / 8 = 56 := by decide +kernel
  have hx : (c0 &&& 504).toNat = (c0.toNat % 512) &&& 504 := by
    rw [UInt32.toNat_and]
    have e : (504 : UInt32).toNat = 504 := by decide
    have e2 : (511 : Nat) = 2 ^ 9 - 1 := by decide
    rw [e, show c0.toNat % 512 = c0.toNat &&& 511 by rw [e2, Nat.and_two_pow_sub_one_eq_mod],
      Nat.and_assoc]
    rfl
  have hlt : c0.toNat % 512 < 512 := Nat.mod_lt _ (by decide)
  have k := key ⟨c0.toNat % 512, hlt⟩
  simp only at k
  rw [bne_iff_ne, Ne, ← UInt32.toNat_inj, hx]
  have e3 : (448 : UInt32).toNat = 448 := by decide
  rw [e3, k, h.1]
  omega

/-- the padding loop appends exactly the zero bytes that bring the buffer to 56 bytes -/
theorem padLoop_inv (fuel : Nat) {ctx : Ctx} {st : State} {pend : Bytes} {m : Nat}
    (h : Inv ctx st pend m) (z : Nat) (hz : z = (120 - m % 64) % 64) (hf : z ≤ fuel) :
    Inv (padLoop fuel ctx) (blocksFold 64 transform st (pend ++ zeros z)).1
      (blocksFold 64 transform st (pend ++ zeros z)).2 (m + z) := by
  have hp64 : pend.length < 64 := by rw [h.plen]; exact Nat.mod_lt _ (by decide)
  have base : m % 64 = 56 → ∀ c, c = ctx →
      Inv c (blocksFold 64 transform st (pend ++ zeros z)).1
        (blocksFold 64 transform st (pend ++ zeros z)).2 (m + z) := by
    intro h56 c hc
    have z0 : z = 0 := by omega
    subst hc
    rw [z0]
    simp only [zeros, List.replicate, List.append_nil, Nat.add_zero]
    rw [blocksFold_lt _ _ hp64]
    exact h
  induction fuel generalizing ctx st pend m z with
  | zero =>
    have z0 : z = 0 := by omega
    exact base (by omega) _ rfl
  | succ fuel ih =>
    unfold padLoop
    by_cases hc : m % 64 = 56
    · have : ¬ ((ctx.count0 &&& 504) != 448) = true := by
        rw [padLoop_cond h.count]; simpa using hc
      rw [if_neg this]
      exact base hc _ rfl
    · have : ((ctx.count0 &&& 504) != 448) = true := (padLoop_cond h.count).mpr hc
      rw [if_pos this]
      have h1 := update_inv h [0]
      have hz' : z - 1 = (120 - (m + 1) % 64) % 64 := by omega
      have hzpos : 0 < z := by omega
      have h2 := ih h1 (z - 1) (by simpa using hz') (by omega)
        (by rw [h1.plen]; exact Nat.mod_lt _ (by decide))
        (by
          intro h56 c hc'
          subst hc'
          have z0 : z - 1 = 0 := by simp at h56; omega
          rw [z0]
          simp only [zeros, List.replicate, List.append_nil, Nat.add_zero]
          rw [blocksFold_lt _ _ (by rw [h1.plen]; exact Nat.mod_lt _ (by decide))]
          exact h1)
      rw [blocksFold_append (by decide)] at h2
      have e : pend ++ [0] ++ zeros (z - 1) = pend ++ zeros z := by
        have : z = (z - 1) + 1 := by omega
        rw [this]
        simp [zeros, List.replicate_succ]
      have e2 : m + [(0 : UInt8)].length + (z - 1) = m + z := by simp; omega
      rw [e, e2] at h2
      exact h2

/-- the fuel of `padLoop` is never exhausted: the loop ends because its test fails -/
theorem padLoop_exit {ctx : Ctx} {st : State} {pend : Bytes} {m : Nat} (h : Inv ctx st pend m) :
    ((padLoop 64 ctx).count0 &&& 504) = 448 := by
  have h2 := padLoop_inv 64 h _ rfl (by omega)
  have := not_congr (padLoop_cond h2.count)
  simp only [Bool.not_eq_true, bne_eq_false_iff_eq, ne_eq, Decidable.not_not] at this
  exact this.mpr (by omega)

/-- `crypto_SHA1_Final` = absorb the FIPS 180-4 padding and encode the state -/
theorem final_eq {ctx : Ctx} {st : State} {pend : Bytes} {n : Nat} (h : Inv ctx st pend n) :
    final ctx = sha1MD.encode (blocksFold 64 transform st (pend ++ sha1MD.pad n)).1 := by
  unfold final
  rw [finalcount_eq h.count, digestOf_eq]
  have h1 := update_inv h [0x80]
  have h2 := padLoop_inv 64 h1 _ rfl (by omega)
  rw [blocksFold_append (by decide)] at h2
  have h3 := update_inv h2 (beBytes 8 (8 * n))
  rw [blocksFold_append (by decide)] at h3
  rw [h3.state]
  congr 3
  simp only [MD.pad, sha1MD, padZeros, Spec.Hash.zeros, zeros, List.append_assoc, List.cons_append,
    List.nil_append, List.length_cons, List.length_nil]
  congr 4
  simp
  omega

end Strophe.Hash.Sha1
