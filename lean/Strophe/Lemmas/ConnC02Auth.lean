/-
`_auth` and `_handle_features` preserve the C02 invariant.
-/
import Strophe.Lemmas.ConnC02Inv

namespace Strophe.Lemmas.ConnC02
open Strophe Strophe.Conn

/-! ### bit masks -/

theorem and_ne_zero_left {a x y : Nat} (h : (a &&& x) &&& y ≠ 0) : a &&& y ≠ 0 := by
  intro h0; apply h
  rw [Nat.and_assoc, Nat.and_comm x y, ← Nat.and_assoc, h0, Nat.zero_and]

theorem and_and_of_sub {a x y : Nat} (h : x &&& y = y) : (a &&& x) &&& y = a &&& y := by
  rw [Nat.and_assoc, h]

theorem and_ne_zero_of_sub {a x z : Nat} (h : a &&& x ≠ 0) (hz : z &&& x = x) : a &&& z ≠ 0 := by
  intro h0; apply h
  rw [← hz, ← Nat.and_assoc, h0, Nat.zero_and]

theorem or_and_ne_zero {a x m : Nat} : (a ||| x) &&& m ≠ 0 ↔ (a &&& m ≠ 0 ∨ x &&& m ≠ 0) := by
  rw [Nat.and_or_distrib_right, Ne, Nat.or_eq_zero_iff]
  constructor
  · intro h; by_cases h1 : a &&& m = 0
    · exact .inr fun h2 => h ⟨h1, h2⟩
    · exact .inl h1
  · rintro (h | h) ⟨h1, h2⟩
    · exact h h1
    · exact h h2

theorem wList_sub (cert : Bool) : ∀ m ∈ wList cert, m ∈ wList true := by
  cases cert <;> simp [wList]

/-- the masks in `wList` are untouched by clearing PLAIN or ANONYMOUS -/
theorem wList_keep : ∀ m ∈ wList true,
    (Gen.saslMaskPlain ^^^ 0xFFFF) &&& m = m ∧ (Gen.saslMaskAnonymous ^^^ 0xFFFF) &&& m = m ∧
    ((Gen.saslMaskPlain ||| Gen.saslMaskAnonymous) ^^^ 0xFFFF) &&& m = m ∧
    Gen.saslMaskPlain &&& m = 0 ∧ Gen.saslMaskAnonymous &&& m = 0 := by
  decide

theorem KMask_clear {c : Conn} (k : KMask c) (x : Nat) : KMask { c with saslSupport := c.saslSupport &&& x } := by
  intro h
  have := k (and_ne_zero_left h)
  show c.saslSupport &&& x &&& Gen.saslMaskPlain = 0
  rw [Nat.and_assoc, Nat.and_comm x, ← Nat.and_assoc, this, Nat.zero_and]

theorem NT_clear_keep {c : Conn} (n : NT c) (x : Nat) (hx : ∀ m ∈ wList true, x &&& m = m) :
    NT { c with saslSupport := c.saslSupport &&& x } := by
  intro m hm ho
  show c.saslSupport &&& x &&& m ≠ 0
  rw [and_and_of_sub (hx m (wList_sub _ m hm))]
  exact n m hm ho

/-- the `i2` clause after one mechanism has been tried and its bit cleared -/
theorem plain_nt_clear {c : Conn} (k : KMask c) (hp : c.saslSupport &&& Gen.saslMaskPlain ≠ 0 → NT c) (mask : Nat)
    (hm : (c.saslSupport &&& mask ≠ 0 ∧ ((Gen.saslMaskPlain ||| Gen.saslMaskAnonymous) ^^^ 0xFFFF) &&& mask = mask) ∨
      mask = Gen.saslMaskAnonymous ∨ mask = Gen.saslMaskPlain) :
    (c.saslSupport &&& (mask ^^^ 0xFFFF)) &&& Gen.saslMaskPlain ≠ 0 →
      NT { c with saslSupport := c.saslSupport &&& (mask ^^^ 0xFFFF) } := by
  intro h
  have hA := and_ne_zero_left h
  rcases hm with ⟨h1, h2⟩ | rfl | rfl
  · exact absurd (k (and_ne_zero_of_sub h1 h2)) hA
  · exact NT_clear_keep (hp hA) _ fun m hm => (wList_keep m hm).2.1
  · exfalso; apply h
    rw [Nat.and_assoc]
    have : (Gen.saslMaskPlain ^^^ 0xFFFF) &&& Gen.saslMaskPlain = 0 := by decide
    rw [this, Nat.and_zero]

theorem strongerMask'_eq : strongerMask' = Gen.saslMaskScramsha512Plus ||| Gen.saslMaskScramsha256Plus |||
    Gen.saslMaskScramsha1Plus ||| Gen.saslMaskScramsha512 ||| Gen.saslMaskScramsha256 ||| Gen.saslMaskScramsha1 |||
    Gen.saslMaskDigestmd5 := by decide

theorem scram_sub : ∀ m ∈ [Gen.saslMaskScramsha512Plus, Gen.saslMaskScramsha256Plus, Gen.saslMaskScramsha1Plus,
    Gen.saslMaskScramsha512, Gen.saslMaskScramsha256, Gen.saslMaskScramsha1], scramMaskAll &&& m = m := by decide

/-- what `_auth` knows when it falls through to PLAIN -/
theorem plain_choice {c : Conn} (n : NT c) (h1 : c.saslSupport &&& scramMaskAll = 0)
    (h2 : c.saslSupport &&& Gen.saslMaskDigestmd5 = 0) (h3 : c.saslSupport &&& Gen.saslMaskExternal = 0) :
    c.g.offeredMechs &&& strongerMask' = 0 ∧ (c.cert = true → c.g.offeredMechs &&& Gen.saslMaskExternal = 0) := by
  have z : ∀ m ∈ wList c.cert, c.saslSupport &&& m = 0 → c.g.offeredMechs &&& m = 0 := by
    intro m hm hz
    by_cases ho : c.g.offeredMechs &&& m = 0
    · exact ho
    · exact absurd hz (n m hm ho)
  have sc : ∀ m ∈ [Gen.saslMaskScramsha512Plus, Gen.saslMaskScramsha256Plus, Gen.saslMaskScramsha1Plus,
      Gen.saslMaskScramsha512, Gen.saslMaskScramsha256, Gen.saslMaskScramsha1], c.saslSupport &&& m = 0 := by
    intro m hm
    rw [← scram_sub m hm, ← Nat.and_assoc, h1, Nat.zero_and]
  constructor
  · rw [strongerMask'_eq]
    simp only [Nat.and_or_distrib_left, Nat.or_eq_zero_iff]
    refine ⟨⟨⟨⟨⟨⟨?_, ?_⟩, ?_⟩, ?_⟩, ?_⟩, ?_⟩, ?_⟩
    · exact z _ (by simp [wList]) (sc _ (by simp))
    · exact z _ (by simp [wList]) (sc _ (by simp))
    · exact z _ (by simp [wList]) (sc _ (by simp))
    · exact z _ (by simp [wList]) (sc _ (by simp))
    · exact z _ (by simp [wList]) (sc _ (by simp))
    · exact z _ (by simp [wList]) (sc _ (by simp))
    · exact z _ (by simp [wList]) h2
  · intro hc
    exact z _ (by simp [wList, hc]) h3

theorem scramAlgs_facts : ∀ x ∈ Gen.scramAlgs, x.1 ≠ b "PLAIN" ∧
    ((Gen.saslMaskPlain ||| Gen.saslMaskAnonymous) ^^^ 0xFFFF) &&& x.2 = x.2 := by decide

theorem firstScram_some {s : Nat} {ix : Nat} {name : Bytes} {mask : Nat} (h : firstScram s = some (ix, name, mask)) :
    s &&& mask ≠ 0 ∧ (name, mask) ∈ Gen.scramAlgs := by
  unfold firstScram at h
  rw [Option.map_eq_some_iff] at h
  obtain ⟨⟨⟨n, m⟩, i⟩, hf, he⟩ := h
  simp only [Prod.mk.injEq] at he
  obtain ⟨rfl, rfl, rfl⟩ := he
  have h1 := List.find?_some hf
  have h2 := List.mem_of_find?_eq_some hf
  refine ⟨by simpa using h1, ?_⟩
  exact (List.mem_zipIdx h2).2.2 ▸ List.getElem_mem _

/-! ### `_auth` -/

theorem NoH.ofEq {u : Option Nat} {p : HFun → Bool} {c c' : Conn} (h : NoH u p c)
    (e : c'.handlers = c.handlers) : NoH u p c' := by
  unfold NoH; rw [e]; exact h

theorem isS_not {f : HFun} (h : isS f = true) : isF f = false ∧ isT f = false ∧ isLate f = false := by
  cases f with
  | userAll => simp [isS] at h
  | sys k => cases k <;> simp_all [isS, isF, isT, isLate]

/-- nothing is waiting for an answer and authentication is not over: `_auth` may start something -/
structure Clear (u ut : Option Nat) (c : Conn) : Prop where
  nF : NoH u isF c
  nTM : NoTM ut c
  nT : NoH u isT c
  nS : NoH u isS c
  nFr : ¬Fr c
  nLate : ¬LateC c

theorem Clear.en {u ut : Option Nat} {c : Conn} (cl : Clear u ut c) : c.sm.enabled = false := by
  cases h : c.sm.enabled
  · rfl
  · exact absurd (.inr (.inr (.inr (.inr h)))) cl.nLate

theorem Clear.same {u ut : Option Nat} {c c' : Conn} (cl : Clear u ut c) (e1 : c'.handlers = c.handlers)
    (e2 : c'.idHandlers = c.idHandlers) (e3 : c'.timed = c.timed) (e4 : c'.openHandler = c.openHandler)
    (e5 : same_p[c, c']) (e6 : c'.sm.enabled = c.sm.enabled) : Clear u ut c' := by
  obtain ⟨a, b, d, e, f, l⟩ := cl
  refine ⟨?_, ?_, ?_, ?_, ?_, ?_⟩
  · unfold NoH; rw [e1]; exact a
  · unfold NoTM; rw [e3]; exact b
  · unfold NoH; rw [e1]; exact d
  · unfold NoH; rw [e1]; exact e
  · unfold Fr; rw [e5.1, e5.2]; exact f
  · unfold LateC; rw [e1, e2, e4, e6]; exact l

def GateC (c : Conn) : Prop :=
  c.state = .connected → c.tlsMandatory = true → c.hasTls = true ∧ c.secured = true

theorem Safe.gateC {c : Conn} (s : Safe c) : GateC c := by
  intro hc hm
  rcases s with s | ⟨_, g⟩
  · rw [hc] at s; cases s
  · exact g hm

/-- one SASL attempt of `_auth`: install the result handler, send `<auth/>`, clear the mechanism bit -/
def mechStep (c : Conn) (fn : HFun) (ud : Nat) (it : Item) (mask : Nat) : Conn :=
  let c1 := addHandler c fn ud (some Gen.nsSasl) none none false
  let c2 := sendStanza c1 it .strophe
  { c2 with saslSupport := c2.saslSupport &&& (mask ^^^ 0xFFFF) }

@[simp] theorem mechStep_frame (c : Conn) (fn : HFun) (ud : Nat) (it : Item) (mask : Nat) :
    same_cfg[c, mechStep c fn ud it mask] ∧ same_tls[c, mechStep c fn ud it mask] ∧
    same_sm[c, mechStep c fn ud it mask] ∧ same_p[c, mechStep c fn ud it mask] ∧
    (mechStep c fn ud it mask).tlsSupport = c.tlsSupport ∧
    (mechStep c fn ud it mask).idHandlers = c.idHandlers ∧
    (mechStep c fn ud it mask).g.offeredMechs = c.g.offeredMechs ∧ (mechStep c fn ud it mask).tx = c.tx := by
  simp [mechStep]

theorem Inv_mechStep {u ut : Option Nat} {c : Conn} (h : Inv u ut c) (cl : Clear u ut c) (s : Safe c)
    (fn : HFun) (ud : Nat) (m : Bytes) (t : Bool) (mask : Nat) (hS : isS fn = true)
    (hi : c.state ≠ .disconnected → m = b "PLAIN" → c.g.offeredMechs &&& strongerMask' = 0 ∧
      (c.cert = true → c.g.offeredMechs &&& Gen.saslMaskExternal = 0))
    (hp : c.state ≠ .disconnected → c.saslSupport &&& Gen.saslMaskPlain ≠ 0 → NT c)
    (hm : (c.saslSupport &&& mask ≠ 0 ∧ ((Gen.saslMaskPlain ||| Gen.saslMaskAnonymous) ^^^ 0xFFFF) &&& mask = mask) ∨
      mask = Gen.saslMaskAnonymous ∨ mask = Gen.saslMaskPlain) :
    Inv u ut (mechStep c fn ud (.auth m t) mask) := by
  obtain ⟨f1, f2, f3⟩ := isS_not hS
  have h1 := Inv_addHandler h fn ud (some Gen.nsSasl) none none false (by simp [f1]) (by simp [f2])
    (fun _ => ⟨s, cl.nF, cl.nTM, cl.nT, cl.nS, cl.nFr, cl.nLate, hp⟩) (by simp [f3]) (by simp)
  have h2 := Inv_sendStanza_neg h1 (.auth m t)
    (fun _ => by have := s.gateC; unfold GateC at this; simpa using this) (by simpa using cl.en)
    fun hc => ⟨by simp, by simp, fun t' e => by
      have e' : m = b "PLAIN" := by simpa using congrArg (fun i => match i with | Item.auth m _ => m | _ => []) e
      have hl : c.state ≠ .disconnected := by
        have : c.state = .connected := by simpa using hc
        rw [this]; simp
      simpa [curSnap] using hi hl e'⟩
  unfold mechStep
  refine h2.setMe ⟨fun x hx => ⟨x, hx, rfl, rfl, rfl, rfl⟩, fun x hx => ⟨x, hx, rfl, rfl⟩,
    fun x hx => ⟨x, hx, rfl, rfl, rfl⟩, fun e he => he, by simp, by simp, by simp, by simp, by simp⟩ (by simp) ?_
  refine ⟨fun _ => .inr ⟨?_, ?_, ?_, ?_⟩, fun hl => .inr ?_, ?_⟩
  · exact (NoH_addHandler (ud := ud) (ns := some Gen.nsSasl) (name := none) (type := none) (user := false)
      cl.nF f1).ofEq (by simp)
  · exact NoTM_same (by simp) cl.nTM
  · exact (NoH_addHandler (ud := ud) (ns := some Gen.nsSasl) (name := none) (type := none) (user := false)
      cl.nT f2).ofEq (by simp)
  · intro f; exact absurd (by unfold Fr at *; simpa using f) cl.nFr
  · intro hpl
    have k := plain_nt_clear (c := c) h.me.k (hp (by simpa using hl)) mask hm
    exact (k (by simpa using hpl)).congr (by simp) (by simp) (by simp)
  · have := KMask_clear h.me.k (mask ^^^ 0xFFFF)
    unfold KMask at *; simpa using this

/-- no handler of the late phase is installed -/
def NoLateH (c : Conn) : Prop :=
  (∀ h ∈ c.handlers, isLate h.fn = false) ∧ (∀ h ∈ c.idHandlers, isLate h.fn = false)

theorem NoLateH.same {c c' : Conn} (n : NoLateH c) (e1 : c'.handlers = c.handlers)
    (e2 : c'.idHandlers = c.idHandlers) : NoLateH c' := by
  unfold NoLateH; rw [e1, e2]; exact n

theorem NoLateH_of_not_late {c : Conn} (n : ¬LateC c) : NoLateH c := by
  refine ⟨fun x hx => ?_, fun x hx => ?_⟩
  · cases hl : isLate x.fn
    · rfl
    · exact absurd (.inl ⟨x, hx, hl⟩) n
  · cases hl : isLate x.fn
    · rfl
    · exact absurd (.inr (.inl ⟨x, hx, hl⟩)) n

theorem NoLateH_addHandler {c : Conn} (n : NoLateH c) (fn : HFun) (ud : Nat) (ns name type : Option Bytes)
    (user : Bool) (hf : isLate fn = false) : NoLateH (addHandler c fn ud ns name type user) := by
  refine ⟨fun x hx => ?_, by simpa using n.2⟩
  rcases mem_addHandler hx with hx | ⟨hx, _⟩
  · exact n.1 x hx
  · subst hx; simpa using hf

theorem NoLateH_addIdHandler {c : Conn} (n : NoLateH c) (fn : HFun) (id : Bytes)
    (user : Bool) (hf : isLate fn = false) : NoLateH (addIdHandler c fn id user) := by
  refine ⟨by simpa using n.1, fun x hx => ?_⟩
  rcases mem_addIdHandler hx with hx | ⟨hx, _⟩
  · exact n.2 x hx
  · rw [hx]; exact hf

/-- the STARTTLS request of `_auth` -/
def startTlsStep (c : Conn) : Conn :=
  let c1 := addHandler c (.sys .proceedTls) 0 (some Gen.nsTls) none none false
  let c2 := sendStanza c1 .starttls .strophe
  { c2 with tlsSupport := false }

theorem Inv_startTlsStep {u ut : Option Nat} {c : Conn} (h : Inv u ut c) (cl : Clear u ut c)
    (hs : c.secured = false) (hd : c.tlsDisabled = false) (hn : c.state ≠ .disconnected → NT c) :
    Inv u ut (startTlsStep c) := by
  have h1 := Inv_addHandler h (.sys .proceedTls) 0 (some Gen.nsTls) none none false (by simp [isF])
    (fun _ => ⟨rfl, hs, cl.nF, cl.nTM, cl.nS, cl.nFr, cl.nLate, hn⟩) (by simp [isS]) (by simp [isLate]) (by simp)
  have h2 := Inv_sendStanza_neg h1 .starttls (by simp [Item.authBearing]) (by simpa using cl.en)
    (fun _ => ⟨fun _ => by simpa [curSnap] using hd, by simp, by simp⟩)
  exact h2.same (by simp [SameAll, startTlsStep])

@[simp] theorem startTlsStep_frame (c : Conn) :
    same_cfg[c, startTlsStep c] ∧ same_tls[c, startTlsStep c] ∧ same_sm[c, startTlsStep c] ∧
    same_p[c, startTlsStep c] ∧ (startTlsStep c).tlsSupport = false ∧
    (startTlsStep c).idHandlers = c.idHandlers ∧ (startTlsStep c).tx = c.tx := by
  simp [startTlsStep]

@[simp] theorem authLegacyStep_frame (c : Conn) :
    same_core[c, authLegacyStep c] ∧ (authLegacyStep c).handlers = c.handlers := by
  unfold authLegacyStep
  split
  · simp
  · split
    · simp
    · split <;> simp

theorem Inv_authLegacyStep {u ut : Option Nat} {c : Conn} (h : Inv u ut c) (cl : Clear u ut c) (s : Safe c)
    (ha : c.authLegacy = true) (hc : c.ctype = .client) : Inv u ut (authLegacyStep c) := by
  unfold authLegacyStep
  split
  · exact Inv_xmppDisconnect h
  · split
    · exact Inv_xmppDisconnect h
    · split
      · exact Inv_xmppDisconnect h
      · exact Inv_sendStanza_neg (Inv_addTimed (Inv_addIdHandler h (.sys .legacy) _ false rfl (by simp [isLate])
          (by simp)) _ _ _ (by simp)) _
          (fun _ => by have := s.gateC; unfold GateC at this; simpa using this) (by simpa using cl.en)
          (fun _ => ⟨by simp, fun _ _ _ _ => by simp [curSnap, ha, hc], by simp⟩)

theorem NoLateH_authLegacyStep {c : Conn} (n : NoLateH c) : NoLateH (authLegacyStep c) := by
  have x : NoLateH (xmppDisconnect c) := n.same (by simp) (by simp)
  unfold authLegacyStep
  split
  · exact x
  · split
    · exact x
    · split
      · exact x
      · exact (NoLateH_addIdHandler n (.sys .legacy) (b "_xmpp_auth1") false rfl).same (by simp) (by simp)

/-- the SCRAM attempt of `_auth` -/
def scramStep (c : Conn) : Conn :=
  match firstScram c.saslSupport with
  | none => c
  | some (ix, name, mask) =>
    if (mask &&& scramPlusMask ≠ 0) && !isSecured c then xmppDisconnect c
    else mechStep { c with nextUid := c.nextUid + 1 } (.sys (.scramChallenge c.nextUid ix)) (100 + c.nextUid)
      (.auth name true) mask

@[simp] theorem scramStep_frame (c : Conn) :
    same_cfg[c, scramStep c] ∧ same_tls[c, scramStep c] ∧ same_sm[c, scramStep c] ∧ same_p[c, scramStep c] ∧
    (scramStep c).tlsSupport = c.tlsSupport ∧ (scramStep c).idHandlers = c.idHandlers ∧
    (scramStep c).g.offeredMechs = c.g.offeredMechs ∧ (scramStep c).tx = c.tx := by
  unfold scramStep
  split
  · simp
  · split <;> simp

theorem Inv_scramStep {u ut : Option Nat} {c : Conn} (h : Inv u ut c) (cl : Clear u ut c) (s : Safe c)
    (hp : c.state ≠ .disconnected → c.saslSupport &&& Gen.saslMaskPlain ≠ 0 → NT c) : Inv u ut (scramStep c) := by
  unfold scramStep
  split
  · exact h
  · rename_i ix name mask hf
    obtain ⟨h1, h2⟩ := firstScram_some hf
    obtain ⟨h3, h4⟩ := scramAlgs_facts _ h2
    split
    · exact Inv_xmppDisconnect h
    · exact Inv_mechStep (c := { c with nextUid := c.nextUid + 1 }) (h.same (by simp [SameAll]))
        (cl.same rfl rfl rfl rfl ⟨rfl, rfl⟩ rfl) (s.same rfl rfl rfl rfl) _ _ _ _ _ rfl
        (fun _ e => absurd e h3) hp (.inl ⟨h1, h4⟩)

theorem NoLateH_mechStep {c : Conn} (n : NoLateH c) (fn : HFun) (ud : Nat) (it : Item) (mask : Nat)
    (hf : isLate fn = false) : NoLateH (mechStep c fn ud it mask) :=
  (NoLateH_addHandler n fn ud (some Gen.nsSasl) none none false hf).same (by simp [mechStep]) (by simp [mechStep])

theorem NoLateH_scramStep {c : Conn} (n : NoLateH c) : NoLateH (scramStep c) := by
  unfold scramStep
  split
  · exact n
  · split
    · exact n.same (by simp) (by simp)
    · exact NoLateH_mechStep (c := { c with nextUid := c.nextUid + 1 }) n _ _ _ _ rfl

theorem auth_succ (c : Conn) (n : Nat) : auth c (n + 1) =
    if c.tlsSupport then
      if c.tlsNewFail then auth { c with tlsSupport := false } n else startTlsStep c
    else if c.tlsMandatory && !isSecured c then connDisconnect c
    else if anonJid c && c.saslSupport &&& Gen.saslMaskAnonymous ≠ 0 then
      mechStep c (.sys (.saslResult (b "ANONYMOUS"))) 1 (.auth (b "ANONYMOUS") false) Gen.saslMaskAnonymous
    else if c.saslSupport &&& Gen.saslMaskExternal ≠ 0 then
      mechStep c (.sys (.saslResult (b "EXTERNAL"))) 2 (.auth (b "EXTERNAL") true) Gen.saslMaskExternal
    else if anonJid c then xmppDisconnect c
    else if c.pass.isNone then xmppDisconnect c
    else if c.saslSupport &&& scramMaskAll ≠ 0 then scramStep c
    else if c.saslSupport &&& Gen.saslMaskDigestmd5 ≠ 0 then
      mechStep c (.sys .digestChallenge) 0 (.auth (b "DIGEST-MD5") false) Gen.saslMaskDigestmd5
    else if c.saslSupport &&& Gen.saslMaskPlain ≠ 0 then
      mechStep c (.sys (.saslResult (b "PLAIN"))) 3 (.auth (b "PLAIN") true) Gen.saslMaskPlain
    else if c.ctype = .client && c.authLegacy then authLegacyStep c
    else xmppDisconnect c := by
  rfl

theorem safe_of_gate {u : Option Nat} {c : Conn} (h : G u c)
    (hg : ¬((c.tlsMandatory && !isSecured c) = true)) : Safe c := by
  have g : Gate c := by
    intro hm
    rw [hm] at hg
    unfold isSecured at hg
    revert hg
    cases c.secured <;> cases c.tlsFailed <;> cases c.hasTls <;> decide
  have := h.nc
  cases hs : c.state
  · exact .inl hs
  · exact absurd hs this
  · exact .inr ⟨hs, g⟩

theorem Inv_auth {u ut : Option Nat} : ∀ (n : Nat) (c : Conn), Inv u ut c → Clear u ut c →
    (c.tlsSupport = true → c.secured = false ∧ c.tlsDisabled = false ∧ (c.state ≠ .disconnected → NT c)) →
    (c.state ≠ .disconnected → c.saslSupport &&& Gen.saslMaskPlain ≠ 0 → NT c) → Inv u ut (auth c n)
  | 0, c, h, _, _, _ => h
  | n + 1, c, h, cl, hs, hp => by
    rw [auth_succ]
    split
    · rename_i ht
      split
      · exact Inv_auth n _ (h.same (by simp [SameAll])) (cl.same rfl rfl rfl rfl ⟨rfl, rfl⟩ rfl) (by simp)
          (fun l x => (hp l x).congr rfl rfl rfl)
      · exact Inv_startTlsStep h cl (hs ht).1 (hs ht).2.1 (hs ht).2.2
    · split
      · exact Inv_connDisconnect h
      · rename_i hg
        have s := safe_of_gate h.g hg
        split
        · exact Inv_mechStep h cl s _ _ _ _ _ rfl (fun _ e => absurd e (by decide)) hp (.inr (.inl rfl))
        · split
          · rename_i he
            exact Inv_mechStep h cl s _ _ _ _ _ rfl (fun _ e => absurd e (by decide)) hp
              (.inl ⟨by simpa using he, by decide⟩)
          · rename_i he
            split
            · exact Inv_xmppDisconnect h
            · split
              · exact Inv_xmppDisconnect h
              · split
                · exact Inv_scramStep h cl s hp
                · rename_i hsc
                  split
                  · rename_i hd
                    exact Inv_mechStep h cl s _ _ _ _ _ rfl (fun _ e => absurd e (by decide)) hp
                      (.inl ⟨by simpa using hd, by decide⟩)
                  · rename_i hd
                    split
                    · rename_i hpl
                      exact Inv_mechStep h cl s _ _ _ _ _ rfl
                        (fun l _ => plain_choice (hp l (by simpa using hpl)) (by simpa using hsc) (by simpa using hd)
                          (by simpa using he)) hp (.inr (.inr rfl))
                    · split
                      · rename_i hl
                        simp at hl
                        exact Inv_authLegacyStep h cl s hl.2 hl.1
                      · exact Inv_xmppDisconnect h

theorem auth_sup_of_false : ∀ (n : Nat) (c : Conn), c.tlsSupport = false → (auth c n).tlsSupport = false
  | 0, c, h => h
  | n + 1, c, h => by
    rw [auth_succ]
    simp only [h, Bool.false_eq_true, if_false]
    repeat' split
    all_goals simp [h]

theorem auth_sup (n : Nat) (c : Conn) : (auth c (n + 1)).tlsSupport = false := by
  by_cases h : c.tlsSupport = true
  · rw [auth_succ]
    simp only [h, if_true]
    split
    · exact auth_sup_of_false n _ rfl
    · simp
  · exact auth_sup_of_false _ _ (by simpa using h)

theorem auth_p : ∀ (n : Nat) (c : Conn), same_p[c, auth c n]
  | 0, c => ⟨rfl, rfl⟩
  | n + 1, c => by
    rw [auth_succ]
    split
    · split
      · exact auth_p n _
      · simp
    · repeat' split
      all_goals simp

theorem NoLateH_auth : ∀ (n : Nat) (c : Conn), NoLateH c → NoLateH (auth c n)
  | 0, c, h => h
  | n + 1, c, h => by
    have x : NoLateH (xmppDisconnect c) := h.same (by simp) (by simp)
    rw [auth_succ]
    split
    · split
      · exact NoLateH_auth n _ (h.same rfl rfl)
      · exact (NoLateH_addHandler h (.sys .proceedTls) 0 (some Gen.nsTls) none none false rfl).same
          (by simp [startTlsStep]) (by simp [startTlsStep])
    · split
      · exact h.same (by simp) (by simp)
      · split
        · exact NoLateH_mechStep h _ _ _ _ rfl
        · split
          · exact NoLateH_mechStep h _ _ _ _ rfl
          · split
            · exact x
            · split
              · exact x
              · split
                · exact NoLateH_scramStep h
                · split
                  · exact NoLateH_mechStep h _ _ _ _ rfl
                  · split
                    · exact NoLateH_mechStep h _ _ _ _ rfl
                    · split
                      · exact NoLateH_authLegacyStep h
                      · exact x

/-! ### `_handle_features` -/

theorem wList_false_ext : ∀ m ∈ wList false, Gen.saslMaskExternal &&& m = 0 := by decide

theorem saslChild_mono (c : Conn) (t : Bytes) (m : Nat) (h : c.saslSupport &&& m ≠ 0) :
    (saslChild c t).saslSupport &&& m ≠ 0 := by
  unfold saslChild
  repeat' split
  all_goals first | exact h | exact or_and_ne_zero.2 (.inl h)

@[simp] theorem saslChild_cert (c : Conn) (t : Bytes) : (saslChild c t).cert = c.cert := by
  unfold saslChild; repeat' split
  all_goals rfl

theorem mechBit_saslChild (c : Conn) (t : Bytes) (m : Nat) (hm : m ∈ wList c.cert) (h : mechBit t &&& m ≠ 0) :
    (saslChild c t).saslSupport &&& m ≠ 0 := by
  have hk := wList_keep m (wList_sub _ m hm)
  unfold mechBit at h
  unfold saslChild
  by_cases h1 : ciEq t (b "PLAIN") = true
  · simp only [h1, if_true] at h; exact absurd hk.2.2.2.1 h
  · simp only [h1, Bool.false_eq_true, if_false] at h ⊢
    by_cases h2 : ciEq t (b "EXTERNAL") = true
    · simp only [h2, if_true, Bool.true_and] at h ⊢
      cases hc : c.cert
      · rw [hc] at hm; exact absurd (wList_false_ext m hm) h
      · simp only [if_true]; exact or_and_ne_zero.2 (.inr h)
    · simp only [h2, Bool.false_eq_true, if_false, Bool.false_and] at h ⊢
      by_cases h3 : ciEq t (b "DIGEST-MD5") = true
      · simp only [h3, if_true] at h ⊢; exact or_and_ne_zero.2 (.inr h)
      · simp only [h3, Bool.false_eq_true, if_false] at h ⊢
        by_cases h4 : ciEq t (b "ANONYMOUS") = true
        · simp only [h4, if_true] at h; exact absurd hk.2.2.2.2 h
        · simp only [h4, Bool.false_eq_true, if_false] at h ⊢
          split
          · rename_i n mm hf
            rw [hf] at h
            exact or_and_ne_zero.2 (.inr h)
          · rename_i hf
            rw [hf] at h
            simp at h

theorem saslChild_fold (l : List Bytes) (c : Conn) (m : Nat) (hm : m ∈ wList c.cert)
    (h : c.saslSupport &&& m ≠ 0 ∨ ∃ t ∈ l, mechBit t &&& m ≠ 0) :
    (l.foldl saslChild c).saslSupport &&& m ≠ 0 := by
  induction l generalizing c with
  | nil =>
    rcases h with h | ⟨t, ht, _⟩
    · exact h
    · cases ht
  | cons x l ih =>
    simp only [List.foldl_cons]
    refine ih (saslChild c x) (by simpa using hm) ?_
    rcases h with h | ⟨t, ht, hb⟩
    · exact .inl (saslChild_mono c x m h)
    · rcases List.mem_cons.1 ht with rfl | ht
      · exact .inl (mechBit_saslChild c t m hm hb)
      · exact .inr ⟨t, ht, hb⟩

theorem offered_fold (l : List Bytes) (o m : Nat)
    (h : (l.foldl (fun a t => a ||| mechBit t) o) &&& m ≠ 0) : o &&& m ≠ 0 ∨ ∃ t ∈ l, mechBit t &&& m ≠ 0 := by
  induction l generalizing o with
  | nil => exact .inl h
  | cons x l ih =>
    simp only [List.foldl_cons] at h
    rcases ih _ h with h | ⟨t, ht, hb⟩
    · rcases or_and_ne_zero.1 h with h | h
      · exact .inl h
      · exact .inr ⟨x, List.mem_cons_self .., h⟩
    · exact .inr ⟨t, List.mem_cons_of_mem _ ht, hb⟩

@[simp] theorem noteOffers_frame (c : Conn) (st : XTree) :
    same_cfg[c, noteOffers c st] ∧ same_tls[c, noteOffers c st] ∧ same_io[c, noteOffers c st] ∧
    same_h[c, noteOffers c st] ∧ same_sm[c, noteOffers c st] ∧ same_p[c, noteOffers c st] ∧
    same_t[c, noteOffers c st] ∧
    (noteOffers c st).tlsSupport = c.tlsSupport ∧ (noteOffers c st).saslSupport = c.saslSupport := by
  simp [noteOffers]

theorem noteOffers_offered (c : Conn) (st : XTree) : (noteOffers c st).g.offeredMechs =
    match st.childByNameNs (b "mechanisms") Gen.nsSasl with
    | some m => (childTexts m (b "mechanism")).foldl (fun a t => a ||| mechBit t) c.g.offeredMechs
    | none => c.g.offeredMechs := by
  unfold noteOffers
  simp only
  repeat' split
  all_goals simp_all

/-- the STARTTLS part of `_handle_features` -/
def hfTls (c0 : Conn) (st : XTree) : Conn :=
  if !c0.secured then
    if !c0.tlsDisabled then
      if (st.childByNameNs (b "starttls") Gen.nsTls).isSome then { c0 with tlsSupport := true } else c0
    else { c0 with tlsSupport := false }
  else c0

/-- the `<mechanisms/>` part -/
def hfSasl (c1 : Conn) (st : XTree) : Conn :=
  match st.childByNameNs (b "mechanisms") Gen.nsSasl with
  | some m => (childTexts m (b "mechanism")).foldl saslChild c1
  | none => c1

/-- PLAIN is dropped when anything better is on offer -/
def hfMask (c2 : Conn) : Conn :=
  if c2.saslSupport &&& ((Gen.saslMaskPlain ||| Gen.saslMaskAnonymous) ^^^ 0xFFFF) ≠ 0
    then { c2 with saslSupport := c2.saslSupport &&& (Gen.saslMaskPlain ^^^ 0xFFFF) } else c2

theorem handleFeatures_eq (c : Conn) (st : XTree) : handleFeatures c st =
    authTop (hfMask (hfSasl (hfTls (delTimed (noteOffers c st) .missingFeatures) st) st)) := rfl

@[simp] theorem hfTls_frame (c : Conn) (st : XTree) :
    same_cfg[c, hfTls c st] ∧ same_tls[c, hfTls c st] ∧ same_io[c, hfTls c st] ∧
    same_h[c, hfTls c st] ∧ same_sm[c, hfTls c st] ∧ same_p[c, hfTls c st] ∧ same_t[c, hfTls c st] ∧
    (hfTls c st).g = c.g ∧ (hfTls c st).saslSupport = c.saslSupport := by
  unfold hfTls; repeat' split
  all_goals simp

theorem hfTls_sup {c : Conn} {st : XTree} (h0 : c.tlsSupport = false) (h : (hfTls c st).tlsSupport = true) :
    c.secured = false ∧ c.tlsDisabled = false := by
  unfold hfTls at h
  repeat' split at h
  all_goals simp_all

@[simp] theorem saslChild_frame (c : Conn) (t : Bytes) :
    same_cfg[c, saslChild c t] ∧ same_tls[c, saslChild c t] ∧ same_io[c, saslChild c t] ∧
    same_h[c, saslChild c t] ∧ same_sm[c, saslChild c t] ∧ same_p[c, saslChild c t] ∧ same_t[c, saslChild c t] ∧
    (saslChild c t).g = c.g ∧ (saslChild c t).tlsSupport = c.tlsSupport := by
  unfold saslChild; repeat' split
  all_goals simp

theorem saslChild_fold_frame (b : Conn) (l : List Bytes) (c : Conn)
    (hb : same_cfg[b, c] ∧ same_tls[b, c] ∧ same_io[b, c] ∧ same_h[b, c] ∧ same_sm[b, c] ∧ same_p[b, c] ∧
      same_t[b, c] ∧ c.g = b.g ∧ c.tlsSupport = b.tlsSupport) :
    let d := l.foldl saslChild c
    same_cfg[b, d] ∧ same_tls[b, d] ∧ same_io[b, d] ∧ same_h[b, d] ∧ same_sm[b, d] ∧ same_p[b, d] ∧
      same_t[b, d] ∧ d.g = b.g ∧ d.tlsSupport = b.tlsSupport := by
  induction l generalizing c with
  | nil => simpa using hb
  | cons e l ih =>
    simp only [List.foldl_cons]
    exact ih (saslChild c e) (by simpa using hb)

@[simp] theorem hfSasl_frame (c : Conn) (st : XTree) :
    same_cfg[c, hfSasl c st] ∧ same_tls[c, hfSasl c st] ∧ same_io[c, hfSasl c st] ∧
    same_h[c, hfSasl c st] ∧ same_sm[c, hfSasl c st] ∧ same_p[c, hfSasl c st] ∧ same_t[c, hfSasl c st] ∧
    (hfSasl c st).g = c.g ∧ (hfSasl c st).tlsSupport = c.tlsSupport := by
  unfold hfSasl; split
  · exact saslChild_fold_frame c _ c (by simp)
  · simp

@[simp] theorem hfMask_frame (c : Conn) :
    same_cfg[c, hfMask c] ∧ same_tls[c, hfMask c] ∧ same_io[c, hfMask c] ∧
    same_h[c, hfMask c] ∧ same_sm[c, hfMask c] ∧ same_p[c, hfMask c] ∧ same_t[c, hfMask c] ∧
    (hfMask c).g = c.g ∧ (hfMask c).tlsSupport = c.tlsSupport := by
  unfold hfMask; split <;> simp

theorem hfMask_and (c : Conn) (m : Nat) (hm : m ∈ wList true) :
    (hfMask c).saslSupport &&& m = c.saslSupport &&& m := by
  unfold hfMask; split
  · exact and_and_of_sub (wList_keep m hm).1
  · rfl

theorem KMask_hfMask (c : Conn) : KMask (hfMask c) := by
  unfold hfMask; split
  · intro _
    show c.saslSupport &&& (Gen.saslMaskPlain ^^^ 0xFFFF) &&& Gen.saslMaskPlain = 0
    rw [Nat.and_assoc]
    have : (Gen.saslMaskPlain ^^^ 0xFFFF) &&& Gen.saslMaskPlain = 0 := by decide
    rw [this, Nat.and_zero]
  · rename_i h; intro h'; exact absurd h' h

/-- after `_handle_features` has merged the offer, every better mechanism offered so far is (still) supported -/
theorem NT_features (c : Conn) (st : XTree) (n : NT c) :
    NT (hfMask (hfSasl (hfTls (delTimed (noteOffers c st) .missingFeatures) st) st)) := by
  intro m hm ho
  have hm' : m ∈ wList c.cert := by simpa using hm
  rw [hfMask_and _ m (wList_sub _ m hm)]
  have ho' : (noteOffers c st).g.offeredMechs &&& m ≠ 0 := by simpa using ho
  rw [noteOffers_offered] at ho'
  unfold hfSasl
  split
  · rename_i mm hmm
    rw [hmm] at ho'
    refine saslChild_fold _ _ m (by simpa using hm') ?_
    rcases offered_fold _ _ _ ho' with h | h
    · exact .inl (by simpa using n m hm' h)
    · exact .inr h
  · rename_i hmm
    rw [hmm] at ho'
    simpa using n m hm' ho'

theorem isF_eq {f : HFun} (h : isF f = true) : f = .sys .features := by
  cases f with
  | userAll => simp [isF] at h
  | sys k => cases k <;> simp_all [isF]

theorem isT_eq {f : HFun} (h : isT f = true) : f = .sys .proceedTls := by
  cases f with
  | userAll => simp [isT] at h
  | sys k => cases k <;> simp_all [isT]

theorem not_NoH_none {p : HFun → Bool} {c : Conn} {x : Handler} (hx : x ∈ c.handlers) (hp : p x.fn = true)
    (n : NoH none p c) : False := by
  have := n x hx hp; simp at this

/-- what the invariant says when the `features` handler is about to run -/
theorem entry_F {c : Conn} (h : Inv none none c) {x : Handler} (hx : x ∈ c.handlers) (hf : isF x.fn = true) :
    NoH (some x.uid) isF c ∧ NoH none isT c ∧ NoH none isS c ∧ ¬Fr c ∧ ¬LateC c ∧
    (c.state ≠ .disconnected → NT c) := by
  refine ⟨?_, ?_, ?_, ?_, ?_, ?_⟩
  · intro y hy hp
    rw [h.g.uniq x hx y hy (by simp [hf]) (by rw [isF_eq hf, isF_eq hp])]
  · rcases h.ph.excl with ⟨a, _⟩ | ⟨⟨a, _⟩, _⟩ | ⟨⟨a, _⟩, _⟩
    · exact a
    · exact (not_NoH_none hx hf a).elim
    · exact (not_NoH_none hx hf a).elim
  · rcases h.ph.excl with ⟨_, b⟩ | ⟨⟨a, _⟩, _⟩ | ⟨⟨a, _⟩, _⟩
    · exact b
    · exact (not_NoH_none hx hf a).elim
    · exact (not_NoH_none hx hf a).elim
  · exact fun f => not_NoH_none hx hf (h.ph.e5 f).1
  · exact fun l => not_NoH_none hx hf (h.ph.e6 l).1
  · intro hl
    rcases h.me.i1 hl with n | ⟨a, _⟩
    · exact n
    · exact (not_NoH_none hx hf a).elim

theorem Inv_handleFeatures {c : Conn} (h : Inv none none c) (hs : c.tlsSupport = false) {x : Handler}
    (hx : x ∈ c.handlers) (hf : isF x.fn = true) (st : XTree) :
    Inv (some x.uid) none (handleFeatures c st) := by
  obtain ⟨e1, e2, e3, e4, e5, e6⟩ := entry_F h hx hf
  rw [handleFeatures_eq]
  have hnt : c.state ≠ .disconnected →
      NT (hfMask (hfSasl (hfTls (delTimed (noteOffers c st) .missingFeatures) st) st)) :=
    fun hl => NT_features c st (e6 hl)
  have hm : Mono c (hfMask (hfSasl (hfTls (delTimed (noteOffers c st) .missingFeatures) st) st)) := by
    refine ⟨fun y hy => ⟨y, by simpa using hy, rfl, rfl, rfl, rfl⟩, fun y hy => ⟨y, by simpa using hy, rfl, rfl⟩,
      ?_, fun e he => by simpa using he, by simp, by simp, by simp, by simp, by simp⟩
    intro t ht
    simp only [hfMask_frame, hfSasl_frame, hfTls_frame, delTimed_frame, noteOffers_frame, List.mem_filter] at ht
    exact ⟨t, ht.1, rfl, rfl, rfl⟩
  have h3 : Inv (some x.uid) none (hfMask (hfSasl (hfTls (delTimed (noteOffers c st) .missingFeatures) st) st)) := by
    refine (h.weaken).setMe hm (by simp) ⟨fun hl => .inl (hnt (by simpa using hl)), fun _ => .inl ?_,
      KMask_hfMask _⟩
    exact (e3.weaken).ofEq (by simp)
  refine Inv_auth 3 _ h3 ⟨e1.ofEq (by simp), ?_, (e2.weaken).ofEq (by simp), (e3.weaken).ofEq (by simp), ?_, ?_⟩
    ?_ (fun hl _ => hnt (by simpa using hl))
  · intro t ht hfn
    simp only [hfMask_frame, hfSasl_frame, hfTls_frame, delTimed_frame, noteOffers_frame, List.mem_filter] at ht
    simp [hfn] at ht
  · unfold Fr at *; simpa using e4
  · unfold LateC at *; simpa using e5
  · intro ht
    simp only [hfMask_frame, hfSasl_frame] at ht
    have := hfTls_sup (c := delTimed (noteOffers c st) .missingFeatures) (st := st) (by simpa using hs) ht
    exact ⟨by simpa using this.1, by simpa using this.2, fun hl => hnt (by simpa using hl)⟩

theorem handleFeatures_sup (c : Conn) (st : XTree) : (handleFeatures c st).tlsSupport = false := by
  rw [handleFeatures_eq]; exact auth_sup 2 _

theorem handleFeatures_p (c : Conn) (st : XTree) : same_p[c, handleFeatures c st] := by
  rw [handleFeatures_eq]
  have := auth_p 3 (hfMask (hfSasl (hfTls (delTimed (noteOffers c st) .missingFeatures) st) st))
  simpa [authTop] using this

theorem NoLateH_handleFeatures {c : Conn} (n : NoLateH c) (st : XTree) : NoLateH (handleFeatures c st) := by
  rw [handleFeatures_eq]
  exact NoLateH_auth 3 _ (n.same (by simp) (by simp))

end Strophe.Lemmas.ConnC02
