/-
`_auth` and `_handle_features` preserve the C02 invariant.
-/
import Strophe.Lemmas.ConnC02Inv

namespace Strophe.Lemmas.ConnC02
open Strophe Strophe.Conn

/-! ### bit masks -/

theorem and_ne_zero_left {a x y : Nat} (h : (a &&& x) &&& y ≠ 0) : a &&& y ≠ 0 := by
  intro h0; apply h
  rw [Nat.and_assoc, Nat.and_comm x y, ← Nat.and_assoc, h0, Nat.zero_and]

theorem and_and_of_sub {a x y : Nat} (h : x &&& y = y) : (a &&& x) &&& y = a &&& y := by
  rw [Nat.and_assoc, h]

theorem and_ne_zero_of_sub {a x z : Nat} (h : a &&& x ≠ 0) (hz : z &&& x = x) : a &&& z ≠ 0 := by
  intro h0; apply h
  rw [← hz, ← Nat.and_assoc, h0, Nat.zero_and]

theorem or_and_ne_zero {a x m : Nat} : (a ||| x) &&& m ≠ 0 ↔ (a &&& m ≠ 0 ∨ x &&& m ≠ 0) := by
  rw [Nat.and_or_distrib_right, Ne, Nat.or_eq_zero_iff]
  constructor
  · intro h; by_cases h1 : a &&& m = 0
    · exact .inr fun h2 => h ⟨h1, h2⟩
    · exact .inl h1
  · rintro (h | h) ⟨h1, h2⟩
    · exact h h1
    · exact h h2

theorem wList_sub (cert : Bool) : ∀ m ∈ wList cert, m ∈ wList true := by
  cases cert <;> simp [wList]

/-- the masks in `wList` are untouched by clearing PLAIN or ANONYMOUS -/
theorem wList_keep : ∀ m ∈ wList true,
    (Gen.saslMaskPlain ^^^ 0xFFFF) &&& m = m ∧ (Gen.saslMaskAnonymous ^^^ 0xFFFF) &&& m = m ∧
    ((Gen.saslMaskPlain ||| Gen.saslMaskAnonymous) ^^^ 0xFFFF) &&& m = m ∧
    Gen.saslMaskPlain &&& m = 0 ∧ Gen.saslMaskAnonymous &&& m = 0 := by
  decide

theorem KMask_clear {c : Conn} (k : KMask c) (x : Nat) : KMask { c with saslSupport := c.saslSupport &&& x } := by
  intro h
  have := k (and_ne_zero_left h)
  show c.saslSupport &&& x &&& Gen.saslMaskPlain = 0
  rw [Nat.and_assoc, Nat.and_comm x, ← Nat.and_assoc, this, Nat.zero_and]

theorem NT_clear_keep {c : Conn} (n : NT c) (x : Nat) (hx : ∀ m ∈ wList true, x &&& m = m) :
    NT { c with saslSupport := c.saslSupport &&& x } := by
  intro m hm ho
  show c.saslSupport &&& x &&& m ≠ 0
  rw [and_and_of_sub (hx m (wList_sub _ m hm))]
  exact n m hm ho

/-- the `i2` clause after one mechanism has been tried and its bit cleared -/
theorem plain_nt_clear {c : Conn} (k : KMask c) (hp : c.saslSupport &&& Gen.saslMaskPlain ≠ 0 → NT c) (mask : Nat)
    (hm : (c.saslSupport &&& mask ≠ 0 ∧ ((Gen.saslMaskPlain ||| Gen.saslMaskAnonymous) ^^^ 0xFFFF) &&& mask = mask) ∨
      mask = Gen.saslMaskAnonymous ∨ mask = Gen.saslMaskPlain) :
    (c.saslSupport &&& (mask ^^^ 0xFFFF)) &&& Gen.saslMaskPlain ≠ 0 →
      NT { c with saslSupport := c.saslSupport &&& (mask ^^^ 0xFFFF) } := by
  intro h
  have hA := and_ne_zero_left h
  rcases hm with ⟨h1, h2⟩ | rfl | rfl
  · exact absurd (k (and_ne_zero_of_sub h1 h2)) hA
  · exact NT_clear_keep (hp hA) _ fun m hm => (wList_keep m hm).2.1
  · exfalso; apply h
    rw [Nat.and_assoc]
    have : (Gen.saslMaskPlain ^^^ 0xFFFF) &&& Gen.saslMaskPlain = 0 := by decide
    rw [this, Nat.and_zero]

theorem strongerMask'_eq : strongerMask' = Gen.saslMaskScramsha512Plus ||| Gen.saslMaskScramsha256Plus |||
    Gen.saslMaskScramsha1Plus ||| Gen.saslMaskScramsha512 ||| Gen.saslMaskScramsha256 ||| Gen.saslMaskScramsha1 |||
    Gen.saslMaskDigestmd5 := by decide

theorem scram_sub : ∀ m ∈ [Gen.saslMaskScramsha512Plus, Gen.saslMaskScramsha256Plus, Gen.saslMaskScramsha1Plus,
    Gen.saslMaskScramsha512, Gen.saslMaskScramsha256, Gen.saslMaskScramsha1], scramMaskAll &&& m = m := by decide

/-- what `_auth` knows when it falls through to PLAIN -/
theorem plain_choice {c : Conn} (n : NT c) (h1 : c.saslSupport &&& scramMaskAll = 0)
    (h2 : c.saslSupport &&& Gen.saslMaskDigestmd5 = 0) (h3 : c.saslSupport &&& Gen.saslMaskExternal = 0) :
    c.g.offeredMechs &&& strongerMask' = 0 ∧ (c.cert = true → c.g.offeredMechs &&& Gen.saslMaskExternal = 0) := by
  have z : ∀ m ∈ wList c.cert, c.saslSupport &&& m = 0 → c.g.offeredMechs &&& m = 0 := by
    intro m hm hz
    by_cases ho : c.g.offeredMechs &&& m = 0
    · exact ho
    · exact absurd hz (n m hm ho)
  have sc : ∀ m ∈ [Gen.saslMaskScramsha512Plus, Gen.saslMaskScramsha256Plus, Gen.saslMaskScramsha1Plus,
      Gen.saslMaskScramsha512, Gen.saslMaskScramsha256, Gen.saslMaskScramsha1], c.saslSupport &&& m = 0 := by
    intro m hm
    rw [← scram_sub m hm, ← Nat.and_assoc, h1, Nat.zero_and]
  constructor
  · rw [strongerMask'_eq]
    simp only [Nat.and_or_distrib_left, Nat.or_eq_zero_iff]
    refine ⟨⟨⟨⟨⟨⟨?_, ?_⟩, ?_⟩, ?_⟩, ?_⟩, ?_⟩, ?_⟩
    · exact z _ (by simp [wList]) (sc _ (by simp))
    · exact z _ (by simp [wList]) (sc _ (by simp))
    · exact z _ (by simp [wList]) (sc _ (by simp))
    · exact z _ (by simp [wList]) (sc _ (by simp))
    · exact z _ (by simp [wList]) (sc _ (by simp))
    · exact z _ (by simp [wList]) (sc _ (by simp))
    · exact z _ (by simp [wList]) h2
  · intro hc
    exact z _ (by simp [wList, hc]) h3

theorem scramAlgs_facts : ∀ x ∈ Gen.scramAlgs, x.1 ≠ b "PLAIN" ∧
    ((Gen.saslMaskPlain ||| Gen.saslMaskAnonymous) ^^^ 0xFFFF) &&& x.2 = x.2 := by decide

theorem firstScram_some {s : Nat} {ix : Nat} {name : Bytes} {mask : Nat} (h : firstScram s = some (ix, name, mask)) :
    s &&& mask ≠ 0 ∧ (name, mask) ∈ Gen.scramAlgs := by
  unfold firstScram at h
  rw [Option.map_eq_some_iff] at h
  obtain ⟨⟨⟨n, m⟩, i⟩, hf, he⟩ := h
  simp only [Prod.mk.injEq] at he
  obtain ⟨rfl, rfl, rfl⟩ := he
  have h1 := List.find?_some hf
  have h2 := List.mem_of_find?_eq_some hf
  refine ⟨by simpa using h1, ?_⟩
  exact (List.mem_zipIdx h2).2.2 ▸ List.getElem_mem _

/-! ### `_auth` -/

theorem NoH.ofEq {u : Option Nat} {p : HFun → Bool} {c c' : Conn} (h : NoH u p c)
    (e : c'.handlers = c.handlers) : NoH u p c' := by
  unfold NoH; rw [e]; exact h

theorem isS_not {f : HFun} (h : isS f = true) : isF f = false ∧ isT f = false ∧ isLate f = false := by
  cases f with
  | userAll => simp [isS] at h
  | sys k => cases k <;> simp_all [isS, isF, isT, isLate]

/-- nothing is waiting for an answer and authentication is not over: `_auth` may start something -/
structure Clear (u ut : Option Nat) (c : Conn) : Prop where
  nF : NoH u isF c
  nTM : NoTM ut c
  nT : NoH u isT c
  nS : NoH u isS c
  nFr : ¬Fr c
  nLate : ¬LateC c

theorem Clear.en {u ut : Option Nat} {c : Conn} (cl : Clear u ut c) : c.sm.enabled = false := by
  cases h : c.sm.enabled
  · rfl
  · exact absurd (.inr (.inr (.inr (.inr h)))) cl.nLate

theorem Clear.same {u ut : Option Nat} {c c' : Conn} (cl : Clear u ut c) (e1 : c'.handlers = c.handlers)
    (e2 : c'.idHandlers = c.idHandlers) (e3 : c'.timed = c.timed) (e4 : c'.openHandler = c.openHandler)
    (e5 : same_p[c, c']) (e6 : c'.sm.enabled = c.sm.enabled) : Clear u ut c' := by
  obtain ⟨a, b, d, e, f, l⟩ := cl
  refine ⟨?_, ?_, ?_, ?_, ?_, ?_⟩
  · unfold NoH; rw [e1]; exact a
  · unfold NoTM; rw [e3]; exact b
  · unfold NoH; rw [e1]; exact d
  · unfold NoH; rw [e1]; exact e
  · unfold Fr; rw [e5.1, e5.2]; exact f
  · unfold LateC; rw [e1, e2, e4, e6]; exact l

def GateC (c : Conn) : Prop :=
  c.state = .connected → c.tlsMandatory = true → c.hasTls = true ∧ c.secured = true

theorem Safe.gateC {c : Conn} (s : Safe c) : GateC c := by
  intro hc hm
  rcases s with s | ⟨_, g⟩
  · rw [hc] at s; cases s
  · exact g hm

/-- one SASL attempt of `_auth`: install the result handler, send `<auth/>`, clear the mechanism bit -/
def mechStep (c : Conn) (fn : HFun) (ud : Nat) (it : Item) (mask : Nat) : Conn :=
  let c1 := addHandler c fn ud (some Gen.nsSasl) none none false
  let c2 := sendStanza c1 it .strophe
  { c2 with saslSupport := c2.saslSupport &&& (mask ^^^ 0xFFFF) }

@[simp] theorem mechStep_frame (c : Conn) (fn : HFun) (ud : Nat) (it : Item) (mask : Nat) :
    same_cfg[c, mechStep c fn ud it mask] ∧ same_tls[c, mechStep c fn ud it mask] ∧
    same_sm[c, mechStep c fn ud it mask] ∧ same_p[c, mechStep c fn ud it mask] ∧
    (mechStep c fn ud it mask).tlsSupport = c.tlsSupport ∧
    (mechStep c fn ud it mask).idHandlers = c.idHandlers ∧
    (mechStep c fn ud it mask).g.offeredMechs = c.g.offeredMechs ∧ (mechStep c fn ud it mask).tx = c.tx := by
  simp [mechStep]

theorem Inv_mechStep {u ut : Option Nat} {c : Conn} (h : Inv u ut c) (cl : Clear u ut c) (s : Safe c)
    (fn : HFun) (ud : Nat) (m : Bytes) (t : Bool) (mask : Nat) (hS : isS fn = true)
    (hi : m = b "PLAIN" → c.g.offeredMechs &&& strongerMask' = 0 ∧
      (c.cert = true → c.g.offeredMechs &&& Gen.saslMaskExternal = 0))
    (hp : c.saslSupport &&& Gen.saslMaskPlain ≠ 0 → NT c)
    (hm : (c.saslSupport &&& mask ≠ 0 ∧ ((Gen.saslMaskPlain ||| Gen.saslMaskAnonymous) ^^^ 0xFFFF) &&& mask = mask) ∨
      mask = Gen.saslMaskAnonymous ∨ mask = Gen.saslMaskPlain) :
    Inv u ut (mechStep c fn ud (.auth m t) mask) := by
  obtain ⟨f1, f2, f3⟩ := isS_not hS
  have h1 := Inv_addHandler h fn ud (some Gen.nsSasl) none none false (by simp [f1]) (by simp [f2])
    (fun _ => ⟨s, cl.nF, cl.nTM, cl.nT, cl.nS, cl.nFr, cl.nLate, fun _ => hp⟩) (by simp [f3]) (by simp)
  have h2 := Inv_sendStanza_neg h1 (.auth m t)
    (fun _ => by have := s.gateC; unfold GateC at this; simpa using this) (by simpa using cl.en)
    ⟨by simp, by simp, fun t' e => by
      have e' : m = b "PLAIN" := by simpa using congrArg (fun i => match i with | Item.auth m _ => m | _ => []) e
      simpa [curSnap] using hi e'⟩
  unfold mechStep
  refine h2.setMe ⟨fun x hx => ⟨x, hx, rfl, rfl, rfl, rfl⟩, fun x hx => ⟨x, hx, rfl, rfl⟩,
    fun x hx => ⟨x, hx, rfl, rfl⟩, fun e he => he, by simp, by simp, by simp, by simp, by simp⟩ (by simp) ?_
  have k := plain_nt_clear (c := c) h.me.k hp mask hm
  refine ⟨fun _ => .inr ⟨?_, ?_, ?_, ?_⟩, fun _ => .inr ?_, ?_⟩
  · exact (NoH_addHandler cl.nF f1).ofEq (by simp)
  · exact NoTM_same (by simp) cl.nTM
  · exact (NoH_addHandler cl.nT f2).ofEq (by simp)
  · intro f; exact absurd (by unfold Fr at *; simpa using f) cl.nFr
  · intro hpl
    exact (k (by simpa using hpl)).congr (by simp) (by simp) (by simp)
  · have := KMask_clear h.me.k (mask ^^^ 0xFFFF)
    unfold KMask at *; simpa using this

end Strophe.Lemmas.ConnC02
