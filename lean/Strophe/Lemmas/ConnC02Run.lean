/-
Running one handler: SASL answers, `<proceed/>`, and the dispatch loops.
-/
import Strophe.Lemmas.ConnC02Handlers

namespace Strophe.Lemmas.ConnC02
open Strophe Strophe.Conn

/-- facts that hold while a stanza is being dispatched -/
structure Ctx (c : Conn) : Prop where
  sup : c.tlsSupport = false
  dl : c.state = .disconnected → NoLateH c
  np : c.pst ≠ .fresh

theorem Ctx.live {c c' : Conn} (x : Ctx c) (f : same_ctx[c, c']) (hl : c.state ≠ .disconnected) : Ctx c' :=
  ⟨by rw [f.2.2.1]; exact x.sup, fun hd => absurd (f.1 ▸ hd) hl, by rw [f.2.1]; exact x.np⟩

theorem Ctx.sameH {c c' : Conn} (x : Ctx c) (f : same_ctx[c, c']) (e1 : c'.handlers = c.handlers)
    (e2 : c'.idHandlers = c.idHandlers) : Ctx c' :=
  ⟨by rw [f.2.2.1]; exact x.sup, fun hd => (x.dl (f.1 ▸ hd)).same e1 e2, by rw [f.2.1]; exact x.np⟩

theorem isS_gated {f : HFun} (h : isS f = true) : gatedFn f = true := by simp [gatedFn, h]

theorem safe_of_gatedH {u : Option Nat} {c : Conn} (g : G u c) {x : Handler} (hx : x ∈ c.handlers)
    (hg : gatedFn x.fn = true) : Safe c := by
  rcases g.gated with ⟨n1, _⟩ | s
  · have := n1 x hx; rw [hg] at this; cases this
  · exact s

/-- what the invariant says when a SASL handler is about to run -/
theorem entry_S {c : Conn} (h : Inv none none c) {x : Handler} (hx : x ∈ c.handlers) (hs : isS x.fn = true) :
    Clear (some x.uid) none c ∧ Safe c ∧
    (c.state ≠ .disconnected → c.saslSupport &&& Gen.saslMaskPlain ≠ 0 → NT c) := by
  have nS : NoH (some x.uid) isS c := by
    intro y hy hp
    rw [h.ph.uniqS x hx y hy hs hp (by simp) (by simp)]
  have k : NoH none isF c ∧ NoTM none c ∧ NoH none isT c := by
    rcases h.ph.excl with ⟨_, b⟩ | ⟨_, b⟩ | ⟨⟨a, a'⟩, b⟩
    · exact (not_NoH_none hx hs b).elim
    · exact (not_NoH_none hx hs b).elim
    · exact ⟨a, a', b⟩
  refine ⟨⟨k.1.weaken, k.2.1, k.2.2.weaken, nS, fun f => not_NoH_none hx hs (h.ph.e5 f).2.2.2,
    fun l => not_NoH_none hx hs (h.ph.e6 l).2.2.2.1⟩, safe_of_gatedH h.g hx (isS_gated hs), ?_⟩
  intro hl
  rcases h.me.i2 hl with a | n
  · exact (not_NoH_none hx hs a).elim
  · exact n

theorem Ctx_auth {c : Conn} (x : Ctx c) (n : Nat) (hn : ¬LateC c) : Ctx (auth c (n + 1)) :=
  ⟨auth_sup n c, fun _ => NoLateH_auth _ _ (NoLateH_of_not_late hn), by rw [(auth_p _ c).2]; exact x.np⟩

theorem Inv_handleSaslResult {c : Conn} (h : Inv none none c) (ctx : Ctx c) {x : Handler} (hx : x ∈ c.handlers)
    (hs : isS x.fn = true) (st : XTree) :
    Inv (some x.uid) none (handleSaslResult c st) ∧ Ctx (handleSaslResult c st) := by
  obtain ⟨cl, s, hp⟩ := entry_S h hx hs
  unfold handleSaslResult
  simp only
  split
  · exact ⟨Inv_auth 3 c h.weaken cl (by simp [ctx.sup]) hp, Ctx_auth ctx 2 cl.nLate⟩
  · split
    · have hg := Inv_ghost_same (u := some x.uid) (ut := none) (c := c) h.weaken { c.g with authOk := true } rfl
      refine ⟨Inv_connOpenStream (Inv_prepareReset hg _
        ⟨cl.nF, cl.nTM, cl.nT, cl.nS⟩ (fun _ => ctx.np) (.inr ⟨?_, s.same rfl rfl rfl rfl⟩)), ?_⟩
      · split <;> simp
      · refine ⟨by simpa using ctx.sup, fun hd => ?_, by simpa using ctx.np⟩
        exact (NoLateH_of_not_late cl.nLate).same (by simp) (by simp)
    · exact ⟨Inv_xmppDisconnect h.weaken, ctx.sameH (by simp) (by simp) (by simp)⟩

/-- a challenge answered by the running SASL handler -/
theorem Inv_response {c : Conn} (h : Inv none none c) (ctx : Ctx c) {x : Handler} (hx : x ∈ c.handlers)
    (hs : isS x.fn = true) (t : Bool) :
    Inv none none (sendStanza c (.response t) .strophe) ∧ Ctx (sendStanza c (.response t) .strophe) := by
  obtain ⟨cl, s, _⟩ := entry_S h hx hs
  refine ⟨Inv_sendStanza_neg h _ (fun _ => by have := s.gateC; unfold GateC at this; exact this) cl.en
    (fun _ => ⟨by simp, by simp, by simp⟩), ctx.sameH (by simp) (by simp) (by simp)⟩

/-- what the invariant says when the `<proceed/>` handler is about to run -/
theorem entry_T {c : Conn} (h : Inv none none c) {x : Handler} (hx : x ∈ c.handlers) (ht : isT x.fn = true) :
    NoH none isF c ∧ NoTM none c ∧ NoH (some x.uid) isT c ∧ NoH none isS c ∧ ¬LateC c ∧
    (c.state ≠ .disconnected → NT c) ∧ c.secured = false := by
  have k : NoH none isF c ∧ NoTM none c ∧ NoH none isS c := by
    rcases h.ph.excl with ⟨a, _⟩ | ⟨⟨a, a'⟩, b⟩ | ⟨_, b⟩
    · exact (not_NoH_none hx ht a).elim
    · exact ⟨a, a', b⟩
    · exact (not_NoH_none hx ht b).elim
  refine ⟨k.1, k.2.1, ?_, k.2.2, fun l => not_NoH_none hx ht (h.ph.e6 l).2.2.1, ?_, ?_⟩
  · intro y hy hp
    rw [h.g.uniq x hx y hy (by simp [ht]) (by rw [isT_eq ht, isT_eq hp])]
  · intro hl
    rcases h.me.i1 hl with n | ⟨_, _, a, _⟩
    · exact n
    · exact (not_NoH_none hx ht a).elim
  · cases hsec : c.secured
    · rfl
    · exact (not_NoH_none hx ht (h.g.noT hsec)).elim

@[simp] theorem connTlsStart_frame (c : Conn) :
    same_cfg[c, (connTlsStart c).1] ∧ same_neg[c, (connTlsStart c).1] ∧ same_io[c, (connTlsStart c).1] ∧
    same_h[c, (connTlsStart c).1] ∧ same_sm[c, (connTlsStart c).1] ∧ same_p[c, (connTlsStart c).1] ∧
    same_t[c, (connTlsStart c).1] ∧ (connTlsStart c).1.state = c.state := by
  unfold connTlsStart; repeat' split
  all_goals simp

theorem Inv_proceedTls {c : Conn} (h : Inv none none c) (ctx : Ctx c) {x : Handler} (hx : x ∈ c.handlers)
    (ht : isT x.fn = true) (st : XTree) :
    Inv (some x.uid) none (runSys c .proceedTls st).1 ∧ Ctx (runSys c .proceedTls st).1 := by
  obtain ⟨nF, nTM, nT, nS, nL, nt, hsec⟩ := entry_T h hx ht
  unfold runSys
  simp only
  split
  · have h1 := Inv_connTlsStart (u := some x.uid) (ut := none) h.weaken hsec nT
    have c1 : Ctx (connTlsStart c).1 :=
      ⟨by simpa using ctx.sup, fun hd => (ctx.dl (by simpa using hd)).same (by simp) (by simp), by simpa using ctx.np⟩
    split
    · refine ⟨Inv_connOpenStream (Inv_prepareReset h1 .openTls
        ⟨(nF.weaken).ofEq (by simp), NoTM_same (by simp) nTM, nT.ofEq (by simp), (nS.weaken).ofEq (by simp)⟩
        (fun _ => by simpa using ctx.np) (.inl ⟨rfl, ?_, fun hl => (nt (by simpa using hl)).congr (by simp) (by simp) (by simp)⟩)), ?_⟩
      · unfold LateC at *; simpa using nL
      · exact ⟨by simpa using ctx.sup, fun hd => (ctx.dl (by simpa using hd)).same (by simp) (by simp),
          by simpa using ctx.np⟩
    · exact ⟨Inv_xmppDisconnect h1, c1.sameH (by simp) (by simp) (by simp)⟩
  · exact ⟨h.weaken, ctx⟩

theorem entry_late {c : Conn} (ctx : Ctx c) {x : Handler} (hx : x ∈ c.handlers) (hl : isLate x.fn = true) :
    LateH c ∧ c.state ≠ .disconnected := by
  refine ⟨.inl ⟨x, hx, hl⟩, fun hd => ?_⟩
  have := (ctx.dl hd).1 x hx
  rw [hl] at this; cases this

theorem entry_lateId {c : Conn} (ctx : Ctx c) {x : Handler} (hx : x ∈ c.idHandlers) (hl : isLate x.fn = true) :
    LateH c ∧ c.state ≠ .disconnected := by
  refine ⟨.inr ⟨x, hx, hl⟩, fun hd => ?_⟩
  have := (ctx.dl hd).2 x hx
  rw [hl] at this; cases this

/-- the result of running one system handler: `R keep c'` -/
def RunOk (uid : Nat) (r : Conn × Bool) : Prop :=
  Ctx r.1 ∧ (r.2 = true → Inv none none r.1) ∧ (r.2 = false → Inv (some uid) none r.1)

theorem RunOk.keep {uid : Nat} {c : Conn} (h : Inv none none c) (x : Ctx c) : RunOk uid (c, true) :=
  ⟨x, fun _ => h, fun e => by simp at e⟩
theorem RunOk.drop {uid : Nat} {c : Conn} (h : Inv (some uid) none c) (x : Ctx c) : RunOk uid (c, false) :=
  ⟨x, fun e => by simp at e, fun _ => h⟩
theorem RunOk.drop' {uid : Nat} {c : Conn} (h : Inv none none c) (x : Ctx c) : RunOk uid (c, false) :=
  RunOk.drop h.weaken x

theorem RunOk.ofDrop {uid : Nat} {r : Conn × Bool} (e : r.2 = false) (h : Inv (some uid) none r.1) (x : Ctx r.1) :
    RunOk uid r :=
  ⟨x, ⟨fun e' => absurd (e ▸ e' : false = true) (by simp), fun _ => h⟩⟩

theorem RunOk.ite {uid : Nat} {p : Prop} [Decidable p] {a b : Conn × Bool} (ha : RunOk uid a) (hb : RunOk uid b) :
    RunOk uid (if p then a else b) := by
  split
  · exact ha
  · exact hb

theorem run_sys {c : Conn} (h : Inv none none c) (ctx : Ctx c) {x : Handler} (hx : x ∈ c.handlers)
    (k : SysH) (hk : x.fn = .sys k) (st : XTree) : RunOk x.uid (runSys c k st) := by
  cases k with
  | error =>
    exact RunOk.keep (Inv_handleError h st) (ctx.sameH (handleError_frame c st).1 (handleError_frame c st).2.1
      (handleError_frame c st).2.2)
  | features =>
    have hf : isF x.fn = true := by rw [hk]; rfl
    refine RunOk.drop (Inv_handleFeatures h ctx.sup hx hf st) ⟨handleFeatures_sup c st, fun _ => ?_, ?_⟩
    · exact NoLateH_handleFeatures (NoLateH_of_not_late (entry_F h hx hf).2.2.2.2.1) st
    · rw [(handleFeatures_p c st).2]; exact ctx.np
  | featuresSasl =>
    obtain ⟨l, hl⟩ := entry_late ctx hx (by rw [hk]; rfl)
    exact RunOk.drop' (Inv_handleFeaturesSasl h l.late (l.safe h.g) st) (ctx.live (handleFeaturesSasl_frame c st) hl)
  | featuresCompress =>
    obtain ⟨l, hl⟩ := entry_late ctx hx (by rw [hk]; rfl)
    exact RunOk.drop' (Inv_handleFeaturesCompress h l.late (l.safe h.g) st)
      (ctx.live (handleFeaturesCompress_frame c st) hl)
  | proceedTls =>
    have ht : isT x.fn = true := by rw [hk]; rfl
    have := Inv_proceedTls h ctx hx ht st
    have e : (runSys c .proceedTls st).2 = false := by
      unfold runSys; simp only; repeat' split
      all_goals rfl
    exact RunOk.ofDrop e this.1 this.2
  | saslResult m =>
    have hs : isS x.fn = true := by rw [hk]; rfl
    have := Inv_handleSaslResult h ctx hx hs st
    exact RunOk.drop this.1 this.2
  | digestChallenge =>
    have hs : isS x.fn = true := by rw [hk]; rfl
    obtain ⟨cl, s, hp⟩ := entry_S h hx hs
    unfold runSys; simp only
    split
    · split
      · have h1 := Inv_addHandler (u := some x.uid) (ut := none) h.weaken (.sys .digestRspauth) 0 (some Gen.nsSasl) none
          none false (by simp [isF]) (by simp [isT])
          (fun _ => ⟨s, cl.nF, cl.nTM, cl.nT, cl.nS, cl.nFr, cl.nLate, hp⟩) (by simp [isLate]) (by simp)
        refine RunOk.drop (Inv_sendStanza_neg h1 _ (fun _ => by have := s.gateC; unfold GateC at this; simpa using this)
          (by simpa using cl.en) (fun _ => ⟨by simp, by simp, by simp⟩)) ?_
        refine ⟨by simpa using ctx.sup, fun hd => ?_, by simpa using ctx.np⟩
        exact (NoLateH_addHandler (NoLateH_of_not_late cl.nLate) (.sys .digestRspauth) 0 (some Gen.nsSasl) none
          none false rfl).same (by simp) (by simp)
      · exact RunOk.drop' (Inv_xmppDisconnect h) (ctx.sameH (by simp) (by simp) (by simp))
    · have := Inv_handleSaslResult h ctx hx hs st
      exact RunOk.drop this.1 this.2
  | digestRspauth =>
    have hs : isS x.fn = true := by rw [hk]; rfl
    unfold runSys; simp only
    split
    · have := Inv_response h ctx hx hs false
      exact RunOk.keep this.1 this.2
    · have := Inv_handleSaslResult h ctx hx hs st
      exact RunOk.drop this.1 this.2
  | scramChallenge ctx' alg =>
    have hs : isS x.fn = true := by rw [hk]; rfl
    unfold runSys; simp only
    split
    · have := Inv_response h ctx hx hs true
      exact RunOk.ite (RunOk.keep this.1 this.2)
        (RunOk.drop' (Inv_xmppDisconnect h) (ctx.sameH (by simp) (by simp) (by simp)))
    · have := Inv_handleSaslResult h ctx hx hs st
      exact RunOk.drop this.1 this.2
  | sm =>
    obtain ⟨l, hl⟩ := entry_late ctx hx (by rw [hk]; rfl)
    unfold runSys; simp only
    exact RunOk.ite (RunOk.keep h ctx)
      (RunOk.drop' (Inv_handleSm h l hl st) (ctx.live (handleSm_frame c st) hl))
  | compressResult =>
    obtain ⟨l, hl⟩ := entry_late ctx hx (by rw [hk]; rfl)
    unfold runSys; simp only
    split
    · obtain ⟨a, b, d, e, _⟩ := h.ph.e6 l.late
      have h1 := Inv_prepareReset h .openSasl ⟨a, b, d, e⟩ (fun _ => ctx.np) (.inr ⟨.inl rfl, l.safe h.g⟩)
      refine RunOk.drop' (Inv_connOpenStream (h1.same (by simp [SameAll]))) (ctx.live (by simp) hl)
    · exact RunOk.drop' h ctx
  | componentHs =>
    unfold runSys; simp only
    split
    · exact RunOk.keep (Inv_xmppDisconnect (Inv_delTimed h _)) (ctx.sameH (by simp) (by simp) (by simp))
    · exact RunOk.drop' (Inv_negotiationSuccess (Inv_ghost_same (Inv_delTimed h _) _ rfl))
        (ctx.sameH (by simp) (by simp) (by simp))
  | bind =>
    obtain ⟨l, hl⟩ := entry_late ctx hx (by rw [hk]; rfl)
    exact RunOk.drop' (Inv_handleBind h l hl st) (ctx.live (handleBind_frame c st) hl)
  | session =>
    obtain ⟨l, hl⟩ := entry_late ctx hx (by rw [hk]; rfl)
    exact RunOk.drop' (Inv_handleSession h l hl st) (ctx.live (handleSession_frame c st) hl)
  | legacy =>
    exact RunOk.drop' (Inv_handleLegacy h st) (ctx.sameH (handleLegacy_frame c st).1 (handleLegacy_frame c st).2.1
      (handleLegacy_frame c st).2.2)

/-! ### the dispatch loops -/

theorem idFn_cases {f : HFun} (h : idFnOk f = true) :
    f = .sys .bind ∨ f = .sys .session ∨ f = .sys .legacy ∨ f = .userAll := by
  cases f with
  | userAll => simp
  | sys k => cases k <;> simp_all [idFnOk]

theorem run_id {c : Conn} (h : Inv none none c) (ctx : Ctx c) {x : Handler} (hx : x ∈ c.idHandlers) (st : XTree) :
    Inv none none (runHandler c x st).1 ∧ Ctx (runHandler c x st).1 := by
  unfold runHandler
  rcases idFn_cases (h.ph.idFn x hx) with e | e | e | e <;> rw [e] <;> simp only [runSys]
  · obtain ⟨l, hl⟩ := entry_lateId ctx hx (by rw [e]; rfl)
    exact ⟨Inv_handleBind h l hl st, ctx.live (handleBind_frame c st) hl⟩
  · obtain ⟨l, hl⟩ := entry_lateId ctx hx (by rw [e]; rfl)
    exact ⟨Inv_handleSession h l hl st, ctx.live (handleSession_frame c st) hl⟩
  · exact ⟨Inv_handleLegacy h st, ctx.sameH (handleLegacy_frame c st).1 (handleLegacy_frame c st).2.1
      (handleLegacy_frame c st).2.2⟩
  · exact ⟨Inv_notify h _, ctx.sameH (by simp) (by simp) (by simp)⟩

/-- the properties the dispatch loops maintain -/
def Disp (c : Conn) : Prop := Inv none none c ∧ Ctx c

theorem NoLateH.sub {c c' : Conn} (n : NoLateH c) (h1 : ∀ x' ∈ c'.handlers, ∃ x ∈ c.handlers, x'.fn = x.fn)
    (h2 : ∀ x' ∈ c'.idHandlers, ∃ x ∈ c.idHandlers, x'.fn = x.fn) : NoLateH c' := by
  refine ⟨fun x' hx' => ?_, fun x' hx' => ?_⟩
  · obtain ⟨x, hx, e⟩ := h1 x' hx'; rw [e]; exact n.1 x hx
  · obtain ⟨x, hx, e⟩ := h2 x' hx'; rw [e]; exact n.2 x hx

theorem Disp_fireIdOne {c : Conn} (d : Disp c) (st : XTree) (uid : Nat) : Disp (fireIdOne st c uid) := by
  unfold fireIdOne
  split
  · exact d
  · rename_i x hf
    have hx := List.mem_of_find?_eq_some hf
    split
    · exact d
    · have r := run_id d.1 d.2 hx st
      simp only
      split
      · exact r
      · refine ⟨Inv_filterIdHandlers r.1 _, ⟨r.2.sup, fun hd => (r.2.dl hd).sub (fun y hy => ⟨y, hy, rfl⟩) ?_, r.2.np⟩⟩
        intro y hy
        exact ⟨y, (List.mem_filter.1 hy).1, rfl⟩

theorem Disp_fireOne {c : Conn} (d : Disp c) (st : XTree) (uid : Nat) : Disp (fireOne st c uid) := by
  unfold fireOne
  split
  · exact d
  · rename_i x hf
    have hx := List.mem_of_find?_eq_some hf
    have hu : x.uid = uid := by simpa using List.find?_some hf
    split
    · exact d
    · split
      · unfold runHandler
        cases hfn : x.fn with
        | userAll =>
          simp only
          exact ⟨Inv_notify d.1 _, d.2.sameH (by simp) (by simp) (by simp)⟩
        | sys k =>
          simp only
          have r := run_sys d.1 d.2 hx k hfn st
          split
          · rename_i hk; exact ⟨r.2.1 hk, r.1⟩
          · rename_i hk
            have hk' : (runSys c k st).2 = false := by simpa using hk
            have := (r.2.2 hk').unexempt x.uid
            rw [hu] at this
            refine ⟨this, ⟨r.1.sup, fun hd => (r.1.dl hd).sub ?_ (fun y hy => ⟨y, hy, rfl⟩), r.1.np⟩⟩
            intro y hy
            exact ⟨y, (List.mem_filter.1 hy).1, rfl⟩
      · exact d

theorem foldl_pres {α : Type} {P : Conn → Prop} (f : Conn → α → Conn) (hf : ∀ c a, P c → P (f c a))
    (l : List α) (c : Conn) (h : P c) : P (l.foldl f c) := by
  induction l generalizing c with
  | nil => exact h
  | cons a l ih => exact ih _ (hf c a h)

theorem Disp_mapHandlers {c : Conn} (d : Disp c) (f : Handler → Handler)
    (hf : ∀ h, (f h).fn = h.fn ∧ (f h).uid = h.uid ∧ (f h).ud = h.ud ∧ (f h).user = h.user) :
    Disp { c with handlers := c.handlers.map f } := by
  refine ⟨d.1.mono ⟨?_, fun x hx => ⟨x, hx, rfl, rfl⟩, fun x hx => ⟨x, hx, rfl, rfl, rfl⟩, fun _ he => he,
    by simp, by simp, by simp, by simp, by simp⟩ (by simp), ⟨d.2.sup, fun hd => (d.2.dl hd).sub ?_ (fun y hy => ⟨y, hy, rfl⟩),
      d.2.np⟩⟩
  · intro x hx
    obtain ⟨y, hy, rfl⟩ := List.mem_map.1 hx
    exact ⟨y, hy, (hf y).1, (hf y).2.1, (hf y).2.2.1, (hf y).2.2.2⟩
  · intro x hx
    obtain ⟨y, hy, rfl⟩ := List.mem_map.1 hx
    exact ⟨y, hy, (hf y).1⟩

theorem Disp_mapIdHandlers {c : Conn} (d : Disp c) (f : Handler → Handler)
    (hf : ∀ h, (f h).fn = h.fn ∧ (f h).user = h.user) :
    Disp { c with idHandlers := c.idHandlers.map f } := by
  refine ⟨d.1.mono ⟨fun x hx => ⟨x, hx, rfl, rfl, rfl, rfl⟩, ?_, fun x hx => ⟨x, hx, rfl, rfl, rfl⟩, fun _ he => he,
    by simp, by simp, by simp, by simp, by simp⟩ (by simp), ⟨d.2.sup, fun hd => (d.2.dl hd).sub (fun y hy => ⟨y, hy, rfl⟩) ?_,
      d.2.np⟩⟩
  · intro x hx
    obtain ⟨y, hy, rfl⟩ := List.mem_map.1 hx
    exact ⟨y, hy, (hf y).1, (hf y).2⟩
  · intro x hx
    obtain ⟨y, hy, rfl⟩ := List.mem_map.1 hx
    exact ⟨y, hy, (hf y).1⟩

/-- the id-handler phase of `handler_fire_stanza` -/
def idPhase (c : Conn) (st : XTree) : Conn :=
  match st.attr (b "id") with
  | some id =>
    let c0 : Conn := { c with idHandlers := c.idHandlers.map fun (h : Handler) => if h.id = some id then { h with enabled := true } else h }
    ((c0.idHandlers.filter (·.id = some id)).map (·.uid)).foldl (fireIdOne st) c0
  | none => c

theorem fireStanza_eq (c : Conn) (st : XTree) : fireStanza c st =
    ((idPhase { c with handlers := c.handlers.map fun (h : Handler) => { h with enabled := true } } st).handlers.map
      (·.uid)).foldl (fireOne st)
      (idPhase { c with handlers := c.handlers.map fun (h : Handler) => { h with enabled := true } } st) := rfl

theorem Disp_idPhase {c : Conn} (d : Disp c) (st : XTree) : Disp (idPhase c st) := by
  unfold idPhase
  split
  · rename_i id _
    have d0 := Disp_mapIdHandlers d (fun (h : Handler) => if h.id = some id then { h with enabled := true } else h)
      (fun h => by split <;> simp)
    exact foldl_pres (P := Disp) (fireIdOne st) (fun c a h => Disp_fireIdOne h st a) _ _ d0
  · exact d

theorem Disp_fireStanza {c : Conn} (d : Disp c) (st : XTree) : Disp (fireStanza c st) := by
  rw [fireStanza_eq]
  have d1 := Disp_mapHandlers d (fun (h : Handler) => { h with enabled := true }) (fun h => ⟨rfl, rfl, rfl, rfl⟩)
  exact foldl_pres (P := Disp) (fireOne st) (fun c a h => Disp_fireOne h st a) _ _ (Disp_idPhase d1 st)

end Strophe.Lemmas.ConnC02
