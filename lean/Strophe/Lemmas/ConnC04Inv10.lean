/-
Only what the application submitted is ever counted: library elements are queued in the XEP-0198
class (never counted) — either because they are queued as such, or because stream management is
off when they are queued (`pushRawWith` then moves them into that class).
-/
import Strophe.Lemmas.ConnC04Inv9
import Strophe.Lemmas.ConnC04Inv1

namespace Strophe.Lemmas.ConnC04
open Strophe Strophe.Conn

variable {c : Conn}

/-- a queue element that would be counted is a user item -/
def UOk (e : QElem) : Prop := e.owner ≠ .smStrophe → e.item.isUserItem = true

structure QOV (q : List QElem) (sq : List (UInt32 × QElem)) (tx : List TxRec) : Prop where
  q : ∀ e ∈ q, UOk e
  s : ∀ x ∈ sq, x.2.item.isUserItem = true
  t : ∀ r ∈ tx, r.smNum.isSome = true → r.item.isUserItem = true

def QO (c : Conn) : Prop := QOV c.queue c.sm.queue c.tx

/-- a library element with this owner ends up in the XEP-0198 class -/
def OwnOk (o : Owner) (c : Conn) : Prop := o = .smStrophe ∨ (o = .strophe ∧ c.sm.enabled = false)

variable {w : Owner}

theorem OwnOk_pushRawWith {it o sn} (h : OwnOk w c) : OwnOk w (pushRawWith c it o sn) := by
  unfold OwnOk; rw [(pushRawWith_same c it o sn).en]; exact h

theorem OwnOk_triggerSmCallback (h : OwnOk w c) : OwnOk w (triggerSmCallback c) := h
theorem OwnOk_addHandler {fn ud ns name type user} (h : OwnOk w c) : OwnOk w (addHandler c fn ud ns name type user) := by
  c4auto addHandler
theorem OwnOk_addIdHandler {fn id user} (h : OwnOk w c) : OwnOk w (addIdHandler c fn id user) := by
  c4auto addIdHandler
theorem OwnOk_addTimed {fn period user} (h : OwnOk w c) : OwnOk w (addTimed c fn period user) := by
  c4auto addTimed
theorem OwnOk_delTimed {fn} (h : OwnOk w c) : OwnOk w (delTimed c fn) := by
  c4auto delTimed
theorem OwnOk_resetTimed (h : OwnOk w c) : OwnOk w (resetTimed c) := by
  c4auto resetTimed
theorem OwnOk_notify {e} (h : OwnOk w c) : OwnOk w (notify c e) := by
  c4auto notify
theorem OwnOk_pushRaw {it o} (h : OwnOk w c) : OwnOk w (pushRaw c it o) := by
  c4auto pushRaw
theorem OwnOk_sendStanza {it o} (h : OwnOk w c) : OwnOk w (sendStanza c it o) := by
  c4auto sendStanza
theorem OwnOk_sendRaw {it o} (h : OwnOk w c) : OwnOk w (sendRaw c it o) := by
  c4auto sendRaw
theorem OwnOk_sendRawString {it} (h : OwnOk w c) : OwnOk w (sendRawString c it) := by
  c4auto sendRawString
theorem OwnOk_xmppDisconnect (h : OwnOk w c) : OwnOk w (xmppDisconnect c) := by
  c4auto xmppDisconnect
theorem OwnOk_connTlsStart (h : OwnOk w c) : OwnOk w ((connTlsStart c).1) := by
  c4auto connTlsStart
theorem OwnOk_connOpenStream (h : OwnOk w c) : OwnOk w (connOpenStream c) := by
  c4auto connOpenStream
theorem OwnOk_prepareReset {o} (h : OwnOk w c) : OwnOk w (prepareReset c o) := h
theorem OwnOk_negotiationSuccess (h : OwnOk w c) : OwnOk w (negotiationSuccess c) := by
  c4auto negotiationSuccess
theorem OwnOk_authLegacyStep (h : OwnOk w c) : OwnOk w (authLegacyStep c) := by
  c4auto authLegacyStep
theorem OwnOk_saslChild {t} (h : OwnOk w c) : OwnOk w (saslChild c t) := by
  c4auto saslChild
theorem OwnOk_noteOffers {st} (h : OwnOk w c) : OwnOk w (noteOffers c st) := by
  c4auto noteOffers
theorem OwnOk_compressionOffer {st} (h : OwnOk w c) : OwnOk w (compressionOffer c st) := by
  c4auto compressionOffer

theorem ownerOf_ok (h : OwnOk w c) : ownerOf c w = .smStrophe := by
  unfold ownerOf
  rcases h with h | ⟨h1, h2⟩
  · rw [h]; rfl
  · rw [h1, h2]; rfl

theorem QO_pushCore {it ow sn} (h : QO c) (hok : ow = .smStrophe ∨ it.isUserItem = true) : QO (pushCore c it ow sn) := by
  have key : ∀ q' : List QElem, (∀ e ∈ q', e ∈ c.queue ∨ (e.item = it ∧ e.owner = ow) ∨ e.owner = .smStrophe) →
      QOV q' c.sm.queue c.tx := by
    intro q' hq
    refine ⟨?_, h.s, h.t⟩
    intro e he
    rcases hq e he with h1 | ⟨h1, h2⟩ | h1
    · exact h.q e h1
    · intro hne
      rcases hok with hk | hk
      · rw [h2, hk] at hne; exact absurd rfl hne
      · rw [h1]; exact hk
    · intro hne; exact absurd h1 hne
  unfold pushCore
  dsimp only
  split
  · split
    · apply key
      intro e he
      rcases List.mem_append.1 he with he | he
      · rcases List.mem_append.1 he with he | he
        · exact .inl he
        · simp only [List.mem_singleton] at he; subst he; exact .inr (.inl ⟨rfl, rfl⟩)
      · simp only [List.mem_singleton] at he; subst he; exact .inr (.inr rfl)
    · apply key
      intro e he
      rcases List.mem_append.1 he with he | he
      · exact .inl he
      · simp only [List.mem_singleton] at he; subst he; exact .inr (.inl ⟨rfl, rfl⟩)
  · apply key
    intro e he
    rcases List.mem_append.1 he with he | he
    · exact .inl he
    · simp only [List.mem_singleton] at he; subst he; exact .inr (.inl ⟨rfl, rfl⟩)

theorem QO_pushRawWith {it o sn} (h : QO c) (hok : OwnOk o c) : QO (pushRawWith c it o sn) := by
  rw [pushRawWith_eq]
  exact QO_pushCore h (.inl (ownerOf_ok hok))

theorem QO_pushUserItem {it ow sn} (h : QO c) (hu : it.isUserItem = true) : QO (pushRawWith c it ow sn) := by
  rw [pushRawWith_eq]
  exact QO_pushCore h (.inr hu)

/-! ### QO: basic operations -/

theorem QO_rec1 {s' : SmState} {bj : Option Bytes} {g' : Ghost} {hs : Bool} (h : QO c) (hq : QSub c s') :
    QO { c with sm := s', boundJid := bj, g := g', hasSm := hs } :=
  ⟨h.q, fun x hx => h.s x (hq x hx), h.t⟩

theorem QO_resetSmForReconnect (h : QO c) : QO (resetSmForReconnect c) := by
  obtain ⟨h1, _, _, h4, h5, _⟩ := resetSmForReconnect_same c
  unfold QO; rw [h1, h4, h5]; exact h

theorem QO_triggerSmCallback (h : QO c) : QO (triggerSmCallback c) := h
theorem QO_addHandler {fn ud ns name type user} (h : QO c) : QO (addHandler c fn ud ns name type user) := by
  have hs : OwnOk .smStrophe c := .inl rfl
  c4auto addHandler
theorem QO_addIdHandler {fn id user} (h : QO c) : QO (addIdHandler c fn id user) := by
  have hs : OwnOk .smStrophe c := .inl rfl
  c4auto addIdHandler
theorem QO_addTimed {fn period user} (h : QO c) : QO (addTimed c fn period user) := by
  have hs : OwnOk .smStrophe c := .inl rfl
  c4auto addTimed
theorem QO_delTimed {fn} (h : QO c) : QO (delTimed c fn) := by
  have hs : OwnOk .smStrophe c := .inl rfl
  c4auto delTimed
theorem QO_resetTimed (h : QO c) : QO (resetTimed c) := by
  have hs : OwnOk .smStrophe c := .inl rfl
  c4auto resetTimed
theorem QO_systemDeleteAll (h : QO c) : QO (systemDeleteAll c) := by
  have hs : OwnOk .smStrophe c := .inl rfl
  c4auto systemDeleteAll
theorem QO_notify {e} (h : QO c) : QO (notify c e) := by
  have hs : OwnOk .smStrophe c := .inl rfl
  c4auto notify
theorem QO_connDisconnect (h : QO c) : QO (connDisconnect c) := by
  have hs : OwnOk .smStrophe c := .inl rfl
  c4auto connDisconnect

theorem QO_pushRaw {it o} (h : QO c) (hok : OwnOk o c) : QO (pushRaw c it o) := by
  unfold pushRaw; exact QO_pushRawWith h hok
theorem QO_sendStanza {it o} (h : QO c) (hok : OwnOk o c) : QO (sendStanza c it o) := by
  unfold sendStanza; split
  · exact QO_pushRaw h hok
  · exact h
theorem QO_sendRaw {it o} (h : QO c) (hok : OwnOk o c) : QO (sendRaw c it o) := by
  unfold sendRaw; split
  · exact QO_pushRaw h hok
  · exact h
theorem QO_sendRawString {it} (h : QO c) : QO (sendRawString c it) := by
  unfold sendRawString; split
  · exact QO_pushRaw h (.inl rfl)
  · exact h

theorem QO_xmppDisconnect (h : QO c) : QO (xmppDisconnect c) := by
  have hs : OwnOk .smStrophe c := .inl rfl
  c4auto xmppDisconnect
  all_goals (first | exact fun x h => h | (intro x hx; exact (List.dropWhile_sublist _).subset hx) | (intro x hx; cases hx))
theorem QO_connTlsStart (h : QO c) : QO ((connTlsStart c).1) := by
  have hs : OwnOk .smStrophe c := .inl rfl
  c4auto connTlsStart
  all_goals (first | exact fun x h => h | (intro x hx; exact (List.dropWhile_sublist _).subset hx) | (intro x hx; cases hx))
theorem QO_connOpenStream (h : QO c) : QO (connOpenStream c) := by
  have hs : OwnOk .smStrophe c := .inl rfl
  c4auto connOpenStream
  all_goals (first | exact fun x h => h | (intro x hx; exact (List.dropWhile_sublist _).subset hx) | (intro x hx; cases hx))
theorem QO_prepareReset {o} (h : QO c) : QO (prepareReset c o) := h
theorem QO_negotiationSuccess (h : QO c) : QO (negotiationSuccess c) := by
  have h1 : QO (notify { c with negotiated := true } .connect) := QO_notify (c := { c with negotiated := true }) h
  unfold negotiationSuccess
  dsimp only
  refine pred_ite (P := QO) (fun _ => ?_) (fun _ => h1)
  unfold sendStanza pushRaw
  refine pred_ite (P := QO) (fun _ => QO_pushUserItem h1 rfl) (fun _ => h1)
theorem QO_saslChild {t} (h : QO c) : QO (saslChild c t) := by
  have hs : OwnOk .smStrophe c := .inl rfl
  c4auto saslChild
  all_goals (first | exact fun x h => h | (intro x hx; exact (List.dropWhile_sublist _).subset hx) | (intro x hx; cases hx))
theorem QO_noteOffers {st} (h : QO c) : QO (noteOffers c st) := by
  have hs : OwnOk .smStrophe c := .inl rfl
  c4auto noteOffers
  all_goals (first | exact fun x h => h | (intro x hx; exact (List.dropWhile_sublist _).subset hx) | (intro x hx; cases hx))
theorem QO_smEnable (h : QO c) : QO (smEnable c) := by
  have hs : OwnOk .smStrophe c := .inl rfl
  c4auto smEnable
  all_goals (first | exact fun x h => h | (intro x hx; exact (List.dropWhile_sublist _).subset hx) | (intro x hx; cases hx))
theorem QO_compressionOffer {st} (h : QO c) : QO (compressionOffer c st) := by
  have hs : OwnOk .smStrophe c := .inl rfl
  c4auto compressionOffer
  all_goals (first | exact fun x h => h | (intro x hx; exact (List.dropWhile_sublist _).subset hx) | (intro x hx; cases hx))
theorem QO_handleSession {st} (h : QO c) : QO (handleSession c st) := by
  have hs : OwnOk .smStrophe c := .inl rfl
  c4auto handleSession
  all_goals (first | exact fun x h => h | (intro x hx; exact (List.dropWhile_sublist _).subset hx) | (intro x hx; cases hx))
theorem QO_handleLegacy {st} (h : QO c) : QO (handleLegacy c st) := by
  have hs : OwnOk .smStrophe c := .inl rfl
  c4auto handleLegacy
  all_goals (first | exact fun x h => h | (intro x hx; exact (List.dropWhile_sublist _).subset hx) | (intro x hx; cases hx))
theorem QO_handleError {st} (h : QO c) : QO (handleError c st) := by
  have hs : OwnOk .smStrophe c := .inl rfl
  c4auto handleError
  all_goals (first | exact fun x h => h | (intro x hx; exact (List.dropWhile_sublist _).subset hx) | (intro x hx; cases hx))
theorem QO_smElement {st} (h : QO c) : QO (smHandleStanza.smElement c st) := by
  have hs : OwnOk .smStrophe c := .inl rfl
  c4auto smHandleStanza.smElement
  all_goals (first | exact fun x h => h | (intro x hx; exact (List.dropWhile_sublist _).subset hx) | (intro x hx; cases hx))
theorem QO_smHandleStanza {st} (h : QO c) : QO (smHandleStanza c st) := by
  have hs : OwnOk .smStrophe c := .inl rfl
  c4auto smHandleStanza
  all_goals (first | exact fun x h => h | (intro x hx; exact (List.dropWhile_sublist _).subset hx) | (intro x hx; cases hx))
theorem QO_componentOpen (h : QO c) : QO (componentOpen c) := by
  have hs : OwnOk .smStrophe c := .inl rfl
  c4auto componentOpen
  all_goals (first | exact fun x h => h | (intro x hx; exact (List.dropWhile_sublist _).subset hx) | (intro x hx; cases hx))
theorem QO_runOpenHandler (h : QO c) : QO (runOpenHandler c) := by
  have hs : OwnOk .smStrophe c := .inl rfl
  c4auto runOpenHandler
  all_goals (first | exact fun x h => h | (intro x hx; exact (List.dropWhile_sublist _).subset hx) | (intro x hx; cases hx))
theorem QO_handleStreamStart {n id} (h : QO c) : QO (handleStreamStart c n id) := by
  have hs : OwnOk .smStrophe c := .inl rfl
  c4auto handleStreamStart
  all_goals (first | exact fun x h => h | (intro x hx; exact (List.dropWhile_sublist _).subset hx) | (intro x hx; cases hx))
theorem QO_handleStreamEnd (h : QO c) : QO (handleStreamEnd c) := by
  have hs : OwnOk .smStrophe c := .inl rfl
  c4auto handleStreamEnd
  all_goals (first | exact fun x h => h | (intro x hx; exact (List.dropWhile_sublist _).subset hx) | (intro x hx; cases hx))
theorem QO_connEstablished (h : QO c) : QO (connEstablished c) := by
  have hs : OwnOk .smStrophe c := .inl rfl
  c4auto connEstablished
  all_goals (first | exact fun x h => h | (intro x hx; exact (List.dropWhile_sublist _).subset hx) | (intro x hx; cases hx))
theorem QO_release (h : QO c) : QO (release c) := by
  have hs : OwnOk .smStrophe c := .inl rfl
  c4auto release
  all_goals (first | exact fun x h => h | (intro x hx; exact (List.dropWhile_sublist _).subset hx) | (intro x hx; cases hx))
theorem QO_setFlags {f} (h : QO c) : QO ((setFlags c f).1) := by
  have hs : OwnOk .smStrophe c := .inl rfl
  c4auto setFlags
  all_goals (first | exact fun x h => h | (intro x hx; exact (List.dropWhile_sublist _).subset hx) | (intro x hx; cases hx))

/-! ### QO: library elements queued while stream management is off -/

theorem QO_authLegacyStep (h : QO c) (ho : Off c) : QO (authLegacyStep c) := by
  have hs : OwnOk .smStrophe c := .inl rfl; have hst : OwnOk .strophe c := .inr ⟨rfl, ho.1⟩
  c4auto authLegacyStep
  all_goals (first | exact fun x h => h | (intro x hx; exact (List.dropWhile_sublist _).subset hx) | (intro x hx; cases hx))
theorem QO_auth (n : Nat) : ∀ {c}, QO c → Off c → QO (auth c n) := by
  induction n with
  | zero => intro c h _; exact h
  | succ n ih =>
    intro c h ho
    have hs : OwnOk .smStrophe c := .inl rfl; have hst : OwnOk .strophe c := .inr ⟨rfl, ho.1⟩
    rw [auth]
    dsimp only
    c4trav
    all_goals first | (apply ih <;> c4trav) | skip
theorem QO_authTop (h : QO c) (ho : Off c) : QO (authTop c) := QO_auth _ h ho
theorem QO_doBind (h : QO c) (ho : Off c) : QO (doBind c) := by
  have hs : OwnOk .smStrophe c := .inl rfl; have hst : OwnOk .strophe c := .inr ⟨rfl, ho.1⟩
  c4auto doBind
  all_goals (first | exact fun x h => h | (intro x hx; exact (List.dropWhile_sublist _).subset hx) | (intro x hx; cases hx))
theorem QO_sessionStart (h : QO c) (ho : Off c) : QO (sessionStart c) := by
  have hs : OwnOk .smStrophe c := .inl rfl; have hst : OwnOk .strophe c := .inr ⟨rfl, ho.1⟩
  c4auto sessionStart
  all_goals (first | exact fun x h => h | (intro x hx; exact (List.dropWhile_sublist _).subset hx) | (intro x hx; cases hx))
theorem QO_handleFeaturesSasl {st} (h : QO c) (ho : Off c) : QO (handleFeaturesSasl c st) := by
  have hs : OwnOk .smStrophe c := .inl rfl; have hst : OwnOk .strophe c := .inr ⟨rfl, ho.1⟩
  c4auto handleFeaturesSasl
  all_goals (first | exact fun x h => h | (intro x hx; exact (List.dropWhile_sublist _).subset hx) | (intro x hx; cases hx))
theorem QO_handleFeaturesCompress {st} (h : QO c) (ho : Off c) : QO (handleFeaturesCompress c st) := by
  have hs : OwnOk .smStrophe c := .inl rfl; have hst : OwnOk .strophe c := .inr ⟨rfl, ho.1⟩
  c4auto handleFeaturesCompress
  all_goals (first | exact fun x h => h | (intro x hx; exact (List.dropWhile_sublist _).subset hx) | (intro x hx; cases hx))
theorem QO_handleSaslResult {st} (h : QO c) (ho : Off c) : QO (handleSaslResult c st) := by
  have hs : OwnOk .smStrophe c := .inl rfl; have hst : OwnOk .strophe c := .inr ⟨rfl, ho.1⟩
  c4auto handleSaslResult
  all_goals (first | exact fun x h => h | (intro x hx; exact (List.dropWhile_sublist _).subset hx) | (intro x hx; cases hx))
theorem QO_handleBind {st} (h : QO c) (ho : Off c) : QO (handleBind c st) := by
  have hs : OwnOk .smStrophe c := .inl rfl; have hst : OwnOk .strophe c := .inr ⟨rfl, ho.1⟩
  c4auto handleBind
  all_goals (first | exact fun x h => h | (intro x hx; exact (List.dropWhile_sublist _).subset hx) | (intro x hx; cases hx))

theorem QO_hf2 {st} (h : QO c) (ho : Off c) : QO (hf2 c st) := by
  c4auto hf2

theorem QO_hsmTail {hb wr} (h : QO c) (ho : Off c) : QO (hsmTail c hb wr) := by
  have hs : OwnOk .smStrophe c := .inl rfl
  c4auto hsmTail

/-! ### QO: retransmission, `_handle_sm` -/

theorem QO_resendLoop : ∀ (q : List (UInt32 × QElem)) (c0 : Conn), (∀ x ∈ q, x.2.item.isUserItem = true) → QO c0 →
    QO (resendLoop q c0)
  | [], _, _, h => h
  | e :: q, c0, hq, h => by
    unfold resendLoop
    rw [List.foldl_cons]
    refine QO_resendLoop q _ (fun x hx => hq x (List.mem_cons_of_mem _ hx)) ?_
    split
    · exact QO_pushUserItem h (hq e List.mem_cons_self)
    · exact h

/-- `_sm_queue_resend` after the record was replaced by one that retains a part of the old queue -/
theorem QO_resend {s' : SmState} {bj : Option Bytes} {g' : Ghost} (h : QO c) (hq : QSub c s') :
    QO (negotiationSuccess (smQueueResend { c with sm := s', boundJid := bj, g := g' })) := by
  apply QO_negotiationSuccess
  rw [smQueueResend_eq]
  refine QO_resendLoop _ _ (fun x hx => h.s x (hq x hx)) ?_
  exact ⟨h.q, fun x hx => (by cases hx), h.t⟩

theorem QO_smQueueResend (h : QO c) : QO (smQueueResend c) := by
  rw [smQueueResend_eq]
  exact QO_resendLoop _ _ h.s ⟨h.q, fun x hx => (by cases hx), h.t⟩

theorem QO_handleSm {st} (h : QO c) : QO (handleSm c st) := by
  refine handleSm_cases QO c st ?_ ?_ ?_ ?_
  · intro s' _ hk
    exact QO_rec1 (c := c) (bj := c.boundJid) (g' := c.g) (hs := c.hasSm) h (fun x hx => by rw [hk.queue] at hx; exact hx)
  · intro _ _ s' hk
    exact QO_resend (c := c) (bj := c.boundJid) (g' := c.g) h (fun x hx => by rw [hk.queue] at hx; exact hx)
  · intro ours v _ _ _
    exact QO_resend (c := c) h (fun x hx => (List.dropWhile_sublist _).subset hx)
  · intro s' hk _ hb wr _
    refine QO_hsmTail (c := { c with sm := s' }) ?_ ⟨hk.enabled, hk.id⟩
    exact QO_rec1 (c := c) (bj := c.boundJid) (g' := c.g) (hs := c.hasSm) h (fun x hx => hk.queue.subset hx)

/-! ### QO: the write loop -/

theorem retire_QOs {e} (hs : ∀ x ∈ c.sm.queue, x.2.item.isUserItem = true)
    (ht : ∀ r ∈ c.tx, r.smNum.isSome = true → r.item.isUserItem = true) (he : UOk e) :
    (∀ x ∈ (retire c e).sm.queue, x.2.item.isUserItem = true) ∧
    (∀ r ∈ (retire c e).tx, r.smNum.isSome = true → r.item.isUserItem = true) := by
  have hsm : (!e.owner.smBit) = true → e.owner ≠ .smStrophe := by
    intro hb hn; rw [hn] at hb; cases hb
  unfold retire triggerSmCallback
  dsimp only
  split
  · rename_i hb
    have hb1 : (!e.owner.smBit) = true := by
      simp only [Bool.and_eq_true] at hb; exact hb.1
    have hu := he (hsm hb1)
    refine ⟨?_, ?_⟩
    · intro x hx
      rcases List.mem_append.1 hx with hx | hx
      · exact hs x hx
      · simp only [List.mem_singleton] at hx; subst hx; exact hu
    · intro r hr hn
      rcases List.mem_append.1 hr with hr | hr
      · exact ht r hr hn
      · simp only [List.mem_singleton] at hr; subst hr; exact hu
  · rename_i hb
    refine ⟨hs, ?_⟩
    intro r hr hn
    rcases List.mem_append.1 hr with hr | hr
    · exact ht r hr hn
    · simp only [List.mem_singleton] at hr; subst hr
      first | cases hn | (simp at hn)

theorem QO_retire {e} (h : QO c) (he : UOk e) : QO (retire c e) := by
  obtain ⟨a, b⟩ := retire_QOs (c := c) h.s h.t he
  refine ⟨?_, a, b⟩
  have : (retire c e).queue = c.queue := by
    unfold retire triggerSmCallback; dsimp only; split <;> rfl
  rw [this]; exact h.q

/-- the write loop over the elements `l` (all of them acceptable): what stays queued is a part of `l` -/
theorem QO_writeElems : ∀ (l : List QElem) {c : Conn}, (∀ e ∈ l, UOk e) → QOV [] c.sm.queue c.tx →
    QO (writeElems c l)
  | [], c, _, h => h
  | e :: q, c, hl, h => by
    have hq : ∀ x ∈ q, UOk x := fun x hx => hl x (List.mem_cons_of_mem _ hx)
    have hwip : ∀ x ∈ ({ e with wip := true } : QElem) :: q, UOk x := by
      intro x hx
      rcases List.mem_cons.1 hx with rfl | hx
      · exact hl e List.mem_cons_self
      · exact hq x hx
    unfold writeElems
    dsimp only
    split
    · apply QO_writeElems q hq
      refine ⟨fun x hx => (by cases hx), ?_, ?_⟩
      · refine (retire_QOs ?_ ?_ ?_).1
        · exact h.s
        · exact h.t
        · exact hl e List.mem_cons_self
      · refine (retire_QOs ?_ ?_ ?_).2
        · exact h.s
        · exact h.t
        · exact hl e List.mem_cons_self
    · exact ⟨hwip, h.s, h.t⟩
    · exact ⟨hwip, h.s, h.t⟩

theorem QO_writeLoop (h : QO c) : QO (writeLoop c) :=
  QO_writeElems c.queue h.q ⟨fun x hx => (by cases hx), h.s, h.t⟩

/-! ### QO: one dispatch -/

theorem QO_handleFeatures {st} (h : QO c) (ho : Off c) : QO (handleFeatures c st) := by
  rw [handleFeatures_eq]
  exact QO_hf2 (QO_delTimed (QO_noteOffers h)) (Off_delTimed (Off_noteOffers ho))

/-- a pending handler of the negotiation other than the XEP-0198 handler: stream management is off -/
theorem Off_of_tokH {ut : Option Nat} {hd : Handler} (h : Tk none ut 1 c) (hm : hd ∈ c.handlers)
    (ht : isTok hd.fn = true) (hns : hd.fn ≠ .sys .sm) : Off c := by
  have e1 := cnt_exempt hm ht
  have hle := h.le
  have hen : c.sm.enabled = false := by
    cases he : c.sm.enabled with
    | false => rfl
    | true =>
      have := (h.en he).2.1 hd hm (by rw [tokP_none_iff]; exact ht)
      exact absurd this hns
  refine ⟨hen, ?_⟩
  cases hi : c.sm.id with
  | none => rfl
  | some i => have := (h.c1 (by rw [hi]; rfl)).2; omega

theorem Off_of_tokI {ut : Option Nat} {hd : Handler} (h : Tk none ut 1 c) (hm : hd ∈ c.idHandlers)
    (ht : isTok hd.fn = true) : Off c := by
  have e1 := cnt_exempt hm ht
  have hle := h.le
  refine ⟨?_, ?_⟩
  · cases he : c.sm.enabled with
    | false => rfl
    | true => have := (h.en he).2.2; omega
  · cases hi : c.sm.id with
    | none => rfl
    | some i => have := (h.c1 (by rw [hi]; rfl)).2; omega

theorem QO_runSys {k st} (h : QO c) (ho : k ≠ .sm → isTok (.sys k) = true → Off c) : QO (runSys c k st).1 := by
  have hs : OwnOk .smStrophe c := .inl rfl
  by_cases hk : k = .sm
  · subst hk
    unfold runSys
    dsimp only
    exact pred_ite_fst (P := QO) (fun _ => h) (fun _ => QO_handleSm h)
  · cases k
    case sm => exact absurd rfl hk
    all_goals
      first
        | (unfold runSys; dsimp only; c4trav; done)
        | (have ho := ho hk rfl
           have hst : OwnOk .strophe c := .inr ⟨rfl, ho.1⟩
           unfold runSys; dsimp only; c4trav; done)

theorem QO_runHandler {hd : Handler} {st} (h : QO c) (ho : hd.fn ≠ .sys .sm → isTok hd.fn = true → Off c) :
    QO (runHandler c hd st).1 := by
  unfold runHandler
  cases hf : hd.fn with
  | userAll => dsimp only; exact QO_notify h
  | sys k =>
    dsimp only
    apply QO_runSys h
    intro hk ht
    exact ho (by rw [hf]; intro e; injection e with e; exact hk e) (by rw [hf]; exact ht)

/-- between two handlers of a dispatch -/
def TQ (ut : Option Nat) (c : Conn) : Prop := TH ut c ∧ QO c

theorem TQ_fireIdOne {ut st uid} (h : TQ ut c) : TQ ut (fireIdOne st c uid) := by
  refine ⟨TH_fireIdOne h.1, ?_⟩
  unfold fireIdOne
  split
  · exact h.2
  · rename_i hd hf
    have hmem := List.mem_of_find?_eq_some hf
    split
    · exact h.2
    · have := QO_runHandler (st := st) (hd := hd) h.2 (fun _ ht => Off_of_tokI h.1.1 hmem ht)
      split
      rename_i c1 keep heq
      rw [heq] at this
      split
      · exact this
      · exact this

theorem TQ_fireOne {ut st uid} (h : TQ ut c) : TQ ut (fireOne st c uid) := by
  refine ⟨TH_fireOne h.1, ?_⟩
  unfold fireOne
  split
  · exact h.2
  · rename_i hd hf
    have hmem := List.mem_of_find?_eq_some hf
    split
    · exact h.2
    · split
      · have := QO_runHandler (st := st) (hd := hd) h.2 (fun hns ht => Off_of_tokH h.1.1 hmem ht hns)
        split
        rename_i c1 keep heq
        rw [heq] at this
        split
        · exact this
        · exact this
      · exact h.2

theorem TQ_fireStanza {ut st} (h : TQ ut c) : TQ ut (fireStanza c st) := by
  unfold fireStanza
  dsimp only
  refine pred_foldl (P := TQ ut) (fun c x hc => TQ_fireOne (uid := x) hc) _ ?_
  split
  · refine pred_foldl (P := TQ ut) (fun c x hc => TQ_fireIdOne (uid := x) hc) _ ?_
    exact ⟨⟨Tk_rec6 h.1.1, HW_rec6 h.1.2⟩, h.2⟩
  · exact ⟨⟨Tk_rec5 h.1.1, HW_rec5 h.1.2⟩, h.2⟩

theorem TQ_handleStreamStanza {ut st} (h : TQ ut c) : TQ ut (handleStreamStanza c st) := by
  refine ⟨TH_handleStreamStanza h.1, ?_⟩
  unfold handleStreamStanza
  refine pred_ite (P := QO) (fun _ => h.2) (fun _ => ?_)
  dsimp only
  have := (TQ_fireStanza (st := st) h).2
  refine pred_ite (P := QO) (fun _ => ?_) (fun _ => this)
  exact QO_smHandleStanza (c := { (fireStanza c st) with rxLog := _ }) this

/-! ### QO: parser events, timers, the event loop -/

def TQP (c : Conn) : Prop := TQ none c ∧ NC c

theorem TQP_parserEvent {e} (h : TQP c) : TQP (parserEvent c e) := by
  have hT : TP (parserEvent c e) := TP_parserEvent ⟨h.1.1, h.2⟩
  refine ⟨⟨hT.1, ?_⟩, hT.2⟩
  cases e with
  | stanza st =>
    unfold parserEvent
    exact pred_ite (P := QO) (fun _ => h.1.2) (fun _ => (TQ_handleStreamStanza h.1).2)
  | open_ nm id =>
    unfold parserEvent
    exact pred_ite (P := QO) (fun _ => h.1.2) (fun _ => QO_handleStreamStart (c := { c with pst := .opened }) h.1.2)
  | end_ =>
    unfold parserEvent
    exact pred_ite (P := QO) (fun _ => h.1.2) (fun _ => QO_handleStreamEnd (c := { c with pst := .closed }) h.1.2)
  | error =>
    unfold parserEvent
    exact QO_sendStanza (c := { c with pst := .closed }) h.1.2 (.inl rfl)

theorem TQ_fireTimedOne {uid} (h : TQ none c) : TQ none (fireTimedOne c uid) := by
  refine ⟨TH_fireTimedOne h.1, ?_⟩
  unfold fireTimedOne
  split
  · exact h.2
  · rename_i t hf
    have hmem := List.mem_of_find?_eq_some hf
    refine pred_ite (P := QO) (fun _ => h.2) (fun _ => ?_)
    refine pred_ite (P := QO) (fun _ => ?_) (fun _ => h.2)
    dsimp only
    have h0 : TQ none { c with timed := c.timed.map fun (x : Timed) => if x.uid = uid then { x with lastStamp := c.now } else x } :=
      ⟨⟨Tk_rec3 h.1.1, HW_rec8 h.1.2⟩, h.2⟩
    have ht0 : ∃ t0 ∈ ({ c with timed := c.timed.map fun (x : Timed) => if x.uid = uid then { x with lastStamp := c.now } else x } : Conn).timed,
        t0.fn = t.fn := by
      refine ⟨_, List.mem_map.2 ⟨t, hmem, rfl⟩, ?_⟩
      split <;> rfl
    generalize ({ c with timed := c.timed.map fun (x : Timed) => if x.uid = uid then { x with lastStamp := c.now } else x } : Conn) = c0 at h0 ht0
    have key : QO (runTimed c0 t.fn).1 := by
      have hs : OwnOk .smStrophe c0 := .inl rfl
      have hq0 : QO c0 := h0.2
      cases hfn : t.fn
      case missingFeatures =>
        obtain ⟨t0, hm0, hf0⟩ := ht0
        rw [hfn] at hf0
        obtain ⟨_, ao⟩ := Tk_timedM h0.1.1 h0.1.2 hm0 hf0
        unfold runTimed
        dsimp only
        exact QO_authTop (c := { c0 with handlers := c0.handlers.filter (fun h => h.fn ≠ .sys .features) }) h0.2 ao
      all_goals
        unfold runTimed
        dsimp only
        c4trav
    split <;> exact key

theorem TQ_fireTimed (h : TQ none c) : TQ none (fireTimed c) := by
  unfold fireTimed
  refine pred_ite (P := TQ none) (fun _ => h) (fun _ => ?_)
  dsimp only
  refine pred_foldl (P := TQ none) (fun c x hc => TQ_fireTimedOne (uid := x) hc) _ ?_
  exact ⟨⟨Tk_rec2 h.1.1, HW_rec7 h.1.2⟩, h.2⟩

theorem TQ_writeLoop {ut} (h : TQ ut c) : TQ ut (writeLoop c) := ⟨TH_writeLoop h.1, QO_writeLoop h.2⟩
theorem TQ_connDisconnect {ut} (h : TQ ut c) : TQ ut (connDisconnect c) := ⟨TH_connDisconnect h.1, QO_connDisconnect h.2⟩
theorem TQ_connEstablished {ut} (h : TQ ut c) : TQ ut (connEstablished c) :=
  ⟨TH_connEstablished h.1, QO_connEstablished h.2⟩
theorem TQ_rec1 {ut} (h : TQ ut c) :
    TQ ut { c with resetParser := false, pst := if c.resetParser = true then PSt.fresh else c.pst } :=
  ⟨TH_rec1 h.1, h.2⟩
theorem TQ_rec2 {ut} (h : TQ ut c) (hs : c.state = .connecting) (hr : RP0 c) : TQ ut { c with state := .connected } :=
  ⟨TH_rec2 h.1 hs hr, h.2⟩
theorem TQ_evFold {evs : List PEv} (h : TQ none c) (hc : c.state = .connected) : TQ none (evFold c evs) := by
  have : TQP c := ⟨h, by unfold NC; rw [hc]; simp⟩
  exact (pred_foldl (P := TQP) (fun c e hc => TQP_parserEvent (e := e) hc) evs this).1

theorem TQ_runOnce {rx} (h : TQ none c) : TQ none (runOnce c rx) := by
  unfold runOnce
  cases rx with
  | data evs =>
    dsimp only
    have e : ∀ c4, List.foldl parserEvent c4 evs = evFold c4 evs := fun _ => rfl
    simp only [e]
    c4trav
  | none => dsimp only; c4trav
  | eof => dsimp only; c4trav
  | ioerr => dsimp only; c4trav

/-! ### QO: connect, the API -/

theorem QO_connReset (h : QO c) : QO (connReset c) := by
  unfold connReset systemDeleteAll
  refine pred_ite (P := QO) (fun _ => h) (fun _ => ?_)
  exact ⟨fun x hx => (by cases hx), h.s, h.t⟩

theorem QO_rec2 : QO c → QO { c with hasSm := true, sm := {} } :=
  fun h => ⟨h.q, fun x hx => (by cases hx), h.t⟩

theorem QO_connConnect {d t} (h : QO c) : QO (connConnect c d t).1 := by
  c4auto connConnect
theorem QO_connectClient (h : QO c) : QO (connectClient c).1 := by
  c4auto connectClient
  all_goals (intro x hx; cases hx)
theorem QO_connectComponent (h : QO c) : QO (connectComponent c).1 := by
  c4auto connectComponent
  all_goals (intro x hx; cases hx)
theorem QO_connectRaw (h : QO c) : QO (connectRaw c).1 := by
  c4auto connectRaw

theorem QO_pushRawUser {it ow} (h : QO c) (hu : it.isUserItem = true) : QO (pushRaw c it ow) := by
  unfold pushRaw; exact QO_pushUserItem h hu

theorem QO_xmppSend {it} (h : QO c) (hu : it.isUserItem = true) : QO (xmppSend c it) := by
  unfold xmppSend sendStanza; split
  · exact QO_pushRawUser h hu
  · exact h
theorem QO_xmppSendRaw {it} (h : QO c) (hu : it.isUserItem = true) : QO (xmppSendRaw c it) := by
  unfold xmppSendRaw sendRaw; split
  · exact QO_pushRawUser h hu
  · exact h
theorem QO_xmppSendRawString {it} (h : QO c) (hu : it.isUserItem = true) : QO (xmppSendRawString c it) := by
  unfold xmppSendRawString; split
  · exact QO_pushRawUser h hu
  · exact h

/-- everything so far -/
def TJ (c : Conn) : Prop := TI c ∧ QO c

theorem TJ_step (op : Op) (hop : match op with | .usend it | .uraw it | .urawstr it => it.isUserItem = true | _ => True)
    (h : TJ c) : TJ (step c op) := by
  refine ⟨TI_step op h.1, ?_⟩
  cases op with
  | connect k =>
    cases k
    · exact QO_connectClient h.2
    · exact QO_connectComponent h.2
    · exact QO_connectRaw h.2
  | run rx => exact (TQ_runOnce ⟨⟨h.1.2, h.1.1.1⟩, h.2⟩).2
  | setTcp f e => exact h.2
  | setTls sf nf => exact h.2
  | setSched l d => exact h.2
  | tick ms => exact h.2
  | setSmCallback => exact h.2
  | setSendOnConnect on => exact h.2
  | setFlags f => exact QO_setFlags h.2
  | usend it => exact QO_xmppSend h.2 hop
  | uraw it => exact QO_xmppSendRaw h.2 hop
  | urawstr it => exact QO_xmppSendRawString h.2 hop
  | udisc => exact QO_xmppDisconnect h.2
  | release => exact QO_release h.2
  | addUserHandlers => exact QO_addTimed (QO_addIdHandler (QO_addHandler h.2))

theorem TJ_exec : ∀ (ops : List Op), userOps ops → ∀ {c}, TJ c → TJ (exec c ops)
  | [], _, _, h => h
  | op :: ops, hu, c, h => by
    refine TJ_exec ops (fun o ho => hu o (List.mem_cons_of_mem _ ho)) (TJ_step op ?_ h)
    exact hu op List.mem_cons_self

theorem QO_fresh (jid pass : Option Bytes) (cert : Bool) (flags : Nat) : QO (fresh jid pass cert flags) := by
  unfold fresh
  apply QO_setFlags
  exact ⟨fun x hx => (by cases hx), fun x hx => (by cases hx), fun x hx => (by cases hx)⟩

theorem TJ_reach (jid pass : Option Bytes) (cert : Bool) (flags : Nat) (ops : List Op) (hu : userOps ops) :
    TJ (exec (fresh jid pass cert flags) ops) :=
  TJ_exec ops hu ⟨TI_exec [] (TI_reach jid pass cert flags []), QO_fresh jid pass cert flags⟩

end Strophe.Lemmas.ConnC04
