import Strophe.Model.Base64
namespace Strophe.Lemmas.Base64Safe
open Strophe Strophe.Base64

theorem quartets_account (s acc : Bytes) (h : Nat) :
    (quartets s acc h).written.length + 3 * ((quartets s acc h).rest.length / 4)
      ≤ acc.length + 3 * (s.length / 4) := by
  fun_induction quartets s acc h with
  | case1 => simp
  | case2 => simp
  | case3 => simp
  | case4 => simp
  | case5 c0 c1 c2 c3 rest acc _ _ _ _ _ w ih =>
    simp only [List.length_append, List.length_cons, List.length_nil] at ih ⊢
    omega
  | case6 => simp
  | case7 => simp

theorem quartets_stops (s acc : Bytes) (h : Nat) (hne : s ≠ []) (h4 : s.length % 4 = 0)
    (hl : ∀ c, s.getLast? = some c → inv c ≥ 64) :
    4 ≤ (quartets s acc h).rest.length := by
  fun_induction quartets s acc h with
  | case1 => simp
  | case2 => simp
  | case3 => simp
  | case4 => simp
  | case5 c0 c1 c2 c3 rest acc _ h0 h1 h2 h3 w ih =>
    by_cases hr : rest = []
    · subst hr
      have := hl c3 (by simp)
      omega
    · apply ih hr
      · simp only [List.length_cons] at h4; omega
      · intro c hc
        apply hl c
        simp only [List.getLast?_cons_cons]
        cases rest with
        | nil => exact absurd rfl hr
        | cons a t => simpa using hc
  | case6 => exact absurd rfl hne
  | case7 s acc h hx hy =>
    exfalso
    match s, hx, hy, h4, hne with
    | [a], _, _, h4, _ => simp at h4
    | [a, b], _, _, h4, _ => simp at h4
    | [a, b, c], _, _, h4, _ => simp at h4
    | a :: b :: c :: d :: t, hx, _, _, _ => exact hx a b c d t rfl

theorem nudgeScan_ge (l : Bytes) (k n : Nat) (h : nudgeScan l k = some n) : k ≤ n := by
  induction l generalizing k with
  | nil => simp [nudgeScan] at h; omega
  | cons c rest ih =>
    unfold nudgeScan at h
    split at h
    · simp at h; omega
    · split at h
      · have := ih _ h; omega
      · simp at h

theorem nudge_pos_last (s : Bytes) (n : Nat) (h : nudgeScan s.reverse 0 = some n) (hn : 1 ≤ n) :
    ∀ c, s.getLast? = some c → inv c ≥ 64 := by
  intro c hc
  have hr : s.reverse.head? = some c := by rw [List.head?_reverse]; exact hc
  cases hl : s.reverse with
  | nil => rw [hl] at hr; simp at hr
  | cons a t =>
    rw [hl] at hr h
    simp at hr; subst hr
    unfold nudgeScan at h
    split at h
    · simp at h; omega
    · omega

theorem tail_length (l4 : Bytes) (m : Nat) (t : Bytes) (h : tail l4 m = some t) (hm : m < 3) :
    t.length = m := by
  unfold tail at h
  split at h
  · simp at h; subst h; rfl
  · repeat' split at h
    all_goals first | (simp at h; subst h; rfl) | simp at h
  · repeat' split at h
    all_goals first | (simp at h; subst h; rfl) | simp at h
  · simp at h

/-- every byte `base64_decode` stores — on accepted AND on refused inputs — lies inside the
    `dlen + 1` bytes it allocated from `base64_decoded_len` -/
theorem writes_within_buffer (s : Bytes) (h4 : s.length % 4 = 0) (hd : decodedLen s ≠ 0) :
    (quartets s [] 0).written.length ≤ decodedLen s ∧
    (((quartets s [] 0).rest = [] ∨ ((quartets s [] 0).rest.length = 4 ∧ decodedLen s % 3 ≠ 0)) →
      ∀ t, tail (s.drop (s.length - 4)) (decodedLen s % 3) = some t →
        (quartets s [] 0).written.length + t.length ≤ decodedLen s) := by
  have hacc := quartets_account s [] 0
  simp only [List.length_nil, Nat.zero_add] at hacc
  unfold decodedLen at hd ⊢
  split at hd; · exact absurd rfl hd
  rename_i hlen
  simp only [hlen, if_false]
  cases hn : nudgeScan s.reverse 0 with
  | none => rw [hn] at hd; exact absurd rfl hd
  | some n =>
    rw [hn] at hd
    simp only at hd ⊢
    split at hd; · exact absurd rfl hd
    rename_i hn2
    simp only [hn2, if_false]
    have hne : s ≠ [] := by intro h; subst h; simp at hlen
    by_cases hn0 : n = 0
    · subst hn0
      refine ⟨by omega, ?_⟩
      intro _ t ht
      have := tail_length _ _ t ht (Nat.mod_lt _ (by omega))
      omega
    · have hstop := quartets_stops s [] 0 hne h4 (nudge_pos_last s n hn (by omega))
      refine ⟨by omega, ?_⟩
      rintro (hr | ⟨hr, _⟩) t ht
      · rw [hr] at hstop; simp at hstop
      · have := tail_length _ _ t ht (Nat.mod_lt _ (by omega))
        omega

end Strophe.Lemmas.Base64Safe
