/-
C03, part C: shapes of the primitive operations (which fields they change) and the authentication
step `_auth`.
-/
import Strophe.Lemmas.ConnC03B

namespace Strophe.Lemmas.ConnC03
open Strophe Strophe.Conn

variable {jid : Option Bytes} {U : Item → Prop} {NR : Prop} {p : Par} {c : Conn}

/-! ### shapes -/

theorem pushRawWith_shape (c : Conn) (it : Item) (o : Owner) (s : Snap) :
    ∃ q n r, pushRawWith c it o s = { c with queue := q, nextUid := n, sm := { c.sm with rSent := r } } := by
  rw [pushRawWith_eq]; generalize (if (o = .strophe && !c.sm.enabled) = true then Owner.smStrophe else o) = o'
  unfold pushOwned; dsimp only
  by_cases h1 : (!o'.smBit && c.sm.enabled && !c.sm.rSent) = true
  · rw [if_pos h1]
    by_cases h2 : c.state = .connected
    · rw [if_pos h2]; exact ⟨_, _, _, rfl⟩
    · rw [if_neg h2]; exact ⟨_, _, _, rfl⟩
  · rw [if_neg h1]; exact ⟨_, _, c.sm.rSent, rfl⟩

theorem sendStanza_shape (c : Conn) (it : Item) (o : Owner) :
    ∃ q n r, sendStanza c it o = { c with queue := q, nextUid := n, sm := { c.sm with rSent := r } } := by
  unfold sendStanza pushRaw; split
  · exact pushRawWith_shape ..
  · exact ⟨c.queue, c.nextUid, c.sm.rSent, rfl⟩

theorem sendRaw_shape (c : Conn) (it : Item) (o : Owner) :
    ∃ q n r, sendRaw c it o = { c with queue := q, nextUid := n, sm := { c.sm with rSent := r } } := by
  unfold sendRaw pushRaw; split
  · exact pushRawWith_shape ..
  · exact ⟨c.queue, c.nextUid, c.sm.rSent, rfl⟩

theorem sendRawString_shape (c : Conn) (it : Item) :
    ∃ q n r, sendRawString c it = { c with queue := q, nextUid := n, sm := { c.sm with rSent := r } } := by
  unfold sendRawString pushRaw; split
  · exact pushRawWith_shape ..
  · exact ⟨c.queue, c.nextUid, c.sm.rSent, rfl⟩

theorem addHandler_shape (c : Conn) (fn : HFun) (ud : Nat) (ns name type : Option Bytes) (usr : Bool) :
    ∃ l n, addHandler c fn ud ns name type usr = { c with handlers := l, nextUid := n } ∧
      (l.map hkey = c.handlers.map hkey ∨ l.map hkey = c.handlers.map hkey ++ [(c.nextUid, fn, usr)]) := by
  unfold addHandler; split
  · exact ⟨c.handlers, c.nextUid, rfl, Or.inl rfl⟩
  · exact ⟨_, _, rfl, Or.inr (by simp [hkey])⟩

theorem addIdHandler_shape (c : Conn) (fn : HFun) (id : Bytes) (usr : Bool) :
    ∃ l n, addIdHandler c fn id usr = { c with idHandlers := l, nextUid := n } ∧
      (l.map hkey = c.idHandlers.map hkey ∨ l.map hkey = c.idHandlers.map hkey ++ [(c.nextUid, fn, usr)]) := by
  unfold addIdHandler; split
  · exact ⟨c.idHandlers, c.nextUid, rfl, Or.inl rfl⟩
  · exact ⟨_, _, rfl, Or.inr (by simp [hkey])⟩

theorem addTimed_shape (c : Conn) (fn : TFun) (period : Nat) (usr : Bool) :
    ∃ l n, addTimed c fn period usr = { c with timed := l, nextUid := n } := by
  unfold addTimed; split
  · exact ⟨c.timed, c.nextUid, rfl⟩
  · exact ⟨_, _, rfl⟩

theorem xmppDisconnect_shape (c : Conn) :
    ∃ q n r l, xmppDisconnect c = { c with queue := q, nextUid := n, sm := { c.sm with rSent := r }, timed := l } := by
  unfold xmppDisconnect; split
  · exact ⟨c.queue, c.nextUid, c.sm.rSent, c.timed, rfl⟩
  · obtain ⟨q, n, r, e⟩ := sendRawString_shape c .close
    rw [e]
    obtain ⟨l, n', e'⟩ := addTimed_shape { c with queue := q, nextUid := n, sm := { c.sm with rSent := r } } .disconnectCleanup Gen.disconnectTimeout false
    rw [e']; exact ⟨_, _, _, _, rfl⟩

/-! ### handler context -/

/-- the situation inside a running negotiation handler / timer / open handler: nothing else is
    pending, CONNECT has not been delivered, no parser reset is pending -/
structure HC (p : Par) (c : Conn) : Prop where
  nil : PendNil p.x c
  nn : c.g.notifiedConnect = false
  rpb : p.rpb = false
  pb : p.pb ≠ .fresh
  sb : p.sb = .connected
  rb : p.rb = false

theorem HC.canAdd (hc : HC p c) {s : SysH} (ph : Phase c.g c.secured c.sm.enabled c.sm.resume c.state s) :
    CanAdd p c s :=
  ⟨hc.nil, hc.nn, ph, hc.rpb, hc.pb, by rw [hc.sb]; simp, hc.rb⟩

theorem and_ne_zero_mono {a o m : Nat} (h : a &&& m ≠ 0)
    (sub : ∀ i, a.testBit i = true → o.testBit i = true) : o &&& m ≠ 0 := by
  obtain ⟨i, hi⟩ := Nat.exists_testBit_of_ne_zero h
  rw [Nat.testBit_and, Bool.and_eq_true] at hi
  intro e
  have : (o &&& m).testBit i = true := by rw [Nat.testBit_and, sub i hi.1, hi.2]; rfl
  rw [e, Nat.zero_testBit] at this; cases this

theorem Inv.setSasl (h : Inv jid U NR p c) (v : Nat)
    (hv : ∀ i, v.testBit i = true → c.saslSupport.testBit i = true) :
    Inv jid U NR p { c with saslSupport := v } :=
  ⟨h.cfg, h.q, h.e, { h.gg with sasl := fun i a => h.gg.sasl i (hv i a) }, h.h, h.f, h.ts⟩

theorem and_testBit_left {a m : Nat} (i : Nat) (h : (a &&& m).testBit i = true) : a.testBit i = true := by
  rw [Nat.testBit_and, Bool.and_eq_true] at h; exact h.1

/-- one SASL mechanism branch of `_auth` -/
theorem Inv.authMech (h : Inv jid U NR p c) (hc : HC p c) (ha : c.g.authOk = false)
    (K : SysH) (hph : ∀ g sec e r st, g.authOk = false → Phase g sec e r st K)
    (ud : Nat) (ns : Option Bytes) (name : Bytes) (t : Bool) (M' : Nat)
    (hbit : c.g.offeredMechs &&& mechBit name ≠ 0) :
    Inv jid U NR p
      { Conn.sendStanza (Conn.addHandler c (.sys K) ud ns none none false) (.auth name t) .strophe with
        saslSupport := (Conn.sendStanza (Conn.addHandler c (.sys K) ud ns none none false) (.auth name t) .strophe).saslSupport &&& M' } := by
  have h1 := h.addHandler (.sys K) ud ns none none false (by simp)
    (fun s hs _ => by cases hs; exact hc.canAdd (hph _ _ _ _ _ ha))
  obtain ⟨l, n, e1, _⟩ := addHandler_shape c (.sys K) ud ns none none false
  rw [e1] at h1 ⊢
  have h2 := h1.sendStanzaLib (.auth name t) .strophe (by simp)
    (fun _ o' _ => ⟨hbit, ha⟩) (fun _ hh => by obtain ⟨_, _, _, e⟩ := hh; cases e)
  obtain ⟨q, n', r, e2⟩ := sendStanza_shape { c with handlers := l, nextUid := n } (.auth name t) .strophe
  rw [e2] at h2 ⊢
  exact h2.setSasl _ (fun i a => and_testBit_left i a)

theorem Inv.authLegacyStep (h : Inv jid U NR p c) (hc : HC p c) : Inv jid U NR p (Conn.authLegacyStep c) := by
  unfold Conn.authLegacyStep
  split
  · exact h.xmppDisconnect
  · split
    · exact h.xmppDisconnect
    · split
      · exact h.xmppDisconnect
      · refine Inv.sendStanzaLib ?_ _ _ (by simp) (fun _ _ _ => trivial)
          (fun _ hh => by obtain ⟨_, _, _, e⟩ := hh; cases e)
        exact (h.addIdHandler .legacy _ (Or.inr (Or.inr rfl)) (hc.canAdd trivial)).addTimed _ _ _ (by simp) (by simp)

theorem scram_mechBit : ∀ q ∈ Gen.scramAlgs, mechBit q.1 = q.2 := by decide

theorem firstScram_spec {support : Nat} {ix : AlgIx} {name : Bytes} {mask : Nat}
    (h : firstScram support = some (ix, name, mask)) : support &&& mask ≠ 0 ∧ mechBit name = mask := by
  unfold firstScram at h
  cases hf : Gen.scramAlgs.zipIdx.find? (fun x => decide (support &&& x.1.2 ≠ 0)) with
  | none => rw [hf] at h; cases h
  | some v =>
    rw [hf] at h; simp only [Option.map_some, Option.some.injEq, Prod.mk.injEq] at h
    obtain ⟨_, hn, hm⟩ := h
    have h1 := List.find?_some hf
    have h2 := List.mem_of_find?_eq_some hf
    have h3 : v.1 ∈ Gen.scramAlgs := by
      have := List.mem_zipIdx h2
      obtain ⟨nm, mk⟩ := v
      simp only at this ⊢
      rw [this.2.2]; exact List.getElem_mem _
    have := scram_mechBit v.1 h3
    rw [← hn, ← hm]
    exact ⟨by simpa using h1, this⟩

theorem mb_anon : mechBit (b "ANONYMOUS") = Gen.saslMaskAnonymous := by decide
theorem mb_ext : mechBit (b "EXTERNAL") = Gen.saslMaskExternal := by decide
theorem mb_digest : mechBit (b "DIGEST-MD5") = Gen.saslMaskDigestmd5 := by decide
theorem mb_plain : mechBit (b "PLAIN") = Gen.saslMaskPlain := by decide

theorem Inv.bumpUid (h : Inv jid U NR p c) : Inv jid U NR p { c with nextUid := c.nextUid + 1 } :=
  ⟨h.cfg, h.q, h.e, h.gg, h.h.mono _ (Nat.le_succ _), h.f, h.ts⟩

theorem HC.bumpUid (hc : HC p c) : HC p { c with nextUid := c.nextUid + 1 } :=
  ⟨hc.nil, hc.nn, hc.rpb, hc.pb, hc.sb, hc.rb⟩

/-- `_auth` once STARTTLS is out of the way -/
theorem Inv.auth_notls (h : Inv jid U NR p c) (hc : HC p c) (ha : c.g.authOk = false) (fuel : Nat) :
    Inv jid U NR p (Conn.auth c (fuel + 1)) := by
  have hb : ∀ m, c.saslSupport &&& m ≠ 0 → c.g.offeredMechs &&& m ≠ 0 :=
    fun m hm => and_ne_zero_mono hm h.gg.sasl
  rw [Conn.auth]; dsimp only
  rw [h.ts]; simp only [Bool.false_eq_true, if_false]
  split
  · exact h.connDisconnect (fun k a nk e => absurd (hc.nil k a nk) e)
  split
  · rename_i _ hh; simp only [Bool.and_eq_true, decide_eq_true_eq] at hh
    exact h.authMech hc ha (.saslResult (b "ANONYMOUS")) (fun _ _ _ _ _ a => a) 1 _ _ _ _ (by rw [mb_anon]; exact hb _ hh.2)
  split
  · rename_i _ _ hh
    exact h.authMech hc ha (.saslResult (b "EXTERNAL")) (fun _ _ _ _ _ a => a) 2 _ _ _ _ (by rw [mb_ext]; exact hb _ hh)
  split
  · exact h.xmppDisconnect
  split
  · exact h.xmppDisconnect
  split
  · split
    · exact h
    · rename_i ix name mask hfs
      obtain ⟨h1, h2⟩ := firstScram_spec hfs
      split
      · exact h.xmppDisconnect
      · have h' : Inv jid U NR p { c with nextUid := c.nextUid + 1, tlsSupport := false } :=
          ⟨h.cfg, h.q, h.e, h.gg, h.h.mono _ (Nat.le_succ _), h.f, rfl⟩
        have hc' : HC p { c with nextUid := c.nextUid + 1, tlsSupport := false } :=
          ⟨hc.nil, hc.nn, hc.rpb, hc.pb, hc.sb, hc.rb⟩
        exact h'.authMech hc' ha (.scramChallenge c.nextUid ix) (fun _ _ _ _ _ a => a)
          (100 + c.nextUid) (some Gen.nsSasl) name true (mask ^^^ 0xFFFF) (by rw [h2]; exact hb _ h1)
  split
  · rename_i hh
    exact h.authMech hc ha .digestChallenge (fun _ _ _ _ _ a => a) 0 _ _ _ _ (by rw [mb_digest]; exact hb _ hh)
  split
  · rename_i hh
    exact h.authMech hc ha (.saslResult (b "PLAIN")) (fun _ _ _ _ _ a => a) 3 _ _ _ _ (by rw [mb_plain]; exact hb _ hh)
  split
  · exact h.authLegacyStep hc
  · exact h.xmppDisconnect

theorem addHandler_ts (c : Conn) (fn : HFun) (ud : Nat) (ns name type : Option Bytes) (usr : Bool) :
    { addHandler c fn ud ns name type usr with tlsSupport := false } =
      addHandler { c with tlsSupport := false } fn ud ns name type usr := by
  unfold addHandler; dsimp only; split <;> rfl

theorem pushOwned_ts (c : Conn) (it : Item) (o : Owner) (s : Snap) :
    { pushOwned c it o s with tlsSupport := false } = pushOwned { c with tlsSupport := false } it o s := by
  unfold pushOwned; dsimp only
  by_cases h1 : (!o.smBit && c.sm.enabled && !c.sm.rSent) = true
  · rw [if_pos h1, if_pos h1]
    by_cases h2 : c.state = .connected
    · rw [if_pos h2, if_pos h2]
    · rw [if_neg h2, if_neg h2]
  · rw [if_neg h1, if_neg h1]

theorem sendStanza_ts (c : Conn) (it : Item) (o : Owner) :
    { sendStanza c it o with tlsSupport := false } = sendStanza { c with tlsSupport := false } it o := by
  unfold sendStanza isConnectedFor pushRaw; dsimp only
  by_cases h1 : (decide (c.state = .connected) && (decide (o ≠ .user) || c.negotiated)) = true
  · rw [if_pos h1, if_pos h1, pushRawWith_eq, pushRawWith_eq, pushOwned_ts]; rfl
  · rw [if_neg h1, if_neg h1]

theorem Inv.authTop' (c : Conn) (h : Inv jid U NR p { c with tlsSupport := false }) (hc : HC p c)
    (ha : c.g.authOk = false) (htls : c.tlsSupport = true → c.secured = false ∧ c.g.offeredTls = true) :
    Inv jid U NR p (Conn.authTop c) := by
  have hc' : HC p { c with tlsSupport := false } := ⟨hc.nil, hc.nn, hc.rpb, hc.pb, hc.sb, hc.rb⟩
  unfold Conn.authTop
  rw [Conn.auth]; dsimp only
  by_cases ht : c.tlsSupport = true
  · rw [if_pos ht]
    by_cases hf : c.tlsNewFail = true
    · rw [if_pos hf]; exact h.auth_notls hc' ha 1
    · rw [if_neg hf, sendStanza_ts, addHandler_ts]
      refine Inv.sendStanzaLib ?_ _ _ (by simp) ?_ (fun _ hh => by obtain ⟨_, _, _, e⟩ := hh; cases e)
      · exact h.addHandler _ _ _ _ _ _ (by simp)
          (fun s hs _ => by cases hs; exact hc'.canAdd ⟨ha, (htls ht).1⟩)
      · intro _ o' _
        obtain ⟨l, n, e1, _⟩ := addHandler_shape { c with tlsSupport := false } (.sys .proceedTls) 0 (some Gen.nsTls) none none false
        rw [e1]; exact ⟨(htls ht).2, (htls ht).1⟩
  · have hts : c.tlsSupport = false := by cases hh : c.tlsSupport <;> simp_all
    have e : c = { c with tlsSupport := false } := by rw [← hts]
    rw [e]; exact h.auth_notls hc' ha 2

theorem Inv.authTop (h : Inv jid U NR p c) (hc : HC p c) (ha : c.g.authOk = false) :
    Inv jid U NR p (Conn.authTop c) :=
  Inv.authTop' c ⟨h.cfg, h.q, h.e, h.gg, h.h, h.f, rfl⟩ hc ha (fun a => by rw [h.ts] at a; cases a)

end Strophe.Lemmas.ConnC03
