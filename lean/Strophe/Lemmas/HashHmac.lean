/-
C17 helper lemmas, part 6: one-shot/streaming equalities per algorithm in the form HMAC
needs, and `crypto_HMAC` = RFC 2104.
-/
import Strophe.Lemmas.HashSha1
import Strophe.Lemmas.HashSha2
import Strophe.Lemmas.HashMd5

namespace Strophe.Hash
open Strophe Spec.Hash

/-! ### streaming = specification, per algorithm -/

theorem sha1_stream (chunks : List Bytes) :
    Sha1.final (chunks.foldl Sha1.update Sha1.init) = Spec.Hash.sha1 chunks.flatten := by
  rw [Sha1.final_eq (Sha1.stream_inv chunks)]
  exact (spec_hash_eq sha1MD (by decide) _).symm

theorem sha256_stream (chunks : List Bytes) (h : 8 * chunks.flatten.length < 2 ^ 64) :
    Sha256.done (chunks.foldl Sha256.process Sha256.init) = some (Spec.Hash.sha256 chunks.flatten) := by
  rw [Sha256.done_spec (Sha256.stream_inv chunks h)
    (blocksFold_snd_length (bs := 64) (by decide) _ _ _) h]
  exact congrArg some (spec_hash_eq sha256MD (by decide) _).symm

theorem sha512_stream (chunks : List Bytes) (h : 8 * chunks.flatten.length < 2 ^ 64) :
    Sha512.done (chunks.foldl Sha512.process Sha512.init) = some (Spec.Hash.sha512 chunks.flatten) := by
  rw [Sha512.done_spec (Sha512.stream_inv chunks h)
    (blocksFold_snd_length (bs := 128) (by decide) _ _ _) h]
  exact congrArg some (spec_hash_eq sha512MD (by decide) _).symm

theorem md5_stream (chunks : List Bytes) (hc : ∀ c ∈ chunks, c.length < 2 ^ 32) :
    Md5.final (chunks.foldl Md5.update Md5.init) = Spec.Hash.md5 chunks.flatten := by
  rw [Md5.final_eq (Md5.stream_inv chunks hc)]
  exact (spec_hash_eq md5MD (by decide) _).symm

theorem sha1_length (m : Bytes) : (Spec.Hash.sha1 m).length = 20 := by
  simp [Spec.Hash.sha1, MD.hash, sha1MD, beBytes]
theorem sha256_length (m : Bytes) : (Spec.Hash.sha256 m).length = 32 := by
  simp [Spec.Hash.sha256, MD.hash, sha256MD, beBytes]
theorem sha512_length (m : Bytes) : (Spec.Hash.sha512 m).length = 64 := by
  simp [Spec.Hash.sha512, MD.hash, sha512MD, beBytes]
theorem md5_length (m : Bytes) : (Spec.Hash.md5 m).length = 16 := by
  simp [Spec.Hash.md5, MD.hash, md5MD, leBytes]

/-! ### HMAC -/

theorem memcpy_zeros (B : Nat) (k : Bytes) : memcpy (zeros B) 0 k = k ++ Spec.Hash.zeros (B - k.length) := by
  simp [memcpy, zeros, Spec.Hash.zeros, List.drop_replicate]

/-- `crypto_HMAC` over an algorithm whose streaming interface computes `H` -/
theorem hmac_generic (alg : Alg) (H : Bytes → Bytes) (B : Nat) (key text : Bytes)
    (hB : hmacBlockSize alg = B) (hD : alg.digestSize ≤ B)
    (hdl : ∀ x, (H x).length = alg.digestSize)
    (hhash : key.length > B → alg.hash key = some (H key))
    (hin : ∀ a, a.length = B → alg.final (alg.update (alg.update alg.init a) text) = some (H (a ++ text)))
    (hout : ∀ a d, a.length = B → d.length = alg.digestSize →
      alg.final (alg.update (alg.update alg.init a) d) = some (H (a ++ d))) :
    hmac alg key text = some (Spec.Hash.hmac H B key text) := by
  unfold hmac Spec.Hash.hmac
  simp only [hB, Gen.hmacIpad, Gen.hmacOpad]
  by_cases hk : key.length ≤ B
  · have hk' : ¬ key.length > B := by omega
    simp only [hk, hk', if_true, if_false, Option.bind_some, memcpy_zeros]
    have hlen : (key ++ Spec.Hash.zeros (B - key.length)).length = B := by
      simp [Spec.Hash.zeros]; omega
    rw [hin _ (by simpa using hlen)]
    simp only [Option.bind_some]
    rw [List.take_of_length_le (by rw [hdl]; exact Nat.le_refl _),
      hout _ _ (by simpa using hlen) (hdl _)]
  · have hk' : key.length > B := by omega
    simp only [hk, hk', if_true, if_false, hhash hk', Option.map_some, Option.bind_some, memcpy_zeros]
    have hlen : (H key ++ Spec.Hash.zeros (B - (H key).length)).length = B := by
      simp [Spec.Hash.zeros, hdl]; omega
    rw [hin _ (by simpa using hlen)]
    simp only [Option.bind_some]
    rw [List.take_of_length_le (by rw [hdl]; exact Nat.le_refl _),
      hout _ _ (by simpa using hlen) (hdl _)]

theorem hmac_sha1 (key text : Bytes) :
    hmac algSha1 key text = some (Spec.Hash.hmacSha1 key text) := by
  apply hmac_generic algSha1 Spec.Hash.sha1 64 key text (by decide) (by decide) sha1_length
  · intro _
    have := sha1_stream [key]
    simpa [algSha1, Sha1.hash] using this
  · intro a _
    have := sha1_stream [a, text]
    simpa [algSha1] using this
  · intro a d _ _
    have := sha1_stream [a, d]
    simpa [algSha1] using this

theorem hmac_sha256 (key text : Bytes) (hk : key.length < 2 ^ 60) (ht : text.length < 2 ^ 60) :
    hmac algSha256 key text = some (Spec.Hash.hmacSha256 key text) := by
  apply hmac_generic algSha256 Spec.Hash.sha256 64 key text (by decide) (by decide) sha256_length
  · intro _
    have := sha256_stream [key] (by simp; omega)
    simpa [algSha256, Sha256.hash] using this
  · intro a ha
    have := sha256_stream [a, text] (by simp [ha]; omega)
    simpa [algSha256] using this
  · intro a d ha hd
    have hd' : d.length = 32 := hd
    have := sha256_stream [a, d] (by simp [ha, hd'])
    simpa [algSha256] using this

theorem hmac_sha512 (key text : Bytes) (hk : key.length < 2 ^ 60) (ht : text.length < 2 ^ 60) :
    hmac algSha512 key text = some (Spec.Hash.hmacSha512 key text) := by
  apply hmac_generic algSha512 Spec.Hash.sha512 128 key text (by decide) (by decide) sha512_length
  · intro _
    have := sha512_stream [key] (by simp; omega)
    simpa [algSha512, Sha512.hash] using this
  · intro a ha
    have := sha512_stream [a, text] (by simp [ha]; omega)
    simpa [algSha512] using this
  · intro a d ha hd
    have hd' : d.length = 64 := hd
    have := sha512_stream [a, d] (by simp [ha, hd'])
    simpa [algSha512] using this

end Strophe.Hash
