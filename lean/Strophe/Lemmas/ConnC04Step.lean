/-
Step-level theorems of Props/C04.lean: what `retire`, `<a/>`, `<resumed/>`, `<failed/>` and
`<enabled/>` do to the retained queue.  No reachability.
-/
import Strophe.Lemmas.ConnC04Base
import Strophe.Lemmas.ConnC04Tac

namespace Strophe.Lemmas.ConnC04
open Strophe Strophe.Conn

/-! ### numbering -/

theorem retire_counts (c : Conn) (e : QElem) :
    let c' := retire c e
    (∃ r, c'.tx = c.tx ++ [r] ∧ r.item = e.item ∧ r.owner = e.owner ∧
          r.smNum = if !e.owner.smBit && c.sm.enabled then some c.sm.sentNr else none) ∧
    (if !e.owner.smBit && c.sm.enabled then
       c'.sm.queue = c.sm.queue ++ [(c.sm.sentNr, e)] ∧ c'.sm.sentNr = c.sm.sentNr + 1
     else c'.sm.queue = c.sm.queue ∧ c'.sm.sentNr = c.sm.sentNr) := by
  unfold retire triggerSmCallback
  dsimp only
  cases hb : (!e.owner.smBit && c.sm.enabled)
  · exact ⟨⟨_, rfl, rfl, rfl, by simp⟩, by simp⟩
  · exact ⟨⟨_, rfl, rfl, rfl, by simp⟩, by simp⟩

/-! ### names -/

theorem ne_a_r : b "a" ≠ b "r" := by decide
theorem ne_resumed_enabled : b "resumed" ≠ b "enabled" := by decide
theorem ne_failed_enabled : b "failed" ≠ b "enabled" := by decide
theorem ne_failed_resumed : b "failed" ≠ b "resumed" := by decide

/-! ### release by acknowledgement -/

theorem ack_releases_exactly (c : Conn) (st : XTree) (v : Nat)
    (hns : st.ns? = some Gen.nsSm) (hname : st.name? = some (b "a"))
    (hh : (st.attr (b "h")).map stringToUl = some (v, false))
    (hc : Contig c.sm) (hw : NoWrap c.sm) :
    (smHandleStanza c st).sm.queue = c.sm.queue.filter (fun e => v ≤ e.1.toNat) ∧
    (smHandleStanza c st).sm.sentNr = c.sm.sentNr ∧
    (smHandleStanza c st).queue = c.queue := by
  cases hattr : st.attr (b "h") with
  | none => rw [hattr] at hh; cases hh
  | some hs =>
    rw [hattr] at hh
    have hul : stringToUl hs = (v, false) := by simpa using hh
    have e : smHandleStanza c st =
        { c with sm := { c.sm with queue := c.sm.queue.dropWhile (fun e => e.1.toNat < v), rSent := false } } := by
      unfold smHandleStanza
      rw [hns]
      dsimp only
      rw [if_neg (by simp)]
      unfold smHandleStanza.smElement triggerSmCallback
      rw [hname]
      dsimp only
      rw [if_neg ne_a_r, if_pos rfl, hattr]
      dsimp only
      rw [hul]
      rfl
    rw [e]
    refine ⟨?_, rfl, rfl⟩
    exact cleanup_eq_filter ((contig_iff _).1 hc) hw v

/-! ### queueing -/

/-- fields `pushRawWith` leaves alone -/
structure PushSame (c c' : Conn) : Prop where
  state : c'.state = c.state
  smq : c'.sm.queue = c.sm.queue
  nr : c'.sm.sentNr = c.sm.sentNr
  en : c'.sm.enabled = c.sm.enabled
  evs : c'.evs = c.evs
  tx : c'.tx = c.tx
  g : c'.g = c.g
  neg : c'.negotiated = c.negotiated
  handlers : c'.handlers = c.handlers
  idHandlers : c'.idHandlers = c.idHandlers
  timed : c'.timed = c.timed
  hasSm : c'.hasSm = c.hasSm
  pst : c'.pst = c.pst
  resetParser : c'.resetParser = c.resetParser
  smId : c'.sm.id = c.sm.id
  smPrevid : c'.sm.previd = c.sm.previd
  smBoundJid : c'.sm.boundJid = c.sm.boundJid
  smSupport : c'.sm.support = c.sm.support
  smCanResume : c'.sm.canResume = c.sm.canResume
  smDisable : c'.smDisable = c.smDisable
  soc : c'.sendOnConnect = c.sendOnConnect

theorem PushSame.refl (c : Conn) : PushSame c c :=
  ⟨rfl, rfl, rfl, rfl, rfl, rfl, rfl, rfl, rfl, rfl, rfl, rfl, rfl, rfl, rfl, rfl, rfl, rfl, rfl, rfl, rfl⟩
theorem PushSame.trans {c c' c'' : Conn} (h1 : PushSame c c') (h2 : PushSame c' c'') : PushSame c c'' :=
  ⟨h2.state.trans h1.state, h2.smq.trans h1.smq, h2.nr.trans h1.nr, h2.en.trans h1.en, h2.evs.trans h1.evs,
   h2.tx.trans h1.tx, h2.g.trans h1.g, h2.neg.trans h1.neg, h2.handlers.trans h1.handlers,
   h2.idHandlers.trans h1.idHandlers, h2.timed.trans h1.timed, h2.hasSm.trans h1.hasSm, h2.pst.trans h1.pst,
   h2.resetParser.trans h1.resetParser, h2.smId.trans h1.smId, h2.smPrevid.trans h1.smPrevid,
   h2.smBoundJid.trans h1.smBoundJid, h2.smSupport.trans h1.smSupport, h2.smCanResume.trans h1.smCanResume,
   h2.smDisable.trans h1.smDisable, h2.soc.trans h1.soc⟩

/-- `pushRawWith` after the owner class has been decided -/
def pushCore (c : Conn) (it : Item) (owner : Owner) (snap : Snap) : Conn :=
  let c1 := { c with queue := c.queue ++ [{ item := it, owner := owner, uid := c.nextUid, snap := snap }], nextUid := c.nextUid + 1 }
  if !owner.smBit && c1.sm.enabled && !c1.sm.rSent then
    let c2 := { c1 with sm := { c1.sm with rSent := true } }
    if c2.state = .connected then
      { c2 with queue := c2.queue ++ [{ item := .req, owner := .smStrophe, linked := true, uid := c2.nextUid, snap := snap }], nextUid := c2.nextUid + 1 }
    else c2
  else c1

def ownerOf (c : Conn) (o : Owner) : Owner := if o = .strophe && !c.sm.enabled then Owner.smStrophe else o

theorem pushRawWith_eq (c : Conn) (it : Item) (o : Owner) (sn : Snap) :
    pushRawWith c it o sn = pushCore c it (ownerOf c o) sn := rfl

theorem pushCore_same (c : Conn) (it : Item) (o : Owner) (sn : Snap) : PushSame c (pushCore c it o sn) := by
  unfold pushCore
  dsimp only
  split
  · split <;> exact ⟨rfl, rfl, rfl, rfl, rfl, rfl, rfl, rfl, rfl, rfl, rfl, rfl, rfl, rfl, rfl, rfl, rfl, rfl, rfl, rfl, rfl⟩
  · exact ⟨rfl, rfl, rfl, rfl, rfl, rfl, rfl, rfl, rfl, rfl, rfl, rfl, rfl, rfl, rfl, rfl, rfl, rfl, rfl, rfl, rfl⟩

theorem pushRawWith_same (c : Conn) (it : Item) (o : Owner) (sn : Snap) : PushSame c (pushRawWith c it o sn) := by
  rw [pushRawWith_eq]; exact pushCore_same _ _ _ _

theorem payload_append (q1 q2 : List QElem) : payload (q1 ++ q2) = payload q1 ++ payload q2 := by
  unfold payload; rw [List.map_append, List.filter_append]

theorem pushRawWith_payload (c : Conn) (it : Item) (o : Owner) (sn : Snap) :
    payload (pushRawWith c it o sn).queue = payload c.queue ++ (if it = .req then [] else [it]) := by
  have h1 : ∀ (e : QElem), e.item = it → payload [e] = if it = .req then [] else [it] := by
    intro e he
    unfold payload
    by_cases h : it = .req
    · simp [he, h]
    · simp [he, h]
  have h2 : ∀ (e : QElem), e.item = .req → payload [e] = [] := by
    intro e he
    unfold payload
    simp [he]
  rw [pushRawWith_eq]
  unfold pushCore
  dsimp only
  split
  · split
    · rw [payload_append, payload_append, h1 _ rfl, h2 _ rfl, List.append_nil]
    · rw [payload_append, h1 _ rfl]
  · rw [payload_append, h1 _ rfl]

theorem pushCore_mem (c : Conn) (it : Item) (o : Owner) (sn : Snap) :
    ∃ e ∈ (pushCore c it o sn).queue, e.item = it ∧ e.owner = o ∧ e.snap = sn := by
  unfold pushCore
  dsimp only
  split
  · split
    · exact ⟨_, List.mem_append_left _ (List.mem_append_right _ (List.mem_singleton.2 rfl)), rfl, rfl, rfl⟩
    · exact ⟨_, List.mem_append_right _ (List.mem_singleton.2 rfl), rfl, rfl, rfl⟩
  · exact ⟨_, List.mem_append_right _ (List.mem_singleton.2 rfl), rfl, rfl, rfl⟩

/-- the element itself is queued with its owner and snapshot (the owner class changes only while
    stream management is off) -/
theorem pushRawWith_mem (c : Conn) (it : Item) (o : Owner) (sn : Snap) (hen : c.sm.enabled = true) :
    ∃ e ∈ (pushRawWith c it o sn).queue, e.item = it ∧ e.owner = o ∧ e.snap = sn := by
  have ho : ownerOf c o = o := by
    unfold ownerOf; rw [hen]; simp
  rw [pushRawWith_eq, ho]
  exact pushCore_mem _ _ _ _

theorem pushRawWith_queue_mono (c : Conn) (it : Item) (o : Owner) (sn : Snap) :
    ∀ e ∈ c.queue, e ∈ (pushRawWith c it o sn).queue := by
  intro e he
  rw [pushRawWith_eq]
  unfold pushCore
  dsimp only
  split
  · split
    · exact List.mem_append_left _ (List.mem_append_left _ he)
    · exact List.mem_append_left _ he
  · exact List.mem_append_left _ he

/-- the loop of `_sm_queue_resend` on a connected connection -/
def resendLoop (q : List (UInt32 × QElem)) (c0 : Conn) : Conn :=
  q.foldl (fun c e => if c.state = .connected then pushRawWith c e.2.item e.2.owner e.2.snap else c) c0

theorem resendLoop_same : ∀ (q : List (UInt32 × QElem)) (c0 : Conn), PushSame c0 (resendLoop q c0)
  | [], c0 => PushSame.refl c0
  | e :: q, c0 => by
    unfold resendLoop
    rw [List.foldl_cons]
    refine PushSame.trans ?_ (resendLoop_same q _)
    split
    · exact pushRawWith_same _ _ _ _
    · exact PushSame.refl _

theorem resendLoop_payload : ∀ (q : List (UInt32 × QElem)) (c0 : Conn), c0.state = .connected →
    (∀ e ∈ q, e.2.item ≠ .req) →
    payload (resendLoop q c0).queue = payload c0.queue ++ q.map (·.2.item)
  | [], c0, _, _ => by simp [resendLoop]
  | e :: q, c0, hs, hq => by
    unfold resendLoop
    rw [List.foldl_cons, if_pos hs]
    have ih := resendLoop_payload q (pushRawWith c0 e.2.item e.2.owner e.2.snap)
      ((pushRawWith_same _ _ _ _).state.trans hs) (fun x hx => hq x (List.mem_cons_of_mem _ hx))
    unfold resendLoop at ih
    rw [ih, pushRawWith_payload, if_neg (hq e List.mem_cons_self), List.map_cons, List.append_assoc]
    rfl

theorem resendLoop_queue_mono (q : List (UInt32 × QElem)) : ∀ (c0 : Conn), ∀ e ∈ c0.queue, e ∈ (resendLoop q c0).queue := by
  induction q with
  | nil => intro c0 e he; exact he
  | cons x q ih =>
    intro c0 e he
    unfold resendLoop
    rw [List.foldl_cons]
    apply ih
    split
    · exact pushRawWith_queue_mono _ _ _ _ e he
    · exact he

/-- every element handed to the loop is in the send queue afterwards, with its owner and snapshot -/
theorem resendLoop_mem : ∀ (q : List (UInt32 × QElem)) (c0 : Conn), c0.state = .connected → c0.sm.enabled = true →
    ∀ x ∈ q, ∃ e ∈ (resendLoop q c0).queue, e.item = x.2.item ∧ e.owner = x.2.owner ∧ e.snap = x.2.snap
  | [], _, _, _ => by intro x hx; cases hx
  | y :: q, c0, hs, hen => by
    intro x hx
    have hsame := pushRawWith_same c0 y.2.item y.2.owner y.2.snap
    have e1 : resendLoop (y :: q) c0 = resendLoop q (pushRawWith c0 y.2.item y.2.owner y.2.snap) := by
      unfold resendLoop
      rw [List.foldl_cons, if_pos hs]
    rw [e1]
    rcases List.mem_cons.1 hx with rfl | hx
    · obtain ⟨e, he, h1⟩ := pushRawWith_mem c0 x.2.item x.2.owner x.2.snap hen
      exact ⟨e, resendLoop_queue_mono q _ e he, h1⟩
    · exact resendLoop_mem q _ (hsame.state.trans hs) (hsame.en.trans hen) x hx

theorem smQueueResend_eq (c : Conn) :
    smQueueResend c = resendLoop c.sm.queue { c with sm := { c.sm with queue := [] } } := rfl

/-! ### resumption -/

theorem dropWhile_decomp {α} (p : α → Bool) : ∀ (l : List α) (e : α) (rest : List α), l.dropWhile p = e :: rest →
    p e = false ∧ ∃ pre, l = pre ++ e :: rest ∧ ∀ x ∈ pre, p x = true
  | [], _, _, h => by cases h
  | y :: l, e, rest, h => by
    rw [List.dropWhile_cons] at h
    by_cases hy : p y = true
    · rw [if_pos hy] at h
      obtain ⟨h1, pre, h2, h3⟩ := dropWhile_decomp p l e rest h
      refine ⟨h1, y :: pre, by rw [h2]; rfl, ?_⟩
      intro x hx
      rcases List.mem_cons.1 hx with rfl | hx
      · exact hy
      · exact h3 x hx
    · rw [if_neg hy] at h
      injection h with h1 h2
      subst h1; subst h2
      exact ⟨by simpa using hy, [], rfl, fun x hx => by cases hx⟩

/-- the first retained element not covered by an honest `h` carries exactly the number `h` -/
theorem cleanup_head {q : List (UInt32 × QElem)} {n : UInt32} (hc : ContigQ q n) (hw : q.length ≤ n.toNat)
    (v : Nat) (hlo : n.toNat - q.length ≤ v) (e : UInt32 × QElem) (rest : List (UInt32 × QElem))
    (h : smQueueCleanup q v = e :: rest) : e.1 = UInt32.ofNat v := by
  unfold smQueueCleanup at h
  obtain ⟨h1, pre, h2, h3⟩ := dropWhile_decomp _ q e rest h
  have h1 : v ≤ e.1.toNat := by simpa using h1
  have hlen : q.length = pre.length + (rest.length + 1) := by rw [h2]; simp
  have hk : pre.length < q.length := by omega
  have hek : q[pre.length] = e := by
    simp only [h2]
    rw [List.getElem_append_right (Nat.le_refl _)]
    simp
  have hn := hc.toNat hw pre.length hk
  rw [hek] at hn
  have hle : e.1.toNat ≤ v := by
    by_cases h0 : pre.length = 0
    · omega
    · have hk' : pre.length - 1 < q.length := by omega
      have hn' := hc.toNat hw (pre.length - 1) hk'
      have hmem : q[pre.length - 1] ∈ pre := by
        simp only [h2]
        rw [List.getElem_append_left (by omega)]
        exact List.getElem_mem _
      have := h3 _ hmem
      have hlt : (q[pre.length - 1]).1.toNat < v := by simpa using this
      omega
  have hev : e.1.toNat = v := by omega
  rw [← hev, UInt32.ofNat_toNat]

/-- what the application's connection handler sends from within the CONNECT notification -/
def ocItem : Item := .user (b "presence") (some (b "oc"))

/-- CONNECT is delivered; the application's handler may send at once -/
theorem negotiationSuccess_same (c : Conn) :
    PushSame (notify { c with negotiated := true } .connect) (negotiationSuccess c) := by
  unfold negotiationSuccess
  dsimp only
  split
  · unfold sendStanza pushRaw
    split
    · exact pushRawWith_same _ _ _ _
    · exact PushSame.refl _
  · exact PushSame.refl _

theorem negotiationSuccess_fields (c : Conn) :
    (c.state = .connected → payload (negotiationSuccess c).queue =
      payload c.queue ++ (if c.sendOnConnect = true then [ocItem] else [])) ∧
    (negotiationSuccess c).sm.queue = c.sm.queue ∧ (negotiationSuccess c).sm.sentNr = c.sm.sentNr ∧
    (negotiationSuccess c).sm.enabled = c.sm.enabled ∧
    (negotiationSuccess c).evs = c.evs ++ [(c.g, Ev.connect)] ∧ (negotiationSuccess c).state = c.state ∧
    (negotiationSuccess c).tx = c.tx := by
  have hs := negotiationSuccess_same c
  refine ⟨fun hc => ?_, hs.smq, hs.nr, hs.en, hs.evs, hs.state, hs.tx⟩
  unfold negotiationSuccess
  dsimp only
  have e1 : (notify { c with negotiated := true } .connect).sendOnConnect = c.sendOnConnect := rfl
  rw [e1]
  by_cases hso : c.sendOnConnect = true
  · rw [if_pos hso, if_pos hso]
    unfold sendStanza pushRaw
    have : isConnectedFor (notify { c with negotiated := true } .connect) Owner.user = true := by
      unfold isConnectedFor notify
      simp [hc]
    rw [if_pos this, pushRawWith_payload, if_neg (by decide)]
    rfl
  · rw [if_neg hso, if_neg hso, List.append_nil]
    rfl

/-- the accepting branch of `<resumed/>` -/
def resumedC1 (c : Conn) (v : Nat) : Conn :=
  let q := smQueueCleanup c.sm.queue v
  let sent : UInt32 := match q with
    | e :: _ => e.1
    | [] => UInt32.ofNat v
  { c with sm := { c.sm with enabled := true, id := c.sm.previd, previd := none, boundJid := none, sentNr := sent, queue := q }, boundJid := c.sm.boundJid, g := { c.g with resumed := true } }

theorem handleSm_resumed (c : Conn) (st : XTree) (ours : Bytes) (v : Nat)
    (hname : st.name? = some (b "resumed")) (hp : c.sm.previd = some ours)
    (hpv : st.attr (b "previd") = some ours) (hh : getH st = some v) :
    handleSm c st = negotiationSuccess (smQueueResend (resumedC1 c v)) := by
  unfold handleSm
  rw [hname]
  dsimp only [Option.getD_some]
  rw [if_neg ne_resumed_enabled, if_pos rfl, hp]
  dsimp only
  rw [if_neg (by rw [hpv]; simp), hh]
  unfold resumedC1 triggerSmCallback
  rw [hp]
  rfl

/-- `<resumed h='v'/>` answering our `<resume/>` with an `h` the server can have counted: exactly the
    retained elements numbered `v` and above are put back into the send queue, once, in their
    original order, behind whatever the library itself had queued and BEFORE anything the application
    sends from its CONNECT handler; the counter continues at `v`; only then is the application told
    that the connection is up.
    (Compared with the first formulation: `hq` added — the retained elements are no ack requests;
    true in every reachable state, see `retained_are_user_items`; and what the connection handler
    sends comes last.) -/
theorem resumed_retransmits_exactly (c : Conn) (st : XTree) (ours : Bytes) (v : Nat)
    (hname : st.name? = some (b "resumed")) (hp : c.sm.previd = some ours)
    (hpv : st.attr (b "previd") = some ours) (hh : getH st = some v)
    (hstate : c.state = .connected) (hc : Contig c.sm) (hw : NoWrap c.sm)
    (hhonest : c.sm.sentNr.toNat - c.sm.queue.length ≤ v ∧ v ≤ c.sm.sentNr.toNat)
    (hq : ∀ e ∈ c.sm.queue, e.2.item ≠ .req) :
    let c' := handleSm c st
    payload c'.queue = payload c.queue ++ ((c.sm.queue.filter (fun e => v ≤ e.1.toNat)).map (·.2.item)) ++
      (if c.sendOnConnect then [.user (b "presence") (some (b "oc"))] else []) ∧
    c'.sm.queue = [] ∧ c'.sm.sentNr = UInt32.ofNat v ∧ c'.sm.enabled = true ∧
    (∃ g, c'.evs = c.evs ++ [(g, Ev.connect)]) := by
  intro c'
  have e : c' = negotiationSuccess (smQueueResend (resumedC1 c v)) := handleSm_resumed c st ours v hname hp hpv hh
  have hcq := (contig_iff _).1 hc
  have hfil := cleanup_eq_filter hcq hw v
  have hsame := resendLoop_same (resumedC1 c v).sm.queue { (resumedC1 c v) with sm := { (resumedC1 c v).sm with queue := [] } }
  have hR : smQueueResend (resumedC1 c v) =
      resendLoop (resumedC1 c v).sm.queue { (resumedC1 c v) with sm := { (resumedC1 c v).sm with queue := [] } } :=
    smQueueResend_eq _
  obtain ⟨f1, f2, f3, f4, f5, _, _⟩ := negotiationSuccess_fields (smQueueResend (resumedC1 c v))
  have hst : (smQueueResend (resumedC1 c v)).state = .connected := by rw [hR, hsame.state]; exact hstate
  have hso : (smQueueResend (resumedC1 c v)).sendOnConnect = c.sendOnConnect := by rw [hR, hsame.soc]; rfl
  have hq' : ∀ e ∈ (resumedC1 c v).sm.queue, e.2.item ≠ .req := by
    intro x hx
    have : x ∈ smQueueCleanup c.sm.queue v := hx
    rw [hfil] at this
    exact hq x (List.mem_filter.1 this).1
  have hpay := resendLoop_payload (resumedC1 c v).sm.queue
    { (resumedC1 c v) with sm := { (resumedC1 c v).sm with queue := [] } } hstate hq'
  have hsent : (resumedC1 c v).sm.sentNr = UInt32.ofNat v := by
    show (match smQueueCleanup c.sm.queue v with | e :: _ => e.1 | [] => UInt32.ofNat v) = UInt32.ofNat v
    cases hcl : smQueueCleanup c.sm.queue v with
    | nil => rfl
    | cons x rest => exact cleanup_head hcq hw v hhonest.1 x rest hcl
  rw [e]
  refine ⟨?_, ?_, ?_, ?_, ?_⟩
  · rw [f1 hst, hso, hR, hpay]
    have : (resumedC1 c v).sm.queue = c.sm.queue.filter (fun e => decide (v ≤ e.1.toNat)) := hfil
    rw [this]
    rfl
  · rw [f2, hR, hsame.smq]
  · rw [f3, hR, hsame.nr]; exact hsent
  · rw [f4, hR, hsame.en]; rfl
  · exact ⟨_, by rw [f5, hR, hsame.evs]; rfl⟩

theorem resetSmForReconnect_same (c : Conn) :
    let r := resetSmForReconnect c
    r.sm.queue = c.sm.queue ∧ r.sm.sentNr = c.sm.sentNr ∧ r.sm.enabled = false ∧ r.tx = c.tx ∧ r.queue = c.queue ∧
    r.state = c.state ∧ r.handlers = c.handlers ∧ r.idHandlers = c.idHandlers ∧ r.timed = c.timed ∧
    r.hasSm = c.hasSm ∧ r.sm.id = none ∧ r.nextUid = c.nextUid ∧ r.evs = c.evs ∧ r.g = c.g := by
  unfold resetSmForReconnect
  dsimp only
  split <;> exact ⟨rfl, rfl, rfl, rfl, rfl, rfl, rfl, rfl, rfl, rfl, rfl, rfl, rfl, rfl⟩

/-! ### failed resumption -/

/-- the retained queue is `q` -/
def QIs (q : List (UInt32 × QElem)) (c : Conn) : Prop := c.sm.queue = q

section
variable {q : List (UInt32 × QElem)} {c : Conn}
theorem QIs_triggerSmCallback (h : QIs q c) : QIs q (triggerSmCallback c) := h
theorem QIs_addHandler {fn ud ns name type user} (h : QIs q c) : QIs q (addHandler c fn ud ns name type user) := by
  c4auto addHandler
theorem QIs_addIdHandler {fn id user} (h : QIs q c) : QIs q (addIdHandler c fn id user) := by
  c4auto addIdHandler
theorem QIs_addTimed {fn period user} (h : QIs q c) : QIs q (addTimed c fn period user) := by
  c4auto addTimed
theorem QIs_notify {e} (h : QIs q c) : QIs q (notify c e) := by
  c4auto notify
theorem QIs_pushRawWith {it o sn} (h : QIs q c) : QIs q (pushRawWith c it o sn) :=
  (pushRawWith_same c it o sn).smq.trans h
theorem QIs_pushRaw {it o} (h : QIs q c) : QIs q (pushRaw c it o) := by
  c4auto pushRaw
theorem QIs_sendStanza {it o} (h : QIs q c) : QIs q (sendStanza c it o) := by
  c4auto sendStanza
theorem QIs_sendRawString {it} (h : QIs q c) : QIs q (sendRawString c it) := by
  c4auto sendRawString
theorem QIs_xmppDisconnect (h : QIs q c) : QIs q (xmppDisconnect c) := by
  c4auto xmppDisconnect
theorem QIs_doBind (h : QIs q c) : QIs q (doBind c) := by
  c4auto doBind
theorem QIs_negotiationSuccess (h : QIs q c) : QIs q (negotiationSuccess c) := by
  c4auto negotiationSuccess
end

theorem ne_inf_fni : b "item-not-found" ≠ b "feature-not-implemented" := by decide

/-- failed resumption (`item-not-found`): what the server reports as handled is dropped, everything
    else stays retained -/
theorem failed_keeps_unhandled (c : Conn) (st cause : XTree)
    (hname : st.name? = some (b "failed")) (hcause : st.childByNs Gen.nsStanzasIetf = some cause)
    (hinf : cause.name? = some (b "item-not-found")) (hres : c.sm.resume = true) :
    (handleSm c st).sm.queue = smQueueCleanup c.sm.queue ((getH st).getD 0) := by
  show QIs _ (handleSm c st)
  unfold handleSm
  rw [hname]
  dsimp only [Option.getD_some]
  rw [if_neg ne_failed_enabled, if_neg ne_failed_resumed, if_pos rfl, hcause]
  dsimp only
  rw [hinf]
  dsimp only [Option.getD_some]
  simp only [hres, ↓reduceIte]
  c4trav
  all_goals rfl

/-! ### a new session after a failed resumption -/

theorem handleSm_enabled (c : Conn) (st : XTree)
    (hname : st.name? = some (b "enabled")) (hen : c.sm.enabled = true)
    (hid : (st.attr (b "resume")).isSome = true → (st.attr (b "id")).isSome = true) :
    ∃ c2 : Conn, handleSm c st = negotiationSuccess (smQueueResend c2) ∧ c2.sm.queue = c.sm.queue ∧
      c2.sm.sentNr = c.sm.sentNr ∧ c2.sm.enabled = true ∧ c2.state = c.state ∧ c2.queue = c.queue ∧
      c2.evs = c.evs ∧ c2.sendOnConnect = c.sendOnConnect := by
  unfold handleSm
  rw [hname]
  dsimp only [Option.getD_some]
  rw [if_pos rfl, if_neg (by rw [hen]; simp)]
  cases hr : st.attr (b "resume") with
  | none => exact ⟨_, rfl, rfl, rfl, hen, rfl, rfl, rfl, rfl⟩
  | some r =>
    rw [hr] at hid
    cases hi : st.attr (b "id") with
    | none => rw [hi] at hid; exact absurd (hid rfl) (by simp)
    | some i => exact ⟨_, rfl, rfl, rfl, hen, rfl, rfl, rfl, rfl⟩

/-- … and is sent again, first and in order, as soon as the new session's `<enabled/>` arrives —
    before anything the application sends from its CONNECT handler.
    (Compared with the first formulation: `hq` added, see `resumed_retransmits_exactly`; what the
    connection handler sends comes last.) -/
theorem enabled_resends_all (c : Conn) (st : XTree)
    (hname : st.name? = some (b "enabled")) (hen : c.sm.enabled = true) (hstate : c.state = .connected)
    (hid : (st.attr (b "resume")).isSome = true → (st.attr (b "id")).isSome = true)
    (hq : ∀ e ∈ c.sm.queue, e.2.item ≠ .req) :
    let c' := handleSm c st
    payload c'.queue = payload c.queue ++ c.sm.queue.map (·.2.item) ++
      (if c.sendOnConnect then [.user (b "presence") (some (b "oc"))] else []) ∧
    c'.sm.queue = [] ∧ c'.sm.sentNr = c.sm.sentNr := by
  intro c'
  obtain ⟨c2, e, h1, h2, _, h4, h5, _, h7⟩ := handleSm_enabled c st hname hen hid
  have e' : c' = negotiationSuccess (smQueueResend c2) := e
  have hsame := resendLoop_same c2.sm.queue { c2 with sm := { c2.sm with queue := [] } }
  have hR : smQueueResend c2 = resendLoop c2.sm.queue { c2 with sm := { c2.sm with queue := [] } } :=
    smQueueResend_eq _
  obtain ⟨f1, f2, f3, _, _, _, _⟩ := negotiationSuccess_fields (smQueueResend c2)
  have hst : (smQueueResend c2).state = .connected := by rw [hR, hsame.state]; exact h4.trans hstate
  have hso : (smQueueResend c2).sendOnConnect = c.sendOnConnect := by rw [hR, hsame.soc]; exact h7
  have hpay := resendLoop_payload c2.sm.queue { c2 with sm := { c2.sm with queue := [] } } (h4.trans hstate)
    (by rw [h1]; exact hq)
  rw [e']
  refine ⟨?_, ?_, ?_⟩
  · rw [f1 hst, hso, hR, hpay, h1]
    show payload c2.queue ++ _ ++ _ = _
    rw [h5]; rfl
  · rw [f2, hR, hsame.smq]
  · rw [f3, hR, hsame.nr]; exact h2

end Strophe.Lemmas.ConnC04
