/-
Helper lemmas for C14 (Model/Discovery.lean).
-/
import Strophe.Model.Discovery

namespace Strophe.Discovery
open Strophe.Gen Strophe.Gen.Disc

/-! ### behaviours -/
theorem Beh.ok_writable {b : Beh} (h : b.ok = true) : b.writable = true := by
  cases b <;> simp_all [Beh.ok, Beh.writable]

theorem Beh.sync_not_ok {b : Beh} (h : b.sync = true) : b.ok = false := by
  cases b <;> simp_all [Beh.ok, Beh.sync]

/-! ### traces -/
@[simp] theorem attempts_append (a b : List Act) : attempts (a ++ b) = attempts a ++ attempts b := by
  induction a with
  | nil => rfl
  | cons x xs ih => cases x <;> simp [attempts, ih]

@[simp] theorem attempts_map_try (l : List Endpoint) : attempts (l.map .try_) = l := by
  induction l with
  | nil => rfl
  | cons x xs ih => simp [attempts, ih]

@[simp] theorem attempts_gai_cons (h : Host) (p : Nat) (l : List Act) :
    attempts (.gai h p :: l) = attempts l := rfl

@[simp] theorem attempts_nil : attempts [] = [] := rfl

/-! ### the cursor -/

/-- the candidates a cursor has not yet handed to `connect` -/
def rem (env : Env) (xs : Sock) : List Endpoint := xs.ainfoCur ++ xs.srvCur.flatMap (endpointsOf env)

theorem tryAddrs_spec (beh : Endpoint → Beh) (l : List Endpoint) :
    l = (tryAddrs beh l).1 ++ (tryAddrs beh l).2.2 ∧
    ((tryAddrs beh l).2.1 = none → (tryAddrs beh l).2.2 = [] ∧ ∀ e ∈ (tryAddrs beh l).1, (beh e).sync = true) ∧
    (∀ ep, (tryAddrs beh l).2.1 = some ep →
      ∃ pre, (tryAddrs beh l).1 = pre ++ [ep] ∧ (∀ e ∈ pre, (beh e).sync = true) ∧ (beh ep).sync = false) := by
  induction l with
  | nil => simp [tryAddrs]
  | cons x xs ih =>
    unfold tryAddrs
    by_cases hx : (beh x).sync = true
    · simp only [hx, if_true]
      obtain ⟨h1, h2, h3⟩ := ih
      refine ⟨by simp [← h1], ?_, ?_⟩
      · intro hn
        obtain ⟨a, b⟩ := h2 hn
        exact ⟨a, by intro e he; rcases List.mem_cons.mp he with rfl | he; exact hx; exact b e he⟩
      · intro ep hep
        obtain ⟨pre, a, b, c⟩ := h3 ep hep
        refine ⟨x :: pre, by simp [a], ?_, c⟩
        intro e he
        rcases List.mem_cons.mp he with rfl | he
        · exact hx
        · exact b e he
    · simp only [hx]
      refine ⟨by simp, by simp, ?_⟩
      intro ep hep
      simp at hep
      subst hep
      exact ⟨[], by simp, by simp, by simpa using hx⟩

/-- what `sock_connect` guarantees (code after d125b74) -/
structure ConnectSpec (env : Env) (xs : Sock) (res : Sock × Option Endpoint × List Act) : Prop where
  consume : rem env xs = attempts res.2.2 ++ rem env res.1
  some_ : ∀ ep, res.2.1 = some ep →
    ∃ pre, attempts res.2.2 = pre ++ [ep] ∧ (∀ e ∈ pre, (env.beh e).sync = true) ∧ (env.beh ep).sync = false
  none_ : res.2.1 = none → rem env res.1 = [] ∧ ∀ e ∈ attempts res.2.2, (env.beh e).sync = true

theorem sockConnectGo_spec (env : Env) (srv : List Srv) :
    ∀ ainfo, ConnectSpec env ⟨srv, ainfo⟩ (sockConnectGo true env ainfo srv) := by
  induction srv with
  | nil =>
    intro ainfo
    obtain ⟨h1, h2, h3⟩ := tryAddrs_spec env.beh ainfo
    unfold sockConnectGo
    rcases hta : tryAddrs env.beh ainfo with ⟨tried, r, rest⟩
    rw [hta] at h1 h2 h3
    cases r with
    | none =>
      obtain ⟨hr, hs⟩ := h2 rfl
      simp only at hr hs h1
      subst hr
      refine ⟨?_, by simp, ?_⟩
      · simp [rem, h1]
      · intro _; simpa [rem] using hs
    | some ep =>
      refine ⟨?_, ?_, by simp⟩
      · simp [rem]; simpa using h1
      · intro ep' hep'
        simp at hep'
        subst hep'
        simpa using h3 ep rfl
  | cons r srv' ih =>
    intro ainfo
    obtain ⟨h1, h2, h3⟩ := tryAddrs_spec env.beh ainfo
    unfold sockConnectGo
    rcases hta : tryAddrs env.beh ainfo with ⟨tried, res, rest⟩
    rw [hta] at h1 h2 h3
    cases res with
    | none =>
      obtain ⟨hr, hs⟩ := h2 rfl
      simp only at hr hs h1
      subst hr
      have ih' := ih (endpointsOf env r)
      simp only [Bool.not_true, Bool.false_and, Bool.false_eq_true, if_false]
      refine ⟨?_, ?_, ?_⟩
      · have := ih'.consume
        simp only [rem] at this ⊢
        simp only [attempts_append, attempts_map_try, attempts_gai_cons, List.flatMap_cons]
        rw [h1]
        simp only [List.append_nil, List.append_assoc]
        rw [this]
      · intro ep hep
        obtain ⟨pre, a, b, c⟩ := ih'.some_ ep hep
        refine ⟨tried ++ pre, ?_, ?_, c⟩
        · simp [a]
        · intro e he
          rcases List.mem_append.mp he with he | he
          · exact hs e he
          · exact b e he
      · intro hn
        obtain ⟨a, b⟩ := ih'.none_ hn
        refine ⟨a, ?_⟩
        intro e he
        simp only [attempts_append, attempts_map_try, attempts_gai_cons] at he
        rcases List.mem_append.mp he with he | he
        · exact hs e he
        · exact b e he
    | some ep =>
      refine ⟨?_, ?_, by simp⟩
      · simp only [rem, attempts_map_try]
        simp only at h1
        rw [h1]
        simp
      · intro ep' hep'
        simp at hep'
        subst hep'
        simpa using h3 ep rfl

theorem sockConnect_spec (env : Env) (xs : Sock) : ConnectSpec env xs (sockConnect true env xs) := by
  cases xs with
  | mk s a => exact sockConnectGo_spec env s a

end Strophe.Discovery

namespace Strophe.Discovery
open Strophe.Gen Strophe.Gen.Disc

/-- `_connect_next` in terms of the cursor -/
theorem connectNext_spec (env : Env) (now : Nat) (c : Conn) (xs : Sock) (hx : c.xsock = some xs) :
    (connectNext true env now c).1.state = c.state ∧ (connectNext true env now c).1.isRaw = c.isRaw ∧
    ∃ xs', (connectNext true env now c).1.xsock = some xs' ∧
      rem env xs = attempts (connectNext true env now c).2.2 ++ rem env xs' ∧
      ((connectNext true env now c).2.1 = true →
        ∃ ep pre, (connectNext true env now c).1.sock = some ep ∧ (connectNext true env now c).1.stamp = now ∧
          attempts (connectNext true env now c).2.2 = pre ++ [ep] ∧
          (∀ e ∈ pre, (env.beh e).sync = true) ∧ (env.beh ep).sync = false) ∧
      ((connectNext true env now c).2.1 = false →
        (connectNext true env now c).1.sock = none ∧ rem env xs' = [] ∧
          ∀ e ∈ attempts (connectNext true env now c).2.2, (env.beh e).sync = true) := by
  have sp := sockConnect_spec env xs
  unfold connectNext
  simp only [hx]
  cases hr : (sockConnect true env xs).2.1 with
  | none =>
    simp only
    refine ⟨trivial, trivial, _, rfl, sp.consume, by simp, ?_⟩
    intro _
    exact ⟨by simp, sp.none_ hr⟩
  | some ep =>
    simp only
    refine ⟨trivial, trivial, _, rfl, sp.consume, ?_, by simp⟩
    intro _
    obtain ⟨pre, a, b, c⟩ := sp.some_ ep hr
    exact ⟨ep, pre, by simp, by simp, a, b, c⟩

end Strophe.Discovery

namespace Strophe.Discovery
open Strophe.Gen Strophe.Gen.Disc

/-! ### the loop -/

/-- one loop iteration `t` ms after the previous one (the body of `runTicks`) -/
def tick (env : Env) (r : Run) (t : Nat) : Run :=
  ⟨(runOnce true env (r.now + t) r.conn).1, r.now + t, r.acts ++ (runOnce true env (r.now + t) r.conn).2.1,
   r.evs ++ (runOnce true env (r.now + t) r.conn).2.2⟩

theorem runTicks_cons (env : Env) (r : Run) (t : Nat) (ts : List Nat) :
    runTicks true env r (t :: ts) = runTicks true env (tick env r t) ts := rfl

/-- the part of `xmpp_run_once` from `select()` on, for a connection that is still CONNECTING
    with descriptor `c.sock`: new connection, further calls, notifications -/
def phase2 (env : Env) (now : Nat) (c : Conn) : Conn × List Act × List Ev :=
  match c.sock with
  | none => (c, [], [])
  | some ep =>
    if !(env.beh ep).writable then (c, [], [])
    else if (env.beh ep).ok then ({ c with state := .connected }, [], established c)
    else
      if (connectNext true env now c).2.1 then ((connectNext true env now c).1, (connectNext true env now c).2.2, [])
      else (disconnect (connectNext true env now c).1, (connectNext true env now c).2.2, [.disconnect .connectNext])

theorem runOnce_connecting (env : Env) (now : Nat) (c : Conn) (hs : c.state = .connecting) :
    runOnce true env now c =
      if now - c.stamp ≤ connectTimeout then phase2 env now c
      else if (connectNext true env now c).2.1 then
        ((phase2 env now (connectNext true env now c).1).1,
         (connectNext true env now c).2.2 ++ (phase2 env now (connectNext true env now c).1).2.1,
         (phase2 env now (connectNext true env now c).1).2.2)
      else (disconnect (connectNext true env now c).1, (connectNext true env now c).2.2, [.disconnect .timeout]) := by
  unfold runOnce phase2
  simp only [hs]
  by_cases hto : now - c.stamp ≤ connectTimeout
  · simp only [hto, if_true, Bool.not_true, Bool.false_eq_true, if_false, List.nil_append]
    cases c.sock with
    | none => rfl
    | some ep => rfl
  · simp only [hto, if_false]
    cases hb : (connectNext true env now c).2.1 with
    | false => simp
    | true =>
      simp only [Bool.not_true, Bool.false_eq_true, if_false, if_true]
      cases (connectNext true env now c).1.sock with
      | none => simp
      | some ep =>
        simp only
        split
        · simp
        · split
          · simp
          · split <;> simp

theorem runOnce_idle (env : Env) (now : Nat) (c : Conn) (hs : c.state ≠ .connecting) :
    runOnce true env now c = (c, [], []) := by
  unfold runOnce
  cases h : c.state <;> simp_all

/-- facts about a run whose connection is CONNECTING (relative to the candidate list `C`);
    `sched` = "the loop is run at least every CONNECT_TIMEOUT ms" -/
structure Pend (env : Env) (C : List Endpoint) (sched : Prop) (r : Run) : Prop where
  cursor : ∃ xs, r.conn.xsock = some xs ∧ attempts r.acts ++ rem env xs = C
  pending : ∃ pre ep, r.conn.sock = some ep ∧ attempts r.acts = pre ++ [ep] ∧
    (sched → ∀ e ∈ pre, (env.beh e).ok = false)
  stamp : r.conn.stamp ≤ r.now
  noDisc : ∀ e, Ev.disconnect e ∉ r.evs

structure Inv (env : Env) (C : List Endpoint) (sched : Prop) (r : Run) : Prop where
  connecting : r.conn.state = .connecting → Pend env C sched r ∧
    (sched → ∀ ep, r.conn.sock = some ep → (env.beh ep).ok = true → r.conn.stamp = r.now)
  connected : r.conn.state = .connected →
    (∃ rest, attempts r.acts ++ rest = C) ∧
    (∃ pre ep, r.conn.sock = some ep ∧ attempts r.acts = pre ++ [ep] ∧ (env.beh ep).ok = true ∧
      (sched → ∀ e ∈ pre, (env.beh e).ok = false)) ∧
    (∀ e, Ev.disconnect e ∉ r.evs)
  disconnected : r.conn.state = .disconnected → attempts r.acts = C

theorem phase2_inv (env : Env) (C : List Endpoint) (sched : Prop) (q : Run)
    (hs : q.conn.state = .connecting) (hp : Pend env C sched q) :
    Inv env C sched ⟨(phase2 env q.now q.conn).1, q.now, q.acts ++ (phase2 env q.now q.conn).2.1,
      q.evs ++ (phase2 env q.now q.conn).2.2⟩ := by
  obtain ⟨⟨xs, hx, hC⟩, ⟨pre, ep, hsock, hatt, hpre⟩, hst, hev⟩ := hp
  unfold phase2
  simp only [hsock]
  by_cases hw : (env.beh ep).writable = true
  · by_cases hk : (env.beh ep).ok = true
    · -- connected
      simp only [hw, hk, Bool.not_true, Bool.false_eq_true, if_false, if_true, List.append_nil]
      refine ⟨by simp, ?_, by simp⟩
      intro _
      refine ⟨⟨_, hC⟩, ⟨pre, ep, rfl, hatt, hk, hpre⟩, ?_⟩
      intro e he
      rcases List.mem_append.mp he with he | he
      · exact hev e he
      · unfold established at he
        split at he <;> simp at he
    · -- connection failed: next candidate
      have hk' : (env.beh ep).ok = false := by simpa using hk
      simp only [hw, hk', Bool.not_true, Bool.false_eq_true, if_false]
      obtain ⟨hst2, _, xs', hx', hcons, hsome, hnone⟩ := connectNext_spec env q.now q.conn xs hx
      cases hb : (connectNext true env q.now q.conn).2.1 with
      | true =>
        simp only [if_true, List.append_nil]
        obtain ⟨ep2, pre2, hsock2, hstamp2, hatt2, hpre2, _⟩ := hsome hb
        refine ⟨?_, by simp [hst2, hs], by simp [hst2, hs]⟩
        intro _
        refine ⟨⟨⟨xs', hx', ?_⟩, ⟨pre ++ [ep] ++ pre2, ep2, hsock2, ?_, ?_⟩, by simp [hstamp2], hev⟩, ?_⟩
        · rw [← hC, hcons]; simp
        · simp [hatt, hatt2]
        · intro hsch e he
          rcases List.mem_append.mp he with he | he
          · rcases List.mem_append.mp he with he | he
            · exact hpre hsch e he
            · simp at he; subst he; exact hk'
          · exact Beh.sync_not_ok (hpre2 e he)
        · intro _ _ _ _; exact hstamp2
      | false =>
        simp only [Bool.false_eq_true, if_false]
        obtain ⟨_, hrem, _⟩ := hnone hb
        refine ⟨by simp [disconnect], by simp [disconnect], ?_⟩
        intro _
        simp only [attempts_append]
        rw [← hC, hcons, hrem]; simp
  · -- not writable: keep waiting
    have hw' : (env.beh ep).writable = false := by simpa using hw
    simp only [hw', Bool.not_false, if_true, List.append_nil]
    refine ⟨?_, by simp [hs], by simp [hs]⟩
    intro _
    refine ⟨⟨⟨xs, hx, hC⟩, ⟨pre, ep, hsock, hatt, hpre⟩, hst, hev⟩, ?_⟩
    intro _ ep' hep' hok'
    rw [hsock] at hep'
    injection hep' with hep'
    subst hep'
    have := Beh.ok_writable hok'
    simp [hw'] at this

end Strophe.Discovery

namespace Strophe.Discovery
open Strophe.Gen Strophe.Gen.Disc

theorem tick_inv (env : Env) (C : List Endpoint) (sched : Prop) (r : Run) (t : Nat)
    (hi : Inv env C sched r) (ht : sched → t ≤ connectTimeout) : Inv env C sched (tick env r t) := by
  by_cases hs : r.conn.state = .connecting
  · obtain ⟨hp, hfresh⟩ := hi.connecting hs
    unfold tick
    rw [runOnce_connecting env (r.now + t) r.conn hs]
    by_cases hto : r.now + t - r.conn.stamp ≤ connectTimeout
    · simp only [hto, if_true]
      have hq : Pend env C sched ⟨r.conn, r.now + t, r.acts, r.evs⟩ :=
        ⟨hp.cursor, hp.pending, Nat.le_trans hp.stamp (Nat.le_add_right _ _), hp.noDisc⟩
      exact phase2_inv env C sched ⟨r.conn, r.now + t, r.acts, r.evs⟩ hs hq
    · simp only [hto, if_false]
      obtain ⟨⟨xs, hx, hC⟩, ⟨pre, ep, hsock, hatt, hpre⟩, hst, hev⟩ := hp
      obtain ⟨hst1, _, xs', hx', hcons, hsome, hnone⟩ := connectNext_spec env (r.now + t) r.conn xs hx
      cases hb : (connectNext true env (r.now + t) r.conn).2.1 with
      | true =>
        simp only [if_true]
        obtain ⟨ep1, pre1, hsock1, hstamp1, hatt1, hpre1, _⟩ := hsome hb
        have hq : Pend env C sched ⟨(connectNext true env (r.now + t) r.conn).1, r.now + t,
            r.acts ++ (connectNext true env (r.now + t) r.conn).2.2, r.evs⟩ := by
          refine ⟨⟨xs', hx', ?_⟩, ⟨pre ++ [ep] ++ pre1, ep1, hsock1, ?_, ?_⟩, by simp [hstamp1], hev⟩
          · simp only [attempts_append]; rw [← hC, hcons]; simp
          · simp [hatt, hatt1]
          · intro hsch e he
            rcases List.mem_append.mp he with he | he
            · rcases List.mem_append.mp he with he | he
              · exact hpre hsch e he
              · -- the abandoned descriptor: had it been accepting it would have been fresh
                simp at he; subst he
                cases hk : (env.beh e).ok with
                | false => rfl
                | true =>
                  exfalso
                  have := hfresh hsch e hsock hk
                  have := ht hsch
                  omega
            · exact Beh.sync_not_ok (hpre1 e he)
        have := phase2_inv env C sched _ (by simpa [hst1] using hs) hq
        simpa [List.append_assoc] using this
      | false =>
        simp only [Bool.false_eq_true, if_false]
        obtain ⟨_, hrem, _⟩ := hnone hb
        refine ⟨by simp [disconnect], by simp [disconnect], ?_⟩
        intro _
        simp only [attempts_append]
        rw [← hC, hcons, hrem]; simp
  · unfold tick
    rw [runOnce_idle env (r.now + t) r.conn hs]
    simp only [List.append_nil]
    exact ⟨fun h => absurd h hs, hi.connected, hi.disconnected⟩

theorem runTicks_inv (env : Env) (C : List Endpoint) (sched : Prop) (ts : List Nat) :
    ∀ r, Inv env C sched r → (sched → ∀ t ∈ ts, t ≤ connectTimeout) → Inv env C sched (runTicks true env r ts) := by
  induction ts with
  | nil => intro r hi _; exact hi
  | cons t ts ih =>
    intro r hi ht
    rw [runTicks_cons]
    exact ih _ (tick_inv env C sched r t hi (fun h => ht h t (by simp)))
      (fun h t' ht' => ht h t' (by simp [ht']))

end Strophe.Discovery

namespace Strophe.Discovery
open Strophe.Gen Strophe.Gen.Disc

/-! ### a finished connection is left alone -/
theorem tick_idle (env : Env) (r : Run) (t : Nat) (hs : r.conn.state ≠ .connecting) :
    tick env r t = ⟨r.conn, r.now + t, r.acts, r.evs⟩ := by
  unfold tick
  rw [runOnce_idle env _ _ hs]
  simp

theorem runTicks_idle (env : Env) (ts : List Nat) : ∀ r : Run, r.conn.state ≠ .connecting →
    (runTicks true env r ts).conn = r.conn ∧ (runTicks true env r ts).acts = r.acts ∧
    (runTicks true env r ts).evs = r.evs := by
  induction ts with
  | nil => intro r _; exact ⟨rfl, rfl, rfl⟩
  | cons t ts ih =>
    intro r hs
    rw [runTicks_cons, tick_idle env r t hs]
    exact ih ⟨r.conn, r.now + t, r.acts, r.evs⟩ hs

/-! ### the connect call -/

/-- a connect call that is not rejected for its arguments (xmpp_connect_component needs a server
    name and a flag set in which TLS can be disabled) -/
def Cfg.WellFormed (cfg : Cfg) : Prop := cfg.kind = .component → cfg.componentError = none

theorem sockNew_rem (env : Env) (d : Host) (h : Option Host) (p : Nat) :
    rem env (sockNew env d h p).1 = (targets env d h p).1.flatMap (endpointsOf env) ∧
    attempts (sockNew env d h p).2.2 = [] ∧ (sockNew env d h p).2.1 = (targets env d h p).2 := by
  unfold sockNew sockGetaddrinfo
  rcases targets env d h p with ⟨l, q⟩
  cases l with
  | nil => simp [rem]
  | cons r rest => simp [rem, attempts]

theorem connect_wellFormed (env : Env) (t0 : Nat) (c : Conn) (cfg : Cfg) (h : cfg.WellFormed) :
    connect true env t0 c cfg =
      connConnect true env t0 c (sockNew env (Jid.domain cfg.jid) cfg.host cfg.port).1 (cfg.kind == .raw)
        (sockNew env (Jid.domain cfg.jid) cfg.host cfg.port).2.1
        (sockNew env (Jid.domain cfg.jid) cfg.host cfg.port).2.2 := by
  unfold connect
  cases hk : cfg.kind with
  | component => simp [h hk]
  | raw => simp
  | client => simp

theorem connect_inv (env : Env) (sched : Prop) (t0 : Nat) (cfg : Cfg) (h : cfg.WellFormed) :
    Inv env (candidates env cfg) sched
      ⟨(connect true env t0 {} cfg).conn, t0, (connect true env t0 {} cfg).acts, []⟩ ∧
    ((connect true env t0 {} cfg).negRc ≠ 0 ↔ (connect true env t0 {} cfg).conn.state = .disconnected) ∧
    ((connect true env t0 {} cfg).negRc = 0 ↔ (connect true env t0 {} cfg).conn.state = .connecting) ∧
    (connect true env t0 {} cfg).queried = (targets env (Jid.domain cfg.jid) cfg.host cfg.port).2 := by
  rw [connect_wellFormed env t0 {} cfg h]
  obtain ⟨hrem, hatt0, hq⟩ := sockNew_rem env (Jid.domain cfg.jid) cfg.host cfg.port
  have sp := sockConnect_spec env (sockNew env (Jid.domain cfg.jid) cfg.host cfg.port).1
  unfold connConnect
  simp only [bne_self_eq_false, Bool.false_eq_true, if_false]
  cases hr : (sockConnect true env (sockNew env (Jid.domain cfg.jid) cfg.host cfg.port).1).2.1 with
  | none =>
    obtain ⟨hrem', _⟩ := sp.none_ hr
    simp only
    refine ⟨⟨by simp, by simp, ?_⟩, by simp [negEINT], by simp [negEINT], hq⟩
    intro _
    simp only [attempts_append, hatt0, List.nil_append, candidates]
    rw [← hrem, sp.consume, hrem']; simp
  | some ep =>
    obtain ⟨pre, hatt, hsync, _⟩ := sp.some_ ep hr
    simp only
    refine ⟨⟨?_, by simp, by simp⟩, by simp, by simp, hq⟩
    intro _
    refine ⟨⟨⟨_, rfl, ?_⟩, ⟨pre, ep, rfl, ?_, ?_⟩, Nat.le_refl _, by simp⟩, ?_⟩
    · simp only [attempts_append, hatt0, List.nil_append, candidates]
      rw [← hrem, sp.consume]
    · simp [hatt0, hatt]
    · intro _ e he
      exact Beh.sync_not_ok (hsync e he)
    · intro _ _ _ _; rfl

end Strophe.Discovery
namespace Strophe.Discovery
open Strophe.Gen Strophe.Gen.Disc

/-! ### progress: a loop iteration after the timeout consumes a candidate -/

theorem phase2_progress (env : Env) (now : Nat) (c : Conn) (xs : Sock) (hx : c.xsock = some xs) :
    (phase2 env now c).1.state ≠ .connecting ∨
    ∃ xs', (phase2 env now c).1.xsock = some xs' ∧ (rem env xs').length ≤ (rem env xs).length := by
  unfold phase2
  cases c.sock with
  | none => exact Or.inr ⟨xs, hx, Nat.le_refl _⟩
  | some ep =>
    simp only
    split
    · exact Or.inr ⟨xs, hx, Nat.le_refl _⟩
    · split
      · exact Or.inl (by simp)
      · obtain ⟨hst, _, xs', hx', hcons, _, _⟩ := connectNext_spec env now c xs hx
        split
        · refine Or.inr ⟨xs', hx', ?_⟩
          rw [hcons]; simp
        · exact Or.inl (by simp [disconnect])

theorem tick_progress (env : Env) (C : List Endpoint) (sched : Prop) (r : Run) (t : Nat) (xs : Sock)
    (hs : r.conn.state = .connecting) (hp : Pend env C sched r) (hx : r.conn.xsock = some xs)
    (ht : connectTimeout < t) :
    (tick env r t).conn.state ≠ .connecting ∨
    ∃ xs', (tick env r t).conn.xsock = some xs' ∧ (rem env xs').length < (rem env xs).length := by
  unfold tick
  rw [runOnce_connecting env (r.now + t) r.conn hs]
  have hto : ¬ (r.now + t - r.conn.stamp ≤ connectTimeout) := by
    have := hp.stamp
    omega
  simp only [hto, if_false]
  obtain ⟨hst1, _, xs1, hx1, hcons, hsome, _⟩ := connectNext_spec env (r.now + t) r.conn xs hx
  cases hb : (connectNext true env (r.now + t) r.conn).2.1 with
  | false => exact Or.inl (by simp [disconnect])
  | true =>
    simp only [if_true]
    obtain ⟨ep1, pre1, _, _, hatt1, _, _⟩ := hsome hb
    have hlt : (rem env xs1).length < (rem env xs).length := by
      rw [hcons, hatt1]; simp; omega
    rcases phase2_progress env (r.now + t) _ xs1 hx1 with h | ⟨xs2, hx2, hle⟩
    · exact Or.inl h
    · exact Or.inr ⟨xs2, hx2, Nat.lt_of_le_of_lt hle hlt⟩

theorem runTicks_decides (env : Env) (C : List Endpoint) (ts : List Nat) :
    ∀ (r : Run) (xs : Sock), Inv env C False r → r.conn.xsock = some xs →
      (∀ t ∈ ts, connectTimeout < t) → (rem env xs).length < ts.length →
      (runTicks true env r ts).conn.state ≠ .connecting := by
  induction ts with
  | nil => intro r xs _ _ _ hlen; simp at hlen
  | cons t ts ih =>
    intro r xs hi hx ht hlen
    rw [runTicks_cons]
    by_cases hs : r.conn.state = .connecting
    · have hi' := tick_inv env C False r t hi (fun h => h.elim)
      rcases tick_progress env C False r t xs hs (hi.connecting hs).1 hx (ht t (by simp)) with h | ⟨xs', hx', hlt⟩
      · rw [(runTicks_idle env ts _ h).1]; exact h
      · exact ih _ xs' hi' hx' (fun t' ht' => ht t' (by simp [ht'])) (by simp at hlen; omega)
    · have h' : (tick env r t).conn.state ≠ .connecting := by rw [tick_idle env r t hs]; exact hs
      rw [(runTicks_idle env ts _ h').1]; exact h'

/-! ### nothing but `targets` looks at the SRV answer -/

/-- two environments with the same resolver and the same endpoints -/
def Env.sameNet (a b : Env) : Prop := a.addrs = b.addrs ∧ a.beh = b.beh

theorem sockConnectGo_sameNet (f : Bool) (a b : Env) (h : a.sameNet b) (srv : List Srv) :
    ∀ ainfo, sockConnectGo f a ainfo srv = sockConnectGo f b ainfo srv := by
  obtain ⟨ha, hb⟩ := h
  have he : endpointsOf a = endpointsOf b := by funext r; simp [endpointsOf, ha]
  induction srv with
  | nil => intro ainfo; unfold sockConnectGo; rw [hb]
  | cons r srv' ih =>
    intro ainfo
    unfold sockConnectGo
    rw [hb, he]
    simp only [ih]

theorem connectNext_sameNet (a b : Env) (h : a.sameNet b) (now : Nat) (c : Conn) :
    connectNext true a now c = connectNext true b now c := by
  unfold connectNext sockConnect
  cases c.xsock with
  | none => rfl
  | some xs => simp only [sockConnectGo_sameNet true a b h]

theorem runOnce_sameNet (a b : Env) (h : a.sameNet b) (now : Nat) (c : Conn) :
    runOnce true a now c = runOnce true b now c := by
  unfold runOnce
  simp only [connectNext_sameNet a b h, h.2]

theorem runTicks_sameNet (a b : Env) (h : a.sameNet b) (ts : List Nat) :
    ∀ r, runTicks true a r ts = runTicks true b r ts := by
  induction ts with
  | nil => intro r; rfl
  | cons t ts ih =>
    intro r
    unfold runTicks
    simp only [runOnce_sameNet a b h, ih]

theorem exec_sameNet (a b : Env) (h : a.sameNet b) (cfg : Cfg) (t0 : Nat) (ts : List Nat)
    (hh : cfg.host.isSome = true) : exec true a cfg t0 ts = exec true b cfg t0 ts := by
  obtain ⟨host, hhost⟩ := Option.isSome_iff_exists.mp hh
  have he : endpointsOf a = endpointsOf b := by funext r; simp [endpointsOf, h.1]
  have hc : connect true a t0 {} cfg = connect true b t0 {} cfg := by
    unfold connect connConnect sockNew sockGetaddrinfo targets sockConnect
    simp only [hhost, he, sockConnectGo_sameNet true a b h]
  unfold exec
  simp only [hc, runTicks_sameNet a b h]



/-! ### whole discoveries -/

theorem exec_illFormed (env : Env) (cfg : Cfg) (t0 : Nat) (ts : List Nat) (h : ¬ cfg.WellFormed) :
    (exec true env cfg t0 ts).run.conn.state = .disconnected ∧ (exec true env cfg t0 ts).run.acts = [] ∧
    (exec true env cfg t0 ts).run.evs = [] ∧ (exec true env cfg t0 ts).negRc ≠ 0 ∧
    (exec true env cfg t0 ts).queried = false := by
  unfold Cfg.WellFormed at h
  have hk : cfg.kind = .component := Classical.byContradiction fun hk => h (fun hk' => absurd hk' hk)
  obtain ⟨e, he⟩ : ∃ e, cfg.componentError = some e := by
    cases hc : cfg.componentError with
    | none => exact absurd (fun _ => hc) h
    | some e => exact ⟨e, rfl⟩
  have hne : e ≠ 0 := by
    unfold Cfg.componentError at he
    split at he
    · injection he with he; subst he; decide
    · split at he
      · injection he with he; subst he; decide
      · cases he
  have hc : connect true env t0 {} cfg = ⟨{}, e, false, []⟩ := by
    unfold connect; simp [hk, he]
  unfold exec
  rw [hc]
  obtain ⟨h1, h2, h3⟩ := runTicks_idle env ts ⟨{}, t0, [], []⟩ (by simp)
  exact ⟨by rw [h1], h2, h3, hne, rfl⟩

theorem exec_inv (env : Env) (sched : Prop) (cfg : Cfg) (t0 : Nat) (ts : List Nat) (h : cfg.WellFormed)
    (hs : sched → ∀ t ∈ ts, t ≤ connectTimeout) :
    Inv env (candidates env cfg) sched (exec true env cfg t0 ts).run :=
  runTicks_inv env _ sched ts _ (connect_inv env sched t0 cfg h).1 hs

end Strophe.Discovery
