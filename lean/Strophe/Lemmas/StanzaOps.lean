/-
Lemmas about the tree operations of `Model/Stanza.lean`: `_escape_xml` round trip, NUL-freeness of renderings,
`_stanza_copy_attributes` / `xmpp_stanza_copy` (deep, attribute maps preserved), `xmpp_stanza_reply`,
`xmpp_stanza_reply_error` (structure and bytes of the `<error/>` child), and the invariant `TabsWF` for
every tree that can be built through the public API (`Built`, `built_wf`).  Used by Props/C09.lean.
-/
import Strophe.Model.StanzaRead
import Strophe.Lemmas.StanzaRender
set_option linter.unusedSimpArgs false
namespace Strophe.Stanza
open Strophe.HashTab Strophe.Spec.Xml

/-! ### `_escape_xml` cannot be broken out of -/

theorem unescape_escape : ∀ s : Bytes, unescape (escapeXml s) = some s
  | [] => by simp [escapeXml_nil, unescape]
  | b :: s => by
    have ih := unescape_escape s
    rw [escapeXml_cons]
    rcases escapeByte_cases b with ⟨hb, e⟩ | ⟨hb, e⟩ | ⟨hb, e⟩ | ⟨hb, e⟩ | ⟨_, h2, h3, _, e⟩
    · rw [e, hb]; simp [unescape, ih]
    · rw [e, hb]; simp [unescape, ih]
    · rw [e, hb]; simp [unescape, ih]
    · rw [e, hb]; simp [unescape, ih]
    · rw [e]; simp only [List.cons_append, List.nil_append]
      rw [unescape.eq_9 _ _ (by simpa using h3) (by simpa using h2), ih]; rfl

theorem ampsOk_escape : ∀ s : Bytes, ampsOk (escapeXml s) = true
  | [] => by simp [escapeXml_nil, ampsOk]
  | b :: s => by
    have ih := ampsOk_escape s
    rw [escapeXml_cons]
    rcases escapeByte_cases b with ⟨hb, e⟩ | ⟨hb, e⟩ | ⟨hb, e⟩ | ⟨hb, e⟩ | ⟨_, h2, _, _, e⟩
    · rw [e]; simp [ampsOk, entity, ih]
    · rw [e]; simp [ampsOk, entity, ih]
    · rw [e]; simp [ampsOk, entity, ih]
    · rw [e]; simp [ampsOk, entity, ih]
    · rw [e]; simp only [List.cons_append, List.nil_append]
      rw [ampsOk.eq_3 _ _ (by simpa using h2)]; exact ih

/-! ### NUL-free trees render to NUL-free strings: `strlen` of the returned buffer is the reported length -/

theorem cstr_of_nulfree : ∀ (b : Bytes), (0 : UInt8) ∉ b → cstr b = b
  | [], _ => rfl
  | x :: b, h => by
    simp only [List.mem_cons, not_or] at h
    have ih := cstr_of_nulfree b h.2
    unfold cstr at ih ⊢
    have : decide (x ≠ 0) = true := by simpa using Ne.symm h.1
    rw [List.takeWhile_cons, this, if_pos rfl, ih]

theorem renderAttr_nulfree (e : Entry) (h1 : (0 : UInt8) ∉ e.1) (h2 : (0 : UInt8) ∉ e.2) : (0 : UInt8) ∉ renderAttr e := by
  have := escapeXml_nulfree e.2 h2
  simp only [renderAttr, List.cons_append, List.append_assoc, List.mem_cons, List.mem_append, List.mem_nil_iff,
    not_or, sp, eq, dq]
  refine ⟨by decide, h1, by decide, by decide, this, by decide, by simp⟩

mutual
theorem render_nulfree : ∀ (t : Tree) (par : Option (Option HashTab)), NulFree t → (0 : UInt8) ∉ render par t
  | .unknown _, _, _ => by simp [render]
  | .text d _, _, h => by simp only [NulFree] at h; simp only [render]; exact escapeXml_nulfree d h
  | .tag name attrs ks, par, h => by
    simp only [NulFree] at h
    obtain ⟨hn, ha, hk⟩ := h
    have hK := renderKids_nulfree ks (some attrs) hk
    have hA : (0 : UInt8) ∉ (shownAttrs par attrs).flatMap renderAttr := by
      intro hm
      obtain ⟨e, he, h0⟩ := List.mem_flatMap.1 hm
      cases attrs with
      | none => simp [shownAttrs] at he
      | some tab =>
        have := ha tab rfl e ((List.filter_sublist).subset he)
        exact renderAttr_nulfree e this.1 this.2 h0
    rw [render_tag]
    unfold tagBody
    split <;>
      simp only [List.cons_append, List.append_assoc, List.mem_cons, List.mem_append, List.mem_nil_iff, not_or, lt, sl, gt] <;>
      simp [hn, hA, hK]
theorem renderKids_nulfree : ∀ (ks : List Tree) (par : Option (Option HashTab)), NulFreeKids ks →
    (0 : UInt8) ∉ renderKids par ks
  | [], _, _ => by simp [renderKids]
  | k :: ks, par, h => by
    simp only [NulFreeKids] at h
    simp only [renderKids, List.mem_append, not_or]
    exact ⟨render_nulfree k par h.1, renderKids_nulfree ks par h.2⟩
end


/-! ### attribute tables after the mutators -/

theorem getD_replicate_nil (n i : Nat) : (List.replicate n ([] : List Entry)).getD i [] = [] := by
  by_cases h : i < n
  · simp [List.getD, List.getElem?_replicate, h]
  · simp [List.getD, List.getElem?_replicate, h]

theorem get_new (n : Nat) (k : Bytes) : (HashTab.new n).get k = none := by
  simp only [HashTab.get, HashTab.new, getD_replicate_nil, HashTab.chainFind]

theorem wf_new8 : HashTab.WF (HashTab.new Gen.Stanza.attrBuckets) := HashTab.wf_new _ (by decide)

/-- the table `xmpp_stanza_set_attribute` works on -/
def tabOf (a : Option HashTab) : HashTab := a.getD (HashTab.new Gen.Stanza.attrBuckets)

theorem wf_tabOf (a : Option HashTab) (h : ∀ tab, a = some tab → HashTab.WF tab) : HashTab.WF (tabOf a) := by
  cases a with
  | none => exact wf_new8
  | some tab => exact h tab rfl

/-- `hash_get` on a possibly absent table -/
def getOpt (a : Option HashTab) (k : Bytes) : Option Bytes :=
  match a with
  | some tab => tab.get k
  | none => none

theorem get_tabOf (a : Option HashTab) (k : Bytes) : (tabOf a).get k = getOpt a k := by
  cases a with
  | none => exact get_new _ k
  | some tab => rfl

theorem getAttribute_tag (n : Bytes) (a : Option HashTab) (ks : List Tree) (k : Bytes) :
    getAttribute (.tag n a ks) k = getOpt a k := by
  cases a <;> rfl

/-! ### `_stanza_copy_attributes` -/

theorem copyAttrsRec_spec (src : HashTab) : ∀ (l : List Entry) (dst : Option HashTab),
    (∀ e ∈ l, src.get e.1 = some e.2) → (∀ d, dst = some d → HashTab.WF d) →
    ∃ r, copyAttrsRec src l dst = .ok r ∧ (∀ d, r = some d → HashTab.WF d) ∧
      ∀ k, getOpt r k = if k ∈ l.map Prod.fst then src.get k else getOpt dst k
  | [], dst, _, hd => ⟨dst, rfl, hd, by simp⟩
  | (key, val) :: l, dst, hs, hd => by
    have hk : src.get key = some val := hs (key, val) (List.mem_cons_self ..)
    have hl : ∀ e ∈ l, src.get e.1 = some e.2 := fun e he => hs e (List.mem_cons_of_mem _ he)
    have hwf : HashTab.WF ((tabOf dst).add key val) := HashTab.wf_add (wf_tabOf dst hd) key val
    obtain ⟨r, h1, h2, h3⟩ := copyAttrsRec_spec src l (some ((tabOf dst).add key val)) hl
      (by intro d hd'; cases hd'; exact hwf)
    refine ⟨r, ?_, h2, ?_⟩
    · simp only [copyAttrsRec, hk]; exact h1
    · intro k
      rw [h3 k]
      simp only [getOpt, HashTab.get_add (wf_tabOf dst hd), get_tabOf, List.map_cons, List.mem_cons]
      by_cases e1 : k ∈ l.map Prod.fst
      · simp [e1]
      · by_cases e2 : k = key
        · simp [e1, e2, hk]
        · simp [e1, e2]

theorem copyAttrs_spec (a : Option HashTab) (h : ∀ tab, a = some tab → HashTab.WF tab) :
    ∃ r, copyAttrs a = .ok r ∧ (∀ d, r = some d → HashTab.WF d) ∧ ∀ k, getOpt r k = getOpt a k := by
  cases a with
  | none => exact ⟨none, rfl, fun d hd => (by cases hd), fun _ => rfl⟩
  | some tab =>
    have hw := h tab rfl
    obtain ⟨r, h1, h2, h3⟩ := copyAttrsRec_spec tab tab.toList none
      (fun e he => HashTab.get_of_mem_toList hw (k := e.1) (v := e.2) he) (by intro d hd; cases hd)
    refine ⟨r, h1, h2, ?_⟩
    intro k
    rw [h3 k]
    by_cases e : k ∈ tab.toList.map Prod.fst
    · simp [e, getOpt]
    · simp [e, getOpt, (HashTab.get_none_iff hw k).2 e]

/-! ### `xmpp_stanza_copy` -/

mutual
/-- same names, same text, same attribute map (what `xmpp_stanza_get_attribute` answers for every key),
    same children in the same order — at every depth -/
def SameTree : Tree → Tree → Prop
  | .tag n a ks, .tag n' a' ks' => n = n' ∧ (∀ k, getOpt a k = getOpt a' k) ∧ SameKids ks ks'
  | .text d ks, .text d' ks' => d = d' ∧ SameKids ks ks'
  | .unknown ks, .unknown ks' => SameKids ks ks'
  | _, _ => False
def SameKids : List Tree → List Tree → Prop
  | [], [] => True
  | k :: ks, k' :: ks' => SameTree k k' ∧ SameKids ks ks'
  | _, _ => False
end

mutual
theorem copy_spec : ∀ t : Tree, TabsWF t → ∃ t', copy t = some t' ∧ SameTree t t' ∧ TabsWF t'
  | .unknown ks, h => by
    simp only [TabsWF] at h
    obtain ⟨ks', e, hs, hw⟩ := copyKids_spec ks h
    exact ⟨.unknown ks', by simp [copy, e], by simpa [SameTree] using hs, by simpa [TabsWF] using hw⟩
  | .text d ks, h => by
    simp only [TabsWF] at h
    obtain ⟨ks', e, hs, hw⟩ := copyKids_spec ks h
    exact ⟨.text d ks', by simp [copy, e], by simpa [SameTree] using hs, by simpa [TabsWF] using hw⟩
  | .tag n a ks, h => by
    simp only [TabsWF] at h
    obtain ⟨ks', e, hs, hw⟩ := copyKids_spec ks h.2
    obtain ⟨a', ea, hwa, hga⟩ := copyAttrs_spec a h.1
    refine ⟨.tag n a' ks', by simp [copy, ea, e], ?_, ?_⟩
    · simp only [SameTree]; exact ⟨trivial, fun k => (hga k).symm, hs⟩
    · simp only [TabsWF]; exact ⟨hwa, hw⟩
theorem copyKids_spec : ∀ ks : List Tree, TabsWFKids ks → ∃ ks', copyKids ks = some ks' ∧ SameKids ks ks' ∧ TabsWFKids ks'
  | [], _ => ⟨[], rfl, by simp [SameKids], by simp [TabsWFKids]⟩
  | k :: ks, h => by
    simp only [TabsWFKids] at h
    obtain ⟨k', e1, s1, w1⟩ := copy_spec k h.1
    obtain ⟨ks', e2, s2, w2⟩ := copyKids_spec ks h.2
    exact ⟨k' :: ks', by simp [copyKids, e1, e2], by simp [SameKids, s1, s2], by simp [TabsWFKids, w1, w2]⟩
end


/-! ### `xmpp_stanza_reply` / `xmpp_stanza_reply_error` -/

theorem reply_none (t : Tree) (h : getAttribute t kFrom = none) : reply t = none := by
  simp [reply, h]

/-- the reply to an element carrying `from = f`: same name, no children, `to = f`, no `from`, no `xmlns`,
    every other attribute as in the original -/
theorem reply_spec (n : Bytes) (a : Option HashTab) (ks : List Tree) (hw : ∀ tab, a = some tab → HashTab.WF tab)
    (f : Bytes) (hf : getOpt a kFrom = some f) :
    ∃ a', reply (.tag n a ks) = some (.tag n (some a') []) ∧ HashTab.WF a' ∧
      ∀ k, a'.get k = if k = kTo then some f else if k = kFrom ∨ k = xmlnsKey then none else getOpt a k := by
  obtain ⟨r, hr, hrw, hrg⟩ := copyAttrs_spec a hw
  cases r with
  | none => have := hrg kFrom; rw [hf] at this; simp [getOpt] at this
  | some t0 =>
    have w0 := hrw t0 rfl
    have w1 := HashTab.wf_drop w0 kTo
    have w2 := HashTab.wf_drop w1 kFrom
    have w3 := HashTab.wf_drop w2 xmlnsKey
    refine ⟨(((t0.drop kTo).1.drop kFrom).1.drop xmlnsKey).1.add kTo f, ?_, HashTab.wf_add w3 _ _, ?_⟩
    · have hg : getAttribute (.tag n a ks) kFrom = some f := by rw [getAttribute_tag]; exact hf
      simp only [reply, hg, hr, delAttribute, setAttribute, Option.getD_some]
      simp [Gen.Stanza.eOk]
    · intro k
      rw [HashTab.get_add w3, HashTab.get_drop w2, HashTab.get_drop w1, HashTab.get_drop w0]
      have := hrg k
      have this : t0.get k = getOpt a k := this
      by_cases e1 : k = kTo
      · simp [e1]
      · by_cases e2 : k = xmlnsKey
        · simp [e1, e2]
        · by_cases e3 : k = kFrom
          · simp [e1, e3]
          · simp [e1, e2, e3, this]


/-- the `<error/>` child built by `xmpp_stanza_reply_error` -/
def errorChild (et cond : Bytes) (tx : Option Bytes) : Tree :=
  mkTag sError [(kType, et)]
    (mkTag cond [(xmlnsKey, nsStanzas)] [] ::
      match tx with
      | some t => [mkTag sText [(xmlnsKey, nsStanzas)] [.text t []]]
      | none => [])

theorem replyError_none_args (t : Tree) (et cond tx : Option Bytes) (h : et = none ∨ cond = none) :
    replyError t et cond tx = none := by
  rcases h with h | h
  · subst h; simp [replyError]
  · subst h; cases et <;> simp [replyError]

theorem replyError_none_from (t : Tree) (et cond tx : Option Bytes) (h : getAttribute t kFrom = none) :
    replyError t et cond tx = none := by
  cases et <;> cases cond <;> simp [replyError, reply_none t h]

/-- RFC 6120 §8.3: `type='error'`, addresses swapped, one `<error type=…/>` child holding the condition element
    (and the optional `<text/>`) in the stanza-error namespace -/
theorem replyError_spec (n : Bytes) (a : Option HashTab) (ks : List Tree) (hw : ∀ tab, a = some tab → HashTab.WF tab)
    (f : Bytes) (hf : getOpt a kFrom = some f) (et cond : Bytes) (tx : Option Bytes) :
    ∃ a', replyError (.tag n a ks) (some et) (some cond) tx = some (.tag n (some a') [errorChild et cond tx]) ∧
      HashTab.WF a' ∧
      ∀ k, a'.get k =
        if k = kType then some sError
        else if k = kFrom then getOpt a kTo
        else if k = kTo then some f
        else if k = xmlnsKey then none
        else getOpt a k := by
  obtain ⟨a1, h1, w1, g1⟩ := reply_spec n a ks hw f hf
  have w2 := HashTab.wf_add w1 kType sError
  have hto : getAttribute (.tag n a ks) kTo = getOpt a kTo := getAttribute_tag n a ks kTo
  cases hta : getOpt a kTo with
  | none =>
    refine ⟨a1.add kType sError, ?_, w2, ?_⟩
    · simp only [replyError, h1, setAttribute, Option.getD_some, hto, hta, addChild, kids, setKids, List.nil_append,
        errorChild]
      cases tx <;> rfl
    · intro k
      rw [HashTab.get_add w1, g1 k]
      by_cases e1 : k = kType
      · simp [e1]
      · by_cases e2 : k = kFrom
        · subst e2; simp [e1, hta]; decide
        · simp [e1, e2]
  | some to =>
    refine ⟨(a1.add kType sError).add kFrom to, ?_, HashTab.wf_add w2 _ _, ?_⟩
    · simp only [replyError, h1, setAttribute, Option.getD_some, hto, hta, addChild, kids, setKids, List.nil_append,
        errorChild]
      cases tx <;> rfl
    · intro k
      rw [HashTab.get_add w2, HashTab.get_add w1, g1 k]
      have d1 : kType ≠ kFrom := by decide
      by_cases e1 : k = kType
      · subst e1; simp [d1]
      · by_cases e2 : k = kFrom
        · subst e2; simp [e1, hta, Ne.symm d1]
        · simp [e1, e2]


/-! ### the bytes of the `<error/>` child -/

theorem flatten_replicate_nil (n : Nat) : (List.replicate n ([] : List Entry)).flatten = [] := by
  induction n with
  | zero => rfl
  | succ n ih => simp [List.replicate_succ, ih]

theorem toList_add_new (k v : Bytes) : ((HashTab.new Gen.Stanza.attrBuckets).add k v).toList = [(k, v)] := by
  have hlt : (HashTab.new Gen.Stanza.attrBuckets).hashKey k < (HashTab.new Gen.Stanza.attrBuckets).buckets.length :=
    HashTab.hashKey_lt wf_new8 k
  unfold HashTab.add
  simp only [HashTab.new, getD_replicate_nil, HashTab.chainFind, HashTab.toList] at hlt ⊢
  rw [HashTab.flatten_set _ _ _ hlt]
  simp [List.take_replicate, List.drop_replicate, flatten_replicate_nil]

theorem mkTag_one (name k v : Bytes) (ks : List Tree) :
    mkTag name [(k, v)] ks = .tag name (some ((HashTab.new Gen.Stanza.attrBuckets).add k v)) ks := rfl

theorem escapeXml_id (s : Bytes) (h : ∀ b ∈ s, b ≠ 34 ∧ b ≠ 38 ∧ b ≠ 60 ∧ b ≠ 62) : escapeXml s = s := by
  induction s with
  | nil => rfl
  | cons b s ih =>
    have hb := h b (List.mem_cons_self ..)
    rw [escapeXml_cons, ih (fun c hc => h c (List.mem_cons_of_mem _ hc)), escapeByte_eq]
    simp [hb.1, hb.2.1, hb.2.2.1, hb.2.2.2]

/-- rendering of an element with exactly one attribute that is not an elided `xmlns` -/
theorem render_one (par : Option (Option HashTab)) (name k v : Bytes) (ks : List Tree)
    (h : ¬ (k = xmlnsKey ∧ elideNs par v = true)) :
    render par (mkTag name [(k, v)] ks) =
      lt :: name ++ renderAttr (k, v) ++
        tagBody name ks.isEmpty (renderKids (some (some ((HashTab.new Gen.Stanza.attrBuckets).add k v))) ks) := by
  rw [mkTag_one, render_tag]
  simp only [shownAttrs, toList_add_new, List.filter_cons, List.filter_nil]
  simp [h]

theorem elide_under_error (et v : Bytes) :
    elideNs (some (some ((HashTab.new Gen.Stanza.attrBuckets).add kType et))) v = false := by
  have : ((HashTab.new Gen.Stanza.attrBuckets).add kType et).get xmlnsKey = none := by
    rw [HashTab.get_add wf_new8, get_new, if_neg (by decide)]
  simp [elideNs, this]

/-- `<error type="T"><COND xmlns="urn:ietf:params:xml:ns:xmpp-stanzas"/>[<text xmlns="…">X</text>]</error>` -/
theorem render_errorChild (par : Option (Option HashTab)) (et cond : Bytes) (tx : Option Bytes) :
    render par (errorChild et cond tx) =
      lt :: sError ++ renderAttr (kType, et) ++ [gt] ++
        (lt :: cond ++ renderAttr (xmlnsKey, nsStanzas) ++ [sl, gt]) ++
        (match tx with
         | some t => lt :: sText ++ renderAttr (xmlnsKey, nsStanzas) ++ [gt] ++ escapeXml t ++ (lt :: sl :: sText ++ [gt])
         | none => []) ++
        (lt :: sl :: sError ++ [gt]) := by
  unfold errorChild
  rw [render_one par _ _ _ _ (by intro h; exact absurd h.1 (by decide))]
  have hc : render (some (some ((HashTab.new Gen.Stanza.attrBuckets).add kType et))) (mkTag cond [(xmlnsKey, nsStanzas)] []) =
      lt :: cond ++ renderAttr (xmlnsKey, nsStanzas) ++ [sl, gt] := by
    rw [render_one _ _ _ _ _ (by rw [elide_under_error]; simp)]
    simp [tagBody, renderKids]
  cases tx with
  | none =>
    simp only [List.isEmpty_cons, tagBody, Bool.false_eq_true, if_false, renderKids, hc]
    simp [List.append_assoc]
  | some t =>
    have ht : render (some (some ((HashTab.new Gen.Stanza.attrBuckets).add kType et)))
        (mkTag sText [(xmlnsKey, nsStanzas)] [.text t []]) =
        lt :: sText ++ renderAttr (xmlnsKey, nsStanzas) ++ [gt] ++ escapeXml t ++ (lt :: sl :: sText ++ [gt]) := by
      rw [render_one _ _ _ _ _ (by rw [elide_under_error]; simp)]
      simp [tagBody, renderKids, render, List.append_assoc]
    simp only [List.isEmpty_cons, tagBody, Bool.false_eq_true, if_false, renderKids, hc, ht]
    simp [List.append_assoc]


/-! ### every tree built through the API satisfies the hash-table invariant everywhere -/

theorem tabsWFKids_iff : ∀ ks : List Tree, TabsWFKids ks ↔ ∀ k ∈ ks, TabsWF k
  | [] => by simp [TabsWFKids]
  | k :: ks => by simp [TabsWFKids, tabsWFKids_iff ks]

theorem tabsWF_kids (t : Tree) (h : TabsWF t) : TabsWFKids (kids t) := by
  cases t <;> simp only [TabsWF] at h <;> simp only [kids]
  · exact h.2
  · exact h
  · exact h

theorem tabsWF_setKids (t : Tree) (ks : List Tree) (h : TabsWF t) (hk : TabsWFKids ks) : TabsWF (setKids t ks) := by
  cases t <;> simp only [TabsWF] at h <;> simp only [setKids, TabsWF]
  · exact ⟨h.1, hk⟩
  · exact hk
  · exact hk

theorem tabsWF_setName (t : Tree) (n : Bytes) (h : TabsWF t) : TabsWF (setName t n).1 := by
  cases t <;> simp only [TabsWF] at h <;> simp only [setName, TabsWF]
  · exact h
  · exact h
  · exact ⟨(by intro tab e; cases e), h⟩

theorem tabsWF_setText (t : Tree) (d : Bytes) (h : TabsWF t) : TabsWF (setText t d).1 := by
  cases t <;> simp only [TabsWF] at h <;> simp only [setText, TabsWF]
  · exact h
  · exact h
  · exact h

theorem tabsWF_setAttribute (t : Tree) (k v : Bytes) (h : TabsWF t) : TabsWF (setAttribute t k v).1 := by
  cases t with
  | tag n a ks =>
    simp only [TabsWF] at h
    simp only [setAttribute, TabsWF]
    refine ⟨?_, h.2⟩
    intro tab e; cases e
    exact HashTab.wf_add (wf_tabOf a h.1) k v
  | text d ks => exact h
  | unknown ks => exact h

theorem tabsWF_delAttribute (t : Tree) (k : Bytes) (h : TabsWF t) : TabsWF (delAttribute t k).1 := by
  cases t with
  | tag n a ks =>
    cases a with
    | none => exact h
    | some tab =>
      simp only [TabsWF] at h
      simp only [delAttribute, TabsWF]
      refine ⟨?_, h.2⟩
      intro tab' e; cases e
      exact HashTab.wf_drop (h.1 tab rfl) k
  | text d ks => exact h
  | unknown ks => exact h

theorem tabsWF_addChild (t c : Tree) (h : TabsWF t) (hc : TabsWF c) : TabsWF (addChild t c).1 := by
  simp only [addChild]
  apply tabsWF_setKids t _ h
  rw [tabsWFKids_iff]
  intro k hk
  rcases List.mem_append.1 hk with hk | hk
  · exact (tabsWFKids_iff _).1 (tabsWF_kids t h) k hk
  · simp at hk; subst hk; exact hc

theorem tabsWF_modifyAt (f : Tree → Tree) (hf : ∀ x, TabsWF x → TabsWF (f x)) :
    ∀ (path : List Nat) (t : Tree), TabsWF t → TabsWF (modifyAt f t path)
  | [], t, h => hf t h
  | i :: rest, t, h => by
    simp only [modifyAt]
    cases hk : (kids t)[i]? with
    | none => exact h
    | some k =>
      simp only
      have hks := (tabsWFKids_iff _).1 (tabsWF_kids t h)
      have hkw : TabsWF k := hks k (List.mem_of_getElem? hk)
      apply tabsWF_setKids t _ h
      rw [tabsWFKids_iff]
      intro x hx
      rcases List.mem_or_eq_of_mem_set hx with hx | hx
      · exact hks x hx
      · subst hx; exact tabsWF_modifyAt f hf rest k hkw

theorem tabsWF_walk : ∀ (path : List Nat) (t : Tree) (par : Option (Option HashTab)) (n : Tree) (p' : Option (Option HashTab)),
    TabsWF t → walk t path par = some (n, p') → TabsWF n
  | [], t, par, n, p', h, hw => by simp only [walk, Option.some.injEq, Prod.mk.injEq] at hw; rw [← hw.1]; exact h
  | i :: rest, t, par, n, p', h, hw => by
    simp only [walk] at hw
    cases hk : (kids t)[i]? with
    | none => simp [hk] at hw
    | some k =>
      simp only [hk] at hw
      exact tabsWF_walk rest k _ n p' ((tabsWFKids_iff _).1 (tabsWF_kids t h) k (List.mem_of_getElem? hk)) hw

theorem tabsWF_mkTag (name : Bytes) (ks : List Tree) (hk : TabsWFKids ks) :
    ∀ (attrs : List Entry) (t : Tree), TabsWF t → TabsWF (attrs.foldl (fun t e => (setAttribute t e.1 e.2).1) t)
  | [], t, h => h
  | e :: attrs, t, h => tabsWF_mkTag name ks hk attrs _ (tabsWF_setAttribute t e.1 e.2 h)

theorem tabsWF_mkTag' (name : Bytes) (attrs : List Entry) (ks : List Tree) (hk : TabsWFKids ks) :
    TabsWF (mkTag name attrs ks) :=
  tabsWF_mkTag name ks hk attrs _ (by simp only [TabsWF]; exact ⟨(by intro tab e; cases e), hk⟩)

theorem tabsWF_reply (t r : Tree) (h : TabsWF t) (hr : reply t = some r) : TabsWF r := by
  cases t with
  | tag n a ks =>
    simp only [TabsWF] at h
    cases hf : getOpt a kFrom with
    | none => rw [reply_none _ (by rw [getAttribute_tag]; exact hf)] at hr; cases hr
    | some f =>
      obtain ⟨a', e, w, _⟩ := reply_spec n a ks h.1 f hf
      rw [e] at hr; cases hr
      simp only [TabsWF, TabsWFKids]
      exact ⟨by intro tab e'; cases e'; exact w, trivial⟩
  | text d ks => simp [reply, getAttribute] at hr
  | unknown ks => simp [reply, getAttribute] at hr

theorem tabsWF_errorChild (et cond : Bytes) (tx : Option Bytes) : TabsWF (errorChild et cond tx) := by
  unfold errorChild
  apply tabsWF_mkTag'
  cases tx with
  | none => simp only [TabsWFKids]; exact ⟨tabsWF_mkTag' _ _ _ trivial, trivial⟩
  | some t =>
    simp only [TabsWFKids]
    exact ⟨tabsWF_mkTag' _ _ _ trivial, tabsWF_mkTag' _ _ _ (by simp [TabsWFKids, TabsWF]), trivial⟩

theorem tabsWF_replyError (t r : Tree) (et cond tx : Option Bytes) (h : TabsWF t)
    (hr : replyError t et cond tx = some r) : TabsWF r := by
  cases et with
  | none => simp [replyError] at hr
  | some et =>
    cases cond with
    | none => simp [replyError] at hr
    | some cond =>
      cases t with
      | tag n a ks =>
        simp only [TabsWF] at h
        cases hf : getOpt a kFrom with
        | none => rw [replyError_none_from _ _ _ _ (by rw [getAttribute_tag]; exact hf)] at hr; cases hr
        | some f =>
          obtain ⟨a', e, w, _⟩ := replyError_spec n a ks h.1 f hf et cond tx
          rw [e] at hr; cases hr
          simp only [TabsWF, TabsWFKids]
          exact ⟨by intro tab e'; cases e'; exact w, tabsWF_errorChild et cond tx, trivial⟩
      | text d ks => rw [replyError_none_from _ _ _ _ (by simp [getAttribute])] at hr; cases hr
      | unknown ks => rw [replyError_none_from _ _ _ _ (by simp [getAttribute])] at hr; cases hr

theorem tabsWF_errorNew (ty : Int) (tx : Option Bytes) : TabsWF (errorNew ty tx) := by
  unfold errorNew
  simp only [TabsWF]
  refine ⟨(by intro tab e; cases e), ?_⟩
  cases tx with
  | none => simp only [TabsWFKids]; exact ⟨tabsWF_mkTag' _ _ _ trivial, trivial⟩
  | some t =>
    simp only [TabsWFKids]
    exact ⟨tabsWF_mkTag' _ _ _ trivial, tabsWF_mkTag' _ _ _ (by simp [TabsWFKids, TabsWF]), trivial⟩

mutual
theorem tabsWF_ofXNode : ∀ x : XNode, TabsWF (ofXNode x)
  | .text s => by simp [ofXNode, TabsWF, TabsWFKids]
  | .elem ns name attrs ks => by
    simp only [ofXNode]
    exact tabsWF_mkTag' _ _ _ (tabsWF_ofXNodes ks)
theorem tabsWF_ofXNodes : ∀ xs : List XNode, TabsWFKids (ofXNodes xs)
  | [] => by simp [ofXNodes, TabsWFKids]
  | x :: xs => by simp only [ofXNodes, TabsWFKids]; exact ⟨tabsWF_ofXNode x, tabsWF_ofXNodes xs⟩
end

theorem tabsWF_fromString (s : Bytes) (t : Tree) (h : fromString s = some t) : TabsWF t := by
  unfold fromString at h
  split at h
  · split at h
    · rename_i nodes _
      cases hf : firstElem nodes with
      | none => simp [hf] at h
      | some x => simp [hf] at h; rw [← h]; exact tabsWF_ofXNode x
    · cases h
  · cases h

/-- the mutators of the public API that act on one node -/
inductive Mut where
  | name (n : Bytes)
  | text (d : Bytes)
  | attr (k v : Bytes)
  | del (k : Bytes)
  | child (c : Tree)

def Mut.apply : Mut → Tree → Tree
  | .name n, t => (setName t n).1
  | .text d, t => (setText t d).1
  | .attr k v, t => (setAttribute t k v).1
  | .del k, t => (delAttribute t k).1
  | .child c, t => (addChild t c).1

/-- the stanza trees that can be built through the public API: `xmpp_stanza_new`, the mutators applied to any
    node of a tree, sub-trees, copies, replies, error stanzas and re-read strings -/
inductive Built : Tree → Prop
  | new : Built Stanza.new
  | mutate (t : Tree) (path : List Nat) (m : Mut) : Built t → (∀ c, m = .child c → Built c) →
      Built (modifyAt m.apply t path)
  | sub (t n : Tree) (path : List Nat) (par p' : Option (Option HashTab)) : Built t → walk t path par = some (n, p') → Built n
  | copy (t t' : Tree) : Built t → Stanza.copy t = some t' → Built t'
  | reply (t r : Tree) : Built t → Stanza.reply t = some r → Built r
  | replyError (t r : Tree) (et cond tx : Option Bytes) : Built t → Stanza.replyError t et cond tx = some r → Built r
  | errorNew (ty : Int) (tx : Option Bytes) : Built (Stanza.errorNew ty tx)
  | fromString (s : Bytes) (t : Tree) : Stanza.fromString s = some t → Built t

theorem built_wf : ∀ {t : Tree}, Built t → TabsWF t := by
  intro t h
  induction h with
  | new => simp [Stanza.new, TabsWF, TabsWFKids]
  | mutate t path m _ hc ih ihc =>
    apply tabsWF_modifyAt _ _ path t ih
    intro x hx
    cases m with
    | name n => exact tabsWF_setName x n hx
    | text d => exact tabsWF_setText x d hx
    | attr k v => exact tabsWF_setAttribute x k v hx
    | del k => exact tabsWF_delAttribute x k hx
    | child c => exact tabsWF_addChild x c hx (ihc c rfl)
  | sub t n path par p' _ hw ih => exact tabsWF_walk path t par n p' ih hw
  | copy t t' _ hc ih =>
    obtain ⟨t'', e, _, w⟩ := copy_spec t ih
    rw [e] at hc; cases hc; exact w
  | reply t r _ hr ih => exact tabsWF_reply t r ih hr
  | replyError t r et cond tx _ hr ih => exact tabsWF_replyError t r et cond tx ih hr
  | errorNew ty tx => exact tabsWF_errorNew ty tx
  | fromString s t h => exact tabsWF_fromString s t h

/-! ### variables are independent: a copy shares nothing with its original -/

theorem store_mutate_other (s : Store) (v w : Nat) (path : List Nat) (f : Tree → Tree) (h : v ≠ w) :
    (s.mutate w path f).getD v none = s.getD v none := by
  unfold Store.mutate
  cases hw : s.getD w none with
  | none => rfl
  | some t =>
    simp only [List.getD_eq_getElem?_getD]
    rw [List.getElem?_set_ne (Ne.symm h)]

end Strophe.Stanza
