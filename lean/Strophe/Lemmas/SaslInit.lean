/-
C07 — helper lemmas, part 3: `_make_scram_init_msg` produces the RFC 5802 client-first-message.
-/
import Strophe.Lemmas.SaslScram
open Strophe Strophe.Hash Strophe.Sasl
open Strophe.Spec.Rfc5802

namespace Strophe.Lemmas.Sasl

theorem escapeName_eq_saslname (u : Bytes) : escapeName u = saslname u := by
  unfold escapeName saslname
  congr 1
  funext c
  by_cases h1 : c = 44
  · subst h1; simp [comma, asc]; rfl
  · by_cases h2 : c = 61
    · subst h2; simp [comma, asc]; rfl
    · simp [comma, eq_, h1, h2]

theorem randBytes_length (n : Nat) (rnd : Bytes) : (randBytes n rnd).length = n := by
  simp [randBytes]

theorem hexUpper_length (d : Bytes) : (hexUpper d).length = 2 * d.length := by
  induction d with
  | nil => rfl
  | cons b d ih => simp [hexUpper, List.flatMap_cons] at ih ⊢; omega

/-- the client nonce: 32 upper-case hex digits of the 16 random bytes -/
def scramNonce (rnd : Bytes) : Bytes := hexUpper (randBytes 16 rnd)

theorem randNonce_scram (rnd : Bytes) : randNonce Gen.Sasl.scramNonceLen rnd = some (scramNonce rnd) := by
  unfold randNonce scramNonce
  have : Gen.Sasl.scramNonceLen = 33 := rfl
  simp only [this]
  rw [if_neg (by decide)]
  rw [List.take_of_length_le (by rw [hexUpper_length, randBytes_length]; decide)]

/-- the DIGEST-MD5 cnonce: 12 upper-case hex digits of 6 random bytes -/
def digestCnonce (rnd : Bytes) : Bytes := hexUpper (randBytes 6 rnd)

theorem randNonce_digest (rnd : Bytes) : randNonce Gen.Sasl.digestCnonceBuf rnd = some (digestCnonce rnd) := by
  unfold randNonce digestCnonce
  have : Gen.Sasl.digestCnonceBuf = 13 := rfl
  simp only [this]
  rw [if_neg (by decide)]
  rw [List.take_of_length_le (by rw [hexUpper_length, randBytes_length]; decide)]

/-- `_make_scram_init_msg` without channel binding: "n,," / "y,," -/
theorem scramInit_plain (secured : Bool) (tls : TlsCb) (jid rnd user : Bytes) (hu : Jid.node jid = some user) :
    scramInit false secured tls jid rnd =
      let f : CbFlag := if secured then .y else .n
      some ⟨clientFirstMessage f user (scramNonce rnd),
            Base64.encode (gs2Header f), (gs2Header f).length⟩ := by
  unfold scramInit
  simp only [Bool.false_eq_true, if_false, hu, randNonce_scram, Option.getD_some, escapeName_eq_saslname]
  have hlen : ∀ (c : UInt8), ¬ ([c] ++ litGs2Tail ++ saslname user ++ litRsep ++ scramNonce rnd).length ≥
      (saslname user).length + (scramNonce rnd).length + 8 + 0 + 1 := by
    intro c; simp [litGs2Tail, litRsep, cs]; omega
  cases secured <;>
    (simp [hlen, Gen.Sasl.scramInitBuf, clientFirstMessage, clientFirstMessageBare, gs2Header, gs2CbindFlag, asc,
      litGs2Tail, litRsep, cs]; try omega)

/-- `_make_scram_init_msg` for a -PLUS mechanism over TLS: "p=<type>,," and the binding data -/
theorem scramInit_plus (ty data jid rnd user : Bytes) (hu : Jid.node jid = some user)
    (hty : ty.length + 4 ≤ Gen.Sasl.scramInitBuf) (hd : data.length ≤ Gen.Sasl.scramInitBuf - (ty.length + 4)) :
    scramInit true true ⟨some ty, some data⟩ jid rnd =
      some ⟨clientFirstMessage (.p ty) user (scramNonce rnd),
            Base64.encode (cbindInput (.p ty) data), (gs2Header (.p ty)).length⟩ := by
  unfold scramInit
  simp only [if_true, Bool.not_true, Bool.false_eq_true, if_false, hu, randNonce_scram, Option.getD_some,
    escapeName_eq_saslname]
  have hlen : ¬ (litPeq ++ ty ++ litGs2Tail ++ saslname user ++ litRsep ++ scramNonce rnd).length ≥
      (saslname user).length + (scramNonce rnd).length + 8 + (ty.length + 1) + 1 := by
    simp [litPeq, litGs2Tail, litRsep, cs]; omega
  have h2 : ¬ ty.length + 1 + 3 > Gen.Sasl.scramInitBuf := by omega
  have h3 : ¬ data.length > Gen.Sasl.scramInitBuf - (ty.length + 1 + 3) := by omega
  simp only [hlen, h2, h3, if_false]
  have htake : (litPeq ++ ty ++ litGs2Tail ++ saslname user ++ litRsep ++ scramNonce rnd).take (ty.length + 1 + 3) =
      gs2Header (.p ty) := by
    have : litPeq ++ ty ++ litGs2Tail ++ saslname user ++ litRsep ++ scramNonce rnd =
        gs2Header (.p ty) ++ (cs ['n', '='] ++ saslname user ++ litRsep ++ scramNonce rnd) := by
      simp [gs2Header, gs2CbindFlag, asc, litPeq, litGs2Tail, cs]
    rw [this, List.take_left' (by simp [gs2Header, gs2CbindFlag, asc])]
  rw [htake]
  simp [clientFirstMessage, clientFirstMessageBare, gs2Header, gs2CbindFlag, cbindInput, asc, litPeq, litGs2Tail,
    litRsep, cs]

end Strophe.Lemmas.Sasl
