/-
C11 helper lemmas, part 1: list facts (`after`, `removeUid`, `setLast`, `enableAll`), the
well-formedness invariant `WF` of the handler stores and how single API calls act on the state.
-/
import Strophe.Model.Handler

namespace Strophe.Lemmas.Handler
open Strophe Strophe.Handler

/-! ### lists -/

theorem after_append_of_notMem (A R : List Item) (u : Nat) (h : ∀ x ∈ A, x.uid ≠ u) :
    after (A ++ R) u = after R u := by
  induction A with
  | nil => rfl
  | cons a A ih =>
    have ha : a.uid ≠ u := h a (by simp)
    simp only [List.cons_append, after, ha, if_false]
    exact ih (fun x hx => h x (by simp [hx]))

theorem after_cons_self (it : Item) (R : List Item) : after (it :: R) it.uid = some R := by
  simp [after]

theorem after_eq_none (l : List Item) (u : Nat) (h : ∀ x ∈ l, x.uid ≠ u) : after l u = none := by
  induction l with
  | nil => rfl
  | cons a l ih =>
    have ha : a.uid ≠ u := h a (by simp)
    simp only [after, ha, if_false]
    exact ih (fun x hx => h x (by simp [hx]))

theorem after_some_split {l : List Item} {u : Nat} {R : List Item} (h : after l u = some R) :
    ∃ A it, l = A ++ it :: R ∧ it.uid = u ∧ ∀ x ∈ A, x.uid ≠ u := by
  induction l with
  | nil => simp [after] at h
  | cons a l ih =>
    by_cases ha : a.uid = u
    · simp only [after, ha, if_true, Option.some.injEq] at h
      exact ⟨[], a, by simp [h], ha, by simp⟩
    · simp only [after, ha, if_false] at h
      obtain ⟨A, it, hl, hu, hA⟩ := ih h
      refine ⟨a :: A, it, by simp [hl], hu, ?_⟩
      intro x hx
      rcases List.mem_cons.mp hx with rfl | hx
      · exact ha
      · exact hA x hx

theorem removeUid_eq_self (l : List Item) (u : Nat) (h : ∀ x ∈ l, x.uid ≠ u) : removeUid l u = l := by
  unfold removeUid
  apply List.filter_eq_self.mpr
  intro x hx
  simpa using h x hx

theorem removeUid_append (A B : List Item) (u : Nat) :
    removeUid (A ++ B) u = removeUid A u ++ removeUid B u := by
  simp [removeUid]

theorem removeUid_cons_self (it : Item) (R : List Item) : removeUid (it :: R) it.uid = removeUid R it.uid := by
  simp [removeUid]

theorem mem_removeUid {l : List Item} {u : Nat} {x : Item} : x ∈ removeUid l u ↔ x ∈ l ∧ x.uid ≠ u := by
  simp [removeUid]

theorem setLast_uid (l : List Item) (u t : Nat) : (setLast l u t).map (·.uid) = l.map (·.uid) := by
  unfold setLast
  rw [List.map_map]
  apply List.map_congr_left
  intro x _
  by_cases h : x.uid = u <;> simp [h]

theorem setLast_key (l : List Item) (u t : Nat) : (setLast l u t).map (·.key) = l.map (·.key) := by
  unfold setLast
  rw [List.map_map]
  apply List.map_congr_left
  intro x _
  by_cases h : x.uid = u <;> simp [h, Item.key]

theorem setLast_of_notMem (l : List Item) (u t : Nat) (h : ∀ x ∈ l, x.uid ≠ u) : setLast l u t = l := by
  unfold setLast
  conv => rhs; rw [← List.map_id l]
  apply List.map_congr_left
  intro x hx
  simp [h x hx]

theorem setLast_append (A B : List Item) (u t : Nat) : setLast (A ++ B) u t = setLast A u t ++ setLast B u t := by
  simp [setLast]

theorem enableAll_uid (l : List Item) : (enableAll l).map (·.uid) = l.map (·.uid) := by
  unfold enableAll; rw [List.map_map]; rfl

theorem enableAll_key (l : List Item) : (enableAll l).map (·.key) = l.map (·.key) := by
  unfold enableAll; rw [List.map_map]; rfl

theorem hasKey_iff (l : List Item) (fn ud : Nat) : hasKey l fn ud = true ↔ (⟨fn, ud⟩ : Key) ∈ l.map (·.key) := by
  unfold hasKey
  simp only [List.any_eq_true, Bool.and_eq_true, decide_eq_true_eq, List.mem_map, Item.key]
  constructor
  · rintro ⟨x, hx, h1, h2⟩; exact ⟨x, hx, by simp [h1, h2]⟩
  · rintro ⟨x, hx, h⟩
    injection h with h1 h2
    exact ⟨x, hx, h1, h2⟩

/-! ### well-formed stores -/

/-- a handler list whose items were all allocated before `n`, pairwise distinct as allocations and
    pairwise distinct as callback × user data -/
structure ListOk (n : Nat) (l : List Item) : Prop where
  lt : ∀ x ∈ l, x.uid < n
  nd : (l.map (·.uid)).Nodup
  kd : (l.map (·.key)).Nodup

theorem ListOk.nil (n : Nat) : ListOk n [] := ⟨by simp, by simp, by simp⟩

theorem ListOk.mono {n m : Nat} {l : List Item} (h : ListOk n l) (hm : n ≤ m) : ListOk m l :=
  ⟨fun x hx => Nat.lt_of_lt_of_le (h.lt x hx) hm, h.nd, h.kd⟩

theorem ListOk.filter {n : Nat} {l : List Item} (h : ListOk n l) (p : Item → Bool) : ListOk n (l.filter p) :=
  ⟨fun x hx => h.lt x (List.mem_filter.mp hx).1,
   h.nd.sublist (List.Sublist.map _ List.filter_sublist),
   h.kd.sublist (List.Sublist.map _ List.filter_sublist)⟩

theorem ListOk.of_maps {n : Nat} {l l' : List Item} (h : ListOk n l)
    (hu : l'.map (·.uid) = l.map (·.uid)) (hk : l'.map (·.key) = l.map (·.key)) : ListOk n l' := by
  refine ⟨?_, hu ▸ h.nd, hk ▸ h.kd⟩
  intro x hx
  have : x.uid ∈ l'.map (·.uid) := List.mem_map.mpr ⟨x, hx, rfl⟩
  rw [hu] at this
  obtain ⟨y, hy, hyx⟩ := List.mem_map.mp this
  rw [← hyx]; exact h.lt y hy

theorem ListOk.append_new {n : Nat} {l : List Item} (h : ListOk n l) (it : Item) (hu : it.uid = n)
    (hk : hasKey l it.fn it.ud = false) : ListOk (n + 1) (l ++ [it]) := by
  refine ⟨?_, ?_, ?_⟩
  · intro x hx
    rcases List.mem_append.mp hx with hx | hx
    · exact Nat.lt_succ_of_lt (h.lt x hx)
    · simp at hx; subst hx; omega
  · rw [List.map_append, List.nodup_append]
    refine ⟨h.nd, by simp, ?_⟩
    intro a ha b hb
    simp at hb; subst hb
    obtain ⟨y, hy, rfl⟩ := List.mem_map.mp ha
    have := h.lt y hy; omega
  · rw [List.map_append, List.nodup_append]
    refine ⟨h.kd, by simp, ?_⟩
    intro a ha b hb
    simp at hb; subst hb
    intro hab; subst hab
    have : hasKey l it.fn it.ud = true := (hasKey_iff l it.fn it.ud).mpr ha
    rw [hk] at this; cases this

theorem ListOk.cons_new {n : Nat} {l : List Item} (h : ListOk n l) (it : Item) (hu : it.uid = n)
    (hk : hasKey l it.fn it.ud = false) : ListOk (n + 1) (it :: l) := by
  refine ⟨?_, ?_, ?_⟩
  · intro x hx
    rcases List.mem_cons.mp hx with rfl | hx
    · omega
    · exact Nat.lt_succ_of_lt (h.lt x hx)
  · rw [List.map_cons, List.nodup_cons]
    refine ⟨?_, h.nd⟩
    intro ha
    obtain ⟨y, hy, hyx⟩ := List.mem_map.mp ha
    have := h.lt y hy; omega
  · rw [List.map_cons, List.nodup_cons]
    refine ⟨?_, h.kd⟩
    intro ha
    have : hasKey l it.fn it.ud = true := (hasKey_iff l it.fn it.ud).mpr ha
    rw [hk] at this; cases this

structure WF (st : St) : Prop where
  h : ∀ c, ListOk st.nextUid (st.conns c).handlers
  i : ∀ c id, ListOk st.nextUid ((st.conns c).idTab id)
  t : ∀ c, ListOk st.nextUid (st.conns c).timed
  g : ListOk st.nextUid st.gtimed

theorem wf_init : WF {} := ⟨fun _ => ListOk.nil _, fun _ _ => ListOk.nil _, fun _ => ListOk.nil _, ListOk.nil _⟩

/-! ### `updConn` -/

@[simp] theorem updConn_conns_same (st : St) (c : Nat) (f : Conn → Conn) :
    (updConn st c f).conns c = f (st.conns c) := by simp [updConn]

theorem updConn_conns_other (st : St) (c c' : Nat) (f : Conn → Conn) (h : c' ≠ c) :
    (updConn st c f).conns c' = st.conns c' := by simp [updConn, h]

@[simp] theorem updConn_gtimed (st : St) (c : Nat) (f : Conn → Conn) : (updConn st c f).gtimed = st.gtimed := rfl
@[simp] theorem updConn_now (st : St) (c : Nat) (f : Conn → Conn) : (updConn st c f).now = st.now := rfl
@[simp] theorem updConn_nextUid (st : St) (c : Nat) (f : Conn → Conn) : (updConn st c f).nextUid = st.nextUid := rfl
@[simp] theorem updConn_cnt (st : St) (c : Nat) (f : Conn → Conn) : (updConn st c f).cnt = st.cnt := rfl
@[simp] theorem updConn_log (st : St) (c : Nat) (f : Conn → Conn) : (updConn st c f).log = st.log := rfl
@[simp] theorem updConn_nconns (st : St) (c : Nat) (f : Conn → Conn) : (updConn st c f).nconns = st.nconns := rfl

@[simp] theorem tabSet_same (t : Str → List Item) (id : Str) (v : List Item) : tabSet t id v id = v := by
  simp [tabSet]

theorem tabSet_other (t : Str → List Item) (id id' : Str) (v : List Item) (h : id' ≠ id) :
    tabSet t id v id' = t id' := by simp [tabSet, h]

/-- replacing the lists of one connection by well-formed ones keeps the state well-formed -/
theorem WF.updc {st : St} (w : WF st) (c : Nat) (f : Conn → Conn) (n : Nat) (hn : st.nextUid ≤ n)
    (hh : ListOk n (f (st.conns c)).handlers) (hi : ∀ id, ListOk n ((f (st.conns c)).idTab id))
    (ht : ListOk n (f (st.conns c)).timed) :
    WF { updConn st c f with nextUid := n } := by
  refine ⟨?_, ?_, ?_, ?_⟩
  · intro c'
    by_cases h : c' = c
    · subst h; simpa using hh
    · show ListOk n ((updConn st c f).conns c').handlers
      rw [updConn_conns_other _ _ _ _ h]; exact (w.h c').mono hn
  · intro c' id
    by_cases h : c' = c
    · subst h; simpa using hi id
    · show ListOk n (((updConn st c f).conns c').idTab id)
      rw [updConn_conns_other _ _ _ _ h]; exact (w.i c' id).mono hn
  · intro c'
    by_cases h : c' = c
    · subst h; simpa using ht
    · show ListOk n ((updConn st c f).conns c').timed
      rw [updConn_conns_other _ _ _ _ h]; exact (w.t c').mono hn
  · exact w.g.mono hn

theorem WF.updc' {st : St} (w : WF st) (c : Nat) (f : Conn → Conn)
    (hh : ListOk st.nextUid (f (st.conns c)).handlers) (hi : ∀ id, ListOk st.nextUid ((f (st.conns c)).idTab id))
    (ht : ListOk st.nextUid (f (st.conns c)).timed) :
    WF (updConn st c f) :=
  WF.updc w c f st.nextUid (Nat.le_refl _) hh hi ht

/-! ### single API calls: what they leave alone -/

def tickOf : Act → Nat
  | .tick n => n
  | _ => 0

def ticks (acts : List Act) : Nat := (acts.map tickOf).sum

theorem applyAct_cnt (st : St) (a : Act) : (applyAct st a).cnt = st.cnt := by
  cases a <;> simp only [applyAct, handlerAdd, idHandlerAdd, timedAdd, globalTimedAdd, handlerDelete,
    idHandlerDelete, timedDelete, globalTimedDelete, send] <;> (try split) <;> (try split) <;> rfl

theorem applyAct_log (st : St) (a : Act) : (applyAct st a).log = st.log := by
  cases a <;> simp only [applyAct, handlerAdd, idHandlerAdd, timedAdd, globalTimedAdd, handlerDelete,
    idHandlerDelete, timedDelete, globalTimedDelete, send] <;> (try split) <;> (try split) <;> rfl

theorem applyAct_nconns (st : St) (a : Act) : (applyAct st a).nconns = st.nconns := by
  cases a <;> simp only [applyAct, handlerAdd, idHandlerAdd, timedAdd, globalTimedAdd, handlerDelete,
    idHandlerDelete, timedDelete, globalTimedDelete, send] <;> (try split) <;> (try split) <;> rfl

theorem applyAct_now (st : St) (a : Act) : (applyAct st a).now = st.now + tickOf a := by
  cases a <;> simp only [applyAct, handlerAdd, idHandlerAdd, timedAdd, globalTimedAdd, handlerDelete,
    idHandlerDelete, timedDelete, globalTimedDelete, send, tickOf] <;> (try split) <;> (try split) <;> rfl

theorem applyAct_nextUid_le (st : St) (a : Act) : st.nextUid ≤ (applyAct st a).nextUid := by
  cases a <;> simp only [applyAct, handlerAdd, idHandlerAdd, timedAdd, globalTimedAdd, handlerDelete,
    idHandlerDelete, timedDelete, globalTimedDelete, send] <;> (try split) <;> (try split) <;>
    simp

theorem applyAct_negotiated (st : St) (a : Act) (c : Nat) :
    ((applyAct st a).conns c).negotiated = (st.conns c).negotiated := by
  cases a <;> simp only [applyAct, handlerAdd, idHandlerAdd, timedAdd, globalTimedAdd, handlerDelete,
    idHandlerDelete, timedDelete, globalTimedDelete, send] <;> (try split) <;> (try split) <;>
    (try rfl) <;> (simp only [updConn]; split <;> (try split) <;> simp_all)

theorem applyAct_connected (st : St) (a : Act) (c : Nat) :
    ((applyAct st a).conns c).connected = (st.conns c).connected := by
  cases a <;> simp only [applyAct, handlerAdd, idHandlerAdd, timedAdd, globalTimedAdd, handlerDelete,
    idHandlerDelete, timedDelete, globalTimedDelete, send] <;> (try split) <;> (try split) <;>
    (try rfl) <;> (simp only [updConn]; split <;> (try split) <;> simp_all)

/-! ### API calls keep the stores well-formed -/

/-- the state with other ghost fields (invocation counters, log) -/
def withLog (st : St) (cnt : Key → Nat) (log : List Inv) : St := { st with cnt := cnt, log := log }

theorem WF.withLog {st : St} (w : WF st) (cnt : Key → Nat) (log : List Inv) : WF (withLog st cnt log) :=
  ⟨w.h, w.i, w.t, w.g⟩

theorem delFn_eq_filter (l : List Item) (fn : Nat) : delFn l fn = l.filter (fun x => decide (x.fn ∉ [fn])) := by
  unfold delFn
  apply List.filter_congr
  intro x _
  by_cases h : x.fn = fn <;> simp [h]

theorem handlerAdd_wf (st : St) (w : WF st) (c fn ud : Nat) (flt : Filter) (user : Bool) :
    WF (handlerAdd st c fn ud flt user) := by
  unfold handlerAdd
  split
  · exact w
  · rename_i hk
    have hk' : hasKey (st.conns c).handlers fn ud = false := by simpa using hk
    exact WF.updc w c _ (st.nextUid + 1) (Nat.le_succ _)
      (ListOk.append_new (w.h c) _ rfl hk') (fun id => (w.i c id).mono (Nat.le_succ _))
      ((w.t c).mono (Nat.le_succ _))

theorem idHandlerAdd_wf (st : St) (w : WF st) (c fn ud : Nat) (id : Str) (user : Bool) :
    WF (idHandlerAdd st c fn ud id user) := by
  unfold idHandlerAdd
  split
  · exact w
  · rename_i hk
    have hk' : hasKey ((st.conns c).idTab id) fn ud = false := by simpa using hk
    refine WF.updc w c _ (st.nextUid + 1) (Nat.le_succ _) ((w.h c).mono (Nat.le_succ _)) ?_
      ((w.t c).mono (Nat.le_succ _))
    intro id'
    by_cases h : id' = id
    · subst h
      simp only [tabSet_same]
      exact ListOk.append_new (w.i c id') _ rfl hk'
    · simp only [tabSet_other _ _ _ _ h]
      exact (w.i c id').mono (Nat.le_succ _)

theorem timedAddList_ok {n now fn ud period : Nat} {user : Bool} {l l' : List Item} (h : ListOk n l)
    (e : timedAddList l n now fn ud period user = some l') : ListOk (n + 1) l' := by
  unfold timedAddList at e
  split at e
  · cases e
  · rename_i hk
    have hk' : hasKey l fn ud = false := by simpa using hk
    injection e with e; subst e
    exact ListOk.cons_new h _ rfl hk'

theorem timedAdd_wf (st : St) (w : WF st) (c fn ud period : Nat) (user : Bool) :
    WF (timedAdd st c fn ud period user) := by
  unfold timedAdd
  split
  · exact w
  · rename_i l e
    exact WF.updc w c _ (st.nextUid + 1) (Nat.le_succ _) ((w.h c).mono (Nat.le_succ _))
      (fun id => (w.i c id).mono (Nat.le_succ _)) (timedAddList_ok (w.t c) e)

theorem globalTimedAdd_wf (st : St) (w : WF st) (fn ud period : Nat) : WF (globalTimedAdd st fn ud period) := by
  unfold globalTimedAdd
  split
  · exact w
  · rename_i l e
    exact ⟨fun c => (w.h c).mono (Nat.le_succ _), fun c id => (w.i c id).mono (Nat.le_succ _),
      fun c => (w.t c).mono (Nat.le_succ _), timedAddList_ok w.g e⟩

theorem applyAct_wf (st : St) (w : WF st) (a : Act) : WF (applyAct st a) := by
  cases a with
  | add c fn ud flt => exact handlerAdd_wf st w c fn ud flt true
  | addId c fn ud id => exact idHandlerAdd_wf st w c fn ud id true
  | addTimed c fn ud p => exact timedAdd_wf st w c fn ud p true
  | addGlobal fn ud p => exact globalTimedAdd_wf st w fn ud p
  | del c fn =>
    simp only [applyAct, handlerDelete]
    apply WF.updc' w c
    · exact (w.h c).filter _
    · intro id; exact w.i c id
    · exact w.t c
  | delId c fn id =>
    simp only [applyAct, idHandlerDelete]
    apply WF.updc' w c
    · exact w.h c
    · intro id'
      by_cases h : id' = id
      · subst h; simp only [tabSet_same]; exact (w.i c id').filter _
      · simp only [tabSet_other _ _ _ _ h]; exact w.i c id'
    · exact w.t c
  | delTimed c fn =>
    simp only [applyAct, timedDelete]
    apply WF.updc' w c
    · exact w.h c
    · intro id; exact w.i c id
    · exact (w.t c).filter _
  | delGlobal fn => exact ⟨w.h, w.i, w.t, w.g.filter _⟩
  | send c =>
    simp only [applyAct, send]
    apply WF.updc' w c
    · show ListOk _ (Conn.handlers (if _ then _ else _))
      split <;> exact w.h c
    · intro id
      show ListOk _ ((if _ then _ else _ : Conn).idTab id)
      split <;> exact w.i c id
    · show ListOk _ (Conn.timed (if _ then _ else _))
      split <;> exact w.t c
  | tick n => exact ⟨w.h, w.i, w.t, w.g⟩

theorem applyActs_wf (st : St) (w : WF st) (acts : List Act) : WF (applyActs st acts) := by
  induction acts generalizing st with
  | nil => exact w
  | cons a r ih => exact ih _ (applyAct_wf st w a)

end Strophe.Lemmas.Handler
