/-
NOTHING IS LOST: a retained element leaves the retained queue only through an `h` of the server
or into the send queue (behind `retained_only_released_by_h`).
-/
import Strophe.Lemmas.ConnC04Inv4

namespace Strophe.Lemmas.ConnC04
open Strophe Strophe.Conn

variable {c : Conn} {x : UInt32 × QElem}

/-! ### Mem: the element stays retained (everything but the handling of XEP-0198 elements) -/

def Mem (x : UInt32 × QElem) (c : Conn) : Prop := x ∈ c.sm.queue

theorem Mem_pushRawWith {it o sn} (h : Mem x c) : Mem x (pushRawWith c it o sn) := by
  unfold Mem; rw [(pushRawWith_same c it o sn).smq]; exact h
theorem Mem_resetSmForReconnect (h : Mem x c) : Mem x (resetSmForReconnect c) := by
  unfold Mem; rw [(resetSmForReconnect_same c).1]; exact h
theorem Mem_retire {e} (h : Mem x c) : Mem x (retire c e) := by
  unfold retire triggerSmCallback
  dsimp only
  split
  · exact List.mem_append_left _ h
  · exact h

theorem Mem_triggerSmCallback (h : Mem x c) : Mem x (triggerSmCallback c) := h
theorem Mem_addHandler {fn ud ns name type user} (h : Mem x c) : Mem x (addHandler c fn ud ns name type user) := by
  c4auto addHandler
theorem Mem_addIdHandler {fn id user} (h : Mem x c) : Mem x (addIdHandler c fn id user) := by
  c4auto addIdHandler
theorem Mem_addTimed {fn period user} (h : Mem x c) : Mem x (addTimed c fn period user) := by
  c4auto addTimed
theorem Mem_delTimed {fn} (h : Mem x c) : Mem x (delTimed c fn) := by
  c4auto delTimed
theorem Mem_resetTimed (h : Mem x c) : Mem x (resetTimed c) := by
  c4auto resetTimed
theorem Mem_systemDeleteAll (h : Mem x c) : Mem x (systemDeleteAll c) := by
  c4auto systemDeleteAll
theorem Mem_notify {e} (h : Mem x c) : Mem x (notify c e) := by
  c4auto notify
theorem Mem_connDisconnect (h : Mem x c) : Mem x (connDisconnect c) := by
  c4auto connDisconnect
theorem Mem_pushRaw {it o} (h : Mem x c) : Mem x (pushRaw c it o) := by
  c4auto pushRaw
theorem Mem_sendStanza {it o} (h : Mem x c) : Mem x (sendStanza c it o) := by
  c4auto sendStanza
theorem Mem_sendRaw {it o} (h : Mem x c) : Mem x (sendRaw c it o) := by
  c4auto sendRaw
theorem Mem_sendRawString {it} (h : Mem x c) : Mem x (sendRawString c it) := by
  c4auto sendRawString
theorem Mem_xmppDisconnect (h : Mem x c) : Mem x (xmppDisconnect c) := by
  c4auto xmppDisconnect
theorem Mem_connTlsStart (h : Mem x c) : Mem x ((connTlsStart c).1) := by
  c4auto connTlsStart
theorem Mem_connOpenStream (h : Mem x c) : Mem x (connOpenStream c) := by
  c4auto connOpenStream
theorem Mem_prepareReset {o} (h : Mem x c) : Mem x (prepareReset c o) := h
theorem Mem_negotiationSuccess (h : Mem x c) : Mem x (negotiationSuccess c) := by
  c4auto negotiationSuccess
theorem Mem_authLegacyStep (h : Mem x c) : Mem x (authLegacyStep c) := by
  c4auto authLegacyStep
theorem Mem_auth (n : Nat) : ∀ {c}, Mem x c → Mem x (auth c n) := by
  induction n with
  | zero => intro c h; exact h
  | succ n ih =>
    intro c h
    rw [auth]
    dsimp only
    c4trav
    all_goals first | (apply ih; c4trav) | skip
theorem Mem_authTop (h : Mem x c) : Mem x (authTop c) := Mem_auth _ h
theorem Mem_writeElems (l : List QElem) : ∀ {c}, Mem x c → Mem x (writeElems c l) := by
  induction l with
  | nil => intro c h; exact h
  | cons e q ih =>
    intro c h
    unfold writeElems
    c4trav
    all_goals first | (apply ih; c4trav) | skip
theorem Mem_writeLoop (h : Mem x c) : Mem x (writeLoop c) := Mem_writeElems _ h
theorem Mem_xmppSend {it} (h : Mem x c) : Mem x (xmppSend c it) := by
  c4auto xmppSend
theorem Mem_xmppSendRawString {it} (h : Mem x c) : Mem x (xmppSendRawString c it) := by
  c4auto xmppSendRawString
theorem Mem_xmppSendRaw {it} (h : Mem x c) : Mem x (xmppSendRaw c it) := by
  c4auto xmppSendRaw
theorem Mem_release (h : Mem x c) : Mem x (release c) := by
  c4auto release
theorem Mem_connReset (h : Mem x c) : Mem x (connReset c) := by
  c4auto connReset
theorem Mem_setFlags {f} (h : Mem x c) : Mem x ((setFlags c f).1) := by
  c4auto setFlags
theorem Mem_connConnect {d t} (h : Mem x c) : Mem x ((connConnect c d t).1) := by
  c4auto connConnect

theorem Mem_connectClient (hsm : c.hasSm = true) (h : Mem x c) : Mem x (connectClient c).1 := by
  unfold connectClient
  rw [if_pos hsm]
  c4trav

theorem Mem_connectComponent (hsm : c.hasSm = true) (h : Mem x c) : Mem x (connectComponent c).1 := by
  unfold connectComponent
  refine pred_ite_fst (P := Mem x) (fun _ => h) (fun _ => ?_)
  have h1 : Mem x (setFlags c (getFlags c ||| Gen.flagDisableTls)).1 := Mem_setFlags h
  have h2 : (setFlags c (getFlags c ||| Gen.flagDisableTls)).1.hasSm = true := by
    unfold setFlags
    dsimp only
    split
    · exact hsm
    · split
      · exact hsm
      · split <;> exact hsm
  generalize (setFlags c (getFlags c ||| Gen.flagDisableTls)) = p at h1 h2 ⊢
  obtain ⟨c1, rc⟩ := p
  dsimp only at h1 h2 ⊢
  refine pred_ite_fst (P := Mem x) (fun _ => h1) (fun _ => ?_)
  rw [if_pos h2]
  exact Mem_connConnect h1

theorem Mem_connectRaw (hsm : c.hasSm = true) (h : Mem x c) : Mem x (connectRaw c).1 := by
  unfold connectRaw
  refine pred_ite_fst (P := Mem x) (fun _ => h) (fun _ => ?_)
  have h1 : Mem x (connectClient { c with isRaw := true }).1 := Mem_connectClient (c := { c with isRaw := true }) hsm h
  generalize (connectClient { c with isRaw := true }) = p at h1 ⊢
  obtain ⟨c1, rc⟩ := p
  dsimp only at h1 ⊢
  exact pred_ite_fst (P := Mem x) (fun _ => h1) (fun _ => h1)

/-! ### Rel: retained, or released by an `h` of this iteration, or back in the send queue -/

def Rel (x : UInt32 × QElem) (hs : List Nat) (c : Conn) : Prop :=
  x ∈ c.sm.queue ∨ (∃ hv ∈ hs, x.1.toNat < hv) ∨
  (∃ e ∈ c.queue, e.item = x.2.item ∧ e.owner = x.2.owner ∧ e.snap = x.2.snap)

/-- the `h` values the stanza carries are accounted for -/
def HsOk (st : XTree) (hs : List Nat) : Prop := ∀ v, hOf st = some v → v ∈ hs

variable {hs : List Nat}

theorem Rel_of_Mem (h : Mem x c) : Rel x hs c := .inl h

/-- the retained queue is untouched and the send queue only grows -/
theorem Rel_frame {c' : Conn} (h : Rel x hs c) (h1 : c'.sm.queue = c.sm.queue) (h2 : ∀ e ∈ c.queue, e ∈ c'.queue) :
    Rel x hs c' := by
  rcases h with h | h | ⟨e, he, h⟩
  · exact .inl (by rw [h1]; exact h)
  · exact .inr (.inl h)
  · exact .inr (.inr ⟨e, h2 e he, h⟩)

theorem Rel_pushRawWith {it o sn} (h : Rel x hs c) : Rel x hs (pushRawWith c it o sn) :=
  Rel_frame h (pushRawWith_same c it o sn).smq (pushRawWith_queue_mono c it o sn)
theorem Rel_resetSmForReconnect (h : Rel x hs c) : Rel x hs (resetSmForReconnect c) := by
  obtain ⟨h1, _, _, _, h5, _⟩ := resetSmForReconnect_same c
  exact Rel_frame h h1 (fun e he => by rw [h5]; exact he)

theorem Rel_triggerSmCallback (h : Rel x hs c) : Rel x hs (triggerSmCallback c) := h
theorem Rel_addHandler {fn ud ns name type user} (h : Rel x hs c) : Rel x hs (addHandler c fn ud ns name type user) := by
  c4auto addHandler
theorem Rel_addIdHandler {fn id user} (h : Rel x hs c) : Rel x hs (addIdHandler c fn id user) := by
  c4auto addIdHandler
theorem Rel_addTimed {fn period user} (h : Rel x hs c) : Rel x hs (addTimed c fn period user) := by
  c4auto addTimed
theorem Rel_delTimed {fn} (h : Rel x hs c) : Rel x hs (delTimed c fn) := by
  c4auto delTimed
theorem Rel_resetTimed (h : Rel x hs c) : Rel x hs (resetTimed c) := by
  c4auto resetTimed
theorem Rel_notify {e} (h : Rel x hs c) : Rel x hs (notify c e) := by
  c4auto notify
theorem Rel_connDisconnect (h : Rel x hs c) : Rel x hs (connDisconnect c) := by
  c4auto connDisconnect
theorem Rel_pushRaw {it o} (h : Rel x hs c) : Rel x hs (pushRaw c it o) := by
  c4auto pushRaw
theorem Rel_sendStanza {it o} (h : Rel x hs c) : Rel x hs (sendStanza c it o) := by
  c4auto sendStanza
theorem Rel_sendRaw {it o} (h : Rel x hs c) : Rel x hs (sendRaw c it o) := by
  c4auto sendRaw
theorem Rel_sendRawString {it} (h : Rel x hs c) : Rel x hs (sendRawString c it) := by
  c4auto sendRawString
theorem Rel_xmppDisconnect (h : Rel x hs c) : Rel x hs (xmppDisconnect c) := by
  c4auto xmppDisconnect
theorem Rel_connTlsStart (h : Rel x hs c) : Rel x hs ((connTlsStart c).1) := by
  c4auto connTlsStart
theorem Rel_connOpenStream (h : Rel x hs c) : Rel x hs (connOpenStream c) := by
  c4auto connOpenStream
theorem Rel_prepareReset {o} (h : Rel x hs c) : Rel x hs (prepareReset c o) := h
theorem Rel_negotiationSuccess (h : Rel x hs c) : Rel x hs (negotiationSuccess c) := by
  c4auto negotiationSuccess
theorem Rel_authLegacyStep (h : Rel x hs c) : Rel x hs (authLegacyStep c) := by
  c4auto authLegacyStep
theorem Rel_auth (n : Nat) : ∀ {c}, Rel x hs c → Rel x hs (auth c n) := by
  induction n with
  | zero => intro c h; exact h
  | succ n ih =>
    intro c h
    rw [auth]
    dsimp only
    c4trav
    all_goals first | (apply ih; c4trav) | skip
theorem Rel_authTop (h : Rel x hs c) : Rel x hs (authTop c) := Rel_auth _ h
theorem Rel_saslChild {t} (h : Rel x hs c) : Rel x hs (saslChild c t) := by
  c4auto saslChild
theorem Rel_noteOffers {st} (h : Rel x hs c) : Rel x hs (noteOffers c st) := by
  c4auto noteOffers
theorem Rel_handleFeatures {st} (h : Rel x hs c) : Rel x hs (handleFeatures c st) := by
  c4auto handleFeatures
theorem Rel_doBind (h : Rel x hs c) : Rel x hs (doBind c) := by
  c4auto doBind
theorem Rel_smEnable (h : Rel x hs c) : Rel x hs (smEnable c) := by
  c4auto smEnable
theorem Rel_sessionStart (h : Rel x hs c) : Rel x hs (sessionStart c) := by
  c4auto sessionStart
theorem Rel_handleFeaturesSasl {st} (h : Rel x hs c) : Rel x hs (handleFeaturesSasl c st) := by
  c4auto handleFeaturesSasl
theorem Rel_compressionOffer {st} (h : Rel x hs c) : Rel x hs (compressionOffer c st) := by
  c4auto compressionOffer
theorem Rel_handleFeaturesCompress {st} (h : Rel x hs c) : Rel x hs (handleFeaturesCompress c st) := by
  c4auto handleFeaturesCompress
theorem Rel_handleSaslResult {st} (h : Rel x hs c) : Rel x hs (handleSaslResult c st) := by
  c4auto handleSaslResult
theorem Rel_handleBind {st} (h : Rel x hs c) : Rel x hs (handleBind c st) := by
  c4auto handleBind
theorem Rel_handleSession {st} (h : Rel x hs c) : Rel x hs (handleSession c st) := by
  c4auto handleSession
theorem Rel_handleLegacy {st} (h : Rel x hs c) : Rel x hs (handleLegacy c st) := by
  c4auto handleLegacy
theorem Rel_handleError {st} (h : Rel x hs c) : Rel x hs (handleError c st) := by
  c4auto handleError

theorem Rel_hsmTail {hb wr} (h : Rel x hs c) : Rel x hs (hsmTail c hb wr) := by
  c4auto hsmTail

theorem mem_dropWhile_or {α} (p : α → Bool) : ∀ (l : List α) (a : α), a ∈ l → a ∈ l.dropWhile p ∨ p a = true
  | [], _, h => by cases h
  | y :: l, a, h => by
    rw [List.dropWhile_cons]
    by_cases hy : p y = true
    · rw [if_pos hy]
      rcases List.mem_cons.1 h with rfl | h
      · exact .inr hy
      · exact mem_dropWhile_or p l a h
    · rw [if_neg hy]; exact .inl h

theorem hOf_of_getH {st : XTree} {v : Nat} (h : getH st = some v) : hOf st = some v := by
  unfold getH at h
  unfold hOf
  cases ha : st.attr (b "h") with
  | none => rw [ha] at h; cases h
  | some a =>
    rw [ha] at h
    dsimp only at h ⊢
    rw [Option.map_some]
    generalize stringToUl a = p at h ⊢
    obtain ⟨w, bad⟩ := p
    dsimp only at h ⊢
    cases bad
    · simpa using h
    · simp at h

/-- an element dropped by `_sm_queue_cleanup` is covered by the reported count -/
theorem Rel_cleanup {c' : Conn} {v : Nat} (hv : v ∈ hs ∨ v = 0) (h : Rel x hs c)
    (h1 : c'.sm.queue = smQueueCleanup c.sm.queue v) (h2 : ∀ e ∈ c.queue, e ∈ c'.queue) : Rel x hs c' := by
  rcases h with h | h | ⟨e, he, h⟩
  · rcases mem_dropWhile_or (fun e => decide (e.1.toNat < v)) c.sm.queue x h with hd | hd
    · exact .inl (by rw [h1]; exact hd)
    · have hd : x.1.toNat < v := by simpa using hd
      rcases hv with hv | hv
      · exact .inr (.inl ⟨v, hv, hd⟩)
      · omega
  · exact .inr (.inl h)
  · exact .inr (.inr ⟨e, h2 e he, h⟩)

theorem Rel_smElement {st} (hh : HsOk st hs) (h : Rel x hs c) : Rel x hs (smHandleStanza.smElement c st) := by
  unfold smHandleStanza.smElement triggerSmCallback
  split
  · exact h
  · split
    · exact Rel_sendStanza h
    · split
      · split
        · exact h
        · rename_i hsx hattr
          refine Rel_cleanup (c := c) (v := if (stringToUl hsx).2 = true then 2 ^ 64 - 1 else (stringToUl hsx).1)
            (.inl ?_) h rfl (fun e he => he)
          apply hh
          unfold hOf
          rw [hattr]
          rfl
      · exact h

theorem Rel_smHandleStanza {st} (hh : HsOk st hs) (h : Rel x hs c) : Rel x hs (smHandleStanza c st) := by
  unfold smHandleStanza
  split
  · split
    · exact h
    · exact Rel_smElement hh h
  · exact Rel_smElement hh h

/-- re-sending on a connected connection with stream management on: everything retained is queued -/
theorem Rel_resend {c0 : Conn} (hc : c0.state = .connected) (hen : c0.sm.enabled = true)
    (h : x ∈ c0.sm.queue ∨ (∃ hv ∈ hs, x.1.toNat < hv) ∨
      (∃ e ∈ c0.queue, e.item = x.2.item ∧ e.owner = x.2.owner ∧ e.snap = x.2.snap)) :
    Rel x hs (negotiationSuccess (smQueueResend c0)) := by
  apply Rel_negotiationSuccess
  rw [smQueueResend_eq]
  rcases h with h | h | ⟨e, he, h⟩
  · obtain ⟨e, he, h1⟩ := resendLoop_mem c0.sm.queue { c0 with sm := { c0.sm with queue := [] } } hc hen x h
    exact .inr (.inr ⟨e, he, h1⟩)
  · exact .inr (.inl h)
  · exact .inr (.inr ⟨e, resendLoop_queue_mono _ _ e he, h⟩)

theorem Rel_handleSm {st} (hh : HsOk st hs) (hc : St .connected c) (h : Rel x hs c) : Rel x hs (handleSm c st) := by
  refine handleSm_cases (Rel x hs) c st ?_ ?_ ?_ ?_
  · intro s' _ hk
    exact Rel_frame (c' := { c with sm := s' }) h hk.queue (fun e he => he)
  · intro _ _ s' hk
    refine Rel_resend (c0 := { c with sm := s' }) hc hk.enabled ?_
    rcases h with h | h | h
    · exact .inl (by rw [hk.queue]; exact h)
    · exact .inr (.inl h)
    · exact .inr (.inr h)
  · intro ours v _ _ hv
    refine Rel_resend (c0 := resumedC1 c v) hc rfl ?_
    exact Rel_cleanup (c := c) (c' := resumedC1 c v) (.inl (hh v (hOf_of_getH hv))) h rfl (fun e he => he)
  · intro s' _ hq hb wr _
    apply Rel_hsmTail
    rcases hq with hq | hq
    · exact Rel_frame (c' := { c with sm := s' }) h hq (fun e he => he)
    · refine Rel_cleanup (c := c) (c' := { c with sm := s' }) (v := (getH st).getD 0) ?_ h hq (fun e he => he)
      cases hg : getH st with
      | none => exact .inr rfl
      | some v => exact .inl (hh v (hOf_of_getH hg))

theorem Rel_handleSm_loud {st} (hl : ¬ quiet st) (h : Rel x hs c) : Rel x hs (handleSm c st) := by
  rw [handleSm_loud hl]
  exact Rel_frame (c' := { c with sm := { c.sm with enabled := false } }) h rfl (fun e he => he)

/-! ### NC: not connecting -/

def NC (c : Conn) : Prop := c.state ≠ .connecting

theorem NC_rec1 {ng ht r : Bool} : NC { c with state := .disconnected, negotiated := ng, hasTls := ht, isRaw := r } := by
  intro h; cases h
theorem NC_pushRawWith {it o sn} (h : NC c) : NC (pushRawWith c it o sn) := by
  unfold NC; rw [(pushRawWith_same c it o sn).state]; exact h
theorem NC_resetSmForReconnect (h : NC c) : NC (resetSmForReconnect c) := by
  unfold NC; rw [(resetSmForReconnect_same c).2.2.2.2.2.1]; exact h
theorem NC_triggerSmCallback (h : NC c) : NC (triggerSmCallback c) := h
theorem NC_addHandler {fn ud ns name type user} (h : NC c) : NC (addHandler c fn ud ns name type user) := by
  c4auto addHandler
theorem NC_addIdHandler {fn id user} (h : NC c) : NC (addIdHandler c fn id user) := by
  c4auto addIdHandler
theorem NC_addTimed {fn period user} (h : NC c) : NC (addTimed c fn period user) := by
  c4auto addTimed
theorem NC_delTimed {fn} (h : NC c) : NC (delTimed c fn) := by
  c4auto delTimed
theorem NC_resetTimed (h : NC c) : NC (resetTimed c) := by
  c4auto resetTimed
theorem NC_systemDeleteAll (h : NC c) : NC (systemDeleteAll c) := by
  c4auto systemDeleteAll
theorem NC_notify {e} (h : NC c) : NC (notify c e) := by
  c4auto notify
theorem NC_connDisconnect (h : NC c) : NC (connDisconnect c) := by
  c4auto connDisconnect
theorem NC_pushRaw {it o} (h : NC c) : NC (pushRaw c it o) := by
  c4auto pushRaw
theorem NC_sendStanza {it o} (h : NC c) : NC (sendStanza c it o) := by
  c4auto sendStanza
theorem NC_sendRaw {it o} (h : NC c) : NC (sendRaw c it o) := by
  c4auto sendRaw
theorem NC_sendRawString {it} (h : NC c) : NC (sendRawString c it) := by
  c4auto sendRawString
theorem NC_xmppDisconnect (h : NC c) : NC (xmppDisconnect c) := by
  c4auto xmppDisconnect
theorem NC_connTlsStart (h : NC c) : NC ((connTlsStart c).1) := by
  c4auto connTlsStart
theorem NC_connOpenStream (h : NC c) : NC (connOpenStream c) := by
  c4auto connOpenStream
theorem NC_prepareReset {o} (h : NC c) : NC (prepareReset c o) := h
theorem NC_negotiationSuccess (h : NC c) : NC (negotiationSuccess c) := by
  c4auto negotiationSuccess
theorem NC_authLegacyStep (h : NC c) : NC (authLegacyStep c) := by
  c4auto authLegacyStep
theorem NC_auth (n : Nat) : ∀ {c}, NC c → NC (auth c n) := by
  induction n with
  | zero => intro c h; exact h
  | succ n ih =>
    intro c h
    rw [auth]
    dsimp only
    c4trav
    all_goals first | (apply ih; c4trav) | skip
theorem NC_authTop (h : NC c) : NC (authTop c) := NC_auth _ h
theorem NC_saslChild {t} (h : NC c) : NC (saslChild c t) := by
  c4auto saslChild
theorem NC_noteOffers {st} (h : NC c) : NC (noteOffers c st) := by
  c4auto noteOffers
theorem NC_handleFeatures {st} (h : NC c) : NC (handleFeatures c st) := by
  c4auto handleFeatures
theorem NC_doBind (h : NC c) : NC (doBind c) := by
  c4auto doBind
theorem NC_smEnable (h : NC c) : NC (smEnable c) := by
  c4auto smEnable
theorem NC_sessionStart (h : NC c) : NC (sessionStart c) := by
  c4auto sessionStart
theorem NC_handleFeaturesSasl {st} (h : NC c) : NC (handleFeaturesSasl c st) := by
  c4auto handleFeaturesSasl
theorem NC_compressionOffer {st} (h : NC c) : NC (compressionOffer c st) := by
  c4auto compressionOffer
theorem NC_handleFeaturesCompress {st} (h : NC c) : NC (handleFeaturesCompress c st) := by
  c4auto handleFeaturesCompress
theorem NC_handleSaslResult {st} (h : NC c) : NC (handleSaslResult c st) := by
  c4auto handleSaslResult
theorem NC_smQueueResend (h : NC c) : NC (smQueueResend c) := by
  c4auto smQueueResend
theorem NC_handleSm {st} (h : NC c) : NC (handleSm c st) := by
  c4auto handleSm
theorem NC_handleBind {st} (h : NC c) : NC (handleBind c st) := by
  c4auto handleBind
theorem NC_handleSession {st} (h : NC c) : NC (handleSession c st) := by
  c4auto handleSession
theorem NC_handleLegacy {st} (h : NC c) : NC (handleLegacy c st) := by
  c4auto handleLegacy
theorem NC_handleError {st} (h : NC c) : NC (handleError c st) := by
  c4auto handleError
theorem NC_runSys {k st} (h : NC c) : NC ((runSys c k st).1) := by
  c4auto runSys
theorem NC_runHandler {k st} (h : NC c) : NC ((runHandler c k st).1) := by
  c4auto runHandler
theorem NC_fireOne {st uid} (h : NC c) : NC (fireOne st c uid) := by
  c4auto fireOne
theorem NC_fireIdOne {st uid} (h : NC c) : NC (fireIdOne st c uid) := by
  c4auto fireIdOne
theorem NC_fireStanza {st} (h : NC c) : NC (fireStanza c st) := by
  c4auto fireStanza
theorem NC_smElement {st} (h : NC c) : NC (smHandleStanza.smElement c st) := by
  c4auto smHandleStanza.smElement
theorem NC_smHandleStanza {st} (h : NC c) : NC (smHandleStanza c st) := by
  c4auto smHandleStanza
theorem NC_handleStreamStanza {st} (h : NC c) : NC (handleStreamStanza c st) := by
  c4auto handleStreamStanza
theorem NC_componentOpen (h : NC c) : NC (componentOpen c) := by
  c4auto componentOpen
theorem NC_runOpenHandler (h : NC c) : NC (runOpenHandler c) := by
  c4auto runOpenHandler
theorem NC_handleStreamStart {n id} (h : NC c) : NC (handleStreamStart c n id) := by
  c4auto handleStreamStart
theorem NC_handleStreamEnd (h : NC c) : NC (handleStreamEnd c) := by
  c4auto handleStreamEnd
theorem NC_parserEvent {e} (h : NC c) : NC (parserEvent c e) := by
  c4auto parserEvent
theorem NC_runTimed {f} (h : NC c) : NC ((runTimed c f).1) := by
  c4auto runTimed
theorem NC_fireTimedOne {uid} (h : NC c) : NC (fireTimedOne c uid) := by
  c4auto fireTimedOne
theorem NC_fireTimed (h : NC c) : NC (fireTimed c) := by
  c4auto fireTimed
theorem NC_retire {e} (h : NC c) : NC (retire c e) := by
  c4auto retire
theorem NC_writeElems (l : List QElem) : ∀ {c}, NC c → NC (writeElems c l) := by
  induction l with
  | nil => intro c h; exact h
  | cons e q ih =>
    intro c h
    unfold writeElems
    c4trav
    all_goals first | (apply ih; c4trav) | skip
theorem NC_writeLoop (h : NC c) : NC (writeLoop c) := NC_writeElems _ h
theorem NC_connEstablished (h : NC c) : NC (connEstablished c) := by
  c4auto connEstablished

/-! ### one dispatch -/

theorem Rel_runSys {k st} (hh : HsOk st hs) (hc : St .connected c) (h : Rel x hs c) :
    Rel x hs (runSys c k st).1 := by
  unfold runSys
  c4trav
  all_goals assumption

theorem Rel_runHandler {hd st} (hh : HsOk st hs) (hc : St .connected c) (h : Rel x hs c) :
    Rel x hs (runHandler c hd st).1 := by
  unfold runHandler
  c4trav
  all_goals assumption

theorem Rel_runSys_loud {k st nm} (hl : ¬ quiet st) (hk : okH (.sys k) nm = true) (h : Rel x hs c) :
    Rel x hs (runSys c k st).1 := by
  cases k
  case bind => cases hk
  case session => cases hk
  case legacy => cases hk
  case sm =>
    have := Rel_handleSm_loud (st := st) hl h
    unfold runSys
    dsimp only
    exact pred_ite_fst (P := Rel x hs) (fun _ => h) (fun _ => this)
  all_goals
    unfold runSys
    dsimp only
    c4trav

theorem Rel_runHandler_loud {hd : Handler} {st} (hl : ¬ quiet st) (hw : HW c) (hmem : hd ∈ c.handlers)
    (h : Rel x hs c) : Rel x hs (runHandler c hd st).1 := by
  have hok := hw.okh hd hmem
  unfold runHandler
  cases hf : hd.fn with
  | userAll => dsimp only; exact Rel_notify h
  | sys k =>
    rw [hf] at hok
    dsimp only
    exact Rel_runSys_loud hl hok h

def Rq (x : UInt32 × QElem) (hs : List Nat) (c : Conn) : Prop := HW c ∧ Rel x hs c ∧ St .connected c
def Rl (x : UInt32 × QElem) (hs : List Nat) (c : Conn) : Prop := HW c ∧ Rel x hs c

theorem Rq_fireIdOne {st uid} (hh : HsOk st hs) (h : Rq x hs c) : Rq x hs (fireIdOne st c uid) := by
  unfold fireIdOne
  split
  · exact h
  · rename_i hd hf
    have hmem := List.mem_of_find?_eq_some hf
    split
    · exact h
    · have h1 : HW (runHandler c hd st).1 := HW_runHandler h.1
      have h2 : Rel x hs (runHandler c hd st).1 := Rel_runHandler hh h.2.2 h.2.1
      have h3 : St .connected (runHandler c hd st).1 := St_runHandler_id h.1 hmem h.2.2
      split
      rename_i c1 keep heq
      rw [heq] at h1 h2 h3
      split
      · exact ⟨h1, h2, h3⟩
      · exact ⟨HW_rec3 h1, h2, h3⟩

theorem Rq_fireOne {st uid} (hh : HsOk st hs) (hq : quiet st) (h : Rq x hs c) : Rq x hs (fireOne st c uid) := by
  unfold fireOne
  split
  · exact h
  · rename_i hd hf
    have hmem := List.mem_of_find?_eq_some hf
    split
    · exact h
    · split
      · rename_i hm
        have h1 : HW (runHandler c hd st).1 := HW_runHandler h.1
        have h2 : Rel x hs (runHandler c hd st).1 := Rel_runHandler hh h.2.2 h.2.1
        have h3 : St .connected (runHandler c hd st).1 := St_runHandler_quiet hq h.1 hmem hm h.2.2
        split
        rename_i c1 keep heq
        rw [heq] at h1 h2 h3
        split
        · exact ⟨h1, h2, h3⟩
        · exact ⟨HW_rec2 h1, h2, h3⟩
      · exact h

theorem Rl_fireOne {st uid} (hl : ¬ quiet st) (h : Rl x hs c) : Rl x hs (fireOne st c uid) := by
  unfold fireOne
  split
  · exact h
  · rename_i hd hf
    have hmem := List.mem_of_find?_eq_some hf
    split
    · exact h
    · split
      · have h1 : HW (runHandler c hd st).1 := HW_runHandler h.1
        have h2 : Rel x hs (runHandler c hd st).1 := Rel_runHandler_loud hl h.1 hmem h.2
        split
        rename_i c1 keep heq
        rw [heq] at h1 h2
        split
        · exact ⟨h1, h2⟩
        · exact ⟨HW_rec2 h1, h2⟩
      · exact h

theorem Rl_fireStanza {st} (hh : HsOk st hs) (h : Rq x hs c) : Rl x hs (fireStanza c st) := by
  unfold fireStanza
  dsimp only
  have phase : ∀ c1 : Conn, Rq x hs c1 → Rl x hs ((c1.handlers.map (·.uid)).foldl (fireOne st) c1) := by
    intro c1 h1
    by_cases hq : quiet st
    · have := pred_foldl (P := Rq x hs) (fun c u hc => Rq_fireOne (uid := u) hh hq hc) (c1.handlers.map (·.uid)) h1
      exact ⟨this.1, this.2.1⟩
    · exact pred_foldl (P := Rl x hs) (fun c u hc => Rl_fireOne (uid := u) hq hc) _ ⟨h1.1, h1.2.1⟩
  apply phase
  split
  · refine pred_foldl (P := Rq x hs) (fun c u hc => Rq_fireIdOne hh hc) _ ?_
    exact ⟨HW_rec6 h.1, h.2.1, h.2.2⟩
  · exact ⟨HW_rec5 h.1, h.2.1, h.2.2⟩

/-- between parser events: well-formed, the element accounted for, connected or disconnected -/
def RK (x : UInt32 × QElem) (hs : List Nat) (c : Conn) : Prop := HW c ∧ Rel x hs c ∧ NC c

theorem RK_handleStreamStanza {st} (hh : HsOk st hs) (h : RK x hs c) : RK x hs (handleStreamStanza c st) := by
  refine ⟨HW_handleStreamStanza h.1, ?_, NC_handleStreamStanza h.2.2⟩
  unfold handleStreamStanza
  refine pred_ite (P := Rel x hs) (fun _ => h.2.1) (fun hs' => ?_)
  dsimp only
  have hc : c.state = .connected := by
    have := h.2.2
    unfold NC at this
    cases hst : c.state <;> simp_all
  have := (Rl_fireStanza (st := st) hh ⟨h.1, h.2.1, hc⟩).2
  refine pred_ite (P := Rel x hs) (fun _ => ?_) (fun _ => this)
  exact Rel_smHandleStanza (c := { (fireStanza c st) with rxLog := _ }) hh this

theorem Rel_componentOpen (h : Rel x hs c) : Rel x hs (componentOpen c) := by
  c4auto componentOpen
theorem Rel_runOpenHandler (h : Rel x hs c) : Rel x hs (runOpenHandler c) := by
  c4auto runOpenHandler
theorem Rel_handleStreamStart {n id} (h : Rel x hs c) : Rel x hs (handleStreamStart c n id) := by
  c4auto handleStreamStart
theorem Rel_handleStreamEnd (h : Rel x hs c) : Rel x hs (handleStreamEnd c) := by
  c4auto handleStreamEnd
theorem Rel_runTimed {f} (h : Rel x hs c) : Rel x hs ((runTimed c f).1) := by
  c4auto runTimed
theorem Rel_fireTimedOne {uid} (h : Rel x hs c) : Rel x hs (fireTimedOne c uid) := by
  c4auto fireTimedOne
theorem Rel_fireTimed (h : Rel x hs c) : Rel x hs (fireTimed c) := by
  c4auto fireTimed
theorem Rel_connEstablished (h : Rel x hs c) : Rel x hs (connEstablished c) := by
  c4auto connEstablished

/-! ### one iteration of the event loop -/

theorem RK_parserEvent {e} (hh : ∀ st, e = .stanza st → HsOk st hs) (h : RK x hs c) : RK x hs (parserEvent c e) := by
  cases e with
  | stanza st =>
    unfold parserEvent
    refine pred_ite (P := RK x hs) (fun _ => h) (fun _ => RK_handleStreamStanza (hh st rfl) h)
  | open_ n id =>
    unfold parserEvent
    refine pred_ite (P := RK x hs) (fun _ => h) (fun _ => ?_)
    exact ⟨HW_handleStreamStart (c := { c with pst := .opened }) h.1,
      Rel_handleStreamStart (c := { c with pst := .opened }) h.2.1,
      NC_handleStreamStart (c := { c with pst := .opened }) h.2.2⟩
  | end_ =>
    unfold parserEvent
    refine pred_ite (P := RK x hs) (fun _ => h) (fun _ => ?_)
    exact ⟨HW_handleStreamEnd (c := { c with pst := .closed }) h.1,
      Rel_handleStreamEnd (c := { c with pst := .closed }) h.2.1,
      NC_handleStreamEnd (c := { c with pst := .closed }) h.2.2⟩
  | error =>
    unfold parserEvent
    exact ⟨HW_sendStanza (c := { c with pst := .closed }) h.1,
      Rel_sendStanza (c := { c with pst := .closed }) h.2.1,
      NC_sendStanza (c := { c with pst := .closed }) h.2.2⟩

/-- the parser events of one iteration -/
def evFold (c : Conn) (evs : List PEv) : Conn := evs.foldl parserEvent c

theorem RK_evFold : ∀ (evs : List PEv) {c : Conn}, (∀ st, PEv.stanza st ∈ evs → HsOk st hs) → RK x hs c →
    RK x hs (evFold c evs)
  | [], _, _, h => h
  | e :: evs, c, hh, h => by
    unfold evFold
    rw [List.foldl_cons]
    exact RK_evFold evs (fun st hst => hh st (List.mem_cons_of_mem _ hst))
      (RK_parserEvent (fun st he => hh st (by rw [he]; exact List.mem_cons_self)) h)

/-- well-formed and the element accounted for -/
def RW (x : UInt32 × QElem) (hs : List Nat) (c : Conn) : Prop := HW c ∧ Rel x hs c
/-- well-formed and the element still retained -/
def HM (x : UInt32 × QElem) (c : Conn) : Prop := HW c ∧ Mem x c

theorem RW_writeLoop (h : HM x c) : RW x hs (writeLoop c) :=
  ⟨HW_writeLoop h.1, Rel_of_Mem (Mem_writeLoop h.2)⟩
theorem RW_fireTimed (h : RW x hs c) : RW x hs (fireTimed c) := ⟨HW_fireTimed h.1, Rel_fireTimed h.2⟩
theorem RW_connDisconnect (h : RW x hs c) : RW x hs (connDisconnect c) :=
  ⟨HW_connDisconnect h.1, Rel_connDisconnect h.2⟩
theorem RW_connEstablished (h : RW x hs c) : RW x hs (connEstablished c) :=
  ⟨HW_connEstablished h.1, Rel_connEstablished h.2⟩
theorem RW_evFold {evs : List PEv} (h : RW x hs c) (hc : c.state = .connected)
    (hh : ∀ st, PEv.stanza st ∈ evs → HsOk st hs) : RW x hs (evFold c evs) := by
  have := RK_evFold evs hh ⟨h.1, h.2, by unfold NC; rw [hc]; simp⟩
  exact ⟨this.1, this.2.1⟩

/-- the `h` values carried by the XEP-0198 elements among the parser events -/
def hsOfEvs (evs : List PEv) : List Nat :=
  evs.filterMap fun e => match e with | .stanza st => hOf st | _ => none

theorem hsOk_of_mem {evs : List PEv} {st : XTree} (h : PEv.stanza st ∈ evs) : HsOk st (hsOfEvs evs) := by
  intro v hv
  unfold hsOfEvs
  rw [List.mem_filterMap]
  exact ⟨_, h, hv⟩

def hsOfRx : Rx → List Nat
  | .data evs => hsOfEvs evs
  | _ => []

theorem RW_runOnce {rx} (hw : HW c) (hm : Mem x c) : RW x (hsOfRx rx) (runOnce c rx) := by
  have h0 : RW x (hsOfRx rx) c := ⟨hw, Rel_of_Mem hm⟩
  have h1 : HM x c := ⟨hw, hm⟩
  unfold runOnce
  cases rx with
  | data evs =>
    dsimp only
    have e : ∀ c4, List.foldl parserEvent c4 evs = evFold c4 evs := fun _ => rfl
    simp only [e]
    c4trav
    all_goals exact hsOk_of_mem (by assumption)
  | none => dsimp only; c4trav
  | eof => dsimp only; c4trav
  | ioerr => dsimp only; c4trav

/-! ### every operation -/

/-- step-level form under explicit well-formedness hypotheses: the handler lists are well-formed
    (`HW`: in particular `_handle_features` is registered under the element name "features" only)
    and the XEP-0198 record exists -/
theorem released_step (c : Conn) (hw : HW c) (hsm : c.hasSm = true) (op : Op)
    (x : UInt32 × QElem) (hx : x ∈ c.sm.queue) (hop : match op with | .release => False | _ => True) :
    x ∈ (step c op).sm.queue ∨
    (∃ hv, carriesH op hv ∧ x.1.toNat < hv) ∨
    (∃ e ∈ (step c op).queue, e.item = x.2.item ∧ e.owner = x.2.owner ∧ e.snap = x.2.snap) := by
  have hm : Mem x c := hx
  cases op with
  | release => exact absurd hop id
  | run rx =>
    rcases (RW_runOnce (rx := rx) hw hm).2 with h | ⟨hv, hmem, hlt⟩ | h
    · exact .inl h
    · refine .inr (.inl ⟨hv, ?_, hlt⟩)
      cases rx with
      | data evs =>
        unfold hsOfRx hsOfEvs at hmem
        rw [List.mem_filterMap] at hmem
        obtain ⟨e, he, hv'⟩ := hmem
        cases e with
        | stanza st => exact ⟨evs, st, rfl, he, hv'⟩
        | open_ n id => cases hv'
        | end_ => cases hv'
        | error => cases hv'
      | none => cases hmem
      | eof => cases hmem
      | ioerr => cases hmem
    · exact .inr (.inr h)
  | connect k =>
    cases k
    · exact .inl (Mem_connectClient hsm hm)
    · exact .inl (Mem_connectComponent hsm hm)
    · exact .inl (Mem_connectRaw hsm hm)
  | setTcp f e => exact .inl hm
  | setTls sf nf => exact .inl hm
  | setSched l d => exact .inl hm
  | tick ms => exact .inl hm
  | setSmCallback => exact .inl hm
  | setSendOnConnect on => exact .inl hm
  | setFlags f => exact .inl (Mem_setFlags hm)
  | usend it => exact .inl (Mem_xmppSend hm)
  | uraw it => exact .inl (Mem_xmppSendRaw hm)
  | urawstr it => exact .inl (Mem_xmppSendRawString hm)
  | udisc => exact .inl (Mem_xmppDisconnect hm)
  | addUserHandlers => exact .inl (Mem_addTimed (Mem_addIdHandler (Mem_addHandler hm)))

end Strophe.Lemmas.ConnC04
