/-
C11 — what the property says, written from its text (not from handler.c).

  "For every incoming stanza, the registered handlers invoked are exactly those whose id, or
   namespace (of the stanza or one of its direct children), name and type filters match, id handlers
   first, each once and in registration order.  A handler that returned false or was deleted is never
   called again, […] and one added while a stanza is being dispatched does not see that stanza."

The vocabulary (handler identity, filters, stanzas, the API calls a callback can make and scripted
behaviours) is shared with the model; nothing of the model's control flow is used here.

A dispatch is described as ONE pass over the handlers that are registered when it starts
(`candidates`: the id handlers registered for the stanza's id, then the stanza handlers, both in
registration order).  A candidate is invoked when its turn comes iff
  * no callback invoked earlier in this dispatch has deleted its callback function from the list it
    is registered in (`xmpp_id_handler_delete` of this id / `xmpp_handler_delete`, both by callback
    pointer, on this connection),
  * it is a library handler or the stream is negotiated,
  * (stanza handlers) its filters match.
Handlers registered during the dispatch are not candidates, whatever they are.
-/
import Strophe.Model.Handler

namespace Strophe.HandlerSpec
open Strophe.Handler

/-- the filter semantics of `xmpp_handler_add`: an absent filter matches everything; the namespace
    filter matches the stanza's own namespace or that of one of its direct children -/
def Matches (f : Filter) (s : Stanza) : Prop :=
  (f.ns = none ∨ s.ns = f.ns ∨ f.ns ∈ s.children) ∧
  (f.name = none ∨ s.name = f.name) ∧
  (f.type = none ∨ s.type = f.type)

instance (f : Filter) (s : Stanza) : Decidable (Matches f s) := by
  unfold Matches; exact inferInstance

inductive Phase
  | id | stanza
  deriving DecidableEq, Repr

/-- the handlers registered on the connection when the dispatch starts, in dispatch order -/
def candidates (idHandlers stanzaHandlers : List Item) : List (Phase × Item) :=
  idHandlers.map (fun it => (Phase.id, it)) ++ stanzaHandlers.map (fun it => (Phase.stanza, it))

/-- callback functions whose id handlers for `id` on connection `c` a list of API calls deletes -/
def deletedId (c : Nat) (id : Str) : List Act → List Nat
  | [] => []
  | .delId c' fn id' :: r => if c' = c ∧ id' = id then fn :: deletedId c id r else deletedId c id r
  | _ :: r => deletedId c id r

/-- callback functions whose stanza handlers on connection `c` a list of API calls deletes -/
def deletedStanza (c : Nat) : List Act → List Nat
  | [] => []
  | .del c' fn :: r => if c' = c then fn :: deletedStanza c r else deletedStanza c r
  | _ :: r => deletedStanza c r

/-- one expected invocation: which registration (allocation number and callback × user data), in
    which phase, and what the callback returned -/
structure Call where
  phase : Phase
  reg : Nat
  key : Key
  ret : Bool
  deriving DecidableEq, Repr

/-- progress of a dispatch: invocation counters, what has been deleted so far, who was invoked -/
structure Acc where
  cnt : Key → Nat
  delI : List Nat := []
  delS : List Nat := []
  out : List Call := []

def eligible (neg : Bool) (s : Stanza) (a : Acc) (ph : Phase) (it : Item) : Prop :=
  (match ph with
   | .id => it.fn ∉ a.delI
   | .stanza => it.fn ∉ a.delS ∧ Matches it.flt s) ∧
  (it.user = true → neg = true)

instance (neg : Bool) (s : Stanza) (a : Acc) (ph : Phase) (it : Item) : Decidable (eligible neg s a ph it) := by
  unfold eligible; cases ph <;> exact inferInstance

/-- one candidate's turn -/
def turn (beh : Beh) (c : Nat) (neg : Bool) (s : Stanza) (a : Acc) (x : Phase × Item) : Acc :=
  if eligible neg s a x.1 x.2 then
    let step := beh x.2.key (a.cnt x.2.key)
    { cnt := bump a.cnt x.2.key,
      delI := a.delI ++ (match s.id with | some id => deletedId c id step.acts | none => []),
      delS := a.delS ++ deletedStanza c step.acts,
      out := a.out ++ [{ phase := x.1, reg := x.2.uid, key := x.2.key, ret := step.keep }] }
  else a

/-- the invocations of one dispatch, in order: which registration, in which phase, and what its
    callback returned -/
def expected (beh : Beh) (c : Nat) (neg : Bool) (s : Stanza) (cnt : Key → Nat)
    (idHandlers stanzaHandlers : List Item) : List Call :=
  ((candidates idHandlers stanzaHandlers).foldl (turn beh c neg s) { cnt }).out

/-- a timed handler is due: at least one period since it was registered / re-armed / last fired
    (`last` is the time of the latest of these events) -/
def Due (now : Nat) (it : Item) : Prop := it.last + it.period ≤ now

end Strophe.HandlerSpec
