/-
RFC 2831 (DIGEST-MD5), written from the RFC text, independent of src/sasl.c.

  §2.1.1  digest-challenge = 1#( realm | nonce | qop-options | stale | maxbuf | charset |
                                 algorithm | cipher-opts | auth-param )
  §2.1.2  digest-response  = 1#( username | realm | nonce | cnonce | nonce-count | qop |
                                 digest-uri | response | maxbuf | charset | cipher | authzid | auth-param )
  §2.1.2.1  response-value = HEX( KD ( HEX(H(A1)),
                               { nonce-value, ":" nc-value, ":", cnonce-value, ":", qop-value, ":", HEX(H(A2)) }))
            A1 = { H( { username-value, ":", realm-value, ":", passwd } ), ":", nonce-value, ":", cnonce-value }
            A2 = { "AUTHENTICATE:", digest-uri-value }                       (qop = "auth")
            H = MD5, KD(k, s) = H({k, ":", s}), HEX = 32 lower-case hex digits
  §7.2    quoted-string = ( <"> qdstr-val <"> ), quoted-pair = "\" CHAR

H is the RFC 1321 MD5 of `Spec/Hash.lean`.
-/
import Strophe.Spec.Hash
import Strophe.Spec.Rfc4648

namespace Strophe.Spec.Rfc2831
open Strophe

def asc (s : List Char) : Bytes := s.map fun c => UInt8.ofNat c.toNat

def H (s : Bytes) : Bytes := Spec.Hash.md5 s
def HEX (d : Bytes) : Bytes := Spec.Hash.hexLower d
def KD (k s : Bytes) : Bytes := H (k ++ asc [':'] ++ s)

/-- A1 without authzid -/
def A1 (username realm passwd nonce cnonce : Bytes) : Bytes :=
  H (username ++ asc [':'] ++ realm ++ asc [':'] ++ passwd) ++ asc [':'] ++ nonce ++ asc [':'] ++ cnonce

/-- A2 for qop = "auth" -/
def A2 (digestUri : Bytes) : Bytes := asc ['A', 'U', 'T', 'H', 'E', 'N', 'T', 'I', 'C', 'A', 'T', 'E', ':'] ++ digestUri

def responseValue (username realm passwd nonce cnonce nc qop digestUri : Bytes) : Bytes :=
  HEX (KD (HEX (H (A1 username realm passwd nonce cnonce)))
    (nonce ++ asc [':'] ++ nc ++ asc [':'] ++ cnonce ++ asc [':'] ++ qop ++ asc [':'] ++ HEX (H (A2 digestUri))))

/-- §7.2 quoted-string: `"` and `\` inside are written as quoted-pairs -/
def quotedString (v : Bytes) : Bytes :=
  [34] ++ v.flatMap (fun c => if c = 34 ∨ c = 92 then [92, c] else [c]) ++ [34]

/-- one directive of a digest-challenge: `key "=" ( token | quoted-string )` -/
structure Directive where
  key : Bytes
  value : Bytes
  quoted : Bool
  deriving Repr, DecidableEq

def Directive.render (d : Directive) : Bytes :=
  d.key ++ [61] ++ (if d.quoted then quotedString d.value else d.value)

/-- `1#( … )`: the directives separated by commas -/
def renderChallenge : List Directive → Bytes
  | [] => []
  | [d] => d.render
  | d :: rest => d.render ++ [44] ++ renderChallenge rest

/-- the value a reader of the challenge sees for a directive name: the LAST occurrence (only
    `realm` may legally occur more than once — "if more than one realm directive is present the
    user or client chooses one") -/
def lastValue (ds : List Directive) (key : Bytes) : Option Bytes :=
  (ds.reverse.find? (fun d => d.key == key)).map (·.value)

/-- `digest-uri-value = serv-type "/" host` -/
def digestUri (servType host : Bytes) : Bytes := servType ++ asc ['/'] ++ host

/-- a digest-response with the directives in the order libstrophe emits them (the RFC leaves the
    order open); `charset`: the value of the charset directive, present only if the challenge had one -/
def digestResponse (username realm nonce cnonce nc qop uri response : Bytes) (charset : Option Bytes) : Bytes :=
  asc ['u', 's', 'e', 'r', 'n', 'a', 'm', 'e', '='] ++ quotedString username ++
  asc [',', 'r', 'e', 'a', 'l', 'm', '='] ++ quotedString realm ++
  asc [',', 'n', 'o', 'n', 'c', 'e', '='] ++ quotedString nonce ++
  asc [',', 'c', 'n', 'o', 'n', 'c', 'e', '='] ++ quotedString cnonce ++
  asc [',', 'n', 'c', '='] ++ nc ++
  asc [',', 'q', 'o', 'p', '='] ++ qop ++
  asc [',', 'd', 'i', 'g', 'e', 's', 't', '-', 'u', 'r', 'i', '='] ++ quotedString uri ++
  asc [',', 'r', 'e', 's', 'p', 'o', 'n', 's', 'e', '='] ++ response ++
  (match charset with
   | some cs => asc [',', 'c', 'h', 'a', 'r', 's', 'e', 't', '='] ++ cs
   | none => [])

end Strophe.Spec.Rfc2831
