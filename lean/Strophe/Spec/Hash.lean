/-
C17 — the standards-level definition of the four digests and of HMAC, written without any
notion of a streaming context:

  FIPS 180-4 §5.1 (padding), §5.2 (parsing into blocks), §6.1–6.4 (hash computation):
     H(M) = encode (fold compress IV (blocks (M ‖ pad |M|)))
  RFC 1321 §3.1–3.5: the same construction with a little-endian length and output
  RFC 2104 §2: HMAC(K, text) = H((K₀ ⊕ opad) ‖ H((K₀ ⊕ ipad) ‖ text))

The compression functions (FIPS 180-4 §6.x.2 steps 1–4, RFC 1321 §3.4) are shared with the
model (`Strophe.Hash.*.transform/compress`): they are validated by the test vectors in
Props/C17.lean and by the run-time three-way comparison against Python's hashlib.  Padding,
length encoding, blocking and the output encoding are defined here independently of the
model's buffer code, by arithmetic on `Nat`.
-/
import Strophe.Model.Hash

namespace Strophe.Spec.Hash
open Strophe

def zeros (n : Nat) : Bytes := List.replicate n 0

/-- the `w`-byte big-endian representation of `v` (most significant byte first) -/
def beBytes : Nat → Nat → Bytes
  | 0, _ => []
  | w + 1, v => UInt8.ofNat (v / 256 ^ w % 256) :: beBytes w v

/-- the `w`-byte little-endian representation of `v` -/
def leBytes : Nat → Nat → Bytes
  | 0, _ => []
  | w + 1, v => UInt8.ofNat (v % 256) :: leBytes w (v / 256)

/-- FIPS 180-4 §5.1: the number of zero *bytes* `z` after the 0x80 byte is the smallest
    non-negative solution of `n + 1 + z + lenBytes ≡ 0 (mod bs)` (for bs = 64, lenBytes = 8:
    `8n + 1 + k ≡ 448 (mod 512)` with `k = 8z + 7`).  Characterised by
    `Strophe.C17.padZeros_spec`. -/
def padZeros (bs lenBytes n : Nat) : Nat := (bs - (n + 1 + lenBytes) % bs) % bs

/-- a Merkle–Damgård hash: block size, width and byte order of the length field, initial
    value, compression function and output encoding -/
structure MD (σ : Type) where
  bs : Nat
  lenBytes : Nat
  lenLittleEndian : Bool
  iv : σ
  compress : σ → Bytes → σ
  encode : σ → Bytes

variable {σ : Type}

/-- the padding appended to a message of `n` bytes: the bit "1" (byte 0x80), zeros, and the
    message length *in bits* -/
def MD.pad (A : MD σ) (n : Nat) : Bytes :=
  0x80 :: zeros (padZeros A.bs A.lenBytes n) ++
    (if A.lenLittleEndian then leBytes A.lenBytes (8 * n) else beBytes A.lenBytes (8 * n))

/-- the first `k` consecutive `bs`-byte blocks of `d` -/
def blocks (bs : Nat) : Nat → Bytes → List Bytes
  | 0, _ => []
  | k + 1, d => d.take bs :: blocks bs k (d.drop bs)

/-- FIPS 180-4 §5.2: parse the padded message into N blocks -/
def split (bs : Nat) (d : Bytes) : List Bytes := blocks bs (d.length / bs) d

def MD.hash (A : MD σ) (msg : Bytes) : Bytes :=
  A.encode ((split A.bs (msg ++ A.pad msg.length)).foldl A.compress A.iv)

/-! ### the four instances -/

open Strophe.Hash in
/-- FIPS 180-4 §6.1; H⁽⁰⁾ of §5.3.1 (pinned in Props/C17.lean) -/
def sha1MD : MD Sha1.State :=
  { bs := 64, lenBytes := 8, lenLittleEndian := false, iv := Sha1.iv, compress := Sha1.transform,
    encode := fun s => [s.h0, s.h1, s.h2, s.h3, s.h4].flatMap fun (w : UInt32) => beBytes 4 w.toNat }

open Strophe.Hash in
/-- FIPS 180-4 §6.2 -/
def sha256MD : MD Sha256.State :=
  { bs := 64, lenBytes := 8, lenLittleEndian := false, iv := Sha256.iv, compress := Sha256.compress,
    encode := fun s => [s.a, s.b, s.c, s.d, s.e, s.f, s.g, s.h].flatMap fun (w : UInt32) => beBytes 4 w.toNat }

open Strophe.Hash in
/-- FIPS 180-4 §6.4: 1024-bit blocks, 128-bit length field -/
def sha512MD : MD Sha512.State :=
  { bs := 128, lenBytes := 16, lenLittleEndian := false, iv := Sha512.iv, compress := Sha512.compress,
    encode := fun s => [s.a, s.b, s.c, s.d, s.e, s.f, s.g, s.h].flatMap fun (w : UInt64) => beBytes 8 w.toNat }

open Strophe.Hash in
/-- RFC 1321: length is appended low-order byte first ("In the unlikely event that b is
    greater than 2^64, then only the low-order 64 bits of b are used" — `leBytes 8` does
    exactly that); output is A,B,C,D low-order byte first -/
def md5MD : MD Md5.State :=
  { bs := 64, lenBytes := 8, lenLittleEndian := true, iv := Md5.iv, compress := Md5.transform,
    encode := fun s => [s.a, s.b, s.c, s.d].flatMap fun (w : UInt32) => leBytes 4 w.toNat }

def sha1 (msg : Bytes) : Bytes := sha1MD.hash msg
def sha256 (msg : Bytes) : Bytes := sha256MD.hash msg
def sha512 (msg : Bytes) : Bytes := sha512MD.hash msg
def md5 (msg : Bytes) : Bytes := md5MD.hash msg

/-! ### HMAC (RFC 2104 §2) -/

/-- `H` with block size `B` bytes: keys longer than `B` are first hashed; the key is padded
    with zeros to `B` bytes; ipad = 0x36, opad = 0x5C repeated `B` times -/
def hmac (H : Bytes → Bytes) (B : Nat) (key text : Bytes) : Bytes :=
  let k0 := if key.length > B then H key else key
  let k := k0 ++ zeros (B - k0.length)
  H (k.map (fun (b : UInt8) => b ^^^ 0x5C) ++ H (k.map (fun (b : UInt8) => b ^^^ 0x36) ++ text))

def hmacSha1 (key text : Bytes) : Bytes := hmac sha1 64 key text
def hmacSha256 (key text : Bytes) : Bytes := hmac sha256 64 key text
def hmacSha512 (key text : Bytes) : Bytes := hmac sha512 128 key text

/-- lower-case hexadecimal rendering of a byte string (two ASCII characters per byte) -/
def hexLower (d : Bytes) : Bytes :=
  d.flatMap fun (b : UInt8) =>
    let digit (n : Nat) : UInt8 := UInt8.ofNat (if n < 10 then '0'.toNat + n else 'a'.toNat + (n - 10))
    [digit (b.toNat / 16), digit (b.toNat % 16)]

end Strophe.Spec.Hash
