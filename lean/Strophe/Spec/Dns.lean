/-
RFC 1035 (and RFC 2782 for SRV) well-formedness of a DNS response, as relations on the wire
bytes.  Nothing here refers to the decoder of src/resolver.c or to its model: names are an
inductive relation, sections are laid out back to back, and `srvOf` simply lists the IN/SRV
answers in message order.  All numbers are the RFCs' own (header = 12 octets, TYPE SRV = 33,
CLASS IN = 1, label length ≤ 63, pointer tag = 11xxxxxx); Props/C15 pins the constants
extracted from the C source against them.

Choices that matter (documented, not hidden):

* Compression pointer (RFC 1035 §4.1.4: "a pointer to a prior occurrence of the same name").
  `NameFrom m start i …` describes the rest of a name whose first octet is at `start`; a pointer
  is required to point strictly before `start`, i.e. before the beginning of the name it
  terminates.  Every encoder satisfies this (a name can only be compressed against something
  emitted earlier).  A pointer to a position ≥ `start` but before the pointer itself would point
  into the very name being read; RFC-wise that is not a "prior occurrence", and the C decoder
  rejects it.
* Pointer to the root label.  A pointer whose target is the bare root label (expansion `[]`) is
  allowed only when it is the whole name (`i = start`): "labels followed by a pointer to a root
  label" is excluded.  No encoder emits it (the root label is 1 octet, a pointer 2), and the C
  decoder turns it into a name with a trailing dot ("a." instead of "a") — see Props/C15
  `trailing_dot_quirk`.
* The expanded name of an SRV target is the labels joined by '.', the empty string for the root.
  Its length must be below `nameLimit` = 256 (the property's "shorter than 256 bytes"; RFC 1035
  §2.3.4 caps the wire form at 255 octets, i.e. the dotted form at 253, so every RFC-valid name
  qualifies).  Owner names and names inside other RDATA are not limited.
* Labels are arbitrary octet strings (RFC 2181 §11), including '.' and NUL octets.
* Only the header bits QR (must be 1) and RCODE (must be 0) are constrained; authority and
  additional sections (NSCOUNT/ARCOUNT) are whatever follows the answers.
-/
import Strophe.Util.Hex

namespace Strophe.Dns

abbrev Msg := Array UInt8

/-- big-endian 16-bit field at offset `i` -/
def be16 (m : Msg) (i : Nat) : Option Nat :=
  match m[i]?, m[i + 1]? with
  | some a, some b => some (a.toNat * 256 + b.toNat)
  | _, _ => none

/-- big-endian 32-bit field at offset `i` -/
def be32 (m : Msg) (i : Nat) : Option Nat :=
  match be16 m i, be16 m (i + 2) with
  | some a, some b => some (a * 65536 + b)
  | _, _ => none

/-- `NameFrom m start i labels next`: reading a name whose first octet is at `start`, the part from
    offset `i` on expands to `labels` and its in-place encoding ends just before `next`. -/
inductive NameFrom (m : Msg) : Nat → Nat → List Bytes → Nat → Prop
  /-- the root label -/
  | root {start i : Nat} : m[i]? = some 0 → NameFrom m start i [] (i + 1)
  /-- a label of 1..63 octets, followed by the rest of the name -/
  | label {start i : Nat} {n : UInt8} {lab : Bytes} {rest : List Bytes} {next : Nat} :
      m[i]? = some n → 1 ≤ n.toNat → n.toNat ≤ 63 →
      lab.length = n.toNat → (∀ k, (h : k < lab.length) → m[i + 1 + k]? = some lab[k]) →
      NameFrom m start (i + 1 + n.toNat) rest next →
      NameFrom m start i (lab :: rest) next
  /-- a compression pointer ends the name; it points before `start` to another name -/
  | ptr {start i : Nat} {hi lo : UInt8} {p : Nat} {labels : List Bytes} {e : Nat} :
      m[i]? = some hi → 192 ≤ hi.toNat → m[i + 1]? = some lo →
      p = (hi.toNat - 192) * 256 + lo.toNat → p < start →
      NameFrom m p p labels e → (labels = [] → i = start) →
      NameFrom m start i labels (i + 2)

/-- a (possibly compressed) name starts at `off`, takes `len` octets there, expands to `labels` -/
def NameAt (m : Msg) (off : Nat) (labels : List Bytes) (len : Nat) : Prop :=
  NameFrom m off off labels (off + len)

/-- labels joined by '.' ; the root name is the empty string -/
def dotted : List Bytes → Bytes
  | [] => []
  | [l] => l
  | l :: rest => l ++ 46 :: dotted rest

theorem dotted_eq_intercalate (ls : List Bytes) : dotted ls = [46].intercalate ls := by
  match ls with
  | [] => rfl
  | [l] => simp [dotted, List.intercalate]
  | l :: l' :: rest =>
    have := dotted_eq_intercalate (l' :: rest)
    simp only [dotted, List.intercalate, List.intersperse, List.flatten_cons] at this ⊢
    rw [this]; simp

/-- what the target field of the consumer can hold: names shorter than this -/
def nameLimit : Nat := 256

structure Question where
  name : List Bytes
  qtype : Nat
  qclass : Nat

/-- RFC 2782 RDATA -/
structure SrvData where
  prio : Nat
  weight : Nat
  port : Nat
  target : List Bytes

structure Answer where
  owner : List Bytes
  type : Nat
  cls : Nat
  ttl : Nat
  rdlength : Nat
  /-- the decoded RDATA when the record is IN/SRV, `none` otherwise -/
  srv : Option SrvData

structure Message where
  questions : List Question
  answers : List Answer

def typeSrv : Nat := 33
def classIn : Nat := 1
def headerLen : Nat := 12

/-- question entries laid out back to back from `off`, ending at the last argument -/
inductive QuestionsAt (m : Msg) : Nat → List Question → Nat → Prop
  | nil {off : Nat} : QuestionsAt m off [] off
  | cons {off len e : Nat} {q : Question} {qs : List Question} :
      NameAt m off q.name len →
      be16 m (off + len) = some q.qtype → be16 m (off + len + 2) = some q.qclass →
      QuestionsAt m (off + len + 4) qs e →
      QuestionsAt m off (q :: qs) e

/-- SRV RDATA at `rd`, exactly `rdlength` octets long -/
def SrvAt (m : Msg) (rd rdlength : Nat) (s : SrvData) : Prop :=
  be16 m rd = some s.prio ∧ be16 m (rd + 2) = some s.weight ∧ be16 m (rd + 4) = some s.port ∧
  ∃ len, NameAt m (rd + 6) s.target len ∧ rdlength = 6 + len ∧
    (dotted s.target).length < nameLimit

/-- resource records laid out back to back from `off` -/
inductive AnswersAt (m : Msg) : Nat → List Answer → Nat → Prop
  | nil {off : Nat} : AnswersAt m off [] off
  | cons {off len e : Nat} {a : Answer} {as : List Answer} :
      NameAt m off a.owner len →
      be16 m (off + len) = some a.type → be16 m (off + len + 2) = some a.cls →
      be32 m (off + len + 4) = some a.ttl → be16 m (off + len + 8) = some a.rdlength →
      off + len + 10 + a.rdlength ≤ m.size →
      (if a.type = typeSrv ∧ a.cls = classIn
        then ∃ s, a.srv = some s ∧ SrvAt m (off + len + 10) a.rdlength s
        else a.srv = none) →
      AnswersAt m (off + len + 10 + a.rdlength) as e →
      AnswersAt m off (a :: as) e

/-- `m` is a well-formed response carrying exactly `msg`'s questions and answers -/
structure WfResponse (m : Msg) (msg : Message) : Prop where
  /-- QR = 1 (response) -/
  qr : ∃ o, m[2]? = some o ∧ 128 ≤ o.toNat
  /-- RCODE = 0 (no error) -/
  rcode : ∃ o, m[3]? = some o ∧ o.toNat % 16 = 0
  qdcount : be16 m 4 = some msg.questions.length
  ancount : be16 m 6 = some msg.answers.length
  /-- NSCOUNT, ARCOUNT present -/
  header : headerLen ≤ m.size
  body : ∃ a e, QuestionsAt m headerLen msg.questions a ∧ AnswersAt m a msg.answers e

/-- an SRV answer as a client sees it -/
structure Srv where
  prio : Nat
  weight : Nat
  port : Nat
  target : Bytes
  deriving DecidableEq, Repr

/-- what an answer record contributes: IN/SRV records, target fully expanded -/
def answerSrv (a : Answer) : Option Srv :=
  if a.type = typeSrv ∧ a.cls = classIn then
    a.srv.map fun s => ⟨s.prio, s.weight, s.port, dotted s.target⟩
  else none

/-- the IN/SRV answers in message order -/
def srvOf (msg : Message) : List Srv := msg.answers.filterMap answerSrv

/-- priority ascending, then weight descending -/
def SrvOrder (a b : Srv) : Prop := a.prio < b.prio ∨ (a.prio = b.prio ∧ a.weight ≥ b.weight)

end Strophe.Dns
