/-
H-zlib: the named hypotheses about the external engine zlib under which the C20 theorems hold.
zlib is never modelled; `Compression.Codec` is one deflate()/inflate() call as a function, and the
structures below say what a run of such calls guarantees — the documented contract of zlib.h:

* deflate never invents, reorders or drops data: whatever prefix of its output a peer has, it
  inflates to a prefix of the consumed input (`decode_prefix`);
* "If deflate returns with avail_out != 0 after a Z_SYNC_FLUSH / Z_FULL_FLUSH, all pending output
  is flushed and all input consumed; the decompressor can get all input data available so far"
  (`flush_complete`); Z_BUF_ERROR from such a call means there was nothing left to flush
  (`flush_buf_error`); Z_BUF_ERROR never comes with progress (`buf_error`);
* deflate on a valid stream answers Z_OK or Z_BUF_ERROR (Z_STREAM_END needs Z_FINISH, which
  libstrophe never passes; Z_STREAM_ERROR needs a corrupted z_stream) (`no_error`), and
  Z_BUF_ERROR only when no progress is possible, i.e. not with input and room available
  (`progress`);
* inflate(Z_SYNC_FLUSH) that returns with room left has delivered everything the input so far
  determines (`complete`); Z_BUF_ERROR comes without progress (`buf_error`) and, when there was
  room but no input, means that nothing is held back (`buf_error_complete`).

The state-dependent facts are stated through ghost observers of the opaque zlib state (`cons`,
`prod`: everything consumed / produced so far) and an invariant (`ok`) of reachable states.
The correspondence harness checks these clauses on every recorded call of the real zlib
(`ORACLE-FAIL hyp-zlib`), so a run in which zlib broke its contract is reported, not absorbed.
-/
import Strophe.Model.Compression

namespace Strophe.Spec.Zlib
open Strophe Strophe.Compression

structure HDeflate (C : Codec) where
  /-- what the peer's inflater recovers from a prefix of the compressed stream -/
  decode : Bytes → Bytes
  ok : C.D → Prop
  cons : C.D → Bytes
  prod : C.D → Bytes
  init_ok : ok C.dinit
  init_cons : cons C.dinit = []
  init_prod : prod C.dinit = []
  step_ok : ∀ d inp fl room, ok d → ok (C.deflate d inp fl room).1
  consumed_le : ∀ d inp fl room, ok d → (C.deflate d inp fl room).2.1 ≤ inp.length
  produced_le : ∀ d inp fl room, ok d → (C.deflate d inp fl room).2.2.1.length ≤ room
  step_cons : ∀ d inp fl room, ok d →
    cons (C.deflate d inp fl room).1 = cons d ++ inp.take (C.deflate d inp fl room).2.1
  step_prod : ∀ d inp fl room, ok d →
    prod (C.deflate d inp fl room).1 = prod d ++ (C.deflate d inp fl room).2.2.1
  no_error : ∀ d inp fl room, ok d →
    (C.deflate d inp fl room).2.2.2 = Gen.Zl.zOk ∨ (C.deflate d inp fl room).2.2.2 = Gen.Zl.zBufError
  progress : ∀ d inp fl room, ok d → inp ≠ [] → 0 < room →
    (C.deflate d inp fl room).2.2.2 ≠ Gen.Zl.zBufError
  decode_prefix : ∀ d p, ok d → p <+: prod d → decode p <+: cons d
  flush_complete : ∀ d inp fl room, ok d → fl ≠ 0 →
    (C.deflate d inp fl room).2.2.2 = Gen.Zl.zOk →
    (C.deflate d inp fl room).2.2.1.length < room →
    decode (prod (C.deflate d inp fl room).1) = cons (C.deflate d inp fl room).1
  buf_error : ∀ d inp fl room, ok d → (C.deflate d inp fl room).2.2.2 = Gen.Zl.zBufError →
    (C.deflate d inp fl room).2.1 = 0 ∧ (C.deflate d inp fl room).2.2.1 = []
  flush_buf_error : ∀ d fl room, ok d → fl ≠ 0 → 0 < room →
    (C.deflate d [] fl room).2.2.2 = Gen.Zl.zBufError → decode (prod d) = cons d

structure HInflate (C : Codec) where
  /-- the plaintext a compressed stream (prefix) stands for -/
  plain : Bytes → Bytes
  ok : C.I → Prop
  cons : C.I → Bytes
  prod : C.I → Bytes
  plain_nil : plain [] = []
  init_ok : ok C.iinit
  init_cons : cons C.iinit = []
  init_prod : prod C.iinit = []
  step_ok : ∀ i inp room, ok i → ok (C.inflate i inp room).1
  consumed_le : ∀ i inp room, ok i → (C.inflate i inp room).2.1 ≤ inp.length
  step_cons : ∀ i inp room, ok i →
    cons (C.inflate i inp room).1 = cons i ++ inp.take (C.inflate i inp room).2.1
  step_prod : ∀ i inp room, ok i →
    prod (C.inflate i inp room).1 = prod i ++ (C.inflate i inp room).2.2.1
  /-- returned with room left ⇒ all input taken and everything it determines delivered -/
  complete : ∀ i inp room, ok i →
    ((C.inflate i inp room).2.2.2 = Gen.Zl.zOk ∨ (C.inflate i inp room).2.2.2 = Gen.Zl.zStreamEnd) →
    (C.inflate i inp room).2.2.1.length < room →
    (C.inflate i inp room).2.1 = inp.length ∧
      prod (C.inflate i inp room).1 = plain (cons (C.inflate i inp room).1)
  buf_error : ∀ i inp room, ok i → (C.inflate i inp room).2.2.2 = Gen.Zl.zBufError →
    (C.inflate i inp room).2.1 = 0 ∧ (C.inflate i inp room).2.2.1 = []
  buf_error_complete : ∀ i room, ok i → 0 < room →
    (C.inflate i [] room).2.2.2 = Gen.Zl.zBufError → prod i = plain (cons i)

end Strophe.Spec.Zlib
