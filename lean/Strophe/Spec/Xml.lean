/-
An independent reader for the fragment of XML 1.0 + Namespaces that a stanza serialiser can emit,
written from the W3C grammar and NOT from src/stanza.c or src/parser_expat.c:

    document  ::= element                      exactly one element, nothing before or after it
    element   ::= '<' Name (S Attribute)* S? '/>'
                | '<' Name (S Attribute)* S? '>' content '</' Name S? '>'        [names must match]
    Attribute ::= Name S? '=' S? '"' (AttChar | Reference)* '"'                  [names distinct]
    content   ::= (element | CharData | Reference)*
    Reference ::= '&lt;' | '&gt;' | '&amp;' | '&quot;' | '&apos;'
    Name      ::= NameStart NameChar*          NameStart = [A-Za-z_] | byte ≥ 0x80
                                               NameChar  = NameStart | [0-9] | '-' | '.'
Every byte of the document must belong to a well-formed UTF-8 encoding of an XML `Char`
(#x9 | #xA | #xD | #x20–#xD7FF | #xE000–#xFFFD | #x10000–#x10FFFF), checked by `legalChars`.
`<` is refused inside attribute values, `<`, a bare `&` and a raw `>` in character data (XML allows
a raw `>` except in `]]>`; no serialiser output contains one, so the grammar refuses it outright).

Deliberately outside the grammar (the reader answers `none`): prefixed names (`a:b`), single-quoted
attribute values, character references `&#…;`, comments, CDATA sections, processing instructions,
DOCTYPE.  Non-ASCII name characters are accepted without consulting the Unicode tables of the Name
production.

What it returns (XML 1.0 §2.11, §3.3.3; Namespaces in XML §6.2):
  * line ends are normalised in character data (CR LF and CR → LF), white space in attribute values
    (TAB, LF, CR, CR LF → one space);
  * the attribute named `xmlns` is a default-namespace declaration, not an attribute; it scopes over
    the element and its descendants; `xmlns=""` removes the default namespace.  The EFFECTIVE
    NAMESPACE of an element is the value of the nearest such declaration on itself or an ancestor
    within the document, else the ambient default namespace `amb` given by whoever reads the
    document (the enclosing stream); `none` = no namespace.  Attributes have no namespace;
  * adjacent character data is one text node; there are no empty text nodes;
  * `parse` sorts the attributes of every element by name (they are a set), `parseRaw` keeps
    document order.
-/
import Strophe.Util.Hex

namespace Strophe.Spec.Xml

inductive XNode where
  | elem (ns : Option Bytes) (name : Bytes) (attrs : List (Bytes × Bytes)) (kids : List XNode)
  | text (s : Bytes)
  deriving Repr, Inhabited

/-! ### XML `Char` / UTF-8 -/

def isCont (b : UInt8) : Bool := 0x80 ≤ b && b ≤ 0xBF

/-- #x9 | #xA | #xD | #x20–#x7F -/
def legalAscii (b : UInt8) : Bool := 0x20 ≤ b || b == 9 || b == 10 || b == 13

/-- U+0080–U+07FF -/
def seq2 (b0 b1 : UInt8) : Bool := 0xC2 ≤ b0 && b0 ≤ 0xDF && isCont b1

/-- U+0800–U+D7FF and U+E000–U+FFFD (no surrogates, no U+FFFE / U+FFFF, no overlong forms) -/
def seq3 (b0 b1 b2 : UInt8) : Bool :=
  isCont b2 &&
    ((b0 == 0xE0 && 0xA0 ≤ b1 && b1 ≤ 0xBF) ||
     (0xE1 ≤ b0 && b0 ≤ 0xEC && isCont b1) ||
     (b0 == 0xED && 0x80 ≤ b1 && b1 ≤ 0x9F) ||
     (b0 == 0xEE && isCont b1) ||
     (b0 == 0xEF && isCont b1 && !(b1 == 0xBF && 0xBE ≤ b2)))

/-- U+10000–U+10FFFF -/
def seq4 (b0 b1 b2 b3 : UInt8) : Bool :=
  isCont b2 && isCont b3 &&
    ((b0 == 0xF0 && 0x90 ≤ b1 && b1 ≤ 0xBF) ||
     (0xF1 ≤ b0 && b0 ≤ 0xF3 && isCont b1) ||
     (b0 == 0xF4 && 0x80 ≤ b1 && b1 ≤ 0x8F))

/-- the byte string is a sequence of UTF-8 encoded XML `Char`s -/
def legalChars : Bytes → Bool
  | [] => true
  | b0 :: rest =>
    if b0 < 0x80 then legalAscii b0 && legalChars rest
    else
      match rest with
      | [] => false
      | b1 :: r1 =>
        if seq2 b0 b1 then legalChars r1
        else
          match r1 with
          | [] => false
          | b2 :: r2 =>
            if seq3 b0 b1 b2 then legalChars r2
            else
              match r2 with
              | [] => false
              | b3 :: r3 => seq4 b0 b1 b2 b3 && legalChars r3

/-! ### lexical pieces -/

def isSpace (b : UInt8) : Bool := b == 0x20 || b == 9 || b == 10 || b == 13

def isNameStart (b : UInt8) : Bool :=
  (0x41 ≤ b && b ≤ 0x5A) || (0x61 ≤ b && b ≤ 0x7A) || b == 0x5F || 0x80 ≤ b

def isNameChar (b : UInt8) : Bool :=
  isNameStart b || (0x30 ≤ b && b ≤ 0x39) || b == 0x2D || b == 0x2E

/-- `Name`: the longest run of name characters, which must begin with a name-start character -/
def parseName (inp : Bytes) : Option (Bytes × Bytes) :=
  match inp with
  | b :: _ => if isNameStart b then some (inp.takeWhile isNameChar, inp.dropWhile isNameChar) else none
  | [] => none

/-- a predefined entity reference, input positioned after the `&` -/
def entity : Bytes → Option (UInt8 × Bytes)
  | 0x6C :: 0x74 :: 0x3B :: r => some (0x3C, r)                        -- lt;
  | 0x67 :: 0x74 :: 0x3B :: r => some (0x3E, r)                        -- gt;
  | 0x61 :: 0x6D :: 0x70 :: 0x3B :: r => some (0x26, r)                -- amp;
  | 0x71 :: 0x75 :: 0x6F :: 0x74 :: 0x3B :: r => some (0x22, r)        -- quot;
  | 0x61 :: 0x70 :: 0x6F :: 0x73 :: 0x3B :: r => some (0x27, r)        -- apos;
  | _ => none

/-- character data or attribute-value content with the predefined entity references replaced and nothing
    else changed (no normalisation); `none` if it contains `<` or an `&` that does not start a reference -/
def unescape : Bytes → Option Bytes
  | [] => some []
  | 0x3C :: _ => none
  | 0x26 :: r =>
    match r with
    | 0x6C :: 0x74 :: 0x3B :: r' => (unescape r').map (0x3C :: ·)
    | 0x67 :: 0x74 :: 0x3B :: r' => (unescape r').map (0x3E :: ·)
    | 0x61 :: 0x6D :: 0x70 :: 0x3B :: r' => (unescape r').map (0x26 :: ·)
    | 0x71 :: 0x75 :: 0x6F :: 0x74 :: 0x3B :: r' => (unescape r').map (0x22 :: ·)
    | 0x61 :: 0x70 :: 0x6F :: 0x73 :: 0x3B :: r' => (unescape r').map (0x27 :: ·)
    | _ => none
  | b :: r => (unescape r).map (b :: ·)

/-- does every `&` start one of `&lt;` `&gt;` `&amp;` `&quot;` `&apos;`? -/
def ampsOk : Bytes → Bool
  | [] => true
  | 0x26 :: r => (entity r).isSome && ampsOk r
  | _ :: r => ampsOk r

/-- attribute value, input positioned after the opening `"`; `acc` holds the value so far, reversed -/
def parseAttValue : Bytes → Bytes → Option (Bytes × Bytes)
  | [], _ => none
  | 0x22 :: r, acc => some (acc.reverse, r)
  | 0x3C :: _, _ => none
  | 0x26 :: r, acc =>
    match r with
    | 0x6C :: 0x74 :: 0x3B :: r' => parseAttValue r' (0x3C :: acc)
    | 0x67 :: 0x74 :: 0x3B :: r' => parseAttValue r' (0x3E :: acc)
    | 0x61 :: 0x6D :: 0x70 :: 0x3B :: r' => parseAttValue r' (0x26 :: acc)
    | 0x71 :: 0x75 :: 0x6F :: 0x74 :: 0x3B :: r' => parseAttValue r' (0x22 :: acc)
    | 0x61 :: 0x70 :: 0x6F :: 0x73 :: 0x3B :: r' => parseAttValue r' (0x27 :: acc)
    | _ => none
  | 0x0D :: 0x0A :: r, acc => parseAttValue r (0x20 :: acc)
  | 0x0D :: r, acc => parseAttValue r (0x20 :: acc)
  | 0x0A :: r, acc => parseAttValue r (0x20 :: acc)
  | 0x09 :: r, acc => parseAttValue r (0x20 :: acc)
  | b :: r, acc => parseAttValue r (b :: acc)

/-- `(S Attribute)* S?` followed by `/>` (`true`) or `>` (`false`); attributes in document order -/
def parseAttrs : Nat → Bytes → List (Bytes × Bytes) → Option (List (Bytes × Bytes) × Bool × Bytes)
  | 0, _, _ => none
  | f + 1, inp, acc =>
    match inp.dropWhile isSpace with
    | 0x2F :: 0x3E :: r => some (acc.reverse, true, r)
    | 0x3E :: r => some (acc.reverse, false, r)
    | inp' =>
      if inp'.length = inp.length then none      -- an attribute needs white space in front of it
      else
        match parseName inp' with
        | none => none
        | some (key, r1) =>
          match r1.dropWhile isSpace with
          | 0x3D :: r2 =>
            match r2.dropWhile isSpace with
            | 0x22 :: r3 =>
              match parseAttValue r3 [] with
              | none => none
              | some (val, r4) => parseAttrs f r4 ((key, val) :: acc)
            | _ => none
          | _ => none

def hasDup : List Bytes → Bool
  | [] => false
  | k :: ks => ks.contains k || hasDup ks

def xmlnsName : Bytes := [0x78, 0x6D, 0x6C, 0x6E, 0x73]

/-- namespace name denoted by the value of an `xmlns` attribute -/
def nsOfDecl (v : Bytes) : Option Bytes := if v = [] then none else some v

/-- default namespace in scope inside an element whose start tag carries `attrs` -/
def scopeOf (outer : Option Bytes) (attrs : List (Bytes × Bytes)) : Option Bytes :=
  match attrs.lookup xmlnsName with
  | some v => nsOfDecl v
  | none => outer

/-! ### text merging -/

/-- put character data in front of a node list: merged with a leading text node, dropped if empty -/
def consText (s : Bytes) (r : List XNode) : List XNode :=
  if s = [] then r
  else
    match r with
    | .text s' :: r' => .text (s ++ s') :: r'
    | _ => .text s :: r

def consNode (n : XNode) (r : List XNode) : List XNode :=
  match n with
  | .text s => consText s r
  | e => e :: r

/-- turn the reversed list of pieces collected by `parseNodes` into the node list -/
def finish (acc : List XNode) : List XNode := acc.foldl (fun r n => consNode n r) []

/-! ### content -/

/-- `content`: reads nodes until the input ends or an end tag (`</`) begins, which is left in place.
    `scope` = default namespace in scope, `acc` = pieces read so far (reversed), `fuel` bounds the
    recursion (every call consumes input, so `input length + 1` is always enough). -/
def parseNodes : Nat → Option Bytes → Bytes → List XNode → Option (List XNode × Bytes)
  | 0, _, _, _ => none
  | f + 1, scope, inp, acc =>
    match inp with
    | [] => some (finish acc, [])
    | 0x3C :: 0x2F :: _ => some (finish acc, inp)
    | 0x3C :: r =>
      match parseName r with
      | none => none
      | some (name, r1) =>
        match parseAttrs f r1 [] with
        | none => none
        | some (attrs, selfClose, r2) =>
          if hasDup (attrs.map Prod.fst) then none
          else
            let ns := scopeOf scope attrs
            let attrs' := attrs.filter fun a => a.1 ≠ xmlnsName
            if selfClose then parseNodes f scope r2 (.elem ns name attrs' [] :: acc)
            else
              match parseNodes f ns r2 [] with
              | none => none
              | some (kids, r3) =>
                match r3 with
                | 0x3C :: 0x2F :: r4 =>
                  match parseName r4 with
                  | none => none
                  | some (name2, r5) =>
                    if name2 ≠ name then none
                    else
                      match r5.dropWhile isSpace with
                      | 0x3E :: r6 => parseNodes f scope r6 (.elem ns name attrs' kids :: acc)
                      | _ => none
                | _ => none
    | 0x26 :: r =>
      match entity r with
      | none => none
      | some (c, r') => parseNodes f scope r' (.text [c] :: acc)
    | 0x3E :: _ => none
    | 0x0D :: 0x0A :: r => parseNodes f scope r (.text [0x0A] :: acc)
    | 0x0D :: r => parseNodes f scope r (.text [0x0A] :: acc)
    | b :: r => parseNodes f scope r (.text [b] :: acc)

/-- `document`, attributes in document order -/
def parseRaw (amb : Option Bytes) (inp : Bytes) : Option XNode :=
  if legalChars inp then
    match parseNodes (inp.length + 1) amb inp [] with
    | some ([.elem ns name attrs kids], []) => some (.elem ns name attrs kids)
    | _ => none
  else none

/-! ### attributes as a set: sorted by name -/

def bytesLt : Bytes → Bytes → Bool
  | [], [] => false
  | [], _ :: _ => true
  | _ :: _, [] => false
  | a :: as, b :: bs => a < b || (a == b && bytesLt as bs)

def insertAttr (a : Bytes × Bytes) : List (Bytes × Bytes) → List (Bytes × Bytes)
  | [] => [a]
  | b :: r => if bytesLt b.1 a.1 then b :: insertAttr a r else a :: b :: r

def sortAttrs (l : List (Bytes × Bytes)) : List (Bytes × Bytes) := l.foldr insertAttr []

mutual
def sortTree : XNode → XNode
  | .elem ns name attrs kids => .elem ns name (sortAttrs attrs) (sortTrees kids)
  | .text s => .text s
def sortTrees : List XNode → List XNode
  | [] => []
  | k :: ks => sortTree k :: sortTrees ks
end

/-- the canonical tree denoted by a document read where the default namespace is `amb` -/
def parse (amb : Option Bytes) (inp : Bytes) : Option XNode := (parseRaw amb inp).map sortTree

end Strophe.Spec.Xml
