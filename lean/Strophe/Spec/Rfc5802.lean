/-
RFC 5802 (SCRAM), written from the RFC text, independent of src/scram.c / sasl.c / auth.c.

  §2.2  Hi(str, salt, i):  U1 := HMAC(str, salt + INT(1)),  U2 := HMAC(str, U1), …,
        Hi := U1 XOR U2 XOR … XOR Ui
  §3    SaltedPassword := Hi(Normalize(password), salt, i)
        ClientKey      := HMAC(SaltedPassword, "Client Key")
        StoredKey      := H(ClientKey)
        AuthMessage    := client-first-message-bare + "," + server-first-message + "," +
                          client-final-message-without-proof
        ClientSignature := HMAC(StoredKey, AuthMessage)
        ClientProof    := ClientKey XOR ClientSignature
        the server "authenticates the client by computing the ClientSignature, exclusive-ORing
        that with the ClientProof to recover the ClientKey and verifying the correctness of the
        ClientKey by applying the hash function and comparing the result to the StoredKey"
  §5.1  attributes (saslname escaping of ',' and '=')     §6  channel binding     §7  message grammar

The hash function is a parameter (`HashFn`); its three instances are the standard SHA-1 /
SHA-256 / SHA-512 with RFC 2104 HMAC from `Spec/Hash.lean`.
-/
import Strophe.Spec.Hash
import Strophe.Spec.Rfc4648

namespace Strophe.Spec.Rfc5802
open Strophe

/-- "H" and "HMAC" of RFC 5802 §2.2; `hLen` = output size of H in bytes -/
structure HashFn where
  H : Bytes → Bytes
  /-- `HMAC(key, str)` -/
  HMAC : Bytes → Bytes → Bytes
  hLen : Nat

def sha1Fn : HashFn := ⟨Spec.Hash.sha1, Spec.Hash.hmacSha1, 20⟩
def sha256Fn : HashFn := ⟨Spec.Hash.sha256, Spec.Hash.hmacSha256, 32⟩
def sha512Fn : HashFn := ⟨Spec.Hash.sha512, Spec.Hash.hmacSha512, 64⟩

/-- "XOR: apply the exclusive-or operation to combine the octet string on the left with the
    octet string on the right; both have the same length" -/
def XOR (a b : Bytes) : Bytes := List.zipWith (· ^^^ ·) a b

/-- "INT(g) is a 4-octet encoding of the integer g, most significant octet first" for g = 1 -/
def INT1 : Bytes := [0, 0, 0, 1]

/-- `U F str salt k` is U_{k+1} -/
def U (F : HashFn) (str salt : Bytes) : Nat → Bytes
  | 0 => F.HMAC str (salt ++ INT1)
  | k + 1 => F.HMAC str (U F str salt k)

/-- `HiAcc F str salt k` = U1 XOR … XOR U_{k+1} -/
def HiAcc (F : HashFn) (str salt : Bytes) : Nat → Bytes
  | 0 => U F str salt 0
  | k + 1 => XOR (HiAcc F str salt k) (U F str salt (k + 1))

/-- `Hi(str, salt, i)` for `i ≥ 1` -/
def Hi (F : HashFn) (str salt : Bytes) (i : Nat) : Bytes := HiAcc F str salt (i - 1)

/-- SASLprep.  The C code omits it ("XXX: Normalize(password) is omitted"); the specification
    used here is RFC 5802 restricted to passwords that SASLprep leaves unchanged (ASSUMPTIONS). -/
def Normalize (s : Bytes) : Bytes := s

def asc (s : List Char) : Bytes := s.map fun c => UInt8.ofNat c.toNat

def SaltedPassword (F : HashFn) (password salt : Bytes) (i : Nat) : Bytes :=
  Hi F (Normalize password) salt i

def ClientKey (F : HashFn) (saltedPassword : Bytes) : Bytes :=
  F.HMAC saltedPassword (asc ['C', 'l', 'i', 'e', 'n', 't', ' ', 'K', 'e', 'y'])

def StoredKey (F : HashFn) (clientKey : Bytes) : Bytes := F.H clientKey

def AuthMessage (clientFirstBare serverFirst clientFinalWithoutProof : Bytes) : Bytes :=
  clientFirstBare ++ asc [','] ++ serverFirst ++ asc [','] ++ clientFinalWithoutProof

def ClientSignature (F : HashFn) (storedKey authMessage : Bytes) : Bytes := F.HMAC storedKey authMessage

def ClientProof (clientKey clientSignature : Bytes) : Bytes := XOR clientKey clientSignature

/-- what the server stores for a user -/
def storedKeyOf (F : HashFn) (password salt : Bytes) (i : Nat) : Bytes :=
  StoredKey F (ClientKey F (SaltedPassword F password salt i))

/-- what a correct client sends as proof -/
def clientProofOf (F : HashFn) (password salt : Bytes) (i : Nat) (authMessage : Bytes) : Bytes :=
  let ck := ClientKey F (SaltedPassword F password salt i)
  ClientProof ck (ClientSignature F (StoredKey F ck) authMessage)

/-- THE SERVER-SIDE VERIFIER (§3): recover ClientKey from the proof, hash it, compare -/
def serverVerify (F : HashFn) (storedKey authMessage proof : Bytes) : Bool :=
  F.H (XOR proof (ClientSignature F storedKey authMessage)) == storedKey

/-! ### messages (§5.1, §7) -/

/-- gs2-cbind-flag -/
inductive CbFlag where
  /-- "n": client doesn't support channel binding -/
  | n
  /-- "y": client does support channel binding but thinks the server does not -/
  | y
  /-- "p=" cb-name: client requires channel binding -/
  | p (cbName : Bytes)
  deriving Repr, DecidableEq

def gs2CbindFlag : CbFlag → Bytes
  | .n => asc ['n']
  | .y => asc ['y']
  | .p name => asc ['p', '='] ++ name

/-- `gs2-header = gs2-cbind-flag "," [ authzid ] ","` without authzid -/
def gs2Header (f : CbFlag) : Bytes := gs2CbindFlag f ++ asc [',', ',']

/-- §5.1: "The characters ',' or '=' in usernames are sent as '=2C' and '=3D' respectively." -/
def saslname (user : Bytes) : Bytes :=
  user.flatMap fun c =>
    if c = 44 then asc ['=', '2', 'C'] else if c = 61 then asc ['=', '3', 'D'] else [c]

/-- the server's inverse; `none`: a ',' or an '=' that is not part of =2C / =3D ("If the server
    receives a username that contains '=' not followed by either '2C' or '3D', then the server
    MUST fail the authentication") -/
def unsaslname : Bytes → Option Bytes
  | [] => some []
  | c :: rest =>
    if c = 61 then
      match rest with
      | 50 :: 67 :: r => (unsaslname r).map (44 :: ·)
      | 51 :: 68 :: r => (unsaslname r).map (61 :: ·)
      | _ => none
    else if c = 44 then none
    else (unsaslname rest).map (c :: ·)

/-- `client-first-message-bare = username "," nonce` -/
def clientFirstMessageBare (user cnonce : Bytes) : Bytes :=
  asc ['n', '='] ++ saslname user ++ asc [',', 'r', '='] ++ cnonce

def clientFirstMessage (f : CbFlag) (user cnonce : Bytes) : Bytes :=
  gs2Header f ++ clientFirstMessageBare user cnonce

/-- `posit-number = %x31-39 *DIGIT` (decimal without leading zeros; "0" for 0) -/
def decimal (n : Nat) : Bytes :=
  if h : n < 10 then [UInt8.ofNat (48 + n)] else decimal (n / 10) ++ [UInt8.ofNat (48 + n % 10)]
termination_by n
decreasing_by omega

/-- `server-first-message = nonce "," salt "," iteration-count ["," extensions]`; `ext` is the
    list of extension attributes -/
def serverFirstMessage (nonce salt : Bytes) (i : Nat) (ext : List Bytes := []) : Bytes :=
  asc ['r', '='] ++ nonce ++ asc [',', 's', '='] ++ Spec.Rfc4648.encode salt ++ asc [',', 'i', '='] ++ decimal i ++
    ext.flatMap (fun e => asc [','] ++ e)

/-- `cbind-input = gs2-header [ cbind-data ]`, cbind-data present iff the flag is "p" -/
def cbindInput (f : CbFlag) (cbindData : Bytes) : Bytes :=
  gs2Header f ++ (match f with | .p _ => cbindData | _ => [])

/-- `client-final-message-without-proof = channel-binding "," nonce`, for an already encoded
    `c=` value -/
def clientFinalWithoutProofOf (cbindB64 nonce : Bytes) : Bytes :=
  asc ['c', '='] ++ cbindB64 ++ asc [',', 'r', '='] ++ nonce

def clientFinalMessageWithoutProof (f : CbFlag) (cbindData nonce : Bytes) : Bytes :=
  clientFinalWithoutProofOf (Spec.Rfc4648.encode (cbindInput f cbindData)) nonce

/-- `client-final-message = client-final-message-without-proof "," proof` -/
def clientFinalMessageOf (withoutProof proof : Bytes) : Bytes :=
  withoutProof ++ asc [',', 'p', '='] ++ Spec.Rfc4648.encode proof

/-- §6: which gs2-cbind-flag a client uses.  `plusMechanism`: a -PLUS mechanism was selected;
    `tls`: the client can do channel binding at all (there is a TLS layer).  A -PLUS mechanism
    without TLS is impossible (`none`). -/
def chooseFlag (plusMechanism tls : Bool) (cbName : Bytes) : Option CbFlag :=
  if plusMechanism then (if tls then some (.p cbName) else none)
  else if tls then some .y else some .n

end Strophe.Spec.Rfc5802
