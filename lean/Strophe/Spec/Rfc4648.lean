/-
RFC 4648 §4 base64, written from the RFC text and independently of the control flow of
src/crypto.c: a strict decoder by quartets (padding only in the final quartet) and an
encoder by 24-bit groups.  The alphabet is the RFC's table, spelled out here (NOT taken
from the generated tables) so that the two can be compared by a theorem.
-/
import Strophe.Util.Hex

namespace Strophe.Spec.Rfc4648

/-- Table 1 of RFC 4648: value → character -/
def alphabet (v : Nat) : UInt8 :=
  if v < 26 then UInt8.ofNat (65 + v)            -- 'A'..'Z'
  else if v < 52 then UInt8.ofNat (97 + (v - 26)) -- 'a'..'z'
  else if v < 62 then UInt8.ofNat (48 + (v - 52)) -- '0'..'9'
  else if v = 62 then 43                          -- '+'
  else 47                                         -- '/'

def padChar : UInt8 := 61 -- '='

/-- character → value, `none` for a character outside the alphabet -/
def value (c : UInt8) : Option Nat :=
  let n := c.toNat
  if 65 ≤ n ∧ n ≤ 90 then some (n - 65)
  else if 97 ≤ n ∧ n ≤ 122 then some (n - 97 + 26)
  else if 48 ≤ n ∧ n ≤ 57 then some (n - 48 + 52)
  else if n = 43 then some 62
  else if n = 47 then some 63
  else none

def b (n : Nat) : UInt8 := UInt8.ofNat (n % 256)

/-- encoding by 24-bit groups; the final group of 8 or 16 bits is zero-extended and padded -/
def encode : Bytes → Bytes
  | x :: y :: z :: rest =>
    let n := x.toNat * 65536 + y.toNat * 256 + z.toNat
    alphabet (n / 262144) :: alphabet (n / 4096 % 64) :: alphabet (n / 64 % 64) ::
      alphabet (n % 64) :: encode rest
  | [x, y] =>
    let n := x.toNat * 65536 + y.toNat * 256
    [alphabet (n / 262144), alphabet (n / 4096 % 64), alphabet (n / 64 % 64), padChar]
  | [x] =>
    let n := x.toNat * 65536
    [alphabet (n / 262144), alphabet (n / 4096 % 64), padChar, padChar]
  | [] => []

/-- strict decoding of a non-empty sequence of quartets: only the last quartet may end in one
    or two pad characters; `none` for anything else (wrong length, foreign character, padding
    anywhere else).  Trailing bits under the padding are ignored (the RFC allows a decoder to). -/
def decodeQ : Bytes → Option Bytes
  | [c0, c1, c2, c3] =>
    match value c0, value c1, value c2, value c3 with
    | some v0, some v1, some v2, some v3 =>
      let n := v0 * 262144 + v1 * 4096 + v2 * 64 + v3
      some [b (n / 65536), b (n / 256), b n]
    | some v0, some v1, some v2, none =>
      if c3 = padChar then
        let n := v0 * 262144 + v1 * 4096 + v2 * 64
        some [b (n / 65536), b (n / 256)]
      else none
    | some v0, some v1, none, none =>
      if c2 = padChar ∧ c3 = padChar then
        let n := v0 * 262144 + v1 * 4096
        some [b (n / 65536)]
      else none
    | _, _, _, _ => none
  | c0 :: c1 :: c2 :: c3 :: rest =>
    match value c0, value c1, value c2, value c3 with
    | some v0, some v1, some v2, some v3 =>
      let n := v0 * 262144 + v1 * 4096 + v2 * 64 + v3
      (decodeQ rest).map fun t => b (n / 65536) :: b (n / 256) :: b n :: t
    | _, _, _, _ => none
  | _ => none

/-- the set of "correctly padded base64 strings" and their values -/
def decode (s : Bytes) : Option Bytes := decodeQ s

end Strophe.Spec.Rfc4648
