/-
H-openssl: the named hypotheses about the external engine OpenSSL under which the C08 theorems hold.
OpenSSL is never modelled.  What libstrophe sees of it is

* `SSL_connect` driven to completion against one peer under one verification configuration
  (`Engine.connect`): which verify-callback invocations it makes, what it does with the answers,
  whether the handshake succeeds, and the error class it leaves behind;
* whether the set-up calls of `tls_new` succeed (`Engine.newOk`);
* what `X509_VERIFY_PARAM_set1_host(param, name, 0)` does with the name (`set1Host`).

The contract (`HOpenSsl`) is the documented one (SSL_CTX_set_verify(3), X509_STORE_CTX_set_verify_cb(3),
X509_check_host(3)):

* the callback is invoked once per verification event in a fixed order (`facts`: the events of
  this peer under this configuration, `ok = false` for a failure with its depth and X509_V_ERR
  code, `ok = true` for a certificate that passed); verification stops at the first invocation
  answered 0 and otherwise goes on to the next event (`calls_eq`);
* without a callback OpenSSL answers for itself: `ok` as it is (`defaultCb`);
* with SSL_VERIFY_PEER the handshake succeeds iff the peer completes its side and no invocation
  was answered 0; with SSL_VERIFY_NONE iff the peer completes its side (`ok_iff`);
* a failed handshake leaves a non-zero SSL_get_error class, a successful one 0 (`err_iff`);
* nothing is reported when the peer never gets as far as presenting a certificate
  (`no_peer_no_calls`);
* MEANING of the events (`sound`): no failure is reported iff the peer's chain reaches a
  configured trust anchor, every certificate of it is inside its validity period, and — when a
  host is pinned — the leaf names that host; with X509_CHECK_FLAG_NO_PARTIAL_WILDCARDS only
  full-label wildcards count (`namesHost`).

Every clause is checked on every recorded run of the real OpenSSL: `calls_eq`, `ok_iff`, `err_iff`
by harness/eng_tls.c (`ORACLE-FAIL hyp-openssl …`, the accept-all event list comes from a second
X509_verify_cert over the same store, parameters and chain) and by the correspondence itself (the
model must reproduce the invocations and the result from the event list); `sound` by the driver,
which evaluates `good` below on the certificate description of the case and prints it next to what
the real OpenSSL reported (`good=`), and independently by the Python oracle (check/props/c08.py).
-/
import Strophe.Util.Hex

namespace Strophe.Spec.OpenSsl
open Strophe

/-- one invocation of the verify callback: `preverify_ok`, X509_STORE_CTX_get_error_depth,
    X509_STORE_CTX_get_error (0 when `ok`) -/
structure VCall where
  ok : Bool
  depth : Nat
  err : Nat
  deriving DecidableEq, Repr, Inhabited

/-- the verification configuration of one SSL object (what tls_new sets up) -/
structure SslCfg where
  /-- SSL_get_verify_mode -/
  verifyMode : Nat
  /-- a verify callback is installed -/
  hasCallback : Bool
  /-- X509_VERIFY_PARAM_get_hostflags -/
  hostFlags : Nat
  /-- the expected host names (X509_VERIFY_PARAM_get0_host(param, i)) -/
  hosts : List Bytes
  /-- SNI -/
  sni : Option Bytes
  deriving DecidableEq, Repr, Inhabited

/-- a verify callback as OpenSSL sees it: the argument `k` counts the FAILURES reported before this
    invocation (the state a real callback keeps for itself) -/
abbrev Callback := Nat → VCall → Int

/-- what OpenSSL does without a callback -/
def defaultCb : Callback := fun _ v => if v.ok then 1 else 0

/-- X509_verify_cert as driven by a callback: the events in order, `k` failures reported so far;
    stops after the first answer 0 -/
def run (cb : Callback) : Nat → List VCall → List (VCall × Int)
  | _, [] => []
  | k, v :: vs =>
    let r := cb k v
    if r = 0 then [(v, r)] else (v, r) :: run cb (if v.ok then k else k + 1) vs

/-- no invocation was answered 0 -/
def accepted (calls : List (VCall × Int)) : Bool := calls.all fun c => c.2 != 0

/-- X509_VERIFY_PARAM_set1_host(param, name, 0): an empty name CLEARS the list of expected hosts
    (and reports success), any other name becomes the only expected host -/
def set1Host (name : Bytes) : List Bytes := if name.isEmpty then [] else [name]

/-- SSL_set_tlsext_host_name + SSL_get_servername on the client before the handshake -/
def sniOf (name : Bytes) : Option Bytes := if name.isEmpty then none else some name

structure Outcome where
  /-- callback invocations with the answers -/
  calls : List (VCall × Int)
  /-- SSL_connect finally returned 1 -/
  ok : Bool
  /-- SSL_get_error class of the final SSL_connect (0 when ok) -/
  err : Nat
  deriving Repr, Inhabited

structure Engine where
  /-- the OpenSSL calls of tls_new succeed (SSL_CTX_new, SSL_CTX_set_default_verify_paths,
      SSL_CTX_load_verify_locations for the configured CA file / path, SSL_new, SSL_set_fd) -/
  newOk : Bool
  /-- SSL_connect looped to completion; `none` = no callback installed -/
  connect : SslCfg → Option Callback → Outcome

/-! ### the meaning of "the certificate is good for this connection" -/

def lower (b : UInt8) : UInt8 := if 65 ≤ b.toNat ∧ b.toNat ≤ 90 then b + 32 else b

def eqNoCase (a b : Bytes) : Bool := a.map lower == b.map lower

/-- split at '.' -/
def labels (b : Bytes) : List Bytes :=
  b.foldr (fun c acc => if c = 46 then [] :: acc else
    match acc with
    | [] => [[c]]
    | l :: ls => (c :: l) :: ls) [[]]

def isLdh (c : UInt8) : Bool :=
  (48 ≤ c.toNat ∧ c.toNat ≤ 57) ∨ (65 ≤ c.toNat ∧ c.toNat ≤ 90) ∨ (97 ≤ c.toNat ∧ c.toNat ≤ 122) ∨ c = 45

/-- a label of a DNS name as OpenSSL's matcher accepts it in a wildcard pattern or as the part a
    wildcard stands for: non-empty, letters / digits / hyphen, no hyphen at either end -/
def goodLabel (l : Bytes) : Bool :=
  !l.isEmpty && l.all isLdh && l.head? != some 45 && l.getLast? != some 45

/-- a reference identifier the property is meant for: at least one label, every label good -/
def wellFormedDomain (d : Bytes) : Bool := (labels d).all goodLabel

/-- does the presented identifier `pat` (a dNSName or the CN) name `host`?  Case-insensitive
    equality, or `pat` = `*.rest` with at least two labels in `rest`, all of them well-formed,
    and `host` = one non-empty label followed by `.rest` (RFC 6125 §6.4.3 restricted to
    full-label wildcards in the left-most position = X509_CHECK_FLAG_NO_PARTIAL_WILDCARDS).
    A presented identifier containing a NUL byte names nothing. -/
def namesHost (pat host : Bytes) : Bool :=
  if pat.contains 0 then false
  else if eqNoCase pat host then true
  else
    match labels pat, labels host with
    | star :: prest, h :: hrest =>
      star == [42] && prest.length ≥ 2 && prest.all goodLabel && goodLabel h &&
        prest.length == hrest.length && (prest.zip hrest).all (fun p => eqNoCase p.1 p.2)
    | _, _ => false

/-- what the property knows about the peer's certificate chain -/
structure PeerCert where
  /-- the chain reaches a configured trust anchor through CA certificates -/
  chains : Bool
  /-- every certificate of the chain is inside its validity period -/
  inValidity : Bool
  /-- subjectAltName dNSName entries of the leaf -/
  dnsNames : List Bytes
  /-- subject CN of the leaf -/
  cn : Option Bytes
  deriving Repr, Inhabited

/-- the identifiers the host is compared with: the dNSNames, or the CN when there is no dNSName -/
def PeerCert.presented (p : PeerCert) : List Bytes :=
  if p.dnsNames.isEmpty then p.cn.toList else p.dnsNames

/-- the leaf names one of the expected hosts (vacuous when no host is expected) -/
def hostOk (p : PeerCert) (cfg : SslCfg) : Bool :=
  cfg.hosts.isEmpty || cfg.hosts.any fun h => p.presented.any fun n => namesHost n h

/-- the certificate chains to a trust anchor, is within its validity period and names the host -/
def good (p : PeerCert) (cfg : SslCfg) : Bool := p.chains && p.inValidity && hostOk p cfg

/-- the peer as far as OpenSSL is concerned -/
structure Peer where
  /-- the server speaks TLS and completes the handshake whenever the client does -/
  completes : Bool
  cert : PeerCert
  /-- verification events under accept-all, per configuration -/
  facts : SslCfg → List VCall

/-- H-openssl -/
structure HOpenSsl (E : Engine) (P : Peer) : Prop where
  calls_eq : ∀ cfg cb, P.completes = true →
    (E.connect cfg cb).calls = run (cb.getD defaultCb) 0 (P.facts cfg)
  no_peer_no_calls : ∀ cfg cb, P.completes = false → (E.connect cfg cb).calls = []
  ok_iff : ∀ cfg cb, (E.connect cfg cb).ok =
    (P.completes && (cfg.verifyMode == 0 || accepted (E.connect cfg cb).calls))
  err_iff : ∀ cfg cb, ((E.connect cfg cb).err = 0 ↔ (E.connect cfg cb).ok = true)
  sound : ∀ cfg, (∀ hname ∈ cfg.hosts, wellFormedDomain hname = true) → cfg.hostFlags = 4 →
    ((P.facts cfg).all (·.ok) = good P.cert cfg)

end Strophe.Spec.OpenSsl
