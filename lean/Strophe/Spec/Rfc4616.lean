/-
RFC 4616 (SASL PLAIN) §2:   message = [authzid] UTF8NUL authcid UTF8NUL passwd
XMPP (RFC 6120 §6.4.2) carries the message base64-encoded (RFC 4648 §4) as the character data of
`<auth mechanism='PLAIN'/>`.  Written from the RFC text; base64 is `Spec.Rfc4648.encode`.
-/
import Strophe.Spec.Rfc4648

namespace Strophe.Spec.Rfc4616
open Strophe

def UTF8NUL : UInt8 := 0

/-- `message = [authzid] UTF8NUL authcid UTF8NUL passwd` -/
def message (authzid : Option Bytes) (authcid passwd : Bytes) : Bytes :=
  authzid.getD [] ++ [UTF8NUL] ++ authcid ++ [UTF8NUL] ++ passwd

/-- the initial response as it travels in `<auth/>` -/
def initialResponse (authzid : Option Bytes) (authcid passwd : Bytes) : Bytes :=
  Spec.Rfc4648.encode (message authzid authcid passwd)

/-- what a server recovers from a message: the three NUL-separated fields (`none`: not exactly
    two NULs before the password field … the password itself may not contain NUL either) -/
def parse (msg : Bytes) : Option (Bytes × Bytes × Bytes) :=
  let a := msg.takeWhile (· != UTF8NUL)
  match msg.drop a.length with
  | _ :: r1 =>
    let b := r1.takeWhile (· != UTF8NUL)
    match r1.drop b.length with
    | _ :: r2 => if r2.contains UTF8NUL then none else some (a, b, r2)
    | [] => none
  | [] => none

end Strophe.Spec.Rfc4616
