/-
Hex / line-protocol helpers shared by the driver engines.  Not part of any proof.
-/
namespace Strophe

abbrev Bytes := List UInt8

namespace Hex

def digit (n : Nat) : Char :=
  if n < 10 then Char.ofNat (48 + n) else Char.ofNat (87 + n)

def ofBytes (b : Bytes) : String :=
  if b.isEmpty then "." else
  String.ofList (b.flatMap fun x => [digit (x.toNat / 16), digit (x.toNat % 16)])

def nibble (c : Char) : Option Nat :=
  if '0' ≤ c ∧ c ≤ '9' then some (c.toNat - 48)
  else if 'a' ≤ c ∧ c ≤ 'f' then some (c.toNat - 87)
  else if 'A' ≤ c ∧ c ≤ 'F' then some (c.toNat - 55)
  else none

def toBytesAux : List Char → Bytes → Option Bytes
  | [], acc => some acc.reverse
  | [_], _ => none
  | a :: b :: rest, acc =>
    match nibble a, nibble b with
    | some x, some y => toBytesAux rest (UInt8.ofNat (x * 16 + y) :: acc)
    | _, _ => none

/-- "." is the empty byte string; "-" (absent / NULL) is handled by callers. -/
def toBytes (s : String) : Option Bytes :=
  if s = "." then some [] else toBytesAux s.toList []

def optOfBytes : Option Bytes → String
  | none => "-"
  | some b => ofBytes b

def toOptBytes (s : String) : Option (Option Bytes) :=
  if s = "-" then some none else (toBytes s).map some

end Hex

def strBytes (s : String) : Bytes := s.toUTF8.toList

/-- ASCII literal that the kernel can evaluate (for `decide`d examples) -/
def cs (l : List Char) : Bytes := l.map fun c => UInt8.ofNat c.toNat

end Strophe
