/-
Driver engine `xml` (C10).  Recorded-parameter replay (DESIGN §3.2): the input is the *annotated
trace* built by check/props/c10.py `lean_input` from the C side's output — for every op the raw
expat callbacks the harness recorded, followed by the op itself:

  cb s <hexnsname> <hexk>=<hexv>,…|-     start-element callback          (no output)
  cb e <hexnsname>                        end-element callback            (no output)
  cb c <hextext>                          character-data callback         (no output)
  cb err                                  XML_Parse failed                (no output)
  feed H | reset | end                    closes the op: the model consumes the callbacks
                                          accumulated since the previous op and prints
  = ev <e1> | <e2> | …   /   = ev -       exactly what harness/eng_xml.c prints for the op, or
  = crash <site>                          if the model reaches a crash site (and for every later
                                          op of the same delivery)
-/
import Strophe.Model.Assembly
import Strophe.Drv.Common
namespace Strophe.Drv.Xml
open Strophe Strophe.Assembly

/-- `strcmp(a, b) < 0` on unsigned bytes -/
def ltBytes : Bytes → Bytes → Bool
  | [], [] => false
  | [], _ :: _ => true
  | _ :: _, [] => false
  | a :: as, b :: bs => if a < b then true else if b < a then false else ltBytes as bs

def insertAttr (x : Attr) : List Attr → List Attr
  | [] => [x]
  | y :: ys => if ltBytes x.1 y.1 then x :: y :: ys else y :: insertAttr x ys

def sortAttrs (l : List Attr) : List Attr := l.foldl (fun acc x => insertAttr x acc) []

def attrsStr (l : List Attr) : String :=
  ",".intercalate (l.map fun (k, v) => Hex.ofBytes k ++ "=" ++ Hex.ofBytes v)

def lookupAttr (k : Bytes) : List Attr → Option Bytes
  | [] => none
  | (k', v) :: rest => if k' = k then some v else lookupAttr k rest

mutual
  def treeStr : Node → String
    | .text t => "\"" ++ Hex.ofBytes t ++ "\""
    | .elem name attrs children =>
      "<" ++ Hex.ofBytes name ++ ":" ++ Hex.optOfBytes (lookupAttr nsAttr attrs) ++ ":[" ++
        attrsStr (sortAttrs attrs) ++ "]" ++ treesStr children ++ ">"
  def treesStr : List Node → String
    | [] => ""
    | n :: rest => treeStr n ++ treesStr rest
end

def evStr : Ev → String
  | .open_ name attrs => "open " ++ Hex.ofBytes name ++ " " ++ (if attrs.isEmpty then "-" else attrsStr attrs)
  | .stanza n => "stanza " ++ treeStr n
  | .close n => "close " ++ Hex.ofBytes n
  | .error => "error"

def siteStr : Site → String
  | .strncatNull => "strncat-null"
  | .uninitRead => "uninit-read"
  | .textOverflow => "text-overflow"
  | .endStanzaNull => "end-stanza-null"
  | .textParentNull => "text-parent-null"

def parseAttrs (s : String) : Option (List Attr) :=
  if s = "-" then some [] else
  (s.splitOn ",").mapM fun kv =>
    match kv.splitOn "=" with
    | [k, v] => do
      let k ← Hex.toBytes k
      let v ← Hex.toBytes v
      pure (k, v)
    | _ => none

structure St where
  st : Except Site State := .ok init
  pending : List In := []      -- reversed

/-- consume the pending callbacks -/
def flush (s : State) : List In → Except Site (State × List Ev)
  | [] => .ok (s, [])
  | i :: rest => do
    let (s1, e1) ← step s i
    let (s2, e2) ← flush s1 rest
    pure (s2, e1 ++ e2)

def evLine (evs : List Ev) : String :=
  if evs.isEmpty then "= ev -" else "= ev " ++ " | ".intercalate (evs.map evStr)

def closeOp (σ : St) (extra : List In) : St × String :=
  match σ.st with
  | .error site => ({ σ with pending := [] }, "= crash " ++ siteStr site)
  | .ok s =>
    match flush s (σ.pending.reverse ++ extra) with
    | .error site => ({ st := .error site, pending := [] }, "= crash " ++ siteStr site)
    | .ok (s', evs) => ({ st := .ok s', pending := [] }, evLine evs)

def stepLine (σ : St) (line : String) : St × String :=
  let push (i : In) : St × String := ({ σ with pending := i :: σ.pending }, "")
  match line.splitOn " " with
  | ["cb", "s", n, a] =>
    match Hex.toBytes n, parseAttrs a with
    | some n, some a => push (.start n a)
    | _, _ => (σ, "= bad-op")
  | ["cb", "e", n] =>
    match Hex.toBytes n with
    | some n => push (.end_ n)
    | none => (σ, "= bad-op")
  | ["cb", "c", t] =>
    match Hex.toBytes t with
    | some t => push (.chars t)
    | none => (σ, "= bad-op")
  | ["cb", "err"] => push .err
  | ["feed", _] => closeOp σ []
  | ["reset"] => closeOp σ [.reset]
  | ["end"] => ({}, "= ev -")
  | _ => (σ, "= bad-op")

def run (i o : IO.FS.Stream) : IO Unit :=
  Drv.runStateful ({} : St) stepLine i o

end Strophe.Drv.Xml
