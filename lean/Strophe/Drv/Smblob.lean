import Strophe.Model.SmBlob
import Strophe.Drv.Q
namespace Strophe.Drv.Smblob
open Strophe Strophe.SendQueue Strophe.SmBlob

def b2n := Drv.Q.b2n

def dumpNoSm (s : St) : String :=
  let q := if s.queue.isEmpty then "-"
    else ",".intercalate (s.queue.map fun e => s!"?:{e.written}:{b2n e.wip}:0:{Hex.ofBytes e.data}")
  s!"q {s.len} {s.userLen} {q}"

def finish (old c : Conn) (res : String) (wire : Bytes) : Conn × String :=
  let ev := if c.q.disconnects > old.q.disconnects
    then ",".intercalate (List.replicate (c.q.disconnects - old.q.disconnects) "DISCONNECT") else "-"
  let mid := if c.hasSm then
      s!"{Drv.Q.dumpQueue c.q} | smst {b2n c.smSupport}{b2n c.q.smEnabled}{b2n c.canResume}{b2n c.resume} h={c.handledNr.toNat} id={Hex.optOfBytes c.smId}"
    else s!"{dumpNoSm c.q} | smst none"
  (c, s!"= {res} | wire {Hex.ofBytes wire} | {mid} | st {if c.q.connected then "c" else "d"} ev {ev}")

/-- the harness allocates a zeroed sm_state when there is none -/
def blankSm (c : Conn) : Conn :=
  { q := { c.q with smEnabled := false, rSent := false, sentNr := 0, smQueue := [] },
    hasSm := true, smSupport := false, canResume := false, resume := false, handledNr := 0,
    smId := none }

def withQ (c : Conn) (f : St → St) : Conn := { c with q := f c.q }

def step (c : Conn) (line : String) : Conn × String :=
  match line.splitOn " " with
  | ["fresh"] => finish { fresh with q := { fresh.q with disconnects := c.q.disconnects } }
                   { fresh with q := { fresh.q with disconnects := c.q.disconnects } } "ok" []
  | ["restore", h] =>
    match Hex.toBytes h with
    | none => (c, "= bad-op")
    | some b =>
      let (c', r) := restore c b
      match r with
      | .rc n => finish c c' s!"rc {n}" []
      | .oob => (c', "= model-oob")
  | ["up"] =>
    let c1 := if c.hasSm then c else blankSm c
    finish c { c1 with q := { c1.q with connected := true } } "ok" []
  | ["smid", h] =>
    match Hex.toBytes h with
    | some b => if b.contains 0 || !c.hasSm then (c, "= bad-op")
                else finish c { c with smId := some b, smSupport := true, canResume := true,
                                       q := { c.q with smEnabled := true } } "ok" []
    | none => (c, "= bad-op")
  | ["handled", n] => if !c.hasSm then (c, "= bad-op") else
    match n.toNat? with
    | some v => finish c { c with handledNr := UInt32.ofNat v } "ok" []
    | none => (c, "= bad-op")
  | ["sentnr", n] => if !c.hasSm then (c, "= bad-op") else
    match n.toNat? with
    | some v => finish c (withQ c fun q => { q with sentNr := UInt32.ofNat v }) "ok" []
    | none => (c, "= bad-op")
  | [op, h] =>
    if !c.hasSm then (c, "= bad-op") else
    if op = "w" then
      match Drv.Q.parseSched h with
      | some sched =>
        let (q', wire) := runOnce c.q sched
        -- a hard error disconnects: the SM fields follow `_reset_sm_state_for_reconnect`
        let c' : Conn := if c.q.connected && !q'.connected
          then { c with q := q', smSupport := false, resume := false, smId := none } else { c with q := q' }
        finish c c' "ran" wire
      | none => (c, "= bad-op")
    else match Hex.toBytes h with
      | none => (c, "= bad-op")
      | some b =>
        match op with
        | "su" => finish c (withQ c fun q => sendRaw q .user b) "ok" []
        | "sl" => finish c (withQ c fun q => sendRaw q .strophe b) "ok" []
        | "ss" => finish c (withQ c fun q => sendRaw q .smStrophe b) "ok" []
        | _ => (c, "= bad-op")
  | ["dropo"] => if !c.hasSm then (c, "= bad-op") else
    let (q', r) := dropElement c.q .oldest
    finish c { c with q := q' } ("drop " ++ (match r with | some b => Hex.ofBytes (b.takeWhile (· ≠ 0)) | none => "null")) []
  | ["dropy"] => if !c.hasSm then (c, "= bad-op") else
    let (q', r) := dropElement c.q .youngest
    finish c { c with q := q' } ("drop " ++ (match r with | some b => Hex.ofBytes (b.takeWhile (· ≠ 0)) | none => "null")) []
  | ["len"] => finish c c s!"len {queueLen c.q}" []
  | ["disc"] => if !c.hasSm then (c, "= bad-op") else finish c (SmBlob.disconnect c) "ok" []
  | ["ser"] => if !c.hasSm then (c, "= bad-op") else
    match serialize c with
    | .null => finish c c "blob null" []
    | .blob b => finish c c s!"blob {Hex.ofBytes b}" []
    | .crash => (c, "= crash serialize-null-id")
  | _ => (c, "= bad-op")

def run (i o : IO.FS.Stream) : IO Unit := runStateful ({} : Conn) step i o

end Strophe.Drv.Smblob
