import Strophe.Model.Jid
namespace Strophe.Drv.Jid
open Strophe

def outOpt : Option Bytes → String
  | some b => "= " ++ Hex.ofBytes b
  | none => "= null"

def nulFree (b : Bytes) : Bool := !b.contains 0

def step (line : String) : String :=
  match line.trimAscii.toString.splitOn " " with
  | [op, h] =>
    match Hex.toBytes h with
    | some b =>
      if !nulFree b then "= bad-op" else
      match op with
      | "node" => outOpt (Jid.node b)
      | "domain" => outOpt (some (Jid.domain b))
      | "resource" => outOpt (Jid.resource b)
      | "bare" => outOpt (some (Jid.bare b))
      | _ => "= bad-op"
    | none => "= bad-op"
  | ["new", n, d, r] =>
    match Hex.toOptBytes n, Hex.toOptBytes d, Hex.toOptBytes r with
    | some n, some d, some r =>
      if !((n.getD []) ++ (d.getD []) ++ (r.getD [])).all (· ≠ 0) then "= bad-op"
      else outOpt (Jid.jidNew n d r)
    | _, _, _ => "= bad-op"
  | _ => "= bad-op"

end Strophe.Drv.Jid
