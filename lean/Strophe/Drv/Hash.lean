/-
Driver engine `hash` (C17).  Line protocol (mirrors harness/eng_hash.c):
  sha1|sha256|sha512|md5 <inject> <chunk>*  ->  = <digest> <bits-before-final %llx> <buffered>
  hmac sha1|sha256|sha512 <key> <msg>       ->  = <mac>
  sha1api <chunk>*                          ->  = <to_string as hex> <digest>
  sha1one <data>                            ->  = <xmpp_sha1 string as hex> <xmpp_sha1_digest>
-/
import Strophe.Model.Hash
namespace Strophe.Drv.Hash
open Strophe Strophe.Hash

/-- C's `%llx` -/
def llx (n : Nat) : String :=
  String.ofList (Nat.toDigits 16 n)

/-- `strtoull(tok, &end, 16)` with `*end == 0`: hex digits with an optional `0x` prefix;
    a value that does not fit 64 bits saturates to ULLONG_MAX (sign prefixes are not part of
    the protocol and are rejected here) -/
def parseHex64 (s : String) : Option Nat :=
  let cs := s.toList
  let cs := match cs with
    | '0' :: 'x' :: c :: rest => if (Hex.nibble c).isSome then c :: rest else cs
    | '0' :: 'X' :: c :: rest => if (Hex.nibble c).isSome then c :: rest else cs
    | _ => cs
  if cs.isEmpty then none else
  (cs.foldl (fun acc c => match acc, Hex.nibble c with
    | some a, some d => some (min (a * 16 + d) (2 ^ 64))
    | _, _ => none) (some 0)).map fun v => min v (2 ^ 64 - 1)

def parseChunks (toks : List String) : Option (List Bytes) :=
  toks.mapM Hex.toBytes

def parseInject (s : String) : Option (Option Nat) :=
  if s = "-" then some none else (parseHex64 s).map some

def out3 (dg : Bytes) (bits : Nat) (buffered : Nat) : String :=
  s!"= {Hex.ofBytes dg} {llx bits} {buffered}"

def runSha1 (inj : Option Nat) (chunks : List Bytes) : String :=
  let c0 : Sha1.Ctx := match inj with
    | none => Sha1.init
    | some v => { Sha1.init with count0 := UInt32.ofNat v, count1 := UInt32.ofNat (v >>> 32) }
  let c := chunks.foldl Sha1.update c0
  out3 (Sha1.final c) (c.count1.toNat <<< 32 ||| c.count0.toNat) ((c.count0 >>> 3) &&& 63).toNat

def runMd5 (inj : Option Nat) (chunks : List Bytes) : String :=
  let c0 : Md5.Ctx := match inj with
    | none => Md5.init
    | some v => { Md5.init with bits0 := UInt32.ofNat v, bits1 := UInt32.ofNat (v >>> 32) }
  -- the harness passes `(uint32_t)b.n`; chunk lengths on a line are far below 2^32
  let c := chunks.foldl Md5.update c0
  out3 (Md5.final c) (c.bits1.toNat <<< 32 ||| c.bits0.toNat) ((c.bits0 >>> 3) &&& 63).toNat

def runLtc {σ : Type} (init : Ltc.Ctx σ) (process : Ltc.Ctx σ → Bytes → Ltc.Ctx σ)
    (done : Ltc.Ctx σ → Option Bytes) (inj : Option Nat) (chunks : List Bytes) : String :=
  let c0 := match inj with
    | none => init
    | some v => { init with length := UInt64.ofNat v }
  let c := chunks.foldl process c0
  match done c with
  | some dg => out3 dg (c.length + UInt64.ofNat (8 * c.curlen)).toNat c.curlen
  | none => "= no-digest"

def algByName : String → Option Alg
  | "sha1" => some algSha1
  | "sha256" => some algSha256
  | "sha512" => some algSha512
  | _ => none

def asciiHex (s : Bytes) : String := Hex.ofBytes s

def step (line : String) : String :=
  match line.trimAscii.toString.splitOn " " with
  | [] | [_] => "= bad-op"
  | "hmac" :: rest =>
    match rest with
    | [a, k, m] =>
      match algByName a, Hex.toBytes k, Hex.toBytes m with
      | some alg, some key, some msg =>
        match hmac alg key msg with
        | some mac => "= " ++ Hex.ofBytes mac
        | none => "= no-digest"
      | _, _, _ => "= bad-op"
    | _ => "= bad-op"
  | "sha1api" :: rest =>
    match parseChunks rest with
    | some chunks =>
      let s := Sha1.Api.final (chunks.foldl Sha1.Api.update Sha1.Api.new)
      s!"= {Hex.ofBytes (Sha1.Api.toString s)} {Hex.ofBytes (Sha1.Api.toDigest s)}"
    | none => "= bad-op"
  | ["sha1one", d] =>
    match Hex.toBytes d with
    | some data => s!"= {Hex.ofBytes (Sha1.Api.sha1 data)} {Hex.ofBytes (Sha1.Api.sha1Digest data)}"
    | none => "= bad-op"
  | "sha1one" :: _ => "= bad-op"
  | op :: inj :: rest =>
    match parseInject inj, parseChunks rest with
    | some i, some chunks =>
      match op with
      | "sha1" => runSha1 i chunks
      | "md5" => runMd5 i chunks
      | "sha256" => runLtc Sha256.init Sha256.process Sha256.done i chunks
      | "sha512" => runLtc Sha512.init Sha512.process Sha512.done i chunks
      | _ => "= bad-op"
    | _, _ => "= bad-op"

end Strophe.Drv.Hash
