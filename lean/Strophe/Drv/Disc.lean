/-
Driver engine `disc` (C14).  Line protocol (mirrors harness/eng_disc.c):
  srv H|fail              -> = ok          what res_query answers (DNS response / failure)
  addrs Hhost a,…|none    -> = ok          getaddrinfo(host); a = 4.n | 6.n
  ep a:port beh           -> = ok          beh = refuse | late | hang | accept | accept0
  connect kind Hjid Halthost|- altport flags
                          -> = rc N q Q tr TRACE st STATE     (kind = raw | client | component)
  run ms                  -> = tr TRACE ev EVENTS st STATE    clock += ms; one xmpp_run_once
  end                     -> = end
TRACE = - | g:Hhost:port,t:a:port,…   EVENTS = - | RAW_CONNECT | DISCONNECT:timeout | DISCONNECT:-1
-/
import Strophe.Model.Discovery
import Strophe.Drv.Common
namespace Strophe.Drv.Disc
open Strophe Strophe.Discovery

structure DState where
  srvAns : Option Bytes := none
  hosts : List (Host × List Addr) := []
  eps : List (Endpoint × Beh) := []
  conn : Conn := {}
  now : Nat := 1000000

def DState.env (s : DState) : Env where
  srv := srvLookup s.srvAns
  addrs := fun h => (s.hosts.lookup h).getD []
  beh := fun e => (s.eps.lookup e).getD .refuse

def parseAddr (t : String) : Option Addr :=
  match t.splitOn "." with
  | [f, n] =>
    match f, n.toNat? with
    | "4", some k => if k < 65536 then some ⟨4, k⟩ else none
    | "6", some k => if k < 65536 then some ⟨6, k⟩ else none
    | _, _ => none
  | _ => none

def parseBeh : String → Option Beh
  | "refuse" => some .refuse
  | "late" => some .late
  | "hang" => some .hang
  | "accept" => some .accept
  | "accept0" => some .accept0
  | _ => none

def parseKind : String → Option Kind
  | "raw" => some .raw
  | "client" => some .client
  | "component" => some .component
  | _ => none

def showAddr (a : Addr) : String := s!"{a.fam}.{a.id}"

def showAct : Act → String
  | .gai h p => s!"g:{Hex.ofBytes h}:{p}"
  | .try_ e => s!"t:{showAddr e.1}:{e.2}"

def showList (l : List String) : String := if l.isEmpty then "-" else ",".intercalate l

def showEv : Ev → String
  | .rawConnect => "RAW_CONNECT"
  | .disconnect .timeout => "DISCONNECT:timeout"
  | .disconnect .connectNext => s!"DISCONNECT:-{Gen.Disc.negConnectNextFail}"

def showSt : St → String
  | .disconnected => "disconnected"
  | .connecting => "connecting"
  | .connected => "connected"

def showRc (n : Nat) : String := if n = 0 then "0" else s!"-{n}"

/-- what `xmpp_conn_set_flags` accepts -/
def flagsOk (f : Nat) : Bool :=
  f < 256 && !(f &&& Gen.Disc.flagDisableTls != 0 &&
    f &&& (Gen.Disc.flagMandatoryTls + Gen.Disc.flagLegacySsl + Gen.Disc.flagTrustTls) != 0)

def step (s : DState) (line : String) : DState × String :=
  match line.splitOn " " with
  | ["srv", "fail"] => ({ s with srvAns := none }, "= ok")
  | ["srv", h] =>
    match Hex.toBytes h with
    | some b => ({ s with srvAns := some b }, "= ok")
    | none => (s, "= bad-op")
  | ["addrs", h, l] =>
    match Hex.toBytes h with
    | none => (s, "= bad-op")
    | some host =>
      let al := if l = "none" then some [] else (l.splitOn ",").mapM parseAddr
      match al with
      | some al => if al.length > 8 then (s, "= bad-op") else
        ({ s with hosts := (host, al) :: s.hosts }, "= ok")
      | none => (s, "= bad-op")
  | ["ep", e, b] =>
    match e.splitOn ":", parseBeh b with
    | [a, p], some beh =>
      match parseAddr a, p.toNat? with
      | some a, some p => ({ s with eps := ((a, p), beh) :: s.eps }, "= ok")
      | _, _ => (s, "= bad-op")
    | _, _ => (s, "= bad-op")
  | ["connect", k, j, a, p, f] =>
    match parseKind k, Hex.toBytes j, Hex.toOptBytes a, p.toNat?, f.toNat? with
    | some kind, some jid, some alt, some port, some flags =>
      if port > 65535 || s.conn.state != .disconnected || !flagsOk flags ||
          (kind == .client && flags &&& Gen.Disc.flagLegacySsl != 0) then (s, "= bad-op")
      else
        let r := connect true s.env s.now s.conn ⟨kind, jid, alt, port, flags⟩
        ({ s with conn := r.conn },
         s!"= rc {showRc r.negRc} q {if r.queried then 1 else 0} tr {showList (r.acts.map showAct)} st {showSt r.conn.state}")
    | _, _, _, _, _ => (s, "= bad-op")
  | ["run", ms] =>
    match ms.toNat? with
    | some ms =>
      let now := s.now + ms
      let r := runOnce true s.env now s.conn
      ({ s with conn := r.1, now := now },
       s!"= tr {showList (r.2.1.map showAct)} ev {showList (r.2.2.map showEv)} st {showSt r.1.state}")
    | none => (s, "= bad-op")
  | ["end"] => ({ s with conn := {} }, "= end")
  | _ => (s, "= bad-op")

def run (i o : IO.FS.Stream) : IO Unit := Drv.runStateful ({} : DState) step i o

end Strophe.Drv.Disc
