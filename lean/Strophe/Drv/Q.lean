import Strophe.Model.SendQueue
import Strophe.Drv.Common
namespace Strophe.Drv.Q
open Strophe Strophe.SendQueue

def ownerName : Owner → String
  | .user => "u" | .strophe => "l" | .smStrophe => "s"

def b2n (b : Bool) : String := if b then "1" else "0"

def dumpQueue (s : St) : String :=
  let rec go (prev : Option Nat) : List Elem → List String
    | [] => []
    | e :: r =>
      s!"{ownerName e.owner}:{e.written}:{b2n e.wip}:{b2n (e.link.isSome && e.link == prev)}:{Hex.ofBytes e.data}"
        :: go (some e.uid) r
  let q := if s.queue.isEmpty then "-" else ",".intercalate (go none s.queue)
  let smq := if s.smQueue.isEmpty then "-"
    else ",".intercalate (s.smQueue.map fun e => s!"{e.smH.toNat}:{Hex.ofBytes e.data}:{ownerName e.owner}")
  s!"q {s.len} {s.userLen} {q} sm {s.sentNr.toNat} {b2n s.rSent} {smq}"

def parseSched (t : String) : Option (List Accept) :=
  if t = "-" then some [] else
  (t.splitOn ",").mapM fun a =>
    if a = "all" then some Accept.all
    else if a = "again" then some Accept.again
    else if a = "err" then some Accept.hard
    else a.toNat?.map Accept.upTo

/- NOTE: a dropped text is handed back as a C string (`char *`): the driver prints it up to the
   first NUL, exactly what the harness can observe through the API. -/
def finish (old s : St) (res : String) (wire : Bytes) : St × String :=
  let ev := if s.disconnects > old.disconnects
    then ",".intercalate (List.replicate (s.disconnects - old.disconnects) "DISCONNECT") else "-"
  (s, s!"= {res} | wire {Hex.ofBytes wire} | {dumpQueue s} | st {if s.connected then "c" else "d"} ev {ev}")

def step (s : St) (line : String) : St × String :=
  match line.splitOn " " with
  | ["sm", n] => finish s { s with smEnabled := n != "0" } "ok" []
  | [op, h] =>
    if op = "w" then
      match parseSched h with
      | some sched => let (s', wire) := runOnce s sched; finish s s' "ran" wire
      | none => (s, "= bad-op")
    else match Hex.toBytes h with
      | none => (s, "= bad-op")
      | some b =>
        match op with
        | "su" => finish s (sendRaw s .user b) "ok" []
        | "sf" =>       -- xmpp_send_raw_string("%s", text): same queueing, text is a C string
          if b.contains 0 then (s, "= bad-op") else finish s (sendRaw s .user b) "ok" []
        | "sl" => finish s (sendRaw s .strophe b) "ok" []
        | "ss" => finish s (sendRaw s .smStrophe b) "ok" []
        | _ => (s, "= bad-op")
  | ["dropo"] => let (s', r) := dropElement s .oldest
                 finish s s' ("drop " ++ (match r with | some b => Hex.ofBytes (b.takeWhile (· ≠ 0)) | none => "null")) []
  | ["dropy"] => let (s', r) := dropElement s .youngest
                 finish s s' ("drop " ++ (match r with | some b => Hex.ofBytes (b.takeWhile (· ≠ 0)) | none => "null")) []
  | ["len"] => finish s s s!"len {queueLen s}" []
  | ["disc"] => finish s (disconnectOnce s) "ok" []
  | _ => (s, "= bad-op")

def run (i o : IO.FS.Stream) : IO Unit := runStateful ({} : St) step i o

end Strophe.Drv.Q
