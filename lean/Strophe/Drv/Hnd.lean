import Strophe.Model.Handler
import Strophe.Drv.Common
/-! Driver engine `hnd` (C11): same line protocol as harness/eng_hnd.c.  Not part of any proof. -/
namespace Strophe.Drv.Hnd
open Strophe Strophe.Handler

def NF : Nat := 8
def NU : Nat := 4
def NC : Nat := 2
def MAXSTEP : Nat := 16
def MAXACT : Nat := 8

structure D where
  st : St := {}
  script : List (Key × List Step) := []
  dead : Bool := false

def behOf (script : List (Key × List Step)) : Beh := fun k n =>
  match script.find? (·.1 == k) with
  | none => {}
  | some (_, steps) => steps.getD n {}

def num (t : String) (lim : Nat) : Option Nat :=
  if t.isEmpty || !t.all Char.isDigit then none else
  match t.toNat? with
  | some v => if v < lim then some v else none
  | none => none

def big (t : String) : Option Nat :=
  if t.isEmpty || !t.all Char.isDigit then none else t.toNat?

/-- hex token of a C string: `-` = NULL; a NUL byte is refused -/
def cstr (t : String) : Option (Option Str) :=
  match Hex.toOptBytes t with
  | none => none
  | some none => some none
  | some (some b) => if b.contains 0 then none else some (some b)

def cstr1 (t : String) : Option Str :=
  match cstr t with
  | some (some b) => some b
  | _ => none

/-- one action at the head of the token list; returns it and the remaining tokens -/
def parseAct : List String → Option (Act × List String)
  | "add" :: c :: f :: u :: ns :: nm :: ty :: rest => do
    let c ← num c NC; let f ← num f NF; let u ← num u NU
    let ns ← cstr ns; let nm ← cstr nm; let ty ← cstr ty
    pure (.add c f u ⟨ns, nm, ty⟩, rest)
  | "addid" :: c :: f :: u :: id :: rest => do
    let c ← num c NC; let f ← num f NF; let u ← num u NU; let id ← cstr1 id
    pure (.addId c f u id, rest)
  | "addt" :: c :: f :: u :: p :: rest => do
    let c ← num c NC; let f ← num f NF; let u ← num u NU; let p ← big p
    pure (.addTimed c f u p, rest)
  | "addg" :: f :: u :: p :: rest => do
    let f ← num f NF; let u ← num u NU; let p ← big p
    pure (.addGlobal f u p, rest)
  | "del" :: c :: f :: rest => do
    let c ← num c NC; let f ← num f NF
    pure (.del c f, rest)
  | "delt" :: c :: f :: rest => do
    let c ← num c NC; let f ← num f NF
    pure (.delTimed c f, rest)
  | "delid" :: c :: f :: id :: rest => do
    let c ← num c NC; let f ← num f NF; let id ← cstr1 id
    pure (.delId c f id, rest)
  | "delg" :: f :: rest => do
    let f ← num f NF
    pure (.delGlobal f, rest)
  | "send" :: c :: rest => do
    let c ← num c NC
    pure (.send c, rest)
  | "tick" :: n :: rest => do
    let n ← big n
    pure (.tick n, rest)
  | _ => none

def parseActs : Nat → List String → List Act → Option (List Act × List String)
  | 0, _, _ => none
  | fuel + 1, toks, acc =>
    match toks with
    | [] => some (acc.reverse, [])
    | ";" :: rest => some (acc.reverse, rest)
    | _ =>
      if acc.length ≥ MAXACT then none else
      match parseAct toks with
      | none => none
      | some (a, rest) => parseActs fuel rest (a :: acc)

def parseSteps : Nat → List String → List Step → Option (List Step)
  | 0, _, _ => none
  | fuel + 1, toks, acc =>
    match toks with
    | [] => some acc.reverse
    | r :: rest =>
      if acc.length ≥ MAXSTEP || (r != "k" && r != "r") then none else
      match parseActs (rest.length + 2) rest [] with
      | none => none
      | some (acts, rest') => parseSteps fuel rest' ({ keep := r == "k", acts } :: acc)

def b2 (b : Bool) (t f : String) : String := if b then t else f

def itemHead (it : Item) : String :=
  s!"{it.fn}/{it.ud}/{b2 it.user "u" "s"}/{b2 it.enabled "e" "d"}"

def showH (it : Item) : String :=
  s!"{itemHead it}/{Hex.optOfBytes it.flt.ns}/{Hex.optOfBytes it.flt.name}/{Hex.optOfBytes it.flt.type}"

def showT (it : Item) : String := s!"{itemHead it}/{it.period}/{it.last}"

def bytesLt : Str → Str → Bool
  | [], [] => false
  | [], _ :: _ => true
  | _ :: _, [] => false
  | a :: as, b :: bs => a < b || (a == b && bytesLt as bs)

def insertSorted (k : Str) : List Str → List Str
  | [] => [k]
  | x :: xs => if k == x then x :: xs else if bytesLt k x then k :: x :: xs else x :: insertSorted k xs

def showConn (i : Nat) (cn : Conn) : String :=
  let keys := (cn.idKeys.foldl (fun acc k => insertSorted k acc) []).filter fun k => !(cn.idTab k).isEmpty
  let ids := keys.map fun k => s!"{Hex.ofBytes k}={",".intercalate ((cn.idTab k).map itemHead)}"
  s!" | c{i} {b2 cn.connected "c" "d"} n{b2 cn.negotiated "1" "0"} q{cn.sendq} H[{",".intercalate (cn.handlers.map showH)}] I[{";".intercalate ids}] T[{",".intercalate (cn.timed.map showT)}]"

def showInv (v : Inv) : String :=
  match v.cls with
  | .stanza => s!"s{v.conn}:{v.fn}.{v.ud}:{Hex.optOfBytes v.name}"
  | .timed => s!"t{v.conn}:{v.fn}.{v.ud}@{v.time}"
  | .global => s!"g:{v.fn}.{v.ud}@{v.time}"

def tail (old : St) (st : St) : String :=
  let invs := st.log.drop old.log.length
  let inv := if invs.isEmpty then "-" else ",".intercalate (invs.map showInv)
  let conns := String.join ((List.range NC).map fun i => showConn i (st.conns i))
  s!" | inv {inv}{conns} | G[{",".intercalate (st.gtimed.map showT)}] | now {st.now}"

def finish (d : D) (r : Except Err St) : D × String :=
  match r with
  | .ok st => ({ d with st := { st with log := [] } }, "= ok" ++ tail { d.st with log := [] } st)
  | .error .stale => ({ d with dead := true }, "= crash stale-pointer")
  | .error .fuel => ({ d with dead := true }, "= crash fuel")

def bad (d : D) : D × String := (d, "= bad-op")

def step (d : D) (line : String) : D × String :=
  if d.dead then (d, "= dead") else
  let st := { d.st with log := [] }
  let d := { d with st }
  let beh := behOf d.script
  match line.splitOn " " with
  | "beh" :: f :: u :: rest =>
    match num f NF, num u NU, parseSteps (rest.length + 2) rest [] with
    | some f, some u, some steps =>
      let k : Key := ⟨f, u⟩
      finish { d with script := (k, steps) :: d.script.filter (·.1 != k) } (.ok st)
    | _, _, _ => bad d
  | "fire" :: c :: nm :: ns :: ty :: id :: ch =>
    match num c NC, cstr1 nm, cstr ns, cstr ty, cstr id, ch.mapM cstr with
    | some c, some nm, some ns, some ty, some id, some ch =>
      if ch.length > 250 then bad d else
      finish d (fireStanza beh st c { name := some nm, ns, type := ty, id, children := ch })
    | _, _, _, _, _, _ => bad d
  | ["firetimed"] => finish d (fireTimed beh st)
  -- all connections released, the timers run, fresh connections are created (= `clear; firetimed`:
  -- fresh connections have no timed handlers, the context-wide list is untouched by `clear`)
  | ["firetimed0"] => finish d (do let st1 ← Handler.step beh st .clear; fireTimed beh st1)
  | ["state", c, v] =>
    match num c NC with
    | some c =>
      if v == "connected" then finish d (Handler.step beh st (.setConnected c true))
      else if v == "disconnected" || v == "connecting" then
        -- the model's `connected` is `conn->state == XMPP_STATE_CONNECTED`; CONNECTING is "not connected"
        finish d (Handler.step beh st (.setConnected c false))
      else bad d
    | none => bad d
  | ["neg", c, v] =>
    match num c NC, num v 2 with
    | some c, some v => finish d (Handler.step beh st (.setNegotiated c (v == 1)))
    | _, _ => bad d
  | ["reset", c, v] =>
    match num c NC, num v 2 with
    | some c, some v => finish d (Handler.step beh st (.reset c (v == 1)))
    | _, _ => bad d
  | ["sysdel", c] =>
    match num c NC with
    | some c => finish d (Handler.step beh st (.sysDel c))
    | none => bad d
  | ["clear"] => finish d (Handler.step beh st .clear)
  | "adds" :: rest =>
    match parseAct ("add" :: rest) with
    | some (.add c f u flt, []) => finish d (.ok (handlerAdd st c f u flt false))
    | _ => bad d
  | "addids" :: rest =>
    match parseAct ("addid" :: rest) with
    | some (.addId c f u id, []) => finish d (.ok (idHandlerAdd st c f u id false))
    | _ => bad d
  | "addts" :: rest =>
    match parseAct ("addt" :: rest) with
    | some (.addTimed c f u p, []) => finish d (.ok (timedAdd st c f u p false))
    | _ => bad d
  | toks =>
    match parseAct toks with
    | some (a, []) => finish d (.ok (applyAct st a))
    | _ => bad d

def run (i o : IO.FS.Stream) : IO Unit := runStateful ({} : D) step i o

end Strophe.Drv.Hnd
