import Strophe.Model.Resolver
namespace Strophe.Drv.Dns
open Strophe Strophe.Resolver

def errName : Err → String
  | .oobRead => "oobRead"
  | .oobWrite => "oobWrite"
  | .cursorWrap => "cursorWrap"

def showRr (r : Rr Bytes) : String :=
  s!"{r.prio}:{r.weight}:{r.port}:{Hex.ofBytes r.target}"

def showOutcome : Outcome → String
  | .found l => "= found " ++ ",".intercalate (l.map showRr)
  | .notFound => "= notfound"
  | .error e => "= error " ++ errName e

/-- "." is the empty buffer (the C driver passes a valid pointer with length 0) -/
def hexToArray (s : String) : Option Buf := (Hex.toBytes s).map List.toArray

def step (line : String) : String :=
  match line.trimAscii.toString.splitOn " " with
  | ["lookup", h] =>
    match hexToArray h with
    | some b => showOutcome (lookupArr b)
    | none => "= bad-op"
  | _ => "= bad-op"

end Strophe.Drv.Dns
