/-
Driver engine `tls` (C08).  Consumes the ANNOTATED trace: the ops of harness/eng_tls.c, the `start`
op preceded by the lines the implementation side printed for it:
  vf OK:DEPTH:ERR,…   the verification events OpenSSL reports for this peer under this configuration
                      when every failure is accepted (recorded parameter `Peer.facts`)
  hr N                the SSL_get_error class the failed handshake left (recorded parameter)
The model's `Engine` is instantiated by H-openssl itself over these recordings (`replayEngine`):
invocations = `run` over the events, success iff the server completes and (VERIFY_NONE or nothing
was answered 0).  The implementation's actual invocations, answers and results must then coincide
with the model's.  Not part of any proof.
-/
import Strophe.Model.TlsTrust
import Strophe.Drv.Common

namespace Strophe.Drv.Tls
open Strophe Strophe.Spec.OpenSsl Strophe.TlsTrust

inductive CbMode | none | acc | rej | firstK (k : Nat) | rejectNth (n : Nat) | const (v : Int)
  deriving Repr

inductive CaMode | none | file | path | env | other | missing deriving Repr, DecidableEq
inductive SrvMode | ok | close | garbage deriving Repr, DecidableEq

structure LeafDesc where
  iss : String
  nb : Int
  na : Int
  cn : Option Bytes
  dns : List Bytes

structure Case where
  domain : Bytes
  path : Path
  /-- successive xmpp_conn_set_flags words -/
  flags : List Nat
  /-- the handler as installed after the last xmpp_conn_set_certfail_handler call -/
  cb : CbMode
  ca : CaMode
  srv : SrvMode
  leaf : LeafDesc
  inter : Option (Int × Int × Bool)

structure DS where
  cfg : Option Case := none
  sess : Option Sess := none
  started : Bool := false
  /-- CA mode of the previous round on the same connection object -/
  prevCa : Option CaMode := none
  facts : Option (List VCall) := none
  hr : Option Nat := none
  badLine : Bool := false

def parseInt (s : String) : Option Int :=
  if s.startsWith "-" then (s.drop 1).toNat?.map fun n => -(n : Int)
  else s.toNat?.map fun n => (n : Int)

def handlerOf : CbMode → Option Handler
  | .none => none
  | .acc => some fun _ _ _ => 1
  | .rej => some fun _ _ _ => 0
  | .firstK k => some fun i _ _ => if i < k then 1 else 0
  | .rejectNth n => some fun i _ _ => if i = n then 0 else 1
  | .const v => some fun _ _ _ => v

def parseCb (s : String) : Option CbMode :=
  if s == "none" then some .none
  else if s == "acc" then some .acc
  else if s == "rej" then some .rej
  else if s.startsWith "k" then (s.drop 1).toNat?.map .firstK
  else if s.startsWith "r" then (s.drop 1).toNat?.map .rejectNth
  else if s.startsWith "v" then (parseInt (s.drop 1).toString).map .const
  else none

def parseCa : String → Option CaMode
  | "none" => some .none | "file" => some .file | "path" => some .path | "env" => some .env
  | "other" => some .other | "missing" => some .missing | _ => none

def parseSrv : String → Option SrvMode
  | "ok" => some .ok | "close" => some .close | "garbage" => some .garbage | "mute" => some .close
  | _ => none

def parsePath : String → Option Path
  | "s" => some .starttls | "l" => some .legacy | "d" => some .direct | _ => none

def parseSans (s : String) : Option (List Bytes) :=
  if s == "-" then some []
  else (s.splitOn ",").foldr (fun t acc =>
    match acc with
    | none => none
    | some l =>
      if t.startsWith "d:" then (Hex.toBytes (t.drop 2).toString).map (· :: l)
      else if t.startsWith "x:" || t.startsWith "i:" then
        (Hex.toBytes (t.drop 2).toString).map (fun _ => l)
      else none) (some [])

def parseLeaf (s : String) : Option LeafDesc :=
  match s.splitOn ";" with
  | [iss, nb, na, cn, sans] =>
    match parseInt nb, parseInt na, Hex.toOptBytes cn, parseSans sans with
    | some nb, some na, some cn, some dns =>
      if iss ∈ ["root", "inter", "interx", "unk", "unkc", "self"] then
        some { iss := iss, nb := nb, na := na, cn := cn, dns := dns }
      else none
    | _, _, _, _ => none
  | _ => none

def parseInter (s : String) : Option (Int × Int × Bool) :=
  match s.splitOn ";" with
  | [nb, na, ca] =>
    match parseInt nb, parseInt na, ca.toNat? with
    | some nb, some na, some ca => some (nb, na, ca != 0)
    | _, _, _ => none
  | _ => none

def kv (toks : List String) (key : String) : Option String :=
  (toks.find? (·.startsWith (key ++ "="))).map fun t => (t.drop (key.length + 1)).toString

def parseCfg (toks : List String) : Option Case := do
  let known := ["dom", "path", "flags", "cb", "ca", "srv", "leaf", "inter"]
  if !(toks.all fun t => known.any fun k => t.startsWith (k ++ "=")) then none
  let dom ← (kv toks "dom") >>= Hex.toBytes
  let path ← (kv toks "path") >>= parsePath
  let flags ← (match kv toks "flags" with | some f => (f.splitOn ",").mapM (·.toNat?) | none => some [0])
  -- every entry is one xmpp_conn_set_certfail_handler call: the last one decides whether a handler is
  -- installed, the last one that is not `none` how it behaves
  let cbs ← (match kv toks "cb" with | some f => (f.splitOn ",").mapM parseCb | none => some [.none])
  let installed := match cbs.getLast? with | some .none => false | some _ => true | none => false
  let behaviour := (cbs.filter fun c => match c with | .none => false | _ => true).getLast?
  let cb := if installed then behaviour.getD .none else .none
  let ca ← (match kv toks "ca" with | some f => parseCa f | none => some .none)
  let srv ← (match kv toks "srv" with | some f => parseSrv f | none => some .ok)
  let leaf ← (kv toks "leaf") >>= parseLeaf
  let inter ← (match kv toks "inter" with | some f => (parseInter f).map some | none => some none)
  -- a NUL byte cannot be part of the C string handed to the library
  if dom.contains 0 then none
  some { domain := dom, path := path, flags := flags, cb := cb, ca := ca, srv := srv, leaf := leaf,
         inter := inter }

def parseFacts (s : String) : Option (List VCall) :=
  if s == "-" then some []
  else (s.splitOn ",").mapM fun t =>
    match t.splitOn ":" with
    | [ok, d, e] =>
      match ok.toNat?, d.toNat?, e.toNat? with
      | some ok, some d, some e => some { ok := ok != 0, depth := d, err := e }
      | _, _, _ => none
    | _ => none

/-- the flag words the scenario supports: DISABLE_TLS (1), TRUST_TLS (8) (and the two together,
    which xmpp_conn_set_flags refuses); LEGACY_SSL (4) is added to every word by path l -/
def flagsOk (c : Case) : Bool := c.flags.all fun f => f == 0 || f == 1 || f == 8 || f == 9

def wordOf (c : Case) (f : Nat) : Nat := if c.path == .legacy then f + 4 else f

/-- the policy after the xmpp_conn_set_flags calls; `none` when the last call was refused -/
def policyOf (c : Case) : Option Policy :=
  let p0 : Policy := { domain := c.domain, handler := handlerOf c.cb }
  let r := c.flags.foldl (fun (acc : Policy × Bool) f => setFlags acc.1 (wordOf c f)) (p0, true)
  if r.2 then some r.1 else none

/-- the property-level description of the peer's chain, from the certificate description -/
def certOf (c : Case) : PeerCert :=
  let anchored := c.ca == .file || c.ca == .path || c.ca == .env
  let interValid := match c.inter with
    | some (nb, na, _) => decide (nb ≤ 0) && decide (0 < na)
    | none => true
  let interCa := match c.inter with
    | some (_, _, ca) => ca
    | none => true
  let viaInter := c.leaf.iss == "inter"
  { chains := anchored && (c.leaf.iss == "root" || (viaInter && interCa)),
    inValidity := decide (c.leaf.nb ≤ 0) && decide (0 < c.leaf.na) && (!viaInter || interValid),
    dnsNames := c.leaf.dns,
    cn := c.leaf.cn }

/-- OpenSSL replayed from the recordings, BY H-openssl -/
def replayEngine (c : Case) (facts : List VCall) (hr : Nat) : Engine :=
  { newOk := c.ca != .missing,
    connect := fun cfg cb =>
      if c.srv != .ok then { calls := [], ok := false, err := hr }
      else
        let calls := run (cb.getD defaultCb) 0 facts
        let ok := cfg.verifyMode == 0 || accepted calls
        { calls := calls, ok := ok, err := if ok then 0 else hr } }

def join (l : List String) : String := if l.isEmpty then "-" else ",".intercalate l

def itemName : Item → String
  | .hdr => "hdr" | .starttls => "starttls" | .auth => "auth" | .close => "close" | .probe => "probe"

def evName : Ev → String
  | .rawConnect => "RAW_CONNECT"
  | .disconnect e => s!"DISCONNECT:{e}"

def stName (s : Sess) : String := if s.conn.state = .connected then "c" else "d"

def b01 (b : Bool) : String := if b then "1" else "0"

/-- the io part shared by all reports; clears what has been reported -/
def report (s : Sess) : Sess × String :=
  ({ s with clear := [], enc := [], evs := [] },
   s!"sec={b01 (isSecured s.conn)} st={stName s} ev={join (s.evs.map evName)} clear={join (s.clear.map itemName)} enc={join (s.enc.map itemName)}")

def cfgText (p : Policy) : String :=
  let c := sslCfg p
  s!"{c.verifyMode}:{b01 c.hasCallback}:{c.hostFlags}:{c.hosts.length}:{Hex.optOfBytes c.hosts.head?}:{Hex.optOfBytes c.sni}"

def callText (c : VCall × Int) : String := s!"{b01 c.1.ok}:{c.1.depth}:{c.1.err}:{c.2}"
def uhText (c : VCall × Int) : String := s!"{c.1.depth}:{c.1.err}:{c.2}"

def doStart (d : DS) (c : Case) : DS × String :=
  let d0facts := d.facts.getD []
  let d0hr := d.hr.getD 0
  let d := { d with started := true, sess := none, cfg := none, prevCa := some c.ca, facts := none, hr := none }
  match (if flagsOk c then policyOf c else none) with
  | none => (d, "= start bad-flags")
  | some p =>
  if connectRefused c.domain then
    (d, s!"= start connect-failed {Gen.Tls.connectDomainRc}")
  else
    let facts := d0facts
    let hr := d0hr
    let E := replayEngine c facts hr
    let s := start E p c.path
    let ran := s.hs.isSome
    let calls := match s.hs with | some o => o.calls | none => []
    -- H-openssl on the recording: the error class must agree with the derived result
    let hypBad := match s.hs with
      | some o => (o.ok && hr != 0) || (!o.ok && hr == 0)
      | none => hr != 0 || !facts.isEmpty
    if hypBad then ({ d with started := true }, "= hyp-openssl-violated result-or-error-class")
    else
      let goodTxt := if ran && c.srv == .ok then b01 (good (certOf c) (sslCfg p)) else "-"
      let hsTxt := match s.hs with | some o => b01 o.ok | none => "-"
      let rcTxt := match s.rc with | some r => toString r | none => "-"
      let (s', io) := report s
      ({ d with started := true, sess := some s' },
       s!"= start att={s.att} new={b01 s.newOk} cfg={if ran then cfgText p else "-"} calls={join (calls.map callText)} uh={join ((handlerCalls p calls).map uhText)} good={goodTxt} hs={hsTxt} rc={rcTxt} failed={b01 s.conn.tlsFailed} tls={b01 s.conn.hasTls} intf={if s.conn.intfTls then "tls" else "sock"} {io}")

def stepOp (d : DS) (toks : List String) : DS × String :=
  match toks with
  | "cfg" :: rest =>
    -- another round on the same connection object needs it to be disconnected; a CA file / path
    -- cannot be taken back
    let busy := match d.sess with | some s => s.conn.state == .connected | none => false
    match parseCfg rest with
    | some c =>
      let sticky := match d.prevCa with
        | some pc => pc != c.ca && (c.ca == .none || c.ca == .env) && !(pc == .none || pc == .env)
        | none => false
      if busy || sticky then ({ d with cfg := none }, "= bad-op")
      else ({ d with cfg := some c }, "= cfg ok")
    | none => ({ d with cfg := none }, "= bad-op")
  | ["start"] =>
    match d.cfg with
    | some c => doStart d c
    | none => (d, "= bad-op")
  | ["probe"] | ["probe", "raw"] =>
    match d.sess, d.started with
    | some s, _ =>
      let (s', io) := report (probe s (toks.length == 1))
      ({ d with sess := some s' }, "= io " ++ io)
    | none, true =>
      -- the connection object exists but was never connected: nothing can be sent
      (d, "= io sec=0 st=d ev=- clear=- enc=-")
    | none, false => (d, "= bad-op")
  | ["drop"] =>
    match d.sess, d.started with
    | some s, _ =>
      let (s', io) := report (drop s)
      ({ d with sess := some s' }, "= io " ++ io)
    | none, true => (d, "= io sec=0 st=d ev=- clear=- enc=-")
    | none, false => (d, "= bad-op")
  | ["tick", ms] =>
    match ms.toNat?, d.sess, d.started with
    | some _, some s, _ =>
      let (s', io) := report (tick s)
      ({ d with sess := some s' }, "= io " ++ io)
    | some _, none, true => (d, "= io sec=0 st=d ev=- clear=- enc=-")
    | _, _, _ => (d, "= bad-op")
  | ["end"] => ({}, "= end live=0")
  | _ => (d, "= bad-op")

def step (d : DS) (line : String) : DS × String :=
  let toks := line.splitOn " "
  match toks with
  | ["vf", l] =>
    match parseFacts l with
    | some f => ({ d with facts := some f }, "")
    | none => ({ d with badLine := true }, "")
  | ["hr", n] =>
    match n.toNat? with
    | some n => ({ d with hr := some n }, "")
    | none => ({ d with badLine := true }, "")
  | _ =>
    if d.badLine then ({ d with badLine := false }, "= unreadable-recording")
    else stepOp d toks

def run (i o : IO.FS.Stream) : IO Unit := Drv.runStateful ({} : DS) step i o

end Strophe.Drv.Tls
