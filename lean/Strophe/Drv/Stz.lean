/-
Driver engine `stz` (C09): the Lean side of harness/eng_stz.c — same line protocol, same refusals,
computed from `Model/Stanza.lean`, `Model/StanzaRead.lean` and `Spec/Xml.lean`.  Not part of any proof.
-/
import Strophe.Drv.Common
import Strophe.Model.StanzaRead

namespace Strophe.Drv.Stz
open Strophe Strophe.Stanza Strophe.Spec.Xml

abbrev Vars := Stanza.Store

def nvars : Nat := 64
def initVars : Vars := List.replicate nvars none

/-- `v<digits>[/<digits>]*` with variable number below 64 -/
def parseTarget (tok : String) : Option (Nat × List Nat) :=
  match tok.toList with
  | 'v' :: rest =>
    let parts := (String.ofList rest).splitOn "/"
    if parts.all fun p => !p.isEmpty && p.all Char.isDigit then
      match parts.map String.toNat! with
      | v :: path => if v < nvars then some (v, path) else none
      | [] => none
    else none
  | _ => none

def parseVar (tok : String) : Option Nat :=
  match parseTarget tok with
  | some (v, []) => some v
  | _ => none

inductive Res where
  | ok (node : Tree) (par : Option (Option HashTab)) (root : Nat) (path : List Nat)
  | err (msg : String)

def resolve (vs : Vars) (tok : String) : Res :=
  match parseTarget tok with
  | none => .err "= err bad-op"
  | some (v, path) =>
    match vs.getD v none with
    | none => .err "= err novar"
    | some t =>
      match walk t path none with
      | some (n, par) => .ok n par v path
      | none => .err "= err path"

def setVar (vs : Vars) (v : Nat) (t : Option Tree) : Vars := vs.set v t

/-- run a mutator at the target and report its return code -/
def mutate (vs : Vars) (tok : String) (f : Tree → Tree × Int) : Vars × String :=
  match resolve vs tok with
  | .err m => (vs, m)
  | .ok n _ root path =>
    let (_, rc) := f n
    match vs.getD root none with
    | some t => (setVar vs root (some (modifyAt (fun x => (f x).1) t path)), s!"= rc {rc}")
    | none => (vs, "= err novar")

def hexOpt (o : Option Bytes) : String := Hex.optOfBytes o

def joinWith (sep : String) (l : List String) : String := sep.intercalate l

def insertPair (a : Bytes × Option Bytes) : List (Bytes × Option Bytes) → List (Bytes × Option Bytes)
  | [] => [a]
  | b :: r => if bytesLt b.1 a.1 then b :: insertPair a r else a :: b :: r

mutual
def dumpTree : Tree → String
  | .text d ks => "'" ++ Hex.ofBytes d ++ "'" ++ (if ks.isEmpty then "" else "[" ++ dumpKids ks ++ "]")
  | .unknown ks => "?" ++ (if ks.isEmpty then "" else "[" ++ dumpKids ks ++ "]")
  | .tag n a ks =>
    let t : Tree := .tag n a []
    let sorted := ((attrPairs t).take (attrCount t)).foldr insertPair []
    "(" ++ Hex.ofBytes n ++ "{" ++ joinWith "," (sorted.map fun p => Hex.ofBytes p.1 ++ "=" ++ hexOpt p.2) ++
      "}[" ++ dumpKids ks ++ "])"
def dumpKids : List Tree → String
  | [] => ""
  | [k] => dumpTree k
  | k :: ks => dumpTree k ++ "," ++ dumpKids ks
end

mutual
def showX : XNode → String
  | .text s => "'" ++ Hex.ofBytes s ++ "'"
  | .elem ns name attrs kids =>
    "(" ++ hexOpt ns ++ "|" ++ Hex.ofBytes name ++ "{" ++
      joinWith "," (attrs.map fun p => Hex.ofBytes p.1 ++ "=" ++ Hex.ofBytes p.2) ++ "}[" ++ showXs kids ++ "])"
def showXs : List XNode → String
  | [] => ""
  | [k] => showX k
  | k :: ks => showX k ++ "," ++ showXs ks
end

/-- the wrapper of the C side only takes ambient namespaces it can quote -/
def ambOk (a : Option Bytes) : Bool :=
  match a with
  | none => true
  | some b => b.length ≤ 500 && b.all fun c => c ≥ 0x20 && c ≠ 0x27 && c ≠ 0x3C && c ≠ 0x26 && c ≠ 0x22

def xcanon (amb : Option Bytes) (doc : Bytes) : String :=
  if !ambOk amb then "= xml-error"
  else
    match parse (amb.bind nsOfDecl) doc with
    | some x => "= xml " ++ showX x
    | none => "= xml-error"

def parseDec (tok : String) (maxDigits : Nat) : Option Nat :=
  if tok.isEmpty || tok.length > maxDigits || !tok.all Char.isDigit then none else some tok.toNat!

def parseInt (tok : String) : Option Int :=
  match tok.toList with
  | '-' :: rest => (parseDec (String.ofList rest) 4).map fun n => -(n : Int)
  | _ => (parseDec tok 4).map fun n => (n : Int)

def putNew (vs : Vars) (w : Nat) (t : Option Tree) : Vars × String :=
  match t with
  | some t => (setVar vs w (some t), "= ok")
  | none => (vs, "= null")

def step (vs : Vars) (line : String) : Vars × String :=
  let bad := (vs, "= err bad-op")
  let toks := line.splitOn " "
  if toks.length > 8 then bad else
  match toks with
  | ["end"] => (initVars, "= end")
  | ["new", w] =>
    match parseVar w with
    | none => bad
    | some w => if (vs.getD w none).isSome then (vs, "= err busy") else (setVar vs w (some Stanza.new), "= ok")
  | ["name", t, h] =>
    match Hex.toBytes h with
    | none => bad
    | some b => mutate vs t fun n => setName n (cstr b)
  | ["text", t, h] =>
    match Hex.toBytes h with
    | none => bad
    | some b => mutate vs t fun n => setText n (cstr b)
  | ["textz", t, h] =>
    match Hex.toBytes h with
    | none => bad
    | some b => mutate vs t fun n => setText n (cstr b)
  | ["attr", t, hk, hv] =>
    match Hex.toBytes hk, Hex.toBytes hv with
    | some k, some v => mutate vs t fun n => setAttribute n (cstr k) (cstr v)
    | _, _ => bad
  | ["ns", t, h] =>
    match Hex.toBytes h with
    | none => bad
    | some b => mutate vs t fun n => setNs n (cstr b)
  | ["delattr", t, h] =>
    match Hex.toBytes h with
    | none => bad
    | some b => mutate vs t fun n => delAttribute n (cstr b)
  | ["getattr", t, h] =>
    match Hex.toBytes h with
    | none => bad
    | some b =>
      match resolve vs t with
      | .err m => (vs, m)
      | .ok n _ _ _ => (vs, "= val " ++ hexOpt (getAttribute n (cstr b)))
  | ["attrs", t] =>
    match resolve vs t with
    | .err m => (vs, m)
    | .ok n _ _ _ =>
      let cnt := attrCount n
      let pairs := (attrPairs n).take cnt
      let body := if pairs.isEmpty then "-"
        else joinWith "," (pairs.map fun p => Hex.ofBytes p.1 ++ "=" ++ hexOpt p.2)
      (vs, s!"= attrs {cnt} {body}")
  | ["child", t, c] =>
    match parseVar c with
    | none => bad
    | some c =>
      match resolve vs t with
      | .err m => (vs, m)
      | .ok _ _ root path =>
        match vs.getD c none with
        | none => (vs, "= err novar")
        | some ct =>
          if c = root then (vs, "= err cycle")
          else
            match vs.getD root none with
            | none => (vs, "= err novar")
            | some rt =>
              let rt' := modifyAt (fun x => (addChild x ct).1) rt path
              (setVar (setVar vs root (some rt')) c none, s!"= rc {Gen.Stanza.eOk}")
  | ["copy", t, w] =>
    match parseVar w with
    | none => bad
    | some w =>
      match resolve vs t with
      | .err m => (vs, m)
      | .ok n _ _ _ => if (vs.getD w none).isSome then (vs, "= err busy") else putNew vs w (copy n)
  | ["reply", t, w] =>
    match parseVar w with
    | none => bad
    | some w =>
      match resolve vs t with
      | .err m => (vs, m)
      | .ok n _ _ _ => if (vs.getD w none).isSome then (vs, "= err busy") else putNew vs w (reply n)
  | ["replyerr", t, w, ht, hc, hx] =>
    match parseVar w, Hex.toOptBytes ht, Hex.toOptBytes hc, Hex.toOptBytes hx with
    | some w, some et, some cond, some tx =>
      match resolve vs t with
      | .err m => (vs, m)
      | .ok n _ _ _ =>
        if (vs.getD w none).isSome then (vs, "= err busy")
        else putNew vs w (replyError n (et.map cstr) (cond.map cstr) (tx.map cstr))
    | _, _, _, _ => bad
  | ["errnew", ty, hx, w] =>
    match parseInt ty, Hex.toOptBytes hx, parseVar w with
    | some ty, some tx, some w =>
      if ty < -1000 || ty > 1000 then bad
      else if (vs.getD w none).isSome then (vs, "= err busy")
      else putNew vs w (some (errorNew ty (tx.map cstr)))
    | _, _, _ => bad
  | ["rel", v] =>
    match parseVar v with
    | none => bad
    | some v => if (vs.getD v none).isSome then (setVar vs v none, "= freed 1") else (vs, "= err novar")
  | ["render", t] =>
    match resolve vs t with
    | .err m => (vs, m)
    | .ok n par _ _ =>
      match toText par n with
      | .ok (b, len) => (vs, s!"= {Hex.ofBytes b} {len}")
      | .error e => (vs, s!"= err {e.code}")
  | ["parse", h, w] =>
    match Hex.toBytes h, parseVar w with
    | some b, some w =>
      if (vs.getD w none).isSome then (vs, "= err busy") else putNew vs w (fromString (cstr b))
    | _, _ => bad
  | ["reparse", t, w] =>
    match parseVar w with
    | none => bad
    | some w =>
      match resolve vs t with
      | .err m => (vs, m)
      | .ok n par _ _ =>
        if (vs.getD w none).isSome then (vs, "= err busy")
        else
          match toText par n with
          | .ok (b, _) => putNew vs w (fromString b)
          | .error e => (vs, s!"= err {e.code}")
  | ["xrender", ha, t, cut] =>
    match Hex.toOptBytes ha, (if cut = "-" then some none else (parseDec cut 7).map some) with
    | some amb, some cut =>
      match resolve vs t with
      | .err m => (vs, m)
      | .ok n par _ _ =>
        match toText par n with
        | .ok (b, _) =>
          let doc := match cut with
            | some c => if c < b.length then b.take c else b
            | none => b
          (vs, xcanon amb doc)
        | .error e => (vs, s!"= err {e.code}")
    | _, _ => bad
  | ["dump", t] =>
    match resolve vs t with
    | .err m => (vs, m)
    | .ok n _ _ _ => (vs, "= tree " ++ dumpTree n)
  | ["xcanon", ha, hd] =>
    match Hex.toOptBytes ha, Hex.toBytes hd with
    | some amb, some doc => (vs, xcanon amb doc)
    | _, _ => bad
  | _ => bad

def run (i o : IO.FS.Stream) : IO Unit := Drv.runStateful initVars step i o

end Strophe.Drv.Stz
