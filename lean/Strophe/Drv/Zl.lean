/-
Driver engine `zl` (C20).  Consumes the ANNOTATED trace: the ops of harness/eng_zl.c, each
preceded by the `z d …` / `z i …` lines the implementation side printed for it (one line per
deflate()/inflate() call of the real zlib).  The model's `Codec` is instantiated with a replay of
these recordings; every call the model makes is checked against the recorded call's inputs
(flush mode, avail_in, avail_out) — a difference, a missing or a left-over recording is answered
`= z-mismatch …` instead of the op's normal output.  Not part of any proof.
-/
import Strophe.Model.Compression
import Strophe.Drv.Common

namespace Strophe.Drv.Zl
open Strophe Strophe.Compression

structure ZRec where
  isDeflate : Bool
  flush : Int
  ain : Nat
  aout : Nat
  consumed : Nat
  rc : Int
  out : Bytes

/-- replay state: the recordings not yet consumed, and whether a call did not match -/
structure Replay where
  recs : List ZRec := []
  bad : Bool := false

def replayDeflate (r : Replay) (inp : Bytes) (flush : Int) (room : Nat) : Replay × Nat × Bytes × Int :=
  match r.recs with
  | z :: rest =>
    if z.isDeflate && z.flush == flush && z.ain == inp.length && z.aout == room then
      ({ r with recs := rest }, z.consumed, z.out, z.rc)
    else ({ recs := [], bad := true }, 0, [], -98)
  | [] => ({ recs := [], bad := true }, 0, [], -98)

def replayInflate (r : Replay) (inp : Bytes) (room : Nat) : Replay × Nat × Bytes × Int :=
  match r.recs with
  | z :: rest =>
    if !z.isDeflate && z.ain == inp.length && z.aout == room then
      ({ r with recs := rest }, z.consumed, z.out, z.rc)
    else ({ recs := [], bad := true }, 0, [], -98)
  | [] => ({ recs := [], bad := true }, 0, [], -98)

def replayCodec : Codec :=
  { D := Replay, I := Replay, dinit := {}, iinit := {},
    deflate := replayDeflate, inflate := replayInflate }

structure DS where
  st : Option (St replayCodec) := none
  ended : Bool := false
  pendingRecs : List ZRec := []     -- reversed
  submitted : Nat := 0
  badLine : Bool := false

def parseInt (s : String) : Option Int :=
  if s.startsWith "-" then (s.drop 1).toNat?.map fun n => -(n : Int)
  else s.toNat?.map fun n => (n : Int)

def parseZ (toks : List String) : Option ZRec :=
  match toks with
  | ["z", "d", fl, ain, aout, cons, rc, h] =>
    match parseInt fl, ain.toNat?, aout.toNat?, cons.toNat?, parseInt rc, Hex.toBytes h with
    | some fl, some a, some b, some c, some rc, some o =>
      some { isDeflate := true, flush := fl, ain := a, aout := b, consumed := c, rc := rc, out := o }
    | _, _, _, _, _, _ => none
  | ["z", "i", ain, aout, cons, rc, h] =>
    match ain.toNat?, aout.toNat?, cons.toNat?, parseInt rc, Hex.toBytes h with
    | some a, some b, some c, some rc, some o =>
      some { isDeflate := false, flush := 0, ain := a, aout := b, consumed := c, rc := rc, out := o }
    | _, _, _, _, _ => none
  | _ => none

def parseAccept (t : String) : Option Accept :=
  if t == "all" then some .all
  else if t == "again" then some .again
  else if t == "err" then some .err
  else t.toNat?.map .upTo

def parseSched (t : String) : Option (List Accept) :=
  if t == "-" then some [] else (t.splitOn ",").mapM parseAccept

def joinWith (sep : String) (l : List String) : String := sep.intercalate l

def tail (s : St replayCodec) : String :=
  s!" err={s.error} st={if s.connected then "c" else "d"} disc={s.disc}"

def unwritten (q : List (Bytes × Nat)) : Nat :=
  q.foldl (fun acc e => acc + (e.1.length - e.2)) 0

/-- load the recordings of this op into the two streams -/
def load (s : St replayCodec) (recs : List ZRec) : St replayCodec :=
  { s with z := { recs := recs.filter (·.isDeflate), bad := false },
           zi := { recs := recs.filter (!·.isDeflate), bad := false } }

/-- after the op: everything consumed, nothing mismatched? -/
def replayProblem (s : St replayCodec) : Option String :=
  if s.z.bad || s.zi.bad then some "call-differs"
  else if !s.z.recs.isEmpty || !s.zi.recs.isEmpty then some "recordings-left"
  else if s.diverged then some "fuel"
  else none

def cwFuel : Nat := 4000000
def rdFuel : Nat := 200000

def finish (d : DS) (s : St replayCodec) (normal : String) : DS × String :=
  match replayProblem s with
  | some p => ({ d with st := some s }, s!"= z-mismatch {p}")
  | none => ({ d with st := some s }, normal)

def ioLine (d : DS) (r : St replayCodec × Bytes × List Int) : String :=
  let s := r.1
  let rets := if r.2.2.isEmpty then "-" else joinWith "," (r.2.2.map toString)
  let calls := if s.calls.isEmpty then "-"
    else joinWith "," (s.calls.map fun c => s!"{c.1}:{c.2}")
  let acked := d.submitted - unwritten s.queue
  s!"= io plain={Hex.ofBytes r.2.1} rets={rets} net={Hex.ofBytes s.net} calls={calls} acked={acked} q={s.queue.length} pend={if pending s then 1 else 0}" ++ tail s

def stepOp (d : DS) (recs : List ZRec) (toks : List String) : DS × String :=
  match d.st, toks with
  | none, ["init", m] =>
    if d.ended || (m != "full" && m != "sync") then (d, "= bad-op")
    else ({ d with st := some (init replayCodec (m == "sync")) }, "= init 0")
  | none, _ => (d, "= bad-op")
  | some s, ["send", h] =>
    match Hex.toBytes h with
    | none => (d, "= bad-op")
    | some b =>
      let s' := sendRaw s b
      let d := if s.connected then { d with submitted := d.submitted + b.length } else d
      ({ d with st := some s' }, s!"= q {s'.queue.length}")
  | some s, ["w", sc] =>
    match parseSched sc with
    | none => (d, "= bad-op")
    | some sched =>
      let r := runOnce cwFuel (load { s with sched := sched, net := [], calls := [] } recs)
      finish d r.1 (ioLine d r)
  | some s, ["rxz", h] =>
    match Hex.toBytes h with
    | none => (d, "= bad-op")
    | some b =>
      let r := rxFragment cwFuel rdFuel (load { s with net := [], calls := [] } recs) b
      finish d r.1 (ioLine d r)
  | some s, ["eof"] =>
    let r := readLoop cwFuel rdFuel { load { s with net := [], calls := [] } recs with inEof := true } [] []
    finish d r.1 (ioLine d r)
  | some s, ["pend"] => (d, s!"= pend {if pending s then 1 else 0}")
  | some s, ["end"] =>
    -- xmpp_conn_release → (conn_disconnect if still connected) → _conn_reset → compression_free
    let s := compressionFree s
    ({ d with st := none, ended := true }, s!"= end live={liveBlocks s}")
  | some _, _ => (d, "= bad-op")

def step (d : DS) (line : String) : DS × String :=
  let toks := line.splitOn " "
  match toks with
  | "z" :: _ =>
    match parseZ toks with
    | some r => ({ d with pendingRecs := r :: d.pendingRecs }, "")
    | none => ({ d with badLine := true }, "")
  | _ =>
    let recs := d.pendingRecs.reverse
    let bad := d.badLine
    let d := { d with pendingRecs := [], badLine := false }
    if bad then (d, "= z-mismatch unreadable-recording") else stepOp d recs toks

def run (i o : IO.FS.Stream) : IO Unit := Drv.runStateful ({} : DS) step i o

end Strophe.Drv.Zl
