import Strophe.Model.Conn
import Strophe.Drv.Common
namespace Strophe.Drv.Conn
open Strophe Strophe.Conn

def ascii (b : Bytes) : String := String.ofList (b.map fun c => Char.ofNat c.toNat)
def hexOpt (o : Option Bytes) : String := match o with | some x => Hex.ofBytes x | none => "-"

def showItem : Item → String
  | .hdr to frm comp => s!"hdr:{Hex.ofBytes to}:{hexOpt frm}:{if comp then "k" else "c"}"
  | .starttls => "starttls"
  | .auth m t => s!"auth:{ascii m}:{if t then 1 else 0}"
  | .response t => s!"response:{if t then 1 else 0}"
  | .compress => "compress"
  | .bind r => s!"bind:{hexOpt r}"
  | .session => "session"
  | .legacy u r p =>
    -- an element without character data is read back as "no text" by the harness
    let t (x : Bytes) := if x.isEmpty then "-" else Hex.ofBytes x
    s!"legacy:{t u}:{t r}:{if p then 1 else 0}"
  | .enable r => s!"enable:{if r then 1 else 0}"
  | .resume p h => s!"resume:{Hex.ofBytes p}:{h.toNat}"
  | .ack h => s!"a:{h.toNat}"
  | .req => "r"
  | .handshake => "handshake"
  | .error c => s!"error:{ascii c}"
  | .user n id => s!"user:{ascii n}:{hexOpt id}"
  | .close => "close"
  | .raw n => s!"raw:{n}"

def condName (i : Nat) : String :=
  match Gen.streamErrorNames.find? fun p => p.1 = i with
  | some p => ascii p.2
  | none => "?"

def showEv : Ev → String
  | .connect => "CONNECT"
  | .rawConnect => "RAW"
  | .disconnect e c t => s!"DISCONNECT:{e}:{match c with | some i => condName i | none => "-"}:{hexOpt t}"
  | .userStanza n id => s!"uh:{ascii n}:{hexOpt id}"
  | .userTimed => "ut"

structure DS where
  c : Conn := {}
  exists_ : Bool := false
  released : Bool := false
  ctypeTok : String := "c"
  pend : List PEv := []
  bad : Bool := false

def stLetter (c : Conn) : String :=
  let connecting := c.state = .connecting || (c.state = .connected && !c.negotiated)
  let connected := c.state = .connected && c.negotiated
  let disc := c.state = .disconnected
  let n := (if connecting then 1 else 0) + (if connected then 1 else 0) + (if disc then 1 else 0)
  if n ≠ 1 then "BAD" else if connected then "c" else if connecting then "i" else "d"

def finish (d : DS) (c : Conn) (res : String) : DS × String :=
  match c.crash with
  | some site => ({ d with c := c }, s!"= crash {repr site}")
  | none =>
    let tx := if c.tx.isEmpty then "-" else
      ",".intercalate (c.tx.map fun r => showItem r.item ++ (if r.sec then "/s" else "/p"))
    let ev := if c.evs.isEmpty then "-" else ",".intercalate (c.evs.map fun e => showEv e.2)
    let tail := if d.released then "st - neg 0 sec 0 q 0"
      else
        let bt (x : Bool) := if x then "1" else "0"
        let smPart := if c.hasSm then
            let q := if c.sm.queue.isEmpty then "-" else ",".intercalate (c.sm.queue.map fun e => toString e.1.toNat)
            s!" sm {bt c.sm.support}{bt c.sm.enabled}{bt c.sm.canResume}{bt c.sm.resume}{bt c.sm.rSent} s{c.sm.sentNr.toNat} h{c.sm.handledNr.toNat} q{q}"
          else " sm none"
        -- `xmpp_conn_send_queue_len`: the user's elements in the queue, without the one being written
        let isUser (e : QElem) : Bool := match e.owner with | .user => true | _ => false
        let ul := (c.queue.filter isUser).length
        let ql := match c.queue with
          | e :: _ => if e.wip && isUser e then ul - 1 else ul
          | [] => ul
        s!"st {stLetter c} neg {bt c.negotiated} sec {bt (isSecured c)} q {c.queue.length}{smPart} sid {hexOpt c.streamId} ql {ql}"
    -- an event outside the parser protocol (hypothesis H-parser-protocol) shows as a disagreement
    let res := if c.protoViol ≠ 0 then s!"PARSER-PROTOCOL-VIOLATED {res}" else res
    ({ d with c := { c with tx := [], evs := [], protoViol := 0 }, pend := [] }, s!"= {res} | tx {tx} | ev {ev} | {tail}")

/-- classification of a user payload the way the harness classifies what it reads off the wire:
    `<name id='ID'/>`, `<name/>`, anything else = raw bytes -/
def classifyUser (p : Bytes) : Item :=
  let alnum (c : UInt8) : Bool := (48 ≤ c ∧ c ≤ 57) || (65 ≤ c ∧ c ≤ 90) || (97 ≤ c ∧ c ≤ 122)
  match p with
  | 60 :: rest =>
    let name := rest.takeWhile alnum
    let tail := rest.drop name.length
    if name.isEmpty then .raw p.length
    else if tail = [47, 62] then .user name none
    else if tail.take 5 = [32, 105, 100, 61, 39] then        -- " id='"
      let id := (tail.drop 5).takeWhile alnum
      if (tail.drop (5 + id.length)) = [39, 47, 62] then .user name (some id) else .raw p.length
    else .raw p.length
  | _ => .raw p.length

def parseSched (t : String) : Option (List Accept × Accept) :=
  if t = "-" then some ([], .again)
  else if t = "all" then some ([], .all)
  else do
    let l ← (t.splitOn ",").mapM fun a =>
      if a = "all" then some Accept.all else if a = "again" then some Accept.again
      else if a = "err" then some Accept.hard else none
    pure (l, .again)

def step (d : DS) (line : String) : DS × String :=
  let toks := line.splitOn " "
  match toks with
  | "pe" :: rest =>
    -- recorded parser events of the coming op (no output line)
    let ev : Option PEv := match rest with
      | ["open", n, id] => do
        let n ← Hex.toBytes n
        let id ← Hex.toOptBytes id
        pure (PEv.open_ n id)
      | "stanza" :: _ => (XTreeSyntax.parse (String.ofList (line.toList.drop 10))).map PEv.stanza
      | ["end"] => some PEv.end_
      | ["error"] => some PEv.error
      | _ => none
    match ev with
    | some e => ({ d with pend := d.pend ++ [e] }, "")
    | none => ({ d with bad := true }, "")
  | ["new", j, p, f, t, cert] =>
    match Hex.toOptBytes j, Hex.toOptBytes p, f.toNat? with
    | some j, some p, some f =>
      let c0 : Conn := { jid := j, pass := p, cert := cert ≠ "0" }
      let (c1, rc) := setFlags c0 f
      finish { d with exists_ := true, released := false, ctypeTok := t } c1 s!"rc {rc}"
    | _, _, _ => (d, "= bad-op")
  | _ =>
    if !d.exists_ || d.released then (d, "= bad-op") else
    let c := d.c
    match toks with
    | ["connect"] =>
      let (c1, rc) := if d.ctypeTok = "k" then connectComponent c
        else if d.ctypeTok = "r" then connectRaw c else connectClient c
      finish d c1 s!"rc {rc}"
    | ["connect", k] =>
      let (c1, rc) := if k = "k" then connectComponent c
        else if k = "r" then connectRaw c else connectClient c
      finish d c1 s!"rc {rc}"
    | ["run"] => finish d (runOnce c .none) "ran"
    | ["rx", h] =>
      match Hex.toBytes h with
      | some bs => finish d (runOnce c (if bs.isEmpty then .none else .data d.pend)) "ran"
      | none => (d, "= bad-op")
    | ["eof"] => finish d (runOnce c .eof) "ran"
    | ["ioerr"] => finish d (runOnce c .ioerr) "ran"
    | ["tcpfail", n] => finish d { c with tcpFail := n ≠ "0" } "ok"
    | ["tcperr", n] => finish d { c with tcpErr := n ≠ "0" } "ok"
    | ["tls", m] => finish d { c with tlsStartFail := m = "fail", tlsNewFail := m = "nonew" } "ok"
    | ["wr", s] =>
      match parseSched s with
      | some (l, dflt) => finish d { c with sched := l, schedDefault := dflt } "ok"
      | none => (d, "= bad-op")
    | ["tick", ms] =>
      match ms.toNat? with
      | some n => finish d { c with now := c.now + n } "ok"
      | none => (d, "= bad-op")
    | ["usend", id] => finish d (xmppSend c (.user (b "message") (some id.toUTF8.toList))) "ok"
    | ["uraw", h] =>
      match Hex.toBytes h with
      | some p => finish d (xmppSendRaw c (classifyUser p)) "ok"
      | none => (d, "= bad-op")
    | ["urawstr", h] =>
      match Hex.toBytes h with
      | some p => finish d (xmppSendRawString c (classifyUser p)) "ok"
      | none => (d, "= bad-op")
    | ["onconnect", n] => finish d { c with sendOnConnect := n ≠ "0" } "ok"
    | ["althost", _] => finish d c "ok"        -- where to connect to: not what the stream is about
    | ["udisc"] => finish d (xmppDisconnect c) "ok"
    | ["utls"] =>
      if c.state ≠ .connected || c.hasTls then finish d c "rc skipped"
      else
        let rc : Int := if c.tlsDisabled then -2 else if c.tlsNewFail then -1 else if c.tlsStartFail then -3 else 0
        finish d (connTlsStart c).1 s!"rc {rc}"
    | ["setflags", n] =>
      match n.toNat? with
      | some f => let (c1, rc) := setFlags c f; finish d c1 s!"rc {rc} flags {getFlags c1}"
      | none => (d, "= bad-op")
    | ["release"] => finish { d with released := true } (release c) "rc 1"
    | ["uhandlers"] =>
      let c1 := addIdHandler (addHandler c .userAll 0 none none none true) .userAll (b "uid1") true
      finish d (addTimed c1 .userTimed 1000 true) "ok"
    | ["smcb"] => finish d { c with smCallback := true } "ok"
    | _ => (d, "= bad-op")

partial def run (i o : IO.FS.Stream) : IO Unit := do
  let rec loop (s : DS) : IO Unit := do
    let line ← i.getLine
    if line.isEmpty then return ()
    let l := line.trimAscii.toString
    if l.isEmpty || l.startsWith "#" then loop s
    else if l == "case" then
      o.putStrLn "= case"
      loop {}
    else
      let (s', out) := step s l
      if !out.isEmpty then o.putStrLn out
      loop s'
  loop {}

end Strophe.Drv.Conn
