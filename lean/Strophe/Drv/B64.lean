import Strophe.Model.Base64
namespace Strophe.Drv.B64
open Strophe

def step (line : String) : String :=
  match line.trimAscii.toString.splitOn " " with
  | ["enc", h] =>
    match Hex.toBytes h with
    | some b => "= ok " ++ Hex.ofBytes (Base64.encode b)
    | none => "= bad-op"
  | ["decbin", h] =>
    match Hex.toBytes h with
    | some b =>
      match Base64.decodeBin b with
      | some (w, n) => s!"= ok {Hex.ofBytes w} {n}"
      | none => "= null"
    | none => "= bad-op"
  | ["decstr", h] =>
    match Hex.toBytes h with
    | some b =>
      match Base64.decodeStr b with
      | some w => s!"= ok {Hex.ofBytes w}"
      | none => "= null"
    | none => "= bad-op"
  | _ => "= bad-op"

end Strophe.Drv.B64
