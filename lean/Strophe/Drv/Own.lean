/-
Driver engine `own` (C12): the Lean side of harness/eng_own.c — same line protocol, same refusals,
computed from `Model/Store.lean`.  Not part of any proof.
-/
import Strophe.Drv.Common
import Strophe.Drv.Stz
import Strophe.Model.Store

namespace Strophe.Drv.Own
open Strophe Strophe.Stanza Strophe.Store

/-- `h<digits>[/<digits>]*` with slot number below 32 -/
def parseTarget (tok : String) : Option Tgt :=
  match tok.toList with
  | 'h' :: rest =>
    let parts := (String.ofList rest).splitOn "/"
    if parts.all fun p => !p.isEmpty && p.all Char.isDigit then
      match parts.map String.toNat! with
      | v :: path => if v < nslots then some ⟨v, path⟩ else none
      | [] => none
    else none
  | _ => none

def parseSlot (tok : String) : Option Nat :=
  match parseTarget tok with
  | some ⟨v, []⟩ => some v
  | _ => none

def hexOpt (o : Option Bytes) : String := Hex.optOfBytes o

mutual
/-- the `dump` line: the tree with the reference count of every node -/
def dumpH : Nat → Mem → Nat → String
  | 0, _, _ => "!fuel!"
  | f + 1, m, s =>
    let n := m.get s
    let kids := dumpKidsH f m n.children
    match n.kind, n.data with
    | .text, d => "'" ++ hexOpt d ++ "'#" ++ toString n.ref ++ (if n.children.isNone then "" else "[" ++ kids ++ "]")
    | .tag, d =>
      let t : Tree := .tag [] n.attrs []
      let sorted := ((attrPairs t).take (attrCount t)).foldr Stz.insertPair []
      "(" ++ hexOpt d ++ "#" ++ toString n.ref ++ "{" ++
        Stz.joinWith "," (sorted.map fun p => Hex.ofBytes p.1 ++ "=" ++ hexOpt p.2) ++ "}[" ++ kids ++ "])"
    | .unknown, _ => "?#" ++ toString n.ref ++ (if n.children.isNone then "" else "[" ++ kids ++ "]")
def dumpKidsH : Nat → Mem → Option Nat → String
  | _, _, none => ""
  | 0, _, some _ => "!fuel!"
  | f + 1, m, some c =>
    let n := m.get c
    dumpH f m c ++ (if n.next.isNone then "" else "," ++ dumpKidsH f m n.next)
end

def b01 (o : Option Nat) : String := if o.isSome then "1" else "0"

def faultStr : Fault → String
  | .uaf p => s!"= fault use-after-free node {p}"
  | .shape p => s!"= fault not-a-tree node {p}"
  | .diverge => "= fault diverge"

/-- run a model op and format its `=` line (`extra` formats the ops whose text the model does not carry) -/
def exec1 (st : St) (op : Op) (fmt : St → Out → String) : St × String :=
  match step st op with
  | .error f => (st, faultStr f)
  | .ok (st', out) =>
    match out with
    | .refused why => (st', "= err " ++ why)
    | _ => (st', fmt st' out ++ s!" live {st'.mem.blocks}")

def fmtStd (_ : St) : Out → String
  | .ok => "= ok"
  | .null => "= null"
  | .freed b => if b then "= freed 1" else "= freed 0"
  | .rc n => s!"= rc {n}"
  | .val v => "= val " ++ hexOpt v
  | .text (.ok (b, len)) => s!"= {Hex.ofBytes b} {len}"
  | .text (.error e) => s!"= err {e.code}"
  | .looked _ => "= looked"
  | .ended => "= end"
  | .refused why => "= err " ++ why

def stepS (st : St) (line : String) : St × String :=
  let bad := (st, "= err bad-op")
  let toks := line.splitOn " "
  if toks.length > 8 then bad else
  match toks with
  | ["end"] => exec1 st .endAll fmtStd
  | ["new", w] =>
    match parseSlot w with
    | some w => exec1 st (.new w) fmtStd
    | none => bad
  | ["clone", t, w] =>
    match parseSlot w, parseTarget t with
    | some w, some t => exec1 st (.clone t w) fmtStd
    | _, _ => bad
  | ["copy", t, w] =>
    match parseSlot w, parseTarget t with
    | some w, some t => exec1 st (.copy t w) fmtStd
    | _, _ => bad
  | ["rel", v] =>
    match parseSlot v with
    | some v => exec1 st (.rel v) fmtStd
    | none => bad
  | ["relkeep", v] =>
    match parseSlot v with
    | some v => exec1 st (.relkeep v) fmtStd
    | none => bad
  | ["add", t, c] =>
    match parseSlot c, parseTarget t with
    | some c, some t => exec1 st (.add t c) fmtStd
    | _, _ => bad
  | ["addx", t, c] =>
    match parseSlot c, parseTarget t with
    | some c, some t => exec1 st (.addx t c) fmtStd
    | _, _ => bad
  | ["name", t, h] =>
    match Hex.toBytes h, parseTarget t with
    | some b, some t => exec1 st (.name t (cstr b)) fmtStd
    | _, _ => bad
  | ["text", t, h] =>
    match Hex.toBytes h, parseTarget t with
    | some b, some t => exec1 st (.text t (cstr b)) fmtStd
    | _, _ => bad
  | ["textz", t, h] =>
    match Hex.toBytes h, parseTarget t with
    | some b, some t => exec1 st (.text t (cstr b)) fmtStd
    | _, _ => bad
  | ["attr", t, hk, hv] =>
    match Hex.toBytes hk, Hex.toBytes hv, parseTarget t with
    | some k, some v, some t => exec1 st (.attr t (cstr k) (cstr v)) fmtStd
    | _, _, _ => bad
  | ["ns", t, h] =>
    match Hex.toBytes h, parseTarget t with
    | some b, some t => exec1 st (.attr t xmlnsKey (cstr b)) fmtStd
    | _, _ => bad
  | ["delattr", t, h] =>
    match Hex.toBytes h, parseTarget t with
    | some b, some t => exec1 st (.delattr t (cstr b)) fmtStd
    | _, _ => bad
  | ["getattr", t, h] =>
    match Hex.toBytes h, parseTarget t with
    | some b, some t => exec1 st (.getattr t (cstr b)) fmtStd
    | _, _ => bad
  | ["gettext", t] =>
    match parseTarget t with
    | some t => exec1 st (.gettext t) fmtStd
    | none => bad
  | ["reply", t, w] =>
    match parseSlot w, parseTarget t with
    | some w, some t => exec1 st (.reply t w) fmtStd
    | _, _ => bad
  | ["replyerr", t, w, ht, hc, hx] =>
    match parseSlot w, Hex.toOptBytes ht, Hex.toOptBytes hc, Hex.toOptBytes hx, parseTarget t with
    | some w, some et, some cond, some tx, some t =>
      exec1 st (.replyerr t w (et.map cstr) (cond.map cstr) (tx.map cstr)) fmtStd
    | _, _, _, _, _ => bad
  | ["errnew", ty, hx, w] =>
    match Stz.parseInt ty, Hex.toOptBytes hx, parseSlot w with
    | some ty, some tx, some w =>
      if ty < -1000 || ty > 1000 then bad else exec1 st (.errnew ty (tx.map cstr) w) fmtStd
    | _, _, _ => bad
  | ["parse", h, w] =>
    match Hex.toBytes h, parseSlot w with
    | some b, some w => exec1 st (.parse (cstr b) w) fmtStd
    | _, _ => bad
  | ["render", t] =>
    match parseTarget t with
    | some t => exec1 st (.render t) fmtStd
    | none => bad
  | ["dump", t] =>
    match parseTarget t with
    | none => bad
    | some t =>
      exec1 st (.look t) fun st' _ =>
        match resolve st' t with
        | .ok (.ok s) => "= tree " ++ dumpH st'.mem.fuel st'.mem s
        | _ => "= tree ?"
  | ["stat", t] =>
    match parseTarget t with
    | none => bad
    | some t =>
      exec1 st (.look t) fun st' _ =>
        match resolve st' t with
        | .ok (.ok s) =>
          let n := st'.mem.get s
          s!"= node ref {n.ref} par {b01 n.parent} prev {b01 n.prev} next {b01 n.next} kids {b01 n.children}"
        | _ => "= node ?"
  | ["zround", h] =>
    match Hex.toBytes h with
    | some _ => (st, s!"= zround ok live {st.mem.blocks}")
    | none => bad
  | ["ctx2", h] =>
    match Hex.toBytes h with
    | some b =>
      (st, (if (Stanza.fromString (cstr b)).isSome then "= ctx2 ok" else "= ctx2 null") ++ s!" live {st.mem.blocks}")
    | none => bad
  | _ => bad

/-- driver state: the model state plus the bookkeeping of the connection-object ops, which have no model
    (their blocks are kept out of `live` by the harness): per connection slot `some hasState`, per state
    slot whether it is occupied -/
structure DSt where
  st : St
  conns : List (Option Bool)
  sms : List Bool

def DSt.init : DSt := ⟨St.init, List.replicate 4 none, List.replicate 4 false⟩

def smallSlot (tok : String) (pfx : Char) : Option Nat :=
  match tok.toList with
  | [p, d] => if p = pfx ∧ '0' ≤ d ∧ d < '4' then some (d.toNat - 48) else none
  | _ => none

def digit1 (tok : String) : Option Nat :=
  match tok.toList with
  | [d] => if d.isDigit then some (d.toNat - 48) else none
  | _ => none

def step (d : DSt) (line : String) : DSt × String :=
  let bad := (d, "= err bad-op")
  let live := s!" live {d.st.mem.blocks}"
  match line.splitOn " " with
  | ["gth", n, k] =>
    match digit1 n, digit1 k with
    | some n, some k => if n > 8 || k > n then bad else (d, "= gth" ++ live)
    | _, _ => bad
  | ["cnew", c] =>
    match smallSlot c 'c' with
    | none => bad
    | some c =>
      if (d.conns.getD c none).isSome then (d, "= err busy")
      else ({ d with conns := d.conns.set c (some false) }, "= ok" ++ live)
  | ["crestore", c, h] =>
    match smallSlot c 'c', Hex.toBytes h with
    | some c, some _ =>
      match d.conns.getD c none with
      | none => (d, "= err novar")
      | some true => (d, "= rc -2" ++ live)
      | some false => ({ d with conns := d.conns.set c (some true) }, "= rc 0" ++ live)
    | _, _ => bad
  | ["smget", c, v] =>
    match smallSlot c 'c', smallSlot v 's' with
    | some c, some v =>
      match d.conns.getD c none with
      | none => (d, "= err novar")
      | some has =>
        if d.sms.getD v false then (d, "= err busy")
        else if has then ({ d with conns := d.conns.set c (some false), sms := d.sms.set v true }, "= ok" ++ live)
        else (d, "= null" ++ live)
    | _, _ => bad
  | ["smset", c, v] =>
    match smallSlot c 'c', smallSlot v 's' with
    | some c, some v =>
      match d.conns.getD c none, d.sms.getD v false with
      | some has, true =>
        if has then (d, "= rc -2" ++ live)
        else ({ d with conns := d.conns.set c (some true), sms := d.sms.set v false }, "= rc 0" ++ live)
      | _, _ => (d, "= err novar")
    | _, _ => bad
  | ["smfree", v] =>
    match smallSlot v 's' with
    | none => bad
    | some v =>
      if d.sms.getD v false then ({ d with sms := d.sms.set v false }, "= ok" ++ live) else (d, "= err novar")
  | ["crel", c] =>
    match smallSlot c 'c' with
    | none => bad
    | some c =>
      match d.conns.getD c none with
      | none => (d, "= err novar")
      | some _ => ({ d with conns := d.conns.set c none }, "= freed 1" ++ live)
  | ["end"] =>
    let (st', out) := stepS d.st line
    ({ DSt.init with st := st' }, out)
  | _ =>
    let (st', out) := stepS d.st line
    ({ d with st := st' }, out)

def run (i o : IO.FS.Stream) : IO Unit := Drv.runStateful DSt.init step i o

end Strophe.Drv.Own
