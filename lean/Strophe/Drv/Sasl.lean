/-
Driver engine `sasl` (C07).  Line protocol: see harness/eng_sasl.c (both sides print the same
`=` line per op).  C-string arguments are cut at the first NUL, as the C code sees them.
  plain Hauthid Hpass                          -> = ok H
  digest Hchal|- Hjid Hpass Hrnd               -> = ok H | = null | = crash site
  digestx Htext|- Hjid Hpass Hrnd              -> = resp H | = memerr | = crash site
  scram alg Hcb Hchal Hfirstbare Hpass         -> = ok H | = null | = abort site
  scraminit alg sec Htype|- Hcb|- Hjid Hrnd    -> = ok Hmsg Hcbb64 off | = fail
  scramx alg sec Htype|- Hcb|- Hjid Hpass Hrnd Htext|-
                                               -> = fail | = ok Hmsg Hcbb64 off resp H | … memerr | = abort site
  hi|ckey alg Hpass Hsalt i                    -> = H | = abort site
  csig alg Hkey Hauth / cproof alg Hkey Hsig   -> = H
  hs Hid|- Hsecret                             -> = rc n Hwire|-
  legacy Hjid Hpass                            -> = iq … | = disc | = memerr
  auth mask legacy Hjid Hpass|- n Haddr0|-     -> (= mech Hname Htext|- | = iq … | = disc | = memerr) newmask
  nonce len Hrnd                               -> = H|-|. requested
  fresh n                                      -> = fresh n
-/
import Strophe.Model.Sasl
namespace Strophe.Drv.Sasl
open Strophe Strophe.Hash Strophe.Sasl

/-- a hex token as the C string the harness builds from it (`hcstr`) -/
def cstr (b : Bytes) : Bytes := b.takeWhile (· != 0)

def algByName : String → Option (Alg × Bool)
  | "sha1" => some (algSha1, false)
  | "sha256" => some (algSha256, false)
  | "sha512" => some (algSha512, false)
  | "sha1plus" => some (algSha1, true)
  | "sha256plus" => some (algSha256, true)
  | "sha512plus" => some (algSha512, true)
  | _ => none

def hexOpt : Option Bytes → String
  | none => "-"
  | some b => Hex.ofBytes b

def resLine {α : Type} (r : Res α) (f : α → String) : String :=
  match r with
  | .ok a => f a
  | .crash s => "= crash " ++ s
  | .abort s => "= abort " ++ s
  | .undef s => "= undef " ++ s

def okOrNull : Option Bytes → String
  | some b => "= ok " ++ Hex.ofBytes b
  | none => "= null"

def handledStr : Handled → String
  | .resp t => "resp " ++ Hex.ofBytes t
  | .memerr => "memerr"

def authOutStr : AuthOut → String
  | .mech n t => s!"= mech {Hex.ofBytes n} {hexOpt t}"
  | .iq ty id ns u p r =>
    s!"= iq {Hex.ofBytes ty} {Hex.ofBytes id} {Hex.ofBytes ns} {Hex.ofBytes u} {Hex.ofBytes p} {Hex.ofBytes r}"
  | .disc => "= disc"
  | .memerr => "= memerr"

/-- decimal, as accepted by the harness for iteration counts (fits a uint32_t) -/
def parseU32 (s : String) : Option Nat :=
  if s.isEmpty || !s.all Char.isDigit then none
  else match s.toNat? with
    | some v => if v < 2 ^ 32 then some v else none
    | none => none

def initStr (i : ScramInit) : String :=
  s!"= ok {Hex.ofBytes i.message} {Hex.ofBytes i.channelBinding} {i.firstBareOff}"

def step (line : String) : String :=
  match line.trimAscii.toString.splitOn " " with
  | ["plain", a, p] =>
    match Hex.toBytes a, Hex.toBytes p with
    | some a, some p => "= ok " ++ Hex.ofBytes (saslPlain (cstr a) (cstr p))
    | _, _ => "= bad-op"
  | ["digest", c, j, p, r] =>
    match Hex.toOptBytes c, Hex.toBytes j, Hex.toBytes p, Hex.toBytes r with
    | some c, some j, some p, some r =>
      resLine (digestMd5 (c.map cstr) (cstr j) (cstr p) r) okOrNull
    | _, _, _, _ => "= bad-op"
  | ["digestx", c, j, p, r] =>
    match Hex.toOptBytes c, Hex.toBytes j, Hex.toBytes p, Hex.toBytes r with
    | some c, some j, some p, some r =>
      resLine (handleDigestChallenge (c.map cstr) (cstr j) (cstr p) r) fun h => "= " ++ handledStr h
    | _, _, _, _ => "= bad-op"
  | ["scram", a, cb, ch, fb, p] =>
    match algByName a, Hex.toBytes cb, Hex.toBytes ch, Hex.toBytes fb, Hex.toBytes p with
    | some (alg, _), some cb, some ch, some fb, some p =>
      resLine (scramFinal alg (cstr cb) (cstr ch) (cstr fb) (cstr p)) okOrNull
    | _, _, _, _, _ => "= bad-op"
  | ["scraminit", a, sec, ty, cb, j, r] =>
    match algByName a, Hex.toOptBytes ty, Hex.toOptBytes cb, Hex.toBytes j, Hex.toBytes r with
    | some (_, plus), some ty, some cb, some j, some r =>
      if sec != "0" && sec != "1" then "= bad-op" else
      match scramInit plus (sec == "1") ⟨ty.map cstr, cb⟩ (cstr j) r with
      | none => "= fail"
      | some i => initStr i
    | _, _, _, _, _ => "= bad-op"
  | ["scramx", a, sec, ty, cb, j, p, r, t] =>
    match algByName a, Hex.toOptBytes ty, Hex.toOptBytes cb, Hex.toBytes j, Hex.toBytes p, Hex.toBytes r,
        Hex.toOptBytes t with
    | some (alg, plus), some ty, some cb, some j, some p, some r, some t =>
      if sec != "0" && sec != "1" then "= bad-op" else
      match scramInit plus (sec == "1") ⟨ty.map cstr, cb⟩ (cstr j) r with
      | none => "= fail"
      | some i =>
        resLine (handleScramChallenge alg i (t.map cstr) (cstr p)) fun h => initStr i ++ " " ++ handledStr h
    | _, _, _, _, _, _, _ => "= bad-op"
  | [op, a, p, s, i] =>
    if op != "hi" && op != "ckey" then "= bad-op" else
    match algByName a, Hex.toBytes p, Hex.toBytes s, parseU32 i with
    | some (alg, _), some p, some s, some i =>
      resLine (if op == "hi" then hi alg p s i else clientKey alg p s i) fun d =>
        "= " ++ Hex.ofBytes (d.take alg.digestSize)
    | _, _, _, _ => "= bad-op"
  | ["csig", a, k, m] =>
    match algByName a, Hex.toBytes k, Hex.toBytes m with
    | some (alg, _), some k, some m =>
      if k.length != alg.digestSize then "= bad-op" else
      resLine (clientSignature alg k m) fun d => "= " ++ Hex.ofBytes (d.take alg.digestSize)
    | _, _, _ => "= bad-op"
  | ["cproof", a, k, s] =>
    match algByName a, Hex.toBytes k, Hex.toBytes s with
    | some (alg, _), some k, some s =>
      if k.length != alg.digestSize || s.length != alg.digestSize then "= bad-op" else
      "= " ++ Hex.ofBytes (clientProof alg k s)
    | _, _, _ => "= bad-op"
  | ["hs", id, sec] =>
    match Hex.toOptBytes id, Hex.toBytes sec with
    | some id, some sec =>
      match componentHandshake (id.map cstr) (cstr sec) with
      | .ok w => "= rc 0 " ++ Hex.ofBytes w
      | .error rc => s!"= rc {rc} -"
    | _, _ => "= bad-op"
  | ["legacy", j, p] =>
    match Hex.toBytes j, Hex.toBytes p with
    | some j, some p => authOutStr (legacyAuth (cstr j) (cstr p))
    | _, _ => "= bad-op"
  | ["auth", mask, legacy, j, p, n, x] =>
    match mask.toNat?, legacy.toNat?, Hex.toBytes j, Hex.toOptBytes p, n.toNat?, Hex.toOptBytes x with
    | some mask, some legacy, some j, some p, some n, some x =>
      if mask / 128 != 0 || mask / 2 % 2 != 0 || mask / 8 % 8 != 0 then "= bad-op" else
      let (o, m) := authFirst mask (legacy != 0) (cstr j) (p.map cstr) n (x.map cstr)
      s!"{authOutStr o} {m}"
    | _, _, _, _, _, _ => "= bad-op"
  | ["nonce", len, r] =>
    match len.toNat?, Hex.toBytes r with
    | some len, some r =>
      match randNonce len r with
      | none => "= - 0"
      | some s => s!"= {Hex.ofBytes s} {len / 2}"
    | _, _ => "= bad-op"
  | ["fresh", n] =>
    match n.toNat? with
    | some k => s!"= fresh {if k < 1 || k > 4096 then 1 else k}"
    | none => "= fresh 1"
  | _ => "= bad-op"

end Strophe.Drv.Sasl
