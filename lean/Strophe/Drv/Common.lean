/-
Line-protocol loops shared by all driver engines.  Not part of any proof.
-/
namespace Strophe.Drv

/-- stateless engine: one output line per input line -/
partial def runStateless (f : String → String) (i o : IO.FS.Stream) : IO Unit := do
  let line ← i.getLine
  if line.isEmpty then return ()
  let l := line.trimAscii.toString
  if l.isEmpty || l.startsWith "#" then
    runStateless f i o
  else
    o.putStrLn (f l)
    runStateless f i o

/-- stateful engine: the line `case` resets the state (and answers `= case`); every other line is
    one op and yields the new state and the output text (which may consist of several lines, the
    last of which starts with `=`). -/
partial def runStateful {σ : Type} (init : σ) (step : σ → String → σ × String)
    (i o : IO.FS.Stream) : IO Unit := do
  let rec loop (s : σ) : IO Unit := do
    let line ← i.getLine
    if line.isEmpty then return ()
    let l := line.trimAscii.toString
    if l.isEmpty || l.startsWith "#" then loop s
    else if l == "case" then
      o.putStrLn "= case"
      loop init
    else
      let (s', out) := step s l
      o.putStrLn out
      loop s'
  loop init

end Strophe.Drv
