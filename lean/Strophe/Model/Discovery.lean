/-
Model of server discovery (C14): src/sock.c `sock_new`, `sock_getaddrinfo`, `sock_connect`,
`sock_connect_error`; src/resolver.c `resolver_srv_lookup` (its decoder is Model/Resolver.lean);
src/event.c `_connect_next` and the XMPP_STATE_CONNECTING branches of `xmpp_run_once`;
src/conn.c `xmpp_connect_client` / `xmpp_connect_raw` / `xmpp_connect_component`, `_conn_connect`,
`_conn_default_port`, `conn_established`, `conn_disconnect` (as far as discovery is concerned).

External engines are parameters (`Env`): what the DNS server answers to the SRV question, what
`getaddrinfo` answers per host name, and how the kernel/peer treats a `connect(2)` to an endpoint.

Cursor representation.  `srv_rr_cur` is the *suffix* of the SRV list starting at the cursor
(`[]` = NULL), `ainfo_cur` the suffix of the current `getaddrinfo` result.  The lists
`srv_rr_list` / `ainfo_list` themselves only matter for freeing and are not kept.

Loop structure of `sock_connect` (code after commit d125b74):

    do {
        while (!ainfo_cur && srv_rr_cur) { sock_getaddrinfo(); srv_rr_cur = srv_rr_cur->next; }
        if (!ainfo_cur) return INVALID_SOCKET;
        … socket(), connect() to ainfo_cur …; ainfo_cur = ainfo_cur->ai_next;
    } while (sock == INVALID_SOCKET);

`tryAddrs` is the run of do/while iterations that start with `ainfo_cur != NULL` (one per
address, ending at the first `connect` that does not fail synchronously); `sockConnectGo` is the
iteration that starts with `ainfo_cur == NULL`: it reloads from the SRV cursor (structural
recursion on the cursor) and continues.  `fixed = false` is the loop as it was before d125b74
(`if (!ainfo_cur) { sock_getaddrinfo(); if (srv_rr_cur) srv_rr_cur = next; }` — a single reload),
kept only to state the D18 witness; the model of the current code is `fixed = true`.

Time is a `Nat` of milliseconds (`time_stamp()`); the clock never runs backwards, so the
`uint64_t` subtraction of `time_elapsed` is truncated subtraction here.
Allocation failures are not modelled.
-/
import Strophe.Util.Hex
import Strophe.Gen.Disc
import Strophe.Gen.Resolver
import Strophe.Model.Resolver
import Strophe.Model.Jid

namespace Strophe.Discovery
open Strophe.Gen Strophe.Gen.Disc

abbrev Host := Bytes

/-- a socket address without its port: family (4 | 6) and an opaque identity -/
structure Addr where
  fam : Nat
  id : Nat
  deriving DecidableEq, Repr

/-- (address, port): what `connect(2)` is given -/
abbrev Endpoint := Addr × Nat

/-- how the kernel / the peer treats a non-blocking `connect(2)` to an endpoint -/
inductive Beh where
  | refuse    -- connect() fails synchronously with something other than EINPROGRESS
  | late      -- EINPROGRESS; the socket becomes writable and sock_connect_error() ≠ 0
  | hang      -- EINPROGRESS; never becomes writable
  | accept    -- EINPROGRESS; becomes writable, getpeername() succeeds
  | accept0   -- connect() returns 0 at once; then as `accept`
  deriving DecidableEq, Repr

/-- `rc != 0 && !_in_progress(errno)`: the attempt is over when `connect` returns -/
def Beh.sync : Beh → Bool
  | .refuse => true
  | _ => false

/-- `select` reports the descriptor writable -/
def Beh.writable : Beh → Bool
  | .late | .accept | .accept0 => true
  | _ => false

/-- `sock_connect_error() == 0` -/
def Beh.ok : Beh → Bool
  | .accept | .accept0 => true
  | _ => false

abbrev Srv := Resolver.Rr Host

/-- the external engines -/
structure Env where
  /-- what `resolver_srv_lookup` returns: `none` = XMPP_DOMAIN_NOT_FOUND, `some l` = the sorted list -/
  srv : Option (List Srv)
  /-- `getaddrinfo(host)`: addresses in resolver order, `[]` = failure -/
  addrs : Host → List Addr
  beh : Endpoint → Beh

/-- `resolver_srv_lookup` on top of the decoder: `res_query` fails (`len <= 0`, `none`) or yields a
    response that `resolver_srv_lookup_buf` decodes and sorts -/
def srvLookup (answer : Option Bytes) : Option (List Srv) :=
  match answer with
  | none => none
  | some pkt =>
    if pkt.length = 0 then none else
    match Resolver.lookupBuf pkt with
    | .found l => some l
    | _ => none

/-- observable library calls -/
inductive Act where
  | gai (host : Host) (port : Nat)     -- getaddrinfo(host, "port")
  | try_ (e : Endpoint)                -- connect(2)
  deriving DecidableEq, Repr

/-- the `connect(2)` targets among the calls -/
def attempts : List Act → List Endpoint
  | [] => []
  | .try_ e :: r => e :: attempts r
  | .gai _ _ :: r => attempts r

/-- the `getaddrinfo` calls -/
def resolutions : List Act → List (Host × Nat)
  | [] => []
  | .gai h p :: r => (h, p) :: resolutions r
  | .try_ _ :: r => resolutions r

/-- `xmpp_sock_t` -/
structure Sock where
  srvCur : List Srv
  ainfoCur : List Endpoint
  deriving Repr

/-- the addresses `getaddrinfo(target, port)` yields for one SRV record -/
def endpointsOf (env : Env) (r : Srv) : List Endpoint := (env.addrs r.target).map fun a => (a, r.port)

/-- `sock_getaddrinfo`: drop the old list; resolve the record under the cursor if there is one -/
def sockGetaddrinfo (env : Env) (xs : Sock) : Sock × List Act :=
  match xs.srvCur with
  | [] => ({ xs with ainfoCur := [] }, [])
  | r :: _ => ({ xs with ainfoCur := endpointsOf env r }, [.gai r.target r.port])

/-- the record `resolver_srv_rr_new(ctx, host, port, 0, 0)`: `snprintf(target, MAX_DOMAIN_LEN, "%s")` truncates -/
def rrNew (host : Host) (port : Nat) : Srv := ⟨0, 0, port, host.take (maxDomainLen - 1)⟩

/-- the SRV list `sock_new` works with, and whether the SRV lookup was performed -/
def targets (env : Env) (domain : Host) (host : Option Host) (port : Nat) : List Srv × Bool :=
  match host with
  | none =>
    match env.srv with
    | some l => (l, true)
    | none => ([rrNew domain port], true)      -- "SRV lookup failed, connecting via domain."
  | some h => ([rrNew h port], false)

/-- `sock_new(conn, domain, host, port)`: result, "res_query was called", calls made -/
def sockNew (env : Env) (domain : Host) (host : Option Host) (port : Nat) : Sock × Bool × List Act :=
  let t := targets env domain host port
  let r := sockGetaddrinfo env ⟨t.1, []⟩
  ({ r.1 with srvCur := r.1.srvCur.tail }, t.2, r.2)

/-- the do/while iterations of `sock_connect` that start with `ainfo_cur != NULL`:
    (endpoints passed to connect, the descriptor kept, `ainfo_cur` afterwards) -/
def tryAddrs (beh : Endpoint → Beh) : List Endpoint → List Endpoint × Option Endpoint × List Endpoint
  | [] => ([], none, [])
  | ep :: rest =>
    if (beh ep).sync then
      let r := tryAddrs beh rest
      (ep :: r.1, r.2.1, r.2.2)
    else ([ep], some ep, rest)

/-- `sock_connect` from the state (`ainfo_cur`, `srv_rr_cur`) -/
def sockConnectGo (fixed : Bool) (env : Env) (ainfo : List Endpoint) (srv : List Srv) :
    Sock × Option Endpoint × List Act :=
  match tryAddrs env.beh ainfo with
  | (tried, some ep, rest) => (⟨srv, rest⟩, some ep, tried.map .try_)
  | (tried, none, _) =>
    -- `ainfo_cur == NULL`: reload from the SRV cursor
    match srv with
    | [] => (⟨[], []⟩, none, tried.map .try_)
    | r :: srv' =>
      if !fixed && (endpointsOf env r).isEmpty then
        -- before d125b74: one reload only, "We tried all available addresses."
        (⟨srv', []⟩, none, tried.map .try_ ++ [.gai r.target r.port])
      else
        let res := sockConnectGo fixed env (endpointsOf env r) srv'
        (res.1, res.2.1, tried.map .try_ ++ .gai r.target r.port :: res.2.2)

/-- `sock_connect(xsock)`: new cursor, descriptor (`none` = INVALID_SOCKET), calls made -/
def sockConnect (fixed : Bool) (env : Env) (xs : Sock) : Sock × Option Endpoint × List Act :=
  sockConnectGo fixed env xs.ainfoCur xs.srvCur

/-! ### connection object -/

inductive St where
  | disconnected | connecting | connected
  deriving DecidableEq, Repr

/-- error handed to the XMPP_CONN_DISCONNECT notification -/
inductive DiscErr where
  | timeout                 -- ETIMEDOUT
  | connectNext             -- `conn->error = ret` with `ret = _connect_next() = -1`
  deriving DecidableEq, Repr

inductive Ev where
  | rawConnect              -- XMPP_CONN_RAW_CONNECT
  | disconnect (e : DiscErr)
  deriving DecidableEq, Repr

structure Conn where
  state : St := .disconnected
  xsock : Option Sock := none
  /-- the endpoint `conn->sock` was connected to (`none` = INVALID_SOCKET) -/
  sock : Option Endpoint := none
  /-- `timeout_stamp` -/
  stamp : Nat := 0
  isRaw : Bool := false
  deriving Repr

inductive Kind where
  | raw | client | component
  deriving DecidableEq, Repr

/-- arguments of the connect call and the configuration it reads -/
structure Cfg where
  kind : Kind
  jid : Bytes
  althost : Option Host      -- altdomain / server
  altport : Nat              -- 0 = not given
  flags : Nat                -- as accepted by xmpp_conn_set_flags
  deriving Repr

def Cfg.legacy (c : Cfg) : Bool := c.flags &&& flagLegacySsl != 0

/-- `_conn_default_port` -/
def defaultPort (legacy : Bool) (component : Bool) : Nat :=
  if component then portComponent else if legacy then portClientLegacySsl else portClient

/-- the host / port arguments `xmpp_connect_client` / `xmpp_connect_component` hand to `sock_new` -/
def Cfg.host (c : Cfg) : Option Host :=
  match c.kind with
  | .component => c.althost
  | _ => if c.legacy && c.althost.isNone then some (Jid.domain c.jid) else c.althost

def Cfg.port (c : Cfg) : Nat :=
  if c.altport ≠ 0 then c.altport else defaultPort c.legacy (c.kind == .component)

/-- `xmpp_connect_component`'s own checks: server given; forcing DISABLE_TLS must not conflict -/
def Cfg.componentError (c : Cfg) : Option Nat :=
  if c.althost.isNone then some negEINVOP
  else if c.flags &&& (flagMandatoryTls + flagLegacySsl + flagTrustTls) != 0 then some negEINT
  else none

/-- result of a connect call: negated return code (0 = XMPP_EOK), "res_query called", calls -/
structure Started where
  conn : Conn
  negRc : Nat
  queried : Bool
  acts : List Act
  deriving Repr

/-- `_conn_connect` after `sock_new` -/
def connConnect (fixed : Bool) (env : Env) (now : Nat) (c : Conn) (xs : Sock) (raw queried : Bool)
    (acts0 : List Act) : Started :=
  if c.state != .disconnected then
    ⟨{ c with xsock := some xs, isRaw := raw }, negEINVOP, queried, acts0⟩
  else
    let r := sockConnect fixed env xs
    match r.2.1 with
    | none => ⟨{ c with xsock := some r.1, sock := none, isRaw := raw }, negEINT, queried, acts0 ++ r.2.2⟩
    | some ep =>
      ⟨{ state := .connecting, xsock := some r.1, sock := some ep, stamp := now, isRaw := raw },
       0, queried, acts0 ++ r.2.2⟩

/-- `xmpp_connect_raw` / `xmpp_connect_client` / `xmpp_connect_component` (jid and password set) -/
def connect (fixed : Bool) (env : Env) (now : Nat) (c : Conn) (cfg : Cfg) : Started :=
  match cfg.kind, cfg.componentError with
  | .component, some e => ⟨c, e, false, []⟩
  | _, _ =>
    let raw := cfg.kind == .raw
    let s := sockNew env (Jid.domain cfg.jid) cfg.host cfg.port
    connConnect fixed env now c s.1 raw s.2.1 s.2.2

/-- `_connect_next`: close the descriptor, `sock_connect`; `true` = got a new descriptor -/
def connectNext (fixed : Bool) (env : Env) (now : Nat) (c : Conn) : Conn × Bool × List Act :=
  match c.xsock with
  | none => ({ c with sock := none }, false, [])
  | some xs =>
    let r := sockConnect fixed env xs
    match r.2.1 with
    | none => ({ c with xsock := some r.1, sock := none }, false, r.2.2)
    | some ep => ({ c with xsock := some r.1, sock := some ep, stamp := now }, true, r.2.2)

/-- `conn_disconnect` (no TLS, descriptor closed) -/
def disconnect (c : Conn) : Conn := { c with state := .disconnected, sock := none }

/-- `conn_established`: a raw connection notifies the handler, otherwise the stream header is queued -/
def established (c : Conn) : List Ev := if c.isRaw then [.rawConnect] else []

/-- one call of `xmpp_run_once` at time `now` for a context holding this one connection:
    new state, library calls, notifications -/
def runOnce (fixed : Bool) (env : Env) (now : Nat) (c : Conn) : Conn × List Act × List Ev :=
  match c.state with
  | .connecting =>
    -- "find events to watch": make sure the timeout hasn't expired
    let p1 : Conn × Bool × List Act :=
      if now - c.stamp ≤ connectTimeout then (c, true, [])
      else connectNext fixed env now c
    if !p1.2.1 then
      (disconnect p1.1, p1.2.2, [.disconnect .timeout])
    else
      -- select(): is the descriptor writable?
      match p1.1.sock with
      | none => (p1.1, p1.2.2, [])
      | some ep =>
        if !(env.beh ep).writable then (p1.1, p1.2.2, [])
        else if (env.beh ep).ok then
          ({ p1.1 with state := .connected }, p1.2.2, established p1.1)
        else
          -- "connection failed"
          let p2 := connectNext fixed env now p1.1
          if p2.2.1 then (p2.1, p1.2.2 ++ p2.2.2, [])
          else (disconnect p2.1, p1.2.2 ++ p2.2.2, [.disconnect .connectNext])
  | _ => (c, [], [])

/-! ### a whole discovery: one connect call on a fresh connection, then loop iterations -/

/-- everything observed so far -/
structure Run where
  conn : Conn
  now : Nat
  acts : List Act
  evs : List Ev
  deriving Repr

/-- loop iterations; each tick advances the clock first -/
def runTicks (fixed : Bool) (env : Env) : Run → List Nat → Run
  | r, [] => r
  | r, t :: ts =>
    let s := runOnce fixed env (r.now + t) r.conn
    runTicks fixed env ⟨s.1, r.now + t, r.acts ++ s.2.1, r.evs ++ s.2.2⟩ ts

structure Outcome where
  negRc : Nat
  queried : Bool
  run : Run
  deriving Repr

/-- connect on a fresh connection at time `t0`, then the loop at `t0 + ticks[0]`, … -/
def exec (fixed : Bool) (env : Env) (cfg : Cfg) (t0 : Nat) (ticks : List Nat) : Outcome :=
  let s := connect fixed env t0 {} cfg
  ⟨s.negRc, s.queried, runTicks fixed env ⟨s.conn, t0, s.acts, []⟩ ticks⟩

/-- all candidates in the order the property prescribes: targets in list order, for each target
    its addresses in resolver order -/
def candidates (env : Env) (cfg : Cfg) : List Endpoint :=
  (targets env (Jid.domain cfg.jid) cfg.host cfg.port).1.flatMap (endpointsOf env)

/-- a failure was reported: by the return code of the connect call or by a DISCONNECT notification -/
def Outcome.failed (o : Outcome) : Prop :=
  o.negRc ≠ 0 ∨ ∃ e, Ev.disconnect e ∈ o.run.evs

end Strophe.Discovery
