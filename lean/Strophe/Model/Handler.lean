/-
Model of src/handler.c (stanza / id / timed handler registration, deletion and dispatch), of the
id-handler table as far as handler.c uses it (src/hash.c: a finite map id → first list item, NULL when
absent) and of the places the library calls it from: `_handle_stream_stanza` (conn.c) calls
`handler_fire_stanza` for every received stanza, `xmpp_run_once` (event.c) calls `handler_fire_timed`
once per loop iteration, `_conn_reset` calls `handler_system_delete_all`, `xmpp_conn_release` frees
all three stores (`clearAll`).

Pointer-linked C lists are `List Item`; a C pointer to a list item is the item's allocation number
`uid` (never reused, so a pointer to a freed item can never become valid again — ASan's view of the
heap).  Wherever the C code dereferences an item pointer that it kept across a user callback, the
model looks the uid up in the CURRENT list and answers `Err.stale` when the item is gone: "the
dispatch loops never touch freed memory" is the theorem "`Err.stale` is unreachable", it is not
built into the model.

Handler behaviours are data: `Beh = Key → Nat → Step`; on its k-th invocation (counted per callback
function × user data) a handler performs the API calls `Step.acts` in order and returns
`Step.keep`.  Nothing else about a callback is assumed.

The loops `while (item) { if (gated or disabled or no match) { item = item->next; continue; } … }`
are modelled in two levels: the stretch between two callbacks is a pure walk over the current list
(`List.find?`), the callbacks are counted by a fuel equal to the length of the list when the loop
starts (`fuel_enough`: `Err.fuel` is unreachable, for every behaviour).
-/
import Strophe.Util.Hex

namespace Strophe.Handler

abbrev Str := Bytes

/-- a handler as the API identifies it: callback function × user data -/
structure Key where
  fn : Nat
  ud : Nat
  deriving DecidableEq, Repr, Inhabited

/-- the three optional filters of a stanza handler (`u.ns`, `u.name`, `u.type`; `none` = NULL) -/
structure Filter where
  ns : Option Str := none
  name : Option Str := none
  type : Option Str := none
  deriving DecidableEq, Repr, Inhabited

/-- what `handler_fire_stanza` reads of a stanza: `xmpp_stanza_get_id/ns/name/type` and the `xmlns`
    attribute of every direct child (`xmpp_stanza_get_child_by_ns`) -/
structure Stanza where
  name : Option Str := none
  ns : Option Str := none
  type : Option Str := none
  id : Option Str := none
  children : List (Option Str) := []
  deriving DecidableEq, Repr, Inhabited

/-- `xmpp_handlist_t` (the union members side by side) -/
structure Item where
  uid : Nat
  fn : Nat
  ud : Nat
  /-- `user_handler` -/
  user : Bool
  enabled : Bool
  flt : Filter := {}
  id : Str := []
  period : Nat := 0
  last : Nat := 0
  deriving DecidableEq, Repr, Inhabited

def Item.key (it : Item) : Key := ⟨it.fn, it.ud⟩

/-- the API calls a callback can make -/
inductive Act
  | add (c fn ud : Nat) (flt : Filter)          -- xmpp_handler_add
  | addId (c fn ud : Nat) (id : Str)            -- xmpp_id_handler_add
  | addTimed (c fn ud period : Nat)             -- xmpp_timed_handler_add
  | addGlobal (fn ud period : Nat)              -- xmpp_global_timed_handler_add
  | del (c fn : Nat)                            -- xmpp_handler_delete
  | delId (c fn : Nat) (id : Str)               -- xmpp_id_handler_delete
  | delTimed (c fn : Nat)                       -- xmpp_timed_handler_delete
  | delGlobal (fn : Nat)                        -- xmpp_global_timed_handler_delete
  | send (c : Nat)                              -- xmpp_send_raw_string
  | tick (n : Nat)                              -- time passes while the callback runs
  deriving DecidableEq, Repr

structure Step where
  keep : Bool := true
  acts : List Act := []
  deriving DecidableEq, Repr, Inhabited

abbrev Beh := Key → Nat → Step

/-- which callback type was invoked -/
inductive Cls
  | stanza | timed | global
  deriving DecidableEq, Repr

/-- one callback invocation (the log the harness prints, plus ghost fields `uid`, `ret`) -/
structure Inv where
  cls : Cls
  conn : Nat
  fn : Nat
  ud : Nat
  /-- the stanza's name as the callback sees it (stanza class) -/
  name : Option Str := none
  /-- virtual time at the call -/
  time : Nat := 0
  /-- ghost: allocation number of the list item that was invoked -/
  uid : Nat
  /-- ghost: what the callback returned -/
  ret : Bool
  /-- ghost: the item's `last_stamp` and `period` as the loop read them (timed classes) -/
  last : Nat := 0
  period : Nat := 0
  deriving DecidableEq, Repr

structure Conn where
  /-- `state == XMPP_STATE_CONNECTED` -/
  connected : Bool := true
  /-- `stream_negotiation_completed` -/
  negotiated : Bool := true
  /-- `conn->handlers` -/
  handlers : List Item := []
  /-- `conn->id_handlers`: `hash_get` (NULL = `[]`) -/
  idTab : Str → List Item := fun _ => []
  /-- every id ever used as a key (enumeration for the driver only) -/
  idKeys : List Str := []
  /-- `conn->timed_handlers` -/
  timed : List Item := []
  /-- `send_queue_len` -/
  sendq : Nat := 0

instance : Inhabited Conn := ⟨{}⟩

structure St where
  /-- `ctx->connlist`, in creation order -/
  conns : Nat → Conn := fun _ => {}
  nconns : Nat := 2
  /-- `ctx->timed_handlers` -/
  gtimed : List Item := []
  /-- `time_stamp()` -/
  now : Nat := 1000000
  /-- allocation counter -/
  nextUid : Nat := 0
  /-- invocations so far per callback × user data -/
  cnt : Key → Nat := fun _ => 0
  /-- ghost: every callback invocation so far -/
  log : List Inv := []

instance : Inhabited St := ⟨{}⟩

inductive Err
  /-- a pointer kept across a callback is dereferenced after the item was freed -/
  | stale
  /-- more callbacks in one loop than items when it started (never happens: `fuel_enough`) -/
  | fuel
  deriving DecidableEq, Repr

/-! ### state access -/

def updConn (st : St) (c : Nat) (f : Conn → Conn) : St :=
  { st with conns := fun i => if i = c then f (st.conns i) else st.conns i }

def tabSet (t : Str → List Item) (id : Str) (v : List Item) : Str → List Item :=
  fun k => if k = id then v else t k

/-- the suffix behind the item with allocation number `u`: `item->next` for a live `item` -/
def after : List Item → Nat → Option (List Item)
  | [], _ => none
  | it :: rest, u => if it.uid = u then some rest else after rest u

/-- `_handler_item_remove` -/
def removeUid (l : List Item) (u : Nat) : List Item := l.filter (·.uid ≠ u)

def enableAll (l : List Item) : List Item := l.map fun it => { it with enabled := true }

def hasKey (l : List Item) (fn ud : Nat) : Bool := l.any fun it => it.fn = fn && it.ud = ud

/-! ### registration and deletion (`_handler_add`, `_id_handler_add`, `_timed_handler_add`,
    `xmpp_handler_delete`, `xmpp_id_handler_delete`, `_timed_handler_delete`) -/

def handlerAdd (st : St) (c fn ud : Nat) (flt : Filter) (user : Bool) : St :=
  if hasKey (st.conns c).handlers fn ud then st            -- "Stanza handler already exists."
  else
    let item : Item := { uid := st.nextUid, fn, ud, user, enabled := false, flt }
    { updConn st c fun cn => { cn with handlers := cn.handlers ++ [item] } with
      nextUid := st.nextUid + 1 }

def idHandlerAdd (st : St) (c fn ud : Nat) (id : Str) (user : Bool) : St :=
  if hasKey ((st.conns c).idTab id) fn ud then st          -- "Id handler already exists."
  else
    let item : Item := { uid := st.nextUid, fn, ud, user, enabled := false, id }
    { updConn st c fun cn =>
        { cn with idTab := tabSet cn.idTab id (cn.idTab id ++ [item]), idKeys := cn.idKeys ++ [id] } with
      nextUid := st.nextUid + 1 }

/-- `_timed_handler_add` on a list: new items go to the FRONT -/
def timedAddList (l : List Item) (uid now fn ud period : Nat) (user : Bool) : Option (List Item) :=
  if hasKey l fn ud then none                               -- "Timed handler already exists."
  else some ({ uid, fn, ud, user, enabled := false, period, last := now } :: l)

def timedAdd (st : St) (c fn ud period : Nat) (user : Bool) : St :=
  match timedAddList (st.conns c).timed st.nextUid st.now fn ud period user with
  | none => st
  | some l => { updConn st c fun cn => { cn with timed := l } with nextUid := st.nextUid + 1 }

def globalTimedAdd (st : St) (fn ud period : Nat) : St :=
  match timedAddList st.gtimed st.nextUid st.now fn ud period true with
  | none => st
  | some l => { st with gtimed := l, nextUid := st.nextUid + 1 }

/-- the delete functions compare the callback pointer only: every registration of `fn` goes -/
def delFn (l : List Item) (fn : Nat) : List Item := l.filter (·.fn ≠ fn)

def handlerDelete (st : St) (c fn : Nat) : St :=
  updConn st c fun cn => { cn with handlers := delFn cn.handlers fn }

def idHandlerDelete (st : St) (c fn : Nat) (id : Str) : St :=
  updConn st c fun cn => { cn with idTab := tabSet cn.idTab id (delFn (cn.idTab id) fn) }

def timedDelete (st : St) (c fn : Nat) : St :=
  updConn st c fun cn => { cn with timed := delFn cn.timed fn }

def globalTimedDelete (st : St) (fn : Nat) : St := { st with gtimed := delFn st.gtimed fn }

/-- `xmpp_send_raw_string` (`_is_connected(conn, XMPP_QUEUE_USER)`): a user element is queued only
    while connected and negotiated -/
def send (st : St) (c : Nat) : St :=
  updConn st c fun cn => if cn.connected && cn.negotiated then { cn with sendq := cn.sendq + 1 } else cn

def applyAct (st : St) : Act → St
  | .add c fn ud flt => handlerAdd st c fn ud flt true
  | .addId c fn ud id => idHandlerAdd st c fn ud id true
  | .addTimed c fn ud p => timedAdd st c fn ud p true
  | .addGlobal fn ud p => globalTimedAdd st fn ud p
  | .del c fn => handlerDelete st c fn
  | .delId c fn id => idHandlerDelete st c fn id
  | .delTimed c fn => timedDelete st c fn
  | .delGlobal fn => globalTimedDelete st fn
  | .send c => send st c
  | .tick n => { st with now := st.now + n }

def applyActs (st : St) (acts : List Act) : St := acts.foldl applyAct st

def bump (cnt : Key → Nat) (k : Key) : Key → Nat := fun k' => if k' = k then cnt k + 1 else cnt k'

/-- one callback invocation: logged, counted, its scripted API calls executed; returns its result -/
def invoke (beh : Beh) (st : St) (cls : Cls) (c : Nat) (it : Item) (name : Option Str) : St × Bool :=
  let step := beh it.key (st.cnt it.key)
  let st1 := { st with cnt := bump st.cnt it.key,
                       log := st.log ++ [{ cls, conn := c, fn := it.fn, ud := it.ud, name, time := st.now,
                                           uid := it.uid, ret := step.keep, last := it.last,
                                           period := it.period }] }
  (applyActs st1 step.acts, step.keep)

/-! ### `handler_fire_stanza` -/

/-- `!item->u.ns || (ns && !strcmp(ns, item->u.ns)) || xmpp_stanza_get_child_by_ns(stanza, item->u.ns)`
    and the same (without children) for name and type -/
def matchesC (f : Filter) (s : Stanza) : Bool :=
  (match f.ns with
   | none => true
   | some ns => s.ns == some ns || s.children.any (· == some ns)) &&
  (match f.name with
   | none => true
   | some n => s.name == some n) &&
  (match f.type with
   | none => true
   | some t => s.type == some t)

/-- `(item->user_handler && !conn->stream_negotiation_completed) || !item->enabled` → skipped -/
def gateOpen (neg : Bool) (it : Item) : Bool := it.enabled && !(it.user && !neg)

/-- the id loop; `suffix` = the list from `item` on, as it is after the last callback -/
def idLoop (beh : Beh) (c : Nat) (s : Stanza) (id : Str) : Nat → St → List Item → Except Err St
  | fuel, st, suffix =>
    match suffix.find? (gateOpen (st.conns c).negotiated) with
    | none => .ok st
    | some it =>
      match fuel with
      | 0 => .error .fuel
      | fuel + 1 =>
        -- ret = item->handler(conn, stanza, item->userdata)
        let (st1, ret) := invoke beh st .stanza c it s.name
        -- next = item->next
        match after ((st1.conns c).idTab id) it.uid with
        | none => .error .stale
        | some rest =>
          -- if (!ret) { head = hash_get(…); _handler_item_remove(&head, item);
          --             if (head != head_old) hash_add(…, head); free }
          let st2 := if ret then st1 else
            updConn st1 c fun cn => { cn with idTab := tabSet cn.idTab id (removeUid (cn.idTab id) it.uid) }
          idLoop beh c s id fuel st2 rest

/-- the stanza-handler loop -/
def stanzaLoop (beh : Beh) (c : Nat) (s : Stanza) : Nat → St → List Item → Except Err St
  | fuel, st, suffix =>
    match suffix.find? (fun it => gateOpen (st.conns c).negotiated it && matchesC it.flt s) with
    | none => .ok st
    | some it =>
      match fuel with
      | 0 => .error .fuel
      | fuel + 1 =>
        let (st1, ret) := invoke beh st .stanza c it s.name
        -- list may be changed during execution of a handler: next = item->next
        match after (st1.conns c).handlers it.uid with
        | none => .error .stale
        | some rest =>
          -- if (!ret) { _handler_item_remove(&conn->handlers, item); _free_handlist_item }
          let st2 := if ret then st1 else
            updConn st1 c fun cn => { cn with handlers := removeUid cn.handlers it.uid }
          stanzaLoop beh c s fuel st2 rest

def fireStanza (beh : Beh) (st : St) (c : Nat) (s : Stanza) : Except Err St := do
  -- enable all added handlers (moved in front of the id phase by the repair of D27)
  let st := updConn st c fun cn => { cn with handlers := enableAll cn.handlers }
  -- call id handlers
  let st ← match s.id with
    | none => pure st
    | some id =>
      let st := updConn st c fun cn => { cn with idTab := tabSet cn.idTab id (enableAll (cn.idTab id)) }
      let head := (st.conns c).idTab id
      idLoop beh c s id head.length st head
  -- call handlers
  let l := (st.conns c).handlers
  stanzaLoop beh c s l.length st l

/-! ### `handler_fire_timed` -/

def setLast (l : List Item) (u now : Nat) : List Item :=
  l.map fun it => if it.uid = u then { it with last := now } else it

/-- `elapsed >= item->u.period` with `elapsed = time_stamp() - last_stamp` -/
def due (now : Nat) (it : Item) : Bool := decide (now - it.last ≥ it.period)

def timedLoop (beh : Beh) (c : Nat) : Nat → St → List Item → Except Err St
  | fuel, st, suffix =>
    match suffix.find? (fun it => gateOpen (st.conns c).negotiated it && due st.now it) with
    | none => .ok st
    | some it =>
      match fuel with
      | 0 => .error .fuel
      | fuel + 1 =>
        -- item->u.last_stamp = timestamp;  ret = item->handler(conn, item->userdata)
        let st0 := updConn st c fun cn => { cn with timed := setLast cn.timed it.uid st.now }
        let (st1, ret) := invoke beh st0 .timed c it none
        match after (st1.conns c).timed it.uid with
        | none => .error .stale
        | some rest =>
          let st2 := if ret then st1 else
            updConn st1 c fun cn => { cn with timed := removeUid cn.timed it.uid }
          timedLoop beh c fuel st2 rest

/-- the context-wide list: no `enabled`, no negotiation gate -/
def globalLoop (beh : Beh) : Nat → St → List Item → Except Err St
  | fuel, st, suffix =>
    match suffix.find? (due st.now) with
    | none => .ok st
    | some it =>
      match fuel with
      | 0 => .error .fuel
      | fuel + 1 =>
        let st0 := { st with gtimed := setLast st.gtimed it.uid st.now }
        let (st1, ret) := invoke beh st0 .global 0 it none
        match after st1.gtimed it.uid with
        | none => .error .stale
        | some rest =>
          let st2 := if ret then st1 else { st1 with gtimed := removeUid st1.gtimed it.uid }
          globalLoop beh fuel st2 rest

/-- one connection of `ctx->connlist` -/
def fireTimedConn (beh : Beh) (st : St) (c : Nat) : Except Err St :=
  if !(st.conns c).connected then .ok st
  else
    let st := updConn st c fun cn => { cn with timed := enableAll cn.timed }
    let l := (st.conns c).timed
    timedLoop beh c l.length st l

def fireTimedConns (beh : Beh) : List Nat → St → Except Err St
  | [], st => .ok st
  | c :: cs, st => do
    let st ← fireTimedConn beh st c
    fireTimedConns beh cs st

def fireTimed (beh : Beh) (st : St) : Except Err St := do
  let st ← fireTimedConns beh (List.range st.nconns) st
  globalLoop beh st.gtimed.length st st.gtimed

/-! ### the rest of handler.c -/

/-- `handler_reset_timed` -/
def resetTimed (st : St) (c : Nat) (userOnly : Bool) : St :=
  updConn st c fun cn =>
    { cn with timed := cn.timed.map fun it =>
        if (userOnly && it.user) || !userOnly then { it with last := st.now } else it }

/-- `handler_system_delete_all` -/
def systemDeleteAll (st : St) (c : Nat) : St :=
  updConn st c fun cn =>
    { cn with handlers := cn.handlers.filter (·.user),
              timed := cn.timed.filter (·.user),
              idTab := fun k => (cn.idTab k).filter (·.user) }

/-- `xmpp_conn_release` frees all three stores of every connection; the harness then creates fresh
    connections (connected, negotiated) -/
def clearAll (st : St) : St := { st with conns := fun _ => {} }

/-! ### traces -/

inductive Op
  | add (c fn ud : Nat) (flt : Filter) (user : Bool)
  | addId (c fn ud : Nat) (id : Str) (user : Bool)
  | addTimed (c fn ud period : Nat) (user : Bool)
  | addGlobal (fn ud period : Nat)
  | del (c fn : Nat)
  | delId (c fn : Nat) (id : Str)
  | delTimed (c fn : Nat)
  | delGlobal (fn : Nat)
  | fire (c : Nat) (s : Stanza)
  | fireTimed
  | tick (n : Nat)
  | setConnected (c : Nat) (b : Bool)
  | setNegotiated (c : Nat) (b : Bool)
  | reset (c : Nat) (userOnly : Bool)
  | sysDel (c : Nat)
  | clear
  deriving Repr

def step (beh : Beh) (st : St) : Op → Except Err St
  | .add c fn ud flt user => .ok (handlerAdd st c fn ud flt user)
  | .addId c fn ud id user => .ok (idHandlerAdd st c fn ud id user)
  | .addTimed c fn ud p user => .ok (timedAdd st c fn ud p user)
  | .addGlobal fn ud p => .ok (globalTimedAdd st fn ud p)
  | .del c fn => .ok (handlerDelete st c fn)
  | .delId c fn id => .ok (idHandlerDelete st c fn id)
  | .delTimed c fn => .ok (timedDelete st c fn)
  | .delGlobal fn => .ok (globalTimedDelete st fn)
  | .fire c s => fireStanza beh st c s
  | .fireTimed => fireTimed beh st
  | .tick n => .ok { st with now := st.now + n }
  | .setConnected c b => .ok (updConn st c fun cn => { cn with connected := b })
  | .setNegotiated c b => .ok (updConn st c fun cn => { cn with negotiated := b })
  | .reset c u => .ok (resetTimed st c u)
  | .sysDel c => .ok (systemDeleteAll st c)
  | .clear => .ok (clearAll st)

def run (beh : Beh) : St → List Op → Except Err St
  | st, [] => .ok st
  | st, op :: ops => do
    let st ← step beh st op
    run beh st ops

end Strophe.Handler
