/-
Model of the OWNERSHIP side of src/stanza.c (with src/hash.c's block accounting): a heap of stanza
nodes with raw pointers, reference counts and liveness, the allocator's view of it (number of blocks
handed out and not yet returned, log of returned node blocks), and the public API functions acting on it
in the order the C code reads and writes memory.

* A pointer is a node id (index into the heap).  Ids are never reused, so a pointer to a freed node stays
  recognisable: `Mem.deref` — used for EVERY `stanza->field` access the C code makes — answers
  `Fault.uaf p` when the node has been returned to the allocator.  "No use after free" and "no double free"
  (xmpp_stanza_release reads `stanza->ref` first) are therefore the statement "no `Fault.uaf`".
* `struct _xmpp_stanza_t` = `Node`: `ref`, `parent`, `prev`, `next`, `children` (raw pointers), `type`,
  `data`, `attributes` (the byte-exact table model of `Model/HashTab.lean`).
* Blocks: 1 per node, 1 per `data` string, per attribute table 2 (hash_t + bucket array) + 3 per entry
  (entry, key copy, value copy) — exactly what hash.c / stanza.c obtain from `strophe_alloc` /
  `strophe_strdup`.  `Mem.blocks` is updated where the C code calls the allocator; that it equals the
  structural count `liveBlocks` is a theorem (`Props/C12.lean blocks_predicted`), not a definition.
* The code modelled is the REPAIRED xmpp_stanza_release (/repo b4a4c03, finding D6): the cascade clears
  `next`, `prev` and `parent` of every child before releasing it.  `releaseOld` is the cascade as it was
  before the repair (only `next` cleared); it is used for the machine-checked witness of D6.
* Loops over pointer chains carry a fuel argument (`Mem.fuel`, quadratic in the heap size); running out of
  it is `Fault.diverge` (the C code would loop or recurse for ever on a cyclic structure).  Theorem
  `no_fault` shows it is enough for every program that respects the ownership rules.
* xmpp_stanza_copy / xmpp_stanza_new_from_string are a read-only walk (`exportTree`, every pointer checked)
  followed by the construction of fresh nodes (`importTree`: allocate a node with its strings and table,
  build each child subtree, hand it over with xmpp_stanza_add_child_ex(.., 0)) from the tree value computed
  by the C09 models (`Stanza.copy`, `Stanza.fromString`); xmpp_stanza_reply builds its single node the same way;
  xmpp_stanza_reply_error and xmpp_error_new are the C functions' own sequences of public calls
  (new / set_* / add_child / release), so their reference juggling is executed, not assumed.
  Allocation failures and the transient blocks inside one call (iterators, escape buffers, the parser)
  are not modelled; the buffer returned by xmpp_stanza_to_text / xmpp_stanza_get_text belongs to the
  caller (the engine frees it at once).
-/
import Strophe.Model.StanzaRead

namespace Strophe.Store
open Strophe Strophe.Stanza

inductive Kind where
  | unknown | text | tag
  deriving DecidableEq, Repr, Inhabited

/-- `struct _xmpp_stanza_t` plus `live` (false once the block was returned to the allocator) -/
structure Node where
  live : Bool
  ref : Nat
  parent : Option Nat
  prev : Option Nat
  next : Option Nat
  children : Option Nat
  kind : Kind
  data : Option Bytes
  attrs : Option HashTab
  deriving Repr

/-- what `get` answers for an id that was never allocated -/
def Node.dead : Node := ⟨false, 0, none, none, none, none, .unknown, none, none⟩

/-- `xmpp_stanza_new`: memset 0, ref = 1, type = UNKNOWN -/
def Node.fresh : Node := ⟨true, 1, none, none, none, none, .unknown, none, none⟩

/-- blocks of an attribute table: hash_t, bucket array, and entry + key + value per entry -/
def tabBlocks (t : HashTab) : Nat := 2 + 3 * t.toList.length

def attrBlocks : Option HashTab → Nat
  | some t => tabBlocks t
  | none => 0

def dataBlocks : Option Bytes → Nat
  | some _ => 1
  | none => 0

/-- blocks a live node owns (itself included) -/
def Node.owned (n : Node) : Nat := 1 + dataBlocks n.data + attrBlocks n.attrs

def Node.blocks (n : Node) : Nat := if n.live then n.owned else 0

inductive Fault where
  /-- a field of node `p` is read or written after `p` was freed (includes releasing it again) -/
  | uaf (p : Nat)
  /-- node `p` is linked below a node that is not its `parent`: outside the tree abstraction of `export` -/
  | shape (p : Nat)
  /-- a pointer walk did not end within the fuel -/
  | diverge
  deriving DecidableEq, Repr

abbrev R := Except Fault

/-- heap + the allocator's books -/
structure Mem where
  heap : List Node
  /-- blocks obtained from the context's allocator and not yet returned -/
  blocks : Nat
  /-- ids of the node blocks returned so far, oldest first -/
  freed : List Nat
  deriving Repr

namespace Mem

def empty : Mem := ⟨[], 0, []⟩

def size (m : Mem) : Nat := m.heap.length

def get (m : Mem) (i : Nat) : Node := m.heap.getD i Node.dead

def put (m : Mem) (i : Nat) (n : Node) : Mem := { m with heap := m.heap.set i n }

/-- `k` calls of `strophe_alloc` / `strophe_strdup` -/
def alloc (m : Mem) (k : Nat) : Mem := { m with blocks := m.blocks + k }

/-- `k` calls of `strophe_free` -/
def free (m : Mem) (k : Nat) : Mem := { m with blocks := m.blocks - k }

/-- a fresh node with its strings and table: node + data + table blocks -/
def push (m : Mem) (node : Node) : Mem :=
  { m with heap := m.heap ++ [node], blocks := m.blocks + node.owned }

/-- every `stanza->…` access -/
def deref (m : Mem) (p : Nat) : R Node :=
  if (m.get p).live then .ok (m.get p) else .error (.uaf p)

/-- bound on the depth of every pointer walk over a well-formed heap -/
def fuel (m : Mem) : Nat := (m.size + 1) * (m.size + 2)

/-- the structural count: blocks owned by the live nodes -/
def liveBlocks (m : Mem) : Nat := (m.heap.map Node.blocks).sum

end Mem

/-! ### node-local functions -/

/-- `xmpp_stanza_new` -/
def stanzaNew (m : Mem) : Mem × Nat :=
  ({ m with heap := m.heap ++ [Node.fresh], blocks := m.blocks + 1 }, m.heap.length)

/-- `xmpp_stanza_clone` -/
def clone (m : Mem) (s : Nat) : R Mem := do
  let n ← m.deref s
  pure (m.put s { n with ref := n.ref + 1 })

/-- `xmpp_stanza_set_name` -/
def setName (m : Mem) (s : Nat) (name : Bytes) : R (Mem × Int) := do
  let n ← m.deref s
  if n.kind = .text then pure (m, Gen.Stanza.eInvOp)
  else
    let m := m.free (dataBlocks n.data)          -- if (stanza->data) strophe_free(…)
    let m := m.alloc 1                            -- strophe_strdup(name)
    pure (m.put s { n with kind := .tag, data := some name }, Gen.Stanza.eOk)

/-- `xmpp_stanza_set_text` / `xmpp_stanza_set_text_with_size` -/
def setText (m : Mem) (s : Nat) (text : Bytes) : R (Mem × Int) := do
  let n ← m.deref s
  if n.kind = .tag then pure (m, Gen.Stanza.eInvOp)
  else
    let m := m.free (dataBlocks n.data)
    let m := m.alloc 1
    pure (m.put s { n with kind := .text, data := some text }, Gen.Stanza.eOk)

/-- `xmpp_stanza_set_attribute`: `hash_new` on first use (2 blocks), `strophe_strdup(value)`, then `hash_add`:
    an existing key frees the old value, a new key allocates the entry and a copy of the key -/
def setAttribute (m : Mem) (s : Nat) (key val : Bytes) : R (Mem × Int) := do
  let n ← m.deref s
  if n.kind ≠ .tag then pure (m, Gen.Stanza.eInvOp)
  else
    let (m, tab) := match n.attrs with
      | some t => (m, t)
      | none => (m.alloc 2, HashTab.new Gen.Stanza.attrBuckets)
    let m := m.alloc 1
    let m := match tab.get key with
      | some _ => m.free 1
      | none => m.alloc 2
    pure (m.put s { n with attrs := some (tab.add key val) }, Gen.Stanza.eOk)

/-- `xmpp_stanza_del_attribute` → `hash_drop`: key, value and entry are freed -/
def delAttribute (m : Mem) (s : Nat) (key : Bytes) : R (Mem × Int) := do
  let n ← m.deref s
  if n.kind ≠ .tag then pure (m, -1)
  else
    match n.attrs with
    | none => pure (m, -1)
    | some tab =>
      let (tab', rc) := tab.drop key
      let m := if rc = 0 then m.free 3 else m
      pure (m.put s { n with attrs := some tab' }, rc)

/-- `xmpp_stanza_get_attribute` -/
def getAttribute (m : Mem) (s : Nat) (key : Bytes) : R (Option Bytes) := do
  let n ← m.deref s
  if n.kind ≠ .tag then pure none
  else
    match n.attrs with
    | none => pure none
    | some tab => pure (tab.get key)

/-! ### pointer walks -/

/-- `s = s->next` `i` times (xmpp_stanza_get_next); the node reached is not read -/
def nthSib (m : Mem) : Option Nat → Nat → R (Option Nat)
  | none, _ => pure none
  | some c, 0 => pure (some c)
  | some c, i + 1 => do
    let n ← m.deref c
    nthSib m n.next i

/-- the borrowed pointer at `path` below `s` (xmpp_stanza_get_children / xmpp_stanza_get_next) -/
def resolvePath (m : Mem) : Nat → List Nat → R (Option Nat)
  | s, [] => pure (some s)
  | s, i :: rest => do
    let n ← m.deref s
    match ← nthSib m n.children i with
    | none => pure none
    | some c => resolvePath m c rest

/-- `while (s->next) s = s->next;` -/
def walkLast : Nat → Mem → Nat → R Nat
  | 0, _, _ => .error .diverge
  | f + 1, m, s => do
    let n ← m.deref s
    match n.next with
    | none => pure s
    | some x => walkLast f m x

/-- the nodes of a `next` chain, each dereferenced (`for (child = …; child; child = child->next)`) -/
def chainNodes : Nat → Mem → Option Nat → R (List Node)
  | _, _, none => pure []
  | 0, _, some _ => .error .diverge
  | f + 1, m, some c => do
    let n ← m.deref c
    let rest ← chainNodes f m n.next
    pure (n :: rest)

/-- `xmpp_stanza_add_child_ex(stanza = p, child = c, do_clone)` -/
def addChildEx (m : Mem) (p c : Nat) (doClone : Bool) : R (Mem × Int) := do
  let m ← (if doClone then clone m c else pure m)
  let nc ← m.deref c
  let m := m.put c { nc with parent := some p }                 -- child->parent = stanza
  let np ← m.deref p
  match np.children with
  | none => pure (m.put p { np with children := some c }, Gen.Stanza.eOk)
  | some first =>
    let last ← walkLast m.fuel m first
    let nl ← m.deref last
    let m := m.put last { nl with next := some c }               -- s->next = child
    let nc ← m.deref c
    pure (m.put c { nc with prev := some last }, Gen.Stanza.eOk)  -- child->prev = s

/-- `hash_release(attributes)`, `strophe_free(data)`, `strophe_free(stanza)` -/
def freeNode (m : Mem) (s : Nat) (n : Node) : Mem :=
  let m := m.free (attrBlocks n.attrs)
  let m := m.free (dataBlocks n.data)
  let m := m.free 1
  { (m.put s { n with live := false }) with freed := m.freed ++ [s] }

mutual
/-- `xmpp_stanza_release` (as repaired, /repo b4a4c03); the Boolean is the return value -/
def release : Nat → Mem → Nat → R (Mem × Bool)
  | 0, _, _ => .error .diverge
  | f + 1, m, s => do
    let n ← m.deref s
    if n.ref > 1 then pure (m.put s { n with ref := n.ref - 1 }, false)
    else
      let m ← releaseKids f m n.children
      let n ← m.deref s                        -- stanza->attributes, stanza->data
      pure (freeNode m s n, true)
/-- the `while (child)` loop of the cascade -/
def releaseKids : Nat → Mem → Option Nat → R Mem
  | _, m, none => pure m
  | 0, _, some _ => .error .diverge
  | f + 1, m, some c => do
    let n ← m.deref c                           -- child = child->next
    let m := m.put c { n with next := none, prev := none, parent := none }
    let (m, _) ← release f m c
    releaseKids f m n.next
end

mutual
/-- `xmpp_stanza_release` BEFORE the repair of D6: only `next` of a child is cleared -/
def releaseOld : Nat → Mem → Nat → R (Mem × Bool)
  | 0, _, _ => .error .diverge
  | f + 1, m, s => do
    let n ← m.deref s
    if n.ref > 1 then pure (m.put s { n with ref := n.ref - 1 }, false)
    else
      let m ← releaseKidsOld f m n.children
      let n ← m.deref s
      pure (freeNode m s n, true)
def releaseKidsOld : Nat → Mem → Option Nat → R Mem
  | _, m, none => pure m
  | 0, _, some _ => .error .diverge
  | f + 1, m, some c => do
    let n ← m.deref c
    let m := m.put c { n with next := none }
    let (m, _) ← releaseOld f m c
    releaseKidsOld f m n.next
end

/-! ### reading a subtree as a value, building a subtree from a value -/

/-- node contents as a `Tree` constructor (`type`/`data` combinations the API cannot produce — a tag or
    text without data — render as XMPP_EINVOP like an UNKNOWN node) -/
def mkTree (n : Node) (ks : List Tree) : Tree :=
  match n.kind, n.data with
  | .tag, some d => .tag d n.attrs ks
  | .text, some d => .text d ks
  | _, _ => .unknown ks

mutual
/-- the subtree below `s`, every node on the way dereferenced -/
def exportTree : Nat → Mem → Nat → R Tree
  | 0, _, _ => .error .diverge
  | f + 1, m, s => do
    let n ← m.deref s
    let ks ← exportKids f m s n.children
    pure (mkTree n ks)
/-- `for (child = stanza->children; child; child = child->next)` below parent `p` -/
def exportKids : Nat → Mem → Nat → Option Nat → R (List Tree)
  | _, _, _, none => pure []
  | 0, _, _, some _ => .error .diverge
  | f + 1, m, p, some c => do
    let n ← m.deref c
    if n.parent ≠ some p then .error (.shape c)
    else
      let t ← exportTree f m c
      let rest ← exportKids f m p n.next
      pure (t :: rest)
end

mutual
/-- fresh nodes for the tree value `t` (pre-order), every node with reference count 1, the root without
    parent and siblings; returns the root's id.  A node is allocated with its strings and table, then each
    child subtree is built and handed over with `xmpp_stanza_add_child_ex(node, child, 0)` — what
    parser_expat.c does, and what the manual linking in xmpp_stanza_copy amounts to (same `parent`, `prev`,
    `next`, `children` in the end) -/
def importTree (m : Mem) : Tree → R (Mem × Nat)
  | .tag name attrs ks =>
    importKids (m.push { Node.fresh with kind := .tag, data := some name, attrs := attrs }) m.heap.length ks
  | .text d ks => importKids (m.push { Node.fresh with kind := .text, data := some d }) m.heap.length ks
  | .unknown ks => importKids (m.push Node.fresh) m.heap.length ks
/-- the children of `p`, one after the other -/
def importKids (m : Mem) (p : Nat) : List Tree → R (Mem × Nat)
  | [] => pure (m, p)
  | k :: ks => do
    let (m, c) ← importTree m k
    let (m, _) ← addChildEx m p c false
    importKids m p ks
end

/-- `xmpp_stanza_copy` (`none` = NULL) -/
def copy (m : Mem) (s : Nat) : R (Mem × Option Nat) := do
  let t ← exportTree m.fuel m s
  match Stanza.copy t with
  | none => pure (m, none)
  | some t' => do
    let (m, id) ← importTree m t'
    pure (m, some id)

/-- `xmpp_stanza_new_from_string` (the parser's own blocks are returned by `parser_free`) -/
def fromString (m : Mem) (s : Bytes) : R (Mem × Option Nat) :=
  match Stanza.fromString s with
  | none => pure (m, none)
  | some t => do
    let (m, id) ← importTree m t
    pure (m, some id)

/-- `xmpp_stanza_reply`: one fresh node, no children -/
def reply (m : Mem) (s : Nat) : R (Mem × Option Nat) := do
  let n ← m.deref s
  match Stanza.reply (mkTree n []) with
  | none => pure (m, none)
  | some t => do
    let (m, id) ← importTree m t
    pure (m, some id)

/-- second half of `xmpp_stanza_reply_error`: the `<error/>` child with its condition (and text) is built
    and put below the reply `r` -/
def replyErrorBody (m : Mem) (r : Nat) (et cond : Bytes) (text : Option Bytes) : R (Mem × Option Nat) := do
  let (m, error) := stanzaNew m
  let (m, _) ← setName m error sError
  let (m, _) ← setAttribute m error kType et
  let (m, _) ← addChildEx m r error true
  let (m, _) ← release m.fuel m error
  let (m, item) := stanzaNew m
  let (m, _) ← setName m item cond
  let (m, _) ← setAttribute m item xmlnsKey nsStanzas
  let (m, _) ← addChildEx m error item true
  let (m, _) ← release m.fuel m item
  match text with
  | none => pure (m, some r)
  | some tx =>
    let (m, item) := stanzaNew m
    let (m, _) ← setName m item sText
    let (m, _) ← setAttribute m item xmlnsKey nsStanzas
    let (m, _) ← addChildEx m error item true
    let (m, _) ← release m.fuel m item
    let (m, ts) := stanzaNew m
    let (m, _) ← setText m ts tx
    let (m, _) ← addChildEx m item ts true
    let (m, _) ← release m.fuel m ts
    pure (m, some r)

/-- `xmpp_stanza_reply_error`: the C function's own sequence of public calls -/
def replyError (m : Mem) (s : Nat) (errorType condition text : Option Bytes) : R (Mem × Option Nat) :=
  match errorType, condition with
  | some et, some cond => do
    let (m, r?) ← reply m s
    match r? with
    | none => pure (m, none)
    | some r =>
      let (m, _) ← setAttribute m r kType sError                 -- xmpp_stanza_set_type(reply, "error")
      let to ← getAttribute m s kTo                              -- xmpp_stanza_get_to(stanza)
      match to with
      | some to => do
        let (m, _) ← setAttribute m r kFrom to                   -- xmpp_stanza_set_from(reply, to)
        replyErrorBody m r et cond text
      | none => replyErrorBody m r et cond text
  | _, _ => pure (m, none)

/-- `xmpp_error_new(ctx, type, text)`: children are handed over with `xmpp_stanza_add_child_ex(…, 0)` -/
def errorNew (m : Mem) (type : Int) (text : Option Bytes) : R (Mem × Nat) := do
  let (m, error) := stanzaNew m
  let (m, _) ← setName m error (bytesOfNats Gen.Stanza.streamErrorElement)
  let (m, etype) := stanzaNew m
  let name :=
    if type < 0 then Gen.Stanza.streamErrorDefault
    else Gen.Stanza.streamErrorNames.getD type.toNat Gen.Stanza.streamErrorDefault
  let (m, _) ← setName m etype (bytesOfNats name)
  let (m, _) ← setAttribute m etype xmlnsKey nsStreams
  let (m, _) ← addChildEx m error etype false
  match text with
  | none => pure (m, error)
  | some tx =>
    let (m, etext) := stanzaNew m
    let (m, content) := stanzaNew m
    let (m, _) ← setName m etext sText
    let (m, _) ← setAttribute m etext xmlnsKey nsStreams
    let (m, _) ← setText m content tx
    let (m, _) ← addChildEx m etext content false
    let (m, _) ← addChildEx m error etext false
    pure (m, error)

/-! ### observers -/

def hasXmlns (n : Node) : Bool :=
  match n.attrs with
  | some tab => tab.count > 0 && tab.toList.any fun e => e.1 == xmlnsKey
  | none => false

/-- what `_render_stanza_recursive` finds through `stanza->parent` of the stanza it was CALLED on; the
    pointer is followed only when the attribute loop meets the key `xmlns` -/
def renderCtx (m : Mem) (n : Node) : R (Option (Option HashTab)) :=
  if n.kind = .tag ∧ n.data.isSome ∧ hasXmlns n then
    match n.parent with
    | none => pure none
    | some p => do
      let pn ← m.deref p
      pure (some pn.attrs)
  else pure none

/-- `xmpp_stanza_to_text` -/
def toText (m : Mem) (s : Nat) : R (Except Stanza.Err (Bytes × Nat)) := do
  let n ← m.deref s
  let t ← exportTree m.fuel m s
  let par ← renderCtx m n
  pure (Stanza.toText par t)

/-- `xmpp_stanza_get_text` (`none` = NULL) -/
def getText (m : Mem) (s : Nat) : R (Option Bytes) := do
  let n ← m.deref s
  if n.kind = .text then pure n.data
  else
    let ks ← chainNodes m.fuel m n.children
    let parts := ks.filterMap fun k => if k.kind = .text then some (k.data.getD []) else none
    let all := parts.flatten
    pure (if all.isEmpty then none else some all)

/-! ### the caller: handle slots and programs -/

def nslots : Nat := 32

/-- a slot that is not empty IS one reference held by the caller -/
structure St where
  mem : Mem
  slots : List (Option Nat)
  deriving Repr

def St.init : St := ⟨Mem.empty, List.replicate nslots none⟩

def St.slot (st : St) (i : Nat) : Option Nat := (st.slots.getD i none)

def St.setSlot (st : St) (i : Nat) (v : Option Nat) : St := { st with slots := st.slots.set i v }

/-- a slot, or the borrowed pointer at a path below it -/
structure Tgt where
  slot : Nat
  path : List Nat
  deriving Repr, DecidableEq

inductive Op where
  | new (w : Nat)
  | clone (t : Tgt) (w : Nat)
  | copy (t : Tgt) (w : Nat)
  | rel (v : Nat)
  /-- releases the reference but keeps using the slot: breaks rule R1 -/
  | relkeep (v : Nat)
  | add (t : Tgt) (c : Nat)
  | addx (t : Tgt) (c : Nat)
  | name (t : Tgt) (b : Bytes)
  | text (t : Tgt) (b : Bytes)
  | attr (t : Tgt) (k v : Bytes)
  | delattr (t : Tgt) (k : Bytes)
  | reply (t : Tgt) (w : Nat)
  | replyerr (t : Tgt) (w : Nat) (et cond tx : Option Bytes)
  | errnew (ty : Int) (tx : Option Bytes) (w : Nat)
  | parse (b : Bytes) (w : Nat)
  | getattr (t : Tgt) (k : Bytes)
  | gettext (t : Tgt)
  | render (t : Tgt)
  /-- `dump` / `stat`: walks the subtree read-only -/
  | look (t : Tgt)
  /-- release every slot, in index order -/
  | endAll
  deriving Repr

inductive Out where
  | ok
  | null
  | freed (b : Bool)
  | rc (n : Int)
  | val (v : Option Bytes)
  | text (r : Except Stanza.Err (Bytes × Nat))
  | looked (t : Tree)
  | ended
  /-- the engine refused (empty source slot, occupied destination, path that does not resolve): no
      library call was made -/
  | refused (why : String)
  deriving Repr

inductive Res where
  | ok (id : Nat)
  | refused (why : String)

/-- resolve a target; the walk itself dereferences (and can fault) -/
def resolve (st : St) (t : Tgt) : R Res :=
  if t.slot ≥ nslots then pure (.refused "bad-op")
  else
    match st.slot t.slot with
    | none => pure (.refused "novar")
    | some s => do
      match ← resolvePath st.mem s t.path with
      | none => pure (.refused "path")
      | some id => pure (.ok id)

/-- destination slot usable? -/
def destOk (st : St) (w : Nat) : Option String :=
  if w ≥ nslots then some "bad-op"
  else if (st.slot w).isSome then some "busy"
  else none

def putNew (st : St) (w : Nat) (m : Mem) (r : Option Nat) : St × Out :=
  match r with
  | some id => ({ mem := m, slots := st.slots.set w (some id) }, .ok)
  | none => ({ st with mem := m }, .null)

/-- `end`: xmpp_stanza_release of every non-empty slot, in index order -/
def releaseAll : List (Option Nat) → Mem → R Mem
  | [], m => pure m
  | none :: rest, m => releaseAll rest m
  | some s :: rest, m => do
    let (m, _) ← release m.fuel m s
    releaseAll rest m

def step (st : St) : Op → R (St × Out)
  | .new w =>
    match destOk st w with
    | some why => pure (st, .refused why)
    | none =>
      let (m, id) := stanzaNew st.mem
      pure (putNew st w m (some id))
  | .clone t w => do
    match ← resolve st t with
    | .refused why => pure (st, .refused why)
    | .ok s =>
      match destOk st w with
      | some why => pure (st, .refused why)
      | none =>
        let m ← clone st.mem s
        pure (putNew st w m (some s))
  | .copy t w => do
    match ← resolve st t with
    | .refused why => pure (st, .refused why)
    | .ok s =>
      match destOk st w with
      | some why => pure (st, .refused why)
      | none =>
        let (m, r) ← copy st.mem s
        pure (putNew st w m r)
  | .rel v =>
    if v ≥ nslots then pure (st, .refused "bad-op")
    else
      match st.slot v with
      | none => pure (st, .refused "novar")
      | some s => do
        let (m, b) ← release st.mem.fuel st.mem s
        pure ({ mem := m, slots := st.slots.set v none }, .freed b)
  | .relkeep v =>
    if v ≥ nslots then pure (st, .refused "bad-op")
    else
      match st.slot v with
      | none => pure (st, .refused "novar")
      | some s => do
        let (m, b) ← release st.mem.fuel st.mem s
        pure ({ st with mem := m }, .freed b)
  | .add t c => do
    if c ≥ nslots then pure (st, .refused "bad-op")
    else
      match ← resolve st t with
      | .refused why => pure (st, .refused why)
      | .ok p =>
        match st.slot c with
        | none => pure (st, .refused "novar")
        | some cid =>
          let (m, rc) ← addChildEx st.mem p cid true
          pure ({ st with mem := m }, .rc rc)
  | .addx t c => do
    if c ≥ nslots then pure (st, .refused "bad-op")
    else
      match ← resolve st t with
      | .refused why => pure (st, .refused why)
      | .ok p =>
        match st.slot c with
        | none => pure (st, .refused "novar")
        | some cid =>
          let (m, rc) ← addChildEx st.mem p cid false
          pure ({ mem := m, slots := st.slots.set c none }, .rc rc)
  | .name t b => do
    match ← resolve st t with
    | .refused why => pure (st, .refused why)
    | .ok s =>
      let (m, rc) ← setName st.mem s b
      pure ({ st with mem := m }, .rc rc)
  | .text t b => do
    match ← resolve st t with
    | .refused why => pure (st, .refused why)
    | .ok s =>
      let (m, rc) ← setText st.mem s b
      pure ({ st with mem := m }, .rc rc)
  | .attr t k v => do
    match ← resolve st t with
    | .refused why => pure (st, .refused why)
    | .ok s =>
      let (m, rc) ← setAttribute st.mem s k v
      pure ({ st with mem := m }, .rc rc)
  | .delattr t k => do
    match ← resolve st t with
    | .refused why => pure (st, .refused why)
    | .ok s =>
      let (m, rc) ← delAttribute st.mem s k
      pure ({ st with mem := m }, .rc rc)
  | .reply t w => do
    match ← resolve st t with
    | .refused why => pure (st, .refused why)
    | .ok s =>
      match destOk st w with
      | some why => pure (st, .refused why)
      | none =>
        let (m, r) ← reply st.mem s
        pure (putNew st w m r)
  | .replyerr t w et cond tx => do
    match ← resolve st t with
    | .refused why => pure (st, .refused why)
    | .ok s =>
      match destOk st w with
      | some why => pure (st, .refused why)
      | none =>
        let (m, r) ← replyError st.mem s et cond tx
        pure (putNew st w m r)
  | .errnew ty tx w => do
    match destOk st w with
    | some why => pure (st, .refused why)
    | none =>
      let (m, id) ← errorNew st.mem ty tx
      pure (putNew st w m (some id))
  | .parse b w =>
    match destOk st w with
    | some why => pure (st, .refused why)
    | none => do
      let (m, r) ← fromString st.mem b
      pure (putNew st w m r)
  | .getattr t k => do
    match ← resolve st t with
    | .refused why => pure (st, .refused why)
    | .ok s =>
      let v ← getAttribute st.mem s k
      pure (st, .val v)
  | .gettext t => do
    match ← resolve st t with
    | .refused why => pure (st, .refused why)
    | .ok s =>
      let v ← getText st.mem s
      pure (st, .val v)
  | .render t => do
    match ← resolve st t with
    | .refused why => pure (st, .refused why)
    | .ok s =>
      let r ← toText st.mem s
      pure (st, .text r)
  | .look t => do
    match ← resolve st t with
    | .refused why => pure (st, .refused why)
    | .ok s =>
      let tr ← exportTree st.mem.fuel st.mem s
      pure (st, .looked tr)
  | .endAll => do
    let m ← releaseAll st.slots st.mem
    pure ({ mem := m, slots := List.replicate nslots none }, .ended)

/-- run a program; the outputs are dropped (the driver keeps them) -/
def exec (st : St) : List Op → R St
  | [] => pure st
  | op :: rest => do
    let (st', _) ← step st op
    exec st' rest

/-! ### the documented ownership rules, as a predicate on programs

R1  A reference is given up exactly once: `xmpp_stanza_release` is called only through a slot, and the
    slot is emptied (`relkeep` keeps using a reference it no longer owns).
R2  `xmpp_stanza_add_child_ex(.., do_clone = 0)` hands the caller's reference over (slot emptied: by
    construction of `addx`).
R3  A stanza is put below another one only while it is DETACHED — not a child of any stanza — and never
    below itself or one of its own descendants (the stanza tree is a tree: `struct _xmpp_stanza_t` has
    one `parent` and one `next`).
R4  Borrowed pointers (xmpp_stanza_get_children / _get_next) are used only within the call sequence that
    obtained them (paths are resolved anew for every op: by construction).
Everything else — any order of calls, clones of children kept beyond their parents, releases in any
order — is allowed. -/

/-- not a child of any stanza: with the repaired xmpp_stanza_release the `parent` field is exact — NULL
    if and only if the stanza is detached (`Props/C12.lean parent_exact`) -/
def Detached (m : Mem) (c : Nat) : Prop := (m.get c).parent = none

/-- `x`, its parent, its parent's parent, … -/
def ancestors : Nat → Mem → Nat → List Nat
  | 0, _, x => [x]
  | f + 1, m, x =>
    x :: (match (m.get x).parent with
      | some q => if (m.get x).live then ancestors f m q else []
      | none => [])

/-- `p` is not `c` itself nor below it -/
def NoCycle (m : Mem) (c p : Nat) : Prop := c ∉ ancestors m.fuel m p

instance (m : Mem) (c : Nat) : Decidable (Detached m c) := by unfold Detached; infer_instance
instance (m : Mem) (c p : Nat) : Decidable (NoCycle m c p) := by unfold NoCycle; infer_instance

/-- the precondition of one op in state `st` -/
def Pre (st : St) : Op → Prop
  | .relkeep _ => False
  | .add t c | .addx t c =>
    match resolve st t, st.slot c with
    | .ok (.ok p), some cid => Detached st.mem cid ∧ NoCycle st.mem cid p
    | _, _ => True
  | _ => True

instance (st : St) (op : Op) : Decidable (Pre st op) := by
  cases op <;> simp only [Pre] <;> try infer_instance
  all_goals (split <;> infer_instance)

/-- every op of the program meets its precondition in the state in which it is executed -/
def WellOwned (st : St) : List Op → Prop
  | [] => True
  | op :: rest =>
    Pre st op ∧
      match step st op with
      | .ok (st', _) => WellOwned st' rest
      | .error _ => True

instance : (st : St) → (ops : List Op) → Decidable (WellOwned st ops)
  | _, [] => by unfold WellOwned; infer_instance
  | st, op :: rest => by
    unfold WellOwned
    match h : step st op with
    | .ok (st', _) =>
      have := instDecidableWellOwned st' rest
      simp only []
      infer_instance
    | .error _ => simp only []; infer_instance

/-- number of slots holding a reference to `x` -/
def St.holds (st : St) (x : Nat) : Nat := st.slots.count (some x)

end Strophe.Store
