/-
Histories of the connection machine: everything the application, the server, the transport and
the clock can do to one connection object, as data.  Theorems quantify over arbitrary `List Op`.
-/
import Strophe.Model.Conn

namespace Strophe.Conn

inductive ConnectKind | client | component | raw deriving Repr, DecidableEq

inductive Op
  | connect (k : ConnectKind)
  | run (rx : Rx)                            -- one xmpp_run_once; what the read returns
  | setTcp (fail err : Bool)                 -- next connect / SO_ERROR result
  | setTls (startFail newFail : Bool)        -- next handshake result
  | setSched (l : List Accept) (dflt : Accept)
  | tick (ms : Nat)
  | usend (it : Item)                        -- xmpp_send
  | uraw (it : Item)                         -- xmpp_send_raw
  | urawstr (it : Item)                      -- xmpp_send_raw_string
  | udisc                                    -- xmpp_disconnect
  | setFlags (f : Nat)
  | release
  | addUserHandlers
  | setSmCallback
  | setSendOnConnect (on : Bool)             -- what the application's connection handler does on CONNECT
  deriving Repr

/-- one API call / loop iteration.  Logs (`tx`, `evs`) are cumulative. -/
def step (c : Conn) : Op → Conn
  | .connect .client => (connectClient c).1
  | .connect .component => (connectComponent c).1
  | .connect .raw => (connectRaw c).1
  | .run rx => runOnce c rx
  | .setTcp f e => { c with tcpFail := f, tcpErr := e }
  | .setTls sf nf => { c with tlsStartFail := sf, tlsNewFail := nf }
  | .setSched l d => { c with sched := l, schedDefault := d }
  | .tick ms => { c with now := c.now + ms }
  | .usend it => xmppSend c it
  | .uraw it => xmppSendRaw c it
  | .urawstr it => xmppSendRawString c it
  | .udisc => xmppDisconnect c
  | .setFlags f => (setFlags c f).1
  | .release => release c
  | .addUserHandlers =>
    -- the application's catch-all stanza handler, the same function as an id handler, a timed handler
    addTimed (addIdHandler (addHandler c .userAll 0 none none none true) .userAll (b "uid1") true) .userTimed 1000 true
  | .setSmCallback => { c with smCallback := true }
  | .setSendOnConnect on => { c with sendOnConnect := on }

def exec (c : Conn) (ops : List Op) : Conn := ops.foldl step c

/-- a connection object as `xmpp_conn_new` + `xmpp_conn_set_jid/pass/flags` leave it -/
def fresh (jid pass : Option Bytes) (cert : Bool) (flags : Nat) : Conn :=
  (setFlags { jid := jid, pass := pass, cert := cert } flags).1

/-- user-submitted items are those the application hands in; the machine never produces them -/
def Item.isUserItem : Item → Bool
  | .user .. => true
  | .raw _ => true
  | _ => false

/-- histories in which the application only submits user items through the API (what the API is
    for); library items are produced by the machine itself -/
def userOps (ops : List Op) : Prop :=
  ∀ op ∈ ops, match op with
    | .usend it | .uraw it | .urawstr it => it.isUserItem = true
    | _ => True

end Strophe.Conn
