/-
Model of libstrophe's assembly layer above expat (src/parser_expat.c):
`_xml_name`, `_xml_namespace`, `_set_attributes`, `complete_inner_text`, `_start_element`,
`_end_element`, `_characters`, `parser_new` (initial state), `parser_reset`, and the return value
of `parser_feed`; of src/stanza.c only what these functions use (`xmpp_stanza_set_name`,
`xmpp_stanza_set_attribute` = hash insert-or-replace, `xmpp_stanza_set_ns`, `xmpp_stanza_set_text`,
`xmpp_stanza_add_child_ex`).

Expat is NOT modelled.  It is a parameter that delivers raw callbacks (`In.start`, `In.end_`,
`In.chars`) and the failure of `XML_Parse` (`In.err`); `In.reset` is the owner calling
`parser_reset` between two `parser_feed` calls.

Pointers.  `parser->stanza` (the element under construction, linked to its ancestors through
`->parent`) is `path : List Frame`, innermost first; `[]` is NULL.  The C code links a new child
into its parent when the child is *opened* and keeps mutating it through the alias
`parser->stanza`; the model attaches the finished child when it is *closed*.  Both give the same
tree: between opening and closing of a child every addition goes to the child or below, so its
position among its siblings is the same.  `parser->inner_text` is `innerText : Option Bytes`
(`none` = NULL; the value is the C string, i.e. the bytes before the first NUL), together with the
two `int`s `used` (`inner_text_used`) and `size` (`inner_text_size`), kept separately exactly as in
the C code — they are NOT derived from `innerText`.

Safety is NOT built in.  Every dereference of a pointer that can be NULL, and every read of
heap memory that was never written, is an explicit outcome `Site`:
* `strncatNull`   — `_characters`: `strncat(parser->inner_text, …)` with `inner_text == NULL`
                    (the branch without `realloc`, reachable only if `used`/`size` are stale — which
                    is what defect D5 was: `parser_reset` did not clear them);
* `uninitRead`    — `_characters`: `inner_text` was NULL, `realloc` returned a fresh block and
                    only `inner_text[used]` was written with `used > 0`: `strncat` then scans
                    `used` bytes nobody wrote (in practice: heap garbage in front of the text);
* `textOverflow`  — `_characters`: the string `strncat` builds (terminator included) does not fit
                    into the `inner_text_size` bytes of the buffer;
* `endStanzaNull` — `_end_element`: `parser->stanza->parent` with `parser->stanza == NULL`;
* `textParentNull`— `complete_inner_text`: `xmpp_stanza_add_child_ex(parser->stanza, …)` with
                    `parser->stanza == NULL` (`stanza->children` is read).
"No crash site is reachable" is a theorem (Props/C10 `assembly_safe`), not a modelling choice.

Not modelled: allocation failure (`strophe_alloc`/`realloc` returning NULL), `int` overflow of
`used + len` (text below 2^31 bytes), a failing `XML_ParserReset`.
-/
import Strophe.Util.Hex
import Strophe.Gen.Parser

namespace Strophe.Assembly
open Strophe.Gen

abbrev Attr := Bytes × Bytes

/-- a delivered stanza: what the accessor API of stanza.c shows -/
inductive Node where
  | text (t : Bytes)
  | elem (name : Bytes) (attrs : List Attr) (children : List Node)
  deriving Repr

/-- the namespace separator handed to expat -/
def sep : UInt8 := UInt8.ofNat parserNamespaceSep
/-- `"xmlns"`, the attribute `xmpp_stanza_set_ns` writes -/
def nsAttr : Bytes := stanzaNsAttr.map UInt8.ofNat
/-- `INNER_TEXT_PADDING` -/
def padding : Nat := parserInnerTextPadding

/-! ### `_xml_name` / `_xml_namespace` -/

/-- `strchr(nsname, namespace_sep)`: the bytes after the first separator, `none` if there is none -/
def afterSep : Bytes → Option Bytes
  | [] => none
  | c :: rest => if c = sep then some rest else afterSep rest

/-- the bytes before the first separator -/
def beforeSep : Bytes → Bytes
  | [] => []
  | c :: rest => if c = sep then [] else c :: beforeSep rest

/-- `_xml_name`: a copy of the whole string if there is no separator, else what follows the first one -/
def xmlName (nsname : Bytes) : Bytes :=
  match afterSep nsname with
  | some r => r
  | none => nsname

/-- `_xml_namespace`: NULL if there is no separator, else what precedes the first one -/
def xmlNamespace (nsname : Bytes) : Option Bytes :=
  match afterSep nsname with
  | some _ => some (beforeSep nsname)
  | none => none

/-! ### stanza.c -/

/-- `hash_add`: replace the value of an existing key, else a new entry -/
def setAttr : List Attr → Bytes → Bytes → List Attr
  | [], k, v => [(k, v)]
  | (k', v') :: rest, k, v => if k' = k then (k, v) :: rest else (k', v') :: setAttr rest k v

/-- `_set_attributes`: namespaced attributes lose their namespace -/
def setAttributes (acc : List Attr) : List Attr → List Attr
  | [] => acc
  | (k, v) :: rest => setAttributes (setAttr acc (xmlName k) v) rest

/-- an element under construction -/
structure Frame where
  name : Bytes
  attrs : List Attr
  children : List Node   -- in document order

def Frame.toNode (f : Frame) : Node := .elem f.name f.attrs f.children

def Frame.addChild (f : Frame) (n : Node) : Frame := { f with children := f.children ++ [n] }

/-! ### parser state -/

structure State where
  depth : Int
  path : List Frame
  innerText : Option Bytes
  used : Nat
  size : Nat

/-- `parser_new` -/
def init : State := { depth := 0, path := [], innerText := none, used := 0, size := 0 }

inductive Site where
  | strncatNull | uninitRead | textOverflow | endStanzaNull | textParentNull
  deriving DecidableEq, Repr

/-- what the owner of the parser sees -/
inductive Ev where
  | open_ (name : Bytes) (attrs : List Attr)   -- startcb(name, attrs): local name, raw attribute array
  | stanza (n : Node)                          -- stanzacb
  | close (nsname : Bytes)                     -- endcb(name): the raw expat name
  | error                                      -- parser_feed returned 0
  deriving Repr

/-- `complete_inner_text` -/
def completeInnerText (s : State) : Except Site State :=
  match s.innerText with
  | none => .ok s
  | some t =>
    match s.path with
    | [] => .error .textParentNull
    | f :: rest =>
      .ok { s with path := f.addChild (.text t) :: rest, innerText := none, size := 0, used := 0 }

/-- the element `_start_element` builds: `xmpp_stanza_set_name(child, name)`, `_set_attributes`,
    then `xmpp_stanza_set_ns` if the expat name carried a namespace -/
def newChild (nsname : Bytes) (attrs : List Attr) : Frame :=
  let a := setAttributes [] attrs
  { name := xmlName nsname,
    attrs := match xmlNamespace nsname with
      | some n => setAttr a nsAttr n
      | none => a,
    children := [] }

/-- `_start_element` -/
def startElement (s : State) (nsname : Bytes) (attrs : List Attr) : Except Site (State × List Ev) :=
  if s.depth = 0 then
    .ok ({ s with depth := s.depth + 1 }, [.open_ (xmlName nsname) attrs])
  else if s.path.isEmpty && s.depth != 1 then
    -- "oops, where did our stanza go?": only logged
    .ok ({ s with depth := s.depth + 1 }, [])
  else
    let child := newChild nsname attrs
    match s.path with
    | [] => .ok ({ s with path := [child], depth := s.depth + 1 }, [])
    | _ :: _ => do
      let s' ← completeInnerText s
      .ok ({ s' with path := child :: s'.path, depth := s'.depth + 1 }, [])

/-- `_end_element` -/
def endElement (s : State) (nsname : Bytes) : Except Site (State × List Ev) :=
  let s := { s with depth := s.depth - 1 }
  if s.depth = 0 then
    .ok (s, [.close nsname])
  else do
    let s ← completeInnerText s
    match s.path with
    | [] => .error .endStanzaNull
    | [f] => .ok ({ s with path := [] }, [.stanza f.toNode])
    | f :: p :: rest => .ok ({ s with path := p.addChild f.toNode :: rest }, [])

/-- what `strncat(dst, s, len)` appends: the bytes of `s` before its first NUL -/
def cstr : Bytes → Bytes
  | [] => []
  | c :: rest => if c = 0 then [] else c :: cstr rest

/-- `parser->inner_text_used += len; strncat(parser->inner_text, s, len);` on a buffer of `s.size`
    bytes that holds the C string `t`: the string, its terminator included, must fit -/
def appendText (s : State) (t data : Bytes) : Except Site (State × List Ev) :=
  let t' := t ++ cstr data
  if t'.length + 1 ≤ s.size then
    .ok ({ s with innerText := some t', used := s.used + data.length }, [])
  else .error .textOverflow

/-- `_characters` -/
def characters (s : State) (data : Bytes) : Except Site (State × List Ev) :=
  if s.depth < (parserTextMinDepth : Int) then .ok (s, [])
  else
    let len := data.length
    if s.used + len ≥ s.size then
      -- realloc(inner_text, used + len + 1 + PADDING) keeps the old bytes;
      -- inner_text[used] = '\0' ends the string at `used` at the latest
      let s' := { s with size := s.used + len + 1 + padding }
      match s.innerText with
      | some t => appendText s' (t.take s.used) data
      | none =>
        if s.used = 0 then appendText s' [] data
        else .error .uninitRead
    else
      match s.innerText with
      | some t => appendText s t data
      | none => .error .strncatNull

/-- `parser_reset` (the expat side is outside the model): frees the stanza under construction and
    `inner_text`, clears `inner_text_size`/`inner_text_used` (since the repair of D5, commit 86b91cf;
    before it the two counters survived the restart), `depth = 0`. -/
def reset (s : State) : State :=
  { s with path := [], innerText := none, size := 0, used := 0, depth := 0 }

/-- `parser_reset` as it was before commit 86b91cf (defect D5), kept only to state the witness
    `Props/C10.d5_*`: the counters of the old stream survive. -/
def resetD5 (s : State) : State :=
  { s with path := [], innerText := none, depth := 0 }

/-! ### driving the layer with a callback trace -/

/-- what happens to the parser, in order: expat's raw callbacks, a failing `XML_Parse`, a reset -/
inductive In where
  | start (nsname : Bytes) (attrs : List Attr)
  | end_ (nsname : Bytes)
  | chars (data : Bytes)
  | err
  | reset
  deriving DecidableEq, Repr

def step (s : State) : In → Except Site (State × List Ev)
  | .start n a => startElement s n a
  | .end_ n => endElement s n
  | .chars d => characters s d
  | .err => .ok (s, [.error])
  | .reset => .ok (reset s, [])

/-- observable outcome: the events delivered, and the crash site if the run ended in one -/
structure Out where
  evs : List Ev
  crash : Option Site

def run (s : State) : List In → Out
  | [] => ⟨[], none⟩
  | i :: rest =>
    match step s i with
    | .error site => ⟨[], some site⟩
    | .ok (s', e) =>
      let o := run s' rest
      ⟨e ++ o.evs, o.crash⟩

/-- the state reached (if no crash) -/
def exec (s : State) : List In → Except Site State
  | [] => .ok s
  | i :: rest =>
    match step s i with
    | .error site => .error site
    | .ok (s', _) => exec s' rest

/-- a parser fresh from `parser_new`, driven by the trace -/
def assemble (ins : List In) : Out := run init ins

/-! ### the tree before commit 86b91cf (defect D5) — used only by the witnesses in Props/C10 -/

def stepD5 (s : State) : In → Except Site (State × List Ev)
  | .reset => .ok (resetD5 s, [])
  | i => step s i

def runD5 (s : State) : List In → Out
  | [] => ⟨[], none⟩
  | i :: rest =>
    match stepD5 s i with
    | .error site => ⟨[], some site⟩
    | .ok (s', e) =>
      let o := runD5 s' rest
      ⟨e ++ o.evs, o.crash⟩

end Strophe.Assembly
