/-
Model of the raw DNS SRV decoder of src/resolver.c (HAVE_CARES undefined):
`xmpp_ntohs_ptr`, `message_name_append_safe`, `message_name_get`, `message_name_len`,
`resolver_srv_rr_new` (the zeroed 256-byte `target`), `resolver_raw_srv_lookup_buf` with its
`BUF_OVERFLOW_CHECK`s, `resolver_srv_free` (as "the list becomes empty"),
`resolver_srv_list_sort` and `resolver_srv_lookup_buf`.

Memory safety is NOT built in:
* every read of the response buffer (and of the target field, for `strlen`) goes through the
  checked accessor `rd`, which yields `Err.oobRead` when the index is outside the array;
* every write into the 256-byte target field goes through `wr` (`Err.oobWrite`);
* forming the pointer `&name[name_len]` beyond one-past-the-end of the field is `Err.oobWrite`.
"The decoder never returns one of these errors" is a theorem (Props/C15 `decode_safe`).

Cursors.  The C cursors `i`, `j` (and `pointer`, `name_len` of the caller, `rdlength`) are
`unsigned` (32 bit).  They are modelled as `Nat`; every value the C code computes in an
`unsigned` cursor expression is passed through `u32`/an explicit test against `uintRange`, which
yields `Err.cursorWrap` if the mathematical value does not fit.  So "no cursor ever wraps" is also
a theorem (`decode_safe`, for buffers below 2^32 - 2^17 bytes, in particular ≤ 64 KiB) and on all
non-error runs Nat arithmetic and C arithmetic coincide.  `size_t` quantities (`name_len`,
`name_max` inside `message_name_get`) are Nat; they are bounded by the cursor distance travelled
and cannot wrap a 64-bit `size_t`.

Termination.  `nameLoop` (the `while (1)` of `message_name_get` together with its recursive call
on a compression pointer) is accepted by Lean's termination checker with the measure
`off * (size + 2) + (size + 1 - i)` — a Nat encoding of the lexicographic pair
(start offset of the current call, bytes left): a label step keeps `off` and advances `i`, a
pointer step strictly lowers `off` because of the guard `pointer < buf_offset`.  No fuel and no
escape from the termination checker.  The do/while of the bubble sort terminates because a pass that swapped lowers the
number of inversions (`inv`).
-/
import Strophe.Util.Hex
import Strophe.Gen.Resolver

namespace Strophe.Resolver
open Strophe.Gen

abbrev Buf := Array UInt8

inductive Err where
  | oobRead      -- read outside the response buffer / outside the target field
  | oobWrite     -- write (or pointer formation) outside the 256-byte target field
  | cursorWrap   -- a value of an `unsigned` cursor expression does not fit in 32 bits
  deriving DecidableEq, Repr

/-- 2^32: one more than `UINT_MAX` -/
def uintRange : Nat := 4294967296
/-- `SIZE_MAX` (LP64), passed as `name_max` by `message_name_len`; its value is never observable -/
def sizeMax : Nat := 18446744073709551615

/-- checked read `b[i]` -/
def rd (b : Buf) (i : Nat) : Except Err UInt8 :=
  if h : i < b.size then .ok b[i] else .error .oobRead

/-- checked write `t[i] = v` -/
def wr (t : Buf) (i : Nat) (v : UInt8) : Except Err Buf :=
  if h : i < t.size then .ok (t.set i v h) else .error .oobWrite

/-- the value of an `unsigned` expression -/
def u32 (n : Nat) : Except Err Nat :=
  if n < uintRange then .ok n else .error .cursorWrap

/-- `xmpp_ntohs_ptr(&buf[p])` -/
def ntohs (buf : Buf) (p : Nat) : Except Err Nat :=
  match rd buf p with
  | .error e => .error e
  | .ok hi =>
    match rd buf (p + 1) with
    | .error e => .error e
    | .ok lo => .ok ((hi.toNat * 256 + lo.toNat) % 65536)

/-- `memcpy(&name[dst], tail, n)`, byte `k`, `k+1`, … ; `tail k` is the read of `tail[k]` -/
def memcpyFrom (tail : Nat → Except Err UInt8) (tgt : Buf) (dst : Nat) : Nat → Nat → Except Err Buf
  | _, 0 => .ok tgt
  | k, n + 1 =>
    match tail k with
    | .error e => .error e
    | .ok v =>
      match wr tgt (dst + k) v with
      | .error e => .error e
      | .ok t => memcpyFrom tail t dst (k + 1) n

/-- `message_name_append_safe(name, name_len, name_max, tail, tail_len)` where `name` is the
    offset `base` inside the target field.  Returns the new (untruncated) `name_len`. -/
def appendSafe (tgt : Buf) (base nameLen nameMax : Nat) (tail : Nat → Except Err UInt8)
    (tailLen : Nat) : Except Err (Nat × Buf) :=
  let room := if nameMax > nameLen then nameMax - nameLen else 0
  let copyLen := min tailLen room
  if copyLen > 0 then
    match memcpyFrom tail tgt (base + nameLen) 0 copyLen with
    | .error e => .error e
    | .ok t => .ok (nameLen + tailLen, t)
  else .ok (nameLen + tailLen, tgt)

/-- the string literal "." (one character, then its NUL) read at index `k` -/
def dotLit (k : Nat) : Except Err UInt8 :=
  if k = 0 then .ok 46 else if k = 1 then .ok 0 else .error .oobRead

/-- the two appends of the label branch (`if (name != NULL)`) -/
def appendLabel (buf : Buf) (i : Nat) (labelLen : Nat) (name : Option Nat) (nameLen nameMax : Nat)
    (tgt : Buf) : Except Err (Nat × Buf) :=
  match name with
  | none => .ok (nameLen, tgt)
  | some base =>
    match appendSafe tgt base nameLen nameMax (fun k => rd buf (i + k)) labelLen with
    | .error e => .error e
    | .ok (nl, t) => appendSafe t base nl nameMax dotLit 1

/-- the `if (label_len == 0)` block after the loop -/
def finishRoot (name : Option Nat) (nameLen nameMax : Nat) (tgt : Buf) : Except Err Buf :=
  let nameLen := if nameLen = 0 then 1 else nameLen
  match name with
  | none => .ok tgt
  | some base =>
    if nameMax > 0 then wr tgt (base + (min nameLen nameMax - 1)) 0 else .ok tgt

/-- "We have filled the name buffer. Don't pass it recursively."  Returns the new
    `name`, `name_max` and field. -/
def dropFilled (name : Option Nat) (nameLen nameMax : Nat) (tgt : Buf) :
    Except Err (Option Nat × Nat × Buf) :=
  match name with
  | none => .ok (none, nameMax, tgt)
  | some base =>
    if nameLen ≥ nameMax ∧ nameMax > 0 then
      match wr tgt (base + (nameMax - 1)) 0 with
      | .error e => .error e
      | .ok t => .ok (none, 0, t)
    else .ok (some base, nameMax, tgt)

/-- `name != NULL ? &name[name_len] : NULL`; forming a pointer past one-past-the-end of the
    field is undefined behaviour and reported as `oobWrite` -/
def subName (name : Option Nat) (nameLen : Nat) (tgt : Buf) : Except Err (Option Nat) :=
  match name with
  | none => .ok none
  | some base => if base + nameLen ≤ tgt.size then .ok (some (base + nameLen)) else .error .oobWrite

set_option linter.unusedVariables false in
/-- `message_name_get`: the state of the `while (1)` loop at cursor `i` of the call that started at
    `off = buf_offset`.  `name = some base` is the pointer `&target[base]`, `none` is NULL.
    Returns the C return value (0 = malformed) and the target field. -/
def nameLoop (buf : Buf) (off i nameLen : Nat) (name : Option Nat) (nameMax : Nat) (tgt : Buf) :
    Except Err (Nat × Buf) :=
  if _hi : i ≥ buf.size then .ok (0, tgt) else
  match rd buf i with                                           -- label_len = buf[i++]
  | .error e => .error e
  | .ok labelLen =>
    if i + 1 ≥ uintRange then .error .cursorWrap else
    if labelLen = 0 then
      match finishRoot name nameLen nameMax tgt with
      | .error e => .error e
      | .ok t => .ok (i + 1 - off, t)
    else if labelLen &&& 0xc0 = 0 then                          -- label
      if i + 1 + labelLen.toNat ≥ uintRange then .error .cursorWrap
      else if i + 1 + labelLen.toNat - 1 ≥ buf.size then .ok (0, tgt)
      else
        match appendLabel buf (i + 1) labelLen.toNat name nameLen nameMax tgt with
        | .error e => .error e
        | .ok (nl, t) => nameLoop buf off (i + 1 + labelLen.toNat) nl name nameMax t
    else if labelLen &&& 0xc0 = 0xc0 then                       -- pointer
      if i + 1 ≥ buf.size then .ok (0, tgt) else
      match rd buf (i + 1) with                                 -- buf[i++]
      | .error e => .error e
      | .ok lo =>
        if i + 2 ≥ uintRange then .error .cursorWrap else
        if hp : (labelLen &&& 0x3f).toNat * 256 + lo.toNat ≥ off then .ok (0, tgt) else
        match dropFilled name nameLen nameMax tgt with
        | .error e => .error e
        | .ok (name', nameMax', t) =>
          match subName name' nameLen t with
          | .error e => .error e
          | .ok sub =>
            match nameLoop buf ((labelLen &&& 0x3f).toNat * 256 + lo.toNat)
                ((labelLen &&& 0x3f).toNat * 256 + lo.toNat) 0 sub
                (if nameMax' > nameLen then nameMax' - nameLen else 0) t with
            | .error e => .error e
            | .ok (rc, t') => if rc = 0 then .ok (0, t') else .ok (i + 2 - off, t')
    else .ok (0, tgt)                                           -- 10 / 01: reserved
termination_by off * (buf.size + 2) + (buf.size + 1 - i)
decreasing_by
  · omega
  · have h := Nat.mul_le_mul_right (buf.size + 2) (Nat.succ_le_of_lt (Nat.lt_of_not_ge hp))
    rw [Nat.succ_mul] at h
    omega

/-- `message_name_get(buf, len, off, name, name_max)` -/
def nameGet (buf : Buf) (off : Nat) (name : Option Nat) (nameMax : Nat) (tgt : Buf) :
    Except Err (Nat × Buf) :=
  nameLoop buf off off 0 name nameMax tgt

/-- `message_name_len` -/
def messageNameLen (buf : Buf) (off : Nat) : Except Err Nat :=
  match nameGet buf off none sizeMax #[] with
  | .error e => .error e
  | .ok (rc, _) => .ok rc

/-- `resolver_srv_rr_t` without the `next` link; `τ` is the representation of `target` -/
structure Rr (τ : Type) where
  prio : Nat
  weight : Nat
  port : Nat
  target : τ
  deriving DecidableEq, Repr

/-- the `target` of `resolver_srv_rr_new(ctx, NULL, 0, 0, 0)`: `memset(rr, 0, sizeof(*rr))` -/
def newTarget : Buf := Array.replicate maxDomainLen 0

/-- body of `if (type == MESSAGE_T_SRV && class == MESSAGE_C_IN)`, `j` already past the fixed
    part.  `none` = `BUF_OVERFLOW_CHECK` fired (list freed, NOT_FOUND); allocation never fails. -/
def srvRecord (buf : Buf) (j : Nat) (list : List (Rr Buf)) : Except Err (Option (List (Rr Buf))) := do
  let j6 ← u32 (j + 6)
  if j6 ≥ buf.size then pure none else do
  let prio ← ntohs buf j
  let j2 ← u32 (j + 2)
  let weight ← ntohs buf j2
  let j4 ← u32 (j + 4)
  let port ← ntohs buf j4
  let (rc, tgt) ← nameGet buf j6 (some 0) maxDomainLen newTarget
  if rc > 0 then pure (some (⟨prio, weight, port, tgt⟩ :: list))
  else pure (some list)                                         -- skip broken record

/-- the answer loop with `n` iterations to go.  Result = (`XMPP_DOMAIN_FOUND`?, `*srv_rr_list`). -/
def answers (buf : Buf) : Nat → Nat → List (Rr Buf) → Except Err (Bool × List (Rr Buf))
  | 0, _, list => pure (!list.isEmpty, list)
  | n + 1, j, list =>
    if j ≥ buf.size then pure (false, []) else do               -- BUF_OVERFLOW_CHECK(j, len)
    let nl ← messageNameLen buf j
    if nl = 0 then pure (false, list) else do                   -- list left to the caller
    let j ← u32 (j + nl)
    let j9 ← u32 (j + 9)
    if j9 ≥ buf.size then pure (false, []) else do              -- BUF_OVERFLOW_CHECK(j + 9, len)
    let type ← ntohs buf j
    let j2 ← u32 (j + 2)
    let cls ← ntohs buf j2
    let j8 ← u32 (j + 8)
    let rdlength ← ntohs buf j8
    let j ← u32 (j + 10)
    if type = messageTSrv ∧ cls = messageCIn then do
      match ← srvRecord buf j list with
      | none => pure (false, [])
      | some list' =>
        let j ← u32 (j + rdlength)
        answers buf n j list'
    else do
      let j ← u32 (j + rdlength)
      answers buf n j list

/-- the question loop with `n` iterations to go, followed by the answer loop -/
def questions (buf : Buf) (ancount : Nat) : Nat → Nat → Except Err (Bool × List (Rr Buf))
  | 0, j => answers buf ancount j []
  | n + 1, j =>
    if j ≥ buf.size then pure (false, []) else do               -- BUF_OVERFLOW_CHECK(j, len)
    let nl ← messageNameLen buf j
    if nl = 0 then pure (false, []) else do
    let j ← u32 (j + (nl + 4))
    questions buf ancount n j

/-- `resolver_raw_srv_lookup_buf` -/
def rawLookup (buf : Buf) : Except Err (Bool × List (Rr Buf)) :=
  if buf.size < messageHeaderLen then pure (false, []) else do
  let _id ← ntohs buf 0
  let octet2 ← rd buf 2
  let octet3 ← rd buf 3
  let qdcount ← ntohs buf 4
  let ancount ← ntohs buf 6
  let _nscount ← ntohs buf 8
  let _arcount ← ntohs buf 10
  if ((octet2 >>> 7) &&& 1).toNat ≠ messageResponse ∨ octet3 &&& 0x0f ≠ 0 then pure (false, [])
  else questions buf ancount qdcount messageHeaderLen

/-! ### `resolver_srv_list_sort` -/

/-- the swap condition: `cur` must come after `nxt` -/
def gt {τ} (cur nxt : Rr τ) : Bool :=
  cur.prio > nxt.prio || (cur.prio == nxt.prio && cur.weight < nxt.weight)

/-- one run of the inner `while (rr_next != NULL)`: `cur` is `rr_current`, the list is what
    follows it.  Returns the relinked list from `cur`'s old position on and the `swap` flag. -/
def pass {τ} : Rr τ → List (Rr τ) → List (Rr τ) × Bool
  | cur, [] => ([cur], false)
  | cur, nxt :: rest =>
    if gt cur nxt then (nxt :: (pass cur rest).1, true)
    else let r := pass nxt rest; (cur :: r.1, r.2)

/-- number of pairs in the wrong order -/
def inv {τ} : List (Rr τ) → Nat
  | [] => 0
  | x :: xs => xs.countP (gt x) + inv xs

theorem gt_asymm {τ} (a b : Rr τ) (h : gt a b = true) : gt b a = false := by
  simp only [gt, Bool.or_eq_true, decide_eq_true_eq, Bool.and_eq_true, beq_iff_eq] at h
  simp only [gt, Bool.or_eq_false_iff, decide_eq_false_iff_not, Bool.and_eq_false_imp, beq_iff_eq]
  omega

theorem pass_perm {τ} (cur : Rr τ) (l : List (Rr τ)) : (pass cur l).1.Perm (cur :: l) := by
  induction l generalizing cur with
  | nil => simp [pass]
  | cons nxt rest ih =>
    unfold pass
    split
    · exact ((ih cur).cons nxt).trans (List.Perm.swap cur nxt rest)
    · exact (ih nxt).cons cur

/-- a pass that swapped removed at least one inversion (this is why the do/while ends) -/
theorem pass_inv {τ} (cur : Rr τ) (l : List (Rr τ)) :
    inv (pass cur l).1 ≤ inv (cur :: l) ∧ ((pass cur l).2 = true → inv (pass cur l).1 < inv (cur :: l)) := by
  induction l generalizing cur with
  | nil => simp [pass]
  | cons nxt rest ih =>
    unfold pass
    split
    · next h =>
      have h1 := (ih cur).1
      have h2 : (pass cur rest).1.countP (gt nxt) = (cur :: rest).countP (gt nxt) :=
        (pass_perm cur rest).countP_eq _
      have h3 := gt_asymm _ _ h
      have e1 : inv (nxt :: (pass cur rest).1) = rest.countP (gt nxt) + inv (pass cur rest).1 := by
        simp [inv, h2, h3]
      have e2 : inv (cur :: nxt :: rest) =
          rest.countP (gt cur) + 1 + (rest.countP (gt nxt) + inv rest) := by
        simp [inv, h]
      have e3 : inv (cur :: rest) = rest.countP (gt cur) + inv rest := rfl
      simp only [e1, e2]
      omega
    · have h1 := ih nxt
      have h2 : (pass nxt rest).1.countP (gt cur) = (nxt :: rest).countP (gt cur) :=
        (pass_perm nxt rest).countP_eq _
      have e1 : inv (cur :: (pass nxt rest).1) =
          (nxt :: rest).countP (gt cur) + inv (pass nxt rest).1 := by
        simp [inv, h2]
      have e2 : inv (cur :: nxt :: rest) = (nxt :: rest).countP (gt cur) + inv (nxt :: rest) := rfl
      dsimp only
      rw [e1, e2]
      refine ⟨by omega, fun hs => ?_⟩
      have := h1.2 hs
      omega

set_option linter.unusedVariables false in
/-- `do { … } while (swap != 0);` on the list `hd :: tl` -/
def bubble {τ} (hd : Rr τ) (tl : List (Rr τ)) : List (Rr τ) :=
  match h : pass hd tl with
  | (x :: xs, true) => bubble x xs
  | (l, _) => l
termination_by inv (hd :: tl)
decreasing_by
  have := (pass_inv hd tl).2
  rw [h] at this
  exact this rfl

/-- `resolver_srv_list_sort` -/
def sort {τ} : List (Rr τ) → List (Rr τ)
  | [] => []                       -- rr_head == NULL
  | [x] => [x]                     -- rr_head->next == NULL
  | x :: xs => bubble x xs

/-- `resolver_srv_lookup_buf`: (return value = FOUND?, `*srv_rr_list` with the raw target fields) -/
def lookupList (buf : Buf) : Except Err (Bool × List (Rr Buf)) :=
  match rawLookup buf with
  | .error e => .error e
  | .ok (set, list) =>
    -- `if (set != XMPP_DOMAIN_FOUND && *srv_rr_list != NULL) resolver_srv_free(...)`
    let list := if set = false ∧ list ≠ [] then [] else list
    .ok (set, sort list)

/-! ### what a caller sees -/

/-- the bytes of the C string starting at `fld[k]` (what `strlen`/`%s` read): a run off the end
    of the field is an out-of-bounds read -/
def cString (fld : Buf) (k : Nat) : Except Err Bytes :=
  if h : k < fld.size then
    if fld[k] = 0 then .ok []
    else match cString fld (k + 1) with
      | .error e => .error e
      | .ok s => .ok (fld[k] :: s)
  else .error .oobRead
termination_by fld.size - k

def cRecord (r : Rr Buf) : Except Err (Rr Bytes) :=
  match cString r.target 0 with
  | .error e => .error e
  | .ok s => .ok ⟨r.prio, r.weight, r.port, s⟩

inductive Outcome where
  | found (l : List (Rr Bytes))    -- XMPP_DOMAIN_FOUND and the list, targets as C strings
  | notFound                       -- XMPP_DOMAIN_NOT_FOUND
  | error (e : Err)
  deriving DecidableEq, Repr

/-- `resolver_srv_lookup_buf` as observed by a caller that walks the list -/
def lookupArr (buf : Buf) : Outcome :=
  match lookupList buf with
  | .error e => .error e
  | .ok (false, _) => .notFound
  | .ok (true, l) =>
    match l.mapM cRecord with
    | .error e => .error e
    | .ok l' => .found l'

def lookupBuf (buf : Bytes) : Outcome := lookupArr buf.toArray

end Strophe.Resolver
