/-
C17 — executable models of the bundled digests (src/sha1.c, src/sha256.c, src/sha512.c,
src/md5.c), of `crypto_HMAC` (src/scram.c) and of the public SHA-1 API (src/crypto.c).
-/
import Strophe.Model.Hash.Common
import Strophe.Model.Hash.Sha1
import Strophe.Model.Hash.Sha2
import Strophe.Model.Hash.Md5
import Strophe.Model.Hash.Hmac
