/-
Stanza trees as the connection code inspects them (accessors of src/stanza.c used by auth.c,
conn.c and handler.c).  `ns` is the element's OWN `xmlns` attribute (the parser sets it on every
element expat reports a namespace for); there is no inheritance in `xmpp_stanza_get_ns`.
-/
import Strophe.Util.Hex

namespace Strophe

inductive XTree
  | tag (name : Bytes) (ns : Option Bytes) (attrs : List (Bytes × Bytes)) (children : List XTree)
  | text (t : Bytes)
  deriving Repr, Inhabited

namespace XTree

/-- `xmpp_stanza_get_name` (NULL for a text node) -/
def name? : XTree → Option Bytes
  | tag n _ _ _ => some n
  | text _ => none

/-- `xmpp_stanza_get_ns` -/
def ns? : XTree → Option Bytes
  | tag _ ns _ _ => ns
  | text _ => none

def children : XTree → List XTree
  | tag _ _ _ c => c
  | text _ => []

/-- `xmpp_stanza_get_attribute` -/
def attr (t : XTree) (k : Bytes) : Option Bytes :=
  match t with
  | tag _ _ attrs _ => (attrs.find? fun p => p.1 = k).map (·.2)
  | text _ => none

def isTag : XTree → Bool
  | tag .. => true
  | text _ => false

/-- `xmpp_stanza_get_child_by_name` -/
def childByName (t : XTree) (n : Bytes) : Option XTree :=
  t.children.find? fun c => c.isTag && c.name? = some n

/-- `xmpp_stanza_get_child_by_name_and_ns` -/
def childByNameNs (t : XTree) (n ns : Bytes) : Option XTree :=
  t.children.find? fun c => c.isTag && c.name? = some n && c.ns? = some ns

/-- `xmpp_stanza_get_child_by_ns` -/
def childByNs (t : XTree) (ns : Bytes) : Option XTree :=
  t.children.find? fun c => c.ns? = some ns

/-- `xmpp_stanza_get_text`: concatenation of the text children, NULL when that is empty -/
def getText (t : XTree) : Option Bytes :=
  match t with
  | text s => some s
  | tag _ _ _ c =>
    let s := (c.filterMap fun x => match x with | text s => some s | _ => none).flatten
    if s.isEmpty then none else some s

end XTree

/-! ### line-protocol syntax:  `(name ns|- attrs|- child …)`  and  `"hex"`  -/

namespace XTreeSyntax

inductive Tok | lp | rp | str (s : String) | word (s : String) deriving Repr

def tokenize (s : String) : List Tok :=
  -- `inStr = true`: inside a "…" literal, `cur` accumulates its characters
  let rec go (cs : List Char) (cur : List Char) (inStr : Bool) (acc : List Tok) : List Tok :=
    let flush := if cur.isEmpty then acc else Tok.word (String.ofList cur.reverse) :: acc
    match cs with
    | [] => flush.reverse
    | c :: r =>
      if inStr then
        if c = '"' then go r [] false (Tok.str (String.ofList cur.reverse) :: acc)
        else go r (c :: cur) true acc
      else if c = '(' then go r [] false (Tok.lp :: flush)
      else if c = ')' then go r [] false (Tok.rp :: flush)
      else if c = ' ' then go r [] false flush
      else if c = '"' then go r [] true flush
      else go r (c :: cur) false acc
  go s.toList [] false []

def hexOpt (w : String) : Option (Option Bytes) :=
  if w = "-" then some none else (Hex.toBytes w).map some

def parseAttrs (w : String) : Option (List (Bytes × Bytes)) :=
  if w = "-" then some [] else
  (w.splitOn ";").mapM fun kv =>
    match kv.splitOn "=" with
    | [k, v] => do
      let k ← Hex.toBytes k
      let v ← Hex.toBytes v
      pure (k, v)
    | _ => none

/-- returns the tree and the remaining tokens; fuel = number of tokens -/
def parseTree : Nat → List Tok → Option (XTree × List Tok)
  | 0, _ => none
  | _ + 1, Tok.str s :: r => (Hex.toBytes (if s.isEmpty then "." else s)).map fun b => (XTree.text b, r)
  | f + 1, Tok.lp :: Tok.word n :: Tok.word ns :: Tok.word at_ :: r => do
    let n ← Hex.toBytes n
    let ns ← hexOpt ns
    let attrs ← parseAttrs at_
    let rec kids (fuel : Nat) (ts : List Tok) (acc : List XTree) : Option (List XTree × List Tok) :=
      match fuel, ts with
      | 0, _ => none
      | _, Tok.rp :: r => some (acc.reverse, r)
      | g + 1, ts => do
        let (c, r) ← parseTree f ts
        kids g r (c :: acc)
    let (cs, rest) ← kids (f + 1) r []
    pure (XTree.tag n ns attrs cs, rest)
  | _, _ => none

def parse (s : String) : Option XTree :=
  let toks := tokenize s
  match parseTree (toks.length + 1) toks with
  | some (t, []) => some t
  | _ => none

end XTreeSyntax
end Strophe
