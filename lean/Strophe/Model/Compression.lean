/-
C20 — the staging layer of src/compression.c (XEP-0138) between the event loop and the lower
transport, together with the few lines of event.c / conn.c that drive it.

zlib is NOT modelled: it is the parameter `Codec` (one step function per direction, mirroring one
`deflate()` / `inflate()` call: what was offered, how much room there was, what was consumed and
produced, the return code).  The correspondence driver instantiates it with the calls recorded
from the real zlib on the implementation side (recorded-parameter replay, DESIGN §3.2); the
theorems in Props/C20.lean quantify over every `Codec` that satisfies the named hypotheses
`HZlib`.

Every function is named after the C function it mirrors.  C `int` results are `Int`; byte
buffers are lists; the lower transport is the scripted `conn_interface` of harness/eng_zl.c
(`Accept` = its answer to one `write` call).
-/
import Strophe.Util.Hex
import Strophe.Gen.Compression

namespace Strophe.Compression
open Strophe

/-- STROPHE_COMPRESSION_BUFFER_SIZE -/
def bufSize : Nat := Gen.Zl.compressionBufferSize
/-- STROPHE_MESSAGE_BUFFER_SIZE: the length xmpp_run_once passes to `intf->read` -/
def msgBufSize : Nat := Gen.Zl.messageBufferSize

/-- zlib as seen through one call.
    `deflate st input flush room = (st', consumed, produced, rc)`;
    `inflate st input room       = (st', consumed, produced, rc)` (always Z_SYNC_FLUSH). -/
structure Codec where
  D : Type
  I : Type
  dinit : D
  iinit : I
  deflate : D → Bytes → Int → Nat → D × Nat × Bytes × Int
  inflate : I → Bytes → Nat → I × Nat × Bytes × Int

/-- answer of the lower transport to one `write(buf,len)` -/
inductive Accept
  | all                 -- returns len
  | upTo (k : Nat)      -- returns min k len
  | again               -- returns -1, get_error = EAGAIN (recoverable)
  | err                 -- returns -1, get_error = ECONNRESET
  deriving DecidableEq, Repr

def Accept.ret (a : Accept) (len : Nat) : Int :=
  match a with
  | .all => (len : Int)
  | .upTo k => ((min k len : Nat) : Int)
  | .again => -1
  | .err => -1

/-- sock_is_recoverable / the fake transport's error_is_recoverable -/
def recoverable (e : Int) : Bool := e == Gen.Zl.eAgain || e == Gen.Zl.eIntr

/-- the connection as far as compression.c, the write loop and the read branch of event.c touch
    it, plus the scripted lower transport -/
structure St (C : Codec) where
  /-- comp->compression.stream -/
  z : C.D
  /-- comp->decompression.stream -/
  zi : C.I
  /-- comp->compression.buffer[0 .. next_out) -/
  out : Bytes := []
  /-- `decompression.stream.next_in != NULL`: the bytes next_in .. buffer_end -/
  inPend : Option Bytes := none
  /-- conn->compression.dont_reset -/
  dontReset : Bool := false
  /-- conn->error -/
  error : Int := 0
  /-- conn->state == XMPP_STATE_CONNECTED -/
  connected : Bool := true
  /-- number of XMPP_CONN_DISCONNECT notifications (conn_disconnect calls) -/
  disc : Nat := 0
  /-- send queue: data, written -/
  queue : List (Bytes × Nat) := []
  /-- lower transport: errno-like last error (set by failing calls, never cleared) -/
  lerr : Int := 0
  /-- lower transport: answers to the coming write calls (exhausted = accept everything) -/
  sched : List Accept := []
  /-- lower transport: every byte it accepted, in order -/
  net : Bytes := []
  /-- lower transport: (offered, returned) of every write call -/
  calls : List (Nat × Int) := []
  /-- lower transport: inbound bytes not yet read, and whether the peer closed -/
  inq : Bytes := []
  inEof : Bool := false
  /-- a loop whose termination depends on the codec ran out of fuel (never on the real zlib) -/
  diverged : Bool := false
  /-- allocation inventory of compression_init: the record and the two buffers -/
  recLive : Bool := true
  cbufLive : Bool := true
  dbufLive : Bool := true

variable {C : Codec}

/-- compression_init on a connected conn whose interface is the lower transport -/
def init (C : Codec) (dontReset : Bool) : St C :=
  { z := C.dinit, zi := C.iinit, dontReset := dontReset }

/-- conn_disconnect: state and notification; returns at once when the connection is already
    disconnected (the application is told exactly once) -/
def disconnect (s : St C) : St C :=
  { s with connected := false, disc := if s.connected then s.disc + 1 else s.disc }

def popSched : List Accept → Accept × List Accept
  | [] => (.all, [])
  | a :: r => (a, r)

/-- `conn_interface_write(&comp->next, buf, len)` on the scripted transport -/
def lowerWrite (s : St C) (b : Bytes) : St C × Int :=
  let a := (popSched s.sched).1
  let r := a.ret b.length
  let lerr := match a with
    | .again => Gen.Zl.eAgain
    | .err => Gen.Zl.eConnReset
    | _ => s.lerr
  let s := { s with sched := (popSched s.sched).2, lerr := lerr,
                    calls := s.calls ++ [(b.length, r)], net := s.net ++ b.take r.toNat }
  -- conn_interface_write: `ret < 0 && !recoverable(get_error)` ⇒ conn->error = get_error
  if r < 0 ∧ recoverable lerr = false then ({ s with error := lerr }, r) else (s, r)

/-- _try_compressed_write_to_network: what the lower layer did not accept stays at the start of
    the staging buffer (memmove) -/
def tryWrite (s : St C) (force : Bool) : St C × Int :=
  let len := s.out.length
  if (len == bufSize || force) && decide (len > 0) then
    let r := lowerWrite s s.out
    if r.2 < 0 then r
    else ({ r.1 with out := r.1.out.drop r.2.toNat }, r.2)
  else (s, 0)

/-- how the do/while of _compression_write is left -/
inductive LoopOut (C : Codec)
  | ret (s : St C) (r : Int)     -- `return` from inside the loop
  | done (s : St C) (r : Int)    -- loop left (condition false or `break`) with `ret = r`
  | fuel (s : St C)

/-- the do/while of _compression_write; `inp` = next_in .. buff_end, `consumed` = next_in - buff -/
def cwLoop : Nat → St C → Bytes → Nat → Int → LoopOut C
  | 0, s, _, _, _ => .fuel s
  | fuel + 1, s, inp, consumed, flush =>
    let t := tryWrite s false
    if t.2 < 0 ∨ bufSize - t.1.out.length = 0 then
      -- the lower layer would block: report how much of the caller's data deflate has taken
      .ret t.1 (if 0 < consumed ∨ 0 ≤ t.2 then (consumed : Int) else t.2)
    else
      let s := t.1
      let room := bufSize - s.out.length
      let d := C.deflate s.z inp flush room
      let n := d.2.1
      let o := d.2.2.1
      let rc := d.2.2.2
      let s := { s with z := d.1, out := s.out ++ o }
      if rc = Gen.Zl.zStreamEnd then .done s rc
      else if flush ≠ 0 ∧ rc = Gen.Zl.zBufError then .done s rc
      else if rc ≠ Gen.Zl.zOk then .ret (disconnect { s with error := rc }) rc
      else if (inp.drop n).isEmpty ∧ ¬ (flush ≠ 0 ∧ bufSize - s.out.length = 0) then
        .done s ((consumed + n : Nat) : Int)
      else cwLoop fuel s (inp.drop n) (consumed + n) flush

/-- _compression_write -/
def compressionWrite (fuel : Nat) (s : St C) (inp : Bytes) (flush : Int) : St C × Int :=
  if inp.isEmpty ∧ flush = 0 then (s, 0)      -- `if (len == 0 && !flush) return 0;`
  else
    match cwLoop fuel s inp 0 flush with
    | .ret s r => (s, r)
    | .fuel s => ({ s with diverged := true }, -99)
    | .done s r =>
      if flush ≠ 0 then tryWrite s true     -- `ret = _try…(conn, 1); if (ret < 0) return ret; return ret`
      else (s, r)

/-- compression_flush -/
def compressionFlush (fuel : Nat) (s : St C) : St C × Int :=
  compressionWrite fuel s []
    (if s.dontReset then Gen.Zl.compressionFlushModeDontReset else Gen.Zl.compressionFlushModeReset)

/-- `conn_interface_write(&conn->intf, data, len)` with the compression interface installed:
    compression_write, then the error check against compression_get_error (= the lower one) -/
def upperWrite (fuel : Nat) (s : St C) (inp : Bytes) : St C × Int :=
  let r := compressionWrite fuel s inp Gen.Zl.compressionWriteMode
  if r.2 < 0 ∧ recoverable r.1.lerr = false then ({ r.1 with error := r.1.lerr }, r.2) else r

/-- the `while (sq)` loop of xmpp_run_once -/
def sendLoop (fuel : Nat) : St C → List (Bytes × Nat) → St C × List (Bytes × Nat)
  | s, [] => (s, [])
  | s, (d, w) :: rest =>
    let towrite : Int := (d.length : Int) - (w : Int)
    let r := upperWrite fuel s (d.drop w)
    if r.2 ≠ towrite then
      (r.1, (d, if 0 < r.2 ∧ r.2 < towrite then w + r.2.toNat else w) :: rest)
    else sendLoop fuel r.1 rest

/-- the send half of xmpp_run_once for this connection -/
def runOnceSend (fuel : Nat) (s : St C) : St C :=
  if s.connected = false then s
  else
    let r := sendLoop fuel s s.queue
    let s := { r.1 with queue := r.2 }
    let s := (compressionFlush fuel s).1
    if s.error ≠ 0 then disconnect { s with error := Gen.Zl.eConnAborted } else s

/-- xmpp_send_raw → send_raw → _send_raw (SM off) -/
def sendRaw (s : St C) (b : Bytes) : St C :=
  if s.connected then { s with queue := s.queue ++ [(b, 0)] } else s

/-! ### read path -/

/-- the scripted lower transport's `read(buf, len)` -/
def lowerRead (s : St C) (len : Nat) : St C × Int × Bytes :=
  if s.inq.isEmpty then
    if s.inEof then (s, 0, []) else ({ s with lerr := Gen.Zl.eAgain }, -1, [])
  else
    let k := min s.inq.length len
    ({ s with inq := s.inq.drop k }, (k : Int), s.inq.take k)

/-- where `decompression.stream.next_in` points when inflate is called: the rest of an earlier
    read if there is one (c_len ≠ 0 would then only log an error), else the bytes just read -/
def decompInput (s : St C) (fresh : Bytes) : Bytes :=
  match s.inPend with
  | none => fresh
  | some p => p

/-- _conn_decompress; `fresh` = the c_len bytes just read into decompression.buffer.  `next_in`
    is cleared only when the input is used up AND inflate had room left (it may hold more
    plaintext otherwise), or when inflate reports that nothing more can be got out of it -/
def connDecompress (s : St C) (fresh : Bytes) (len : Nat) : St C × Int × Bytes :=
  let inp := decompInput s fresh
  let d := C.inflate s.zi inp len
  let n := d.2.1
  let o := d.2.2.1
  let rc := d.2.2.2
  let s := { s with zi := d.1 }
  if rc = Gen.Zl.zStreamEnd ∨ rc = Gen.Zl.zOk then
    ({ s with inPend := if (inp.drop n).isEmpty ∧ o.length < len then none else some (inp.drop n) },
     (o.length : Int), o)
  else if rc = Gen.Zl.zBufError then
    ({ s with inPend := if (inp.drop n).isEmpty then none else some (inp.drop n) }, 0, [])
  else
    (disconnect { s with inPend := some (inp.drop n), error := rc }, 0, [])

/-- compression_read: loops while the input yields no plaintext and the connection is up -/
def compressionRead : Nat → St C → Nat → St C × Int × Bytes
  | 0, s, _ => ({ s with diverged := true }, 0, [])
  | fuel + 1, s, len =>
    match s.inPend with
    | some _ =>
      let r := connDecompress s [] len
      if r.2.1 ≠ 0 ∨ r.1.connected = false then r else compressionRead fuel r.1 len
    | none =>
      let l := lowerRead s bufSize
      if l.2.1 ≤ 0 then (l.1, l.2.1, [])
      else
        let r := connDecompress l.1 l.2.2 len
        if r.2.1 ≠ 0 ∨ r.1.connected = false then r else compressionRead fuel r.1 len

/-- compression_pending (the lower transport has no pending notion: conn_int_nop) -/
def pending (s : St C) : Bool := s.inPend.isSome

/-- select() would report the socket readable -/
def readable (s : St C) : Bool := !s.inq.isEmpty || s.inEof

/-- one pass through the CONNECTED read branch of xmpp_run_once (no TLS): the plaintext handed to
    parser_feed, and the value `intf->read` returned.  A result ≤ 0 is an unrecoverable error,
    or — only if it is 0 — "closed by remote host"; a recoverable -1 changes nothing. -/
def evRead (fuel : Nat) (s : St C) : St C × Int × Bytes :=
  let r := compressionRead fuel s msgBufSize
  if r.2.1 > 0 then r
  else
    let s := r.1
    let err := s.lerr            -- intf->get_error = compression_get_error = the lower one
    if recoverable err = false then (disconnect { s with error := err }, r.2.1, [])
    else if r.2.1 = 0 then (disconnect { s with error := Gen.Zl.eConnReset }, r.2.1, [])
    else (s, r.2.1, [])

/-- one whole xmpp_run_once(ctx, 0) for this connection (no TLS): the send half, then "find
    events to watch / select": the socket is readable iff the lower transport has unread bytes or
    saw EOF; input waiting in an interface's own buffer (`intf->pending`) counts as an event too.
    Returns the plaintext handed to parser_feed and the result of `intf->read` if it was called. -/
def runOnce (fuel : Nat) (s : St C) : St C × Bytes × List Int :=
  let s := runOnceSend fuel s
  if s.connected && (readable s || pending s) then
    let r := evRead fuel s
    (r.1, r.2.2, [r.2.1])
  else (s, [], [])

/-- the application's loop around xmpp_run_once (lower transport accepting every write): again
    and again until a call ends without having read anything -/
def readLoop (wfuel : Nat) : Nat → St C → Bytes → List Int → St C × Bytes × List Int
  | 0, s, acc, rets => ({ s with diverged := true }, acc, rets)
  | fuel + 1, s, acc, rets =>
    if s.connected then
      let r := runOnce wfuel { s with sched := [] }
      if r.2.2.isEmpty then (r.1, acc, rets)
      else readLoop wfuel fuel r.1 (acc ++ r.2.1) (rets ++ r.2.2)
    else (s, acc, rets)

/-- a compressed fragment reaches the socket -/
def rxFragment (wfuel fuel : Nat) (s : St C) (frag : Bytes) : St C × Bytes × List Int :=
  readLoop wfuel fuel { s with inq := s.inq ++ frag } [] []

/-! ### teardown -/

/-- compression_free (called from _conn_reset): frees the two buffers and — as the extractor
    reads from the `strophe_free*` calls of the function — the record itself -/
def compressionFree (s : St C) : St C :=
  { s with cbufLive := false, dbufLive := false,
           recLive := if Gen.Zl.compressionFreeFreesRecord then false else s.recLive }

def liveBlocks (s : St C) : Nat :=
  (if s.recLive then 1 else 0) + (if s.cbufLive then 1 else 0) + (if s.dbufLive then 1 else 0)

end Strophe.Compression

/-! ### histories (what the property quantifies over) -/

namespace Strophe.Compression

/-- what the application and the event loop do on the write side -/
inductive Op
  | send (b : Bytes)               -- xmpp_send_raw
  | iter (sched : List Accept)     -- one xmpp_run_once; `sched` = the lower transport's answers
  deriving Repr

def runOp {C : Codec} (fuel : Nat) (s : St C) : Op → St C
  | .send b => sendRaw s b
  | .iter sc => runOnceSend fuel { s with sched := sc }

def run {C : Codec} (fuel : Nat) (s : St C) (ops : List Op) : St C := ops.foldl (runOp fuel) s

/-- the uncompressed stream the client would have sent -/
def submitted : List Op → Bytes
  | [] => []
  | .send b :: r => b ++ submitted r
  | .iter _ :: r => submitted r

/-- bytes of the submitted stream the write loop has taken from the queue -/
def acked {C : Codec} (s : St C) (ops : List Op) : Nat :=
  (submitted ops).length - (s.queue.map fun e => e.1.length - e.2).sum

/-- every lower-transport answer of the history is "accept everything" -/
def Op.allAccept : Op → Prop
  | .send _ => True
  | .iter sc => ∀ a ∈ sc, a = Accept.all

/-- the compressed fragments arrive one after the other; plaintext delivered to the parser -/
def rxAll {C : Codec} (wfuel fuel : Nat) (s : St C) (frags : List Bytes) : St C × Bytes :=
  frags.foldl (fun p f => let r := rxFragment wfuel fuel p.1 f; (r.1, p.2 ++ r.2.1)) (s, [])

end Strophe.Compression
