/-
Two readings of stanza trees that connect `Model/Stanza.lean` with `Spec/Xml.lean`:

* `canon` — the abstraction "which XML tree does this stanza tree stand for": element names, EFFECTIVE
  namespaces (nearest `xmlns` attribute on the node or an ancestor, `xmlns=""` = none, else the
  namespace `inh` in scope where the tree is placed), attribute sets without `xmlns`, child order,
  text with adjacent text nodes merged and empty ones dropped.  This is the right-hand side of
  `parse_render`.
* `fromString` — model of `xmpp_stanza_new_from_string` / src/parser_expat.c with expat replaced by the
  structural reader of `Spec/Xml.lean` (so it is defined on the fragment grammar only): the string is
  read with no default namespace in scope (the library wraps it in a bare `<stream>`), the first
  element becomes the stanza; per element `xmpp_stanza_set_name`, one `xmpp_stanza_set_attribute` per
  attribute in document order, then `xmpp_stanza_set_ns` if the element has a namespace; character data
  between two tags becomes one text child.
-/
import Strophe.Model.Stanza
import Strophe.Spec.Xml

namespace Strophe.Stanza
open Strophe.Spec.Xml

/-- default namespace in scope below a node with attribute table `attrs` -/
def effNs (inh : Option Bytes) (attrs : Option HashTab) : Option Bytes :=
  match attrs with
  | some tab =>
    match tab.get xmlnsKey with
    | some v => nsOfDecl v
    | none => inh
  | none => inh

/-- the attributes proper (everything but `xmlns`), in iteration order -/
def plainAttrs (attrs : Option HashTab) : List Entry :=
  match attrs with
  | some tab => tab.toList.filter fun e => e.1 ≠ xmlnsKey
  | none => []

mutual
def canonRaw (inh : Option Bytes) : Tree → XNode
  | .tag name attrs ks => .elem (effNs inh attrs) name (plainAttrs attrs) (canonKidsRaw (effNs inh attrs) ks)
  | .text d _ => .text d
  | .unknown _ => .text []
def canonKidsRaw (inh : Option Bytes) : List Tree → List XNode
  | [] => []
  | k :: ks => consNode (canonRaw inh k) (canonKidsRaw inh ks)
end

/-- the canonical XML tree a stanza tree stands for when placed where `inh` is the default namespace -/
def canon (inh : Option Bytes) (t : Tree) : XNode := sortTree (canonRaw inh t)

/-! ### the tree a rendering denotes, declaration by declaration

`canonRawR par scope t` follows the RENDERING of `t` below a parent with attribute table `par` (`none`: a
root): only the `xmlns` declarations that are actually written count; an elided one leaves the reader's
scope as it is.  It coincides with `canonRaw scope t` whenever `scope` agrees with the elided declaration
(`Lemmas/XmlParse.lean`, `canonRawR_eq`), which is always the case below the root. -/

mutual
def canonRawR (par : Option (Option HashTab)) (scope : Option Bytes) : Tree → XNode
  | .tag name attrs ks =>
    .elem (scopeOf scope (shownAttrs par attrs)) name (plainAttrs attrs)
      (canonKidsRawR (some attrs) (scopeOf scope (shownAttrs par attrs)) ks)
  | .text d _ => .text d
  | .unknown _ => .text []
def canonKidsRawR (par : Option (Option HashTab)) (scope : Option Bytes) : List Tree → List XNode
  | [] => []
  | k :: ks => consNode (canonRawR par scope k) (canonKidsRawR par scope ks)
end

/-- the canonical tree denoted by the rendering of `t` where the default namespace in scope is `scope` -/
def canonR (par : Option (Option HashTab)) (scope : Option Bytes) (t : Tree) : XNode :=
  sortTree (canonRawR par scope t)

/-! ### the trees the property quantifies over -/

/-- an (unprefixed) XML name in the sense of `Spec/Xml.lean` -/
def isName : Bytes → Bool
  | [] => false
  | b :: r => isNameStart b && r.all isNameChar

/-- no TAB / LF / CR (XML would normalise them inside an attribute value) -/
def valueOk (v : Bytes) : Prop := ∀ b ∈ v, b ≠ 9 ∧ b ≠ 10 ∧ b ≠ 13
/-- no CR (XML would normalise it inside character data) -/
def textOk (d : Bytes) : Prop := ∀ b ∈ d, b ≠ 13

mutual
/-- element and attribute names are XML names (unprefixed), every string is a sequence of UTF-8 encoded
    XML `Char`s, attribute values are free of TAB/LF/CR and text of CR, attribute tables satisfy the
    hash-table invariant (in particular: keys are distinct), and no XMPP_STANZA_UNKNOWN node occurs
    where the renderer goes (children of text nodes are never rendered; only their tables are constrained) -/
def WfTree : Tree → Prop
  | .tag name attrs ks =>
    isName name = true ∧ legalChars name = true ∧
      (∀ tab, attrs = some tab → HashTab.WF tab ∧
        ∀ e ∈ tab.toList, isName e.1 = true ∧ legalChars e.1 = true ∧ legalChars e.2 = true ∧ valueOk e.2) ∧
      WfKids ks
  | .text d kk => legalChars d = true ∧ textOk d ∧ TabsWFKids kk
  | .unknown _ => False
def WfKids : List Tree → Prop
  | [] => True
  | k :: ks => WfTree k ∧ WfKids ks
end

mutual
/-- the rendering of the tree (below `par`, read in `scope`) never UN-declares the default namespace: no
    element without namespace below an element that has one (`xmlns=""` below a namespaced ancestor) -/
def NoUndecl (par : Option (Option HashTab)) (scope : Option Bytes) : Tree → Prop
  | .tag _ attrs ks =>
    (scopeOf scope (shownAttrs par attrs) = none → scope = none) ∧
      NoUndeclKids (some attrs) (scopeOf scope (shownAttrs par attrs)) ks
  | .text _ _ => True
  | .unknown _ => True
def NoUndeclKids (par : Option (Option HashTab)) (scope : Option Bytes) : List Tree → Prop
  | [] => True
  | k :: ks => NoUndecl par scope k ∧ NoUndeclKids par scope ks
end

/-- `_set_attributes(child, attrs); if (ns) xmpp_stanza_set_ns(child, ns);` -/
def attrsWithNs (attrs : List Entry) (ns : Option Bytes) : List Entry :=
  attrs ++ (match ns with | some n => [(xmlnsKey, n)] | none => [])

mutual
/-- what parser_expat.c builds for one element -/
def ofXNode : XNode → Tree
  | .text s => .text s []
  | .elem ns name attrs kids => mkTag name (attrsWithNs attrs ns) (ofXNodes kids)
def ofXNodes : List XNode → List Tree
  | [] => []
  | k :: ks => ofXNode k :: ofXNodes ks
end

def firstElem : List XNode → Option XNode
  | [] => none
  | .elem ns n a k :: _ => some (.elem ns n a k)
  | .text _ :: r => firstElem r

/-- `xmpp_stanza_new_from_string` on the fragment grammar (`none` = NULL) -/
def fromString (s : Bytes) : Option Tree :=
  if legalChars s then
    match parseNodes (s.length + 1) none s [] with
    | some (nodes, []) => (firstElem nodes).map ofXNode
    | _ => none
  else none

end Strophe.Stanza
