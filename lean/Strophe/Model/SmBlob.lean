/-
Model of the persisted stream-management state of src/conn.c: `sm_state_serialize` (+ `sm_store_u32`),
`xmpp_conn_restore_sm_state` (+ `sm_load_u32`, `sm_load_string`), and the parts of
`conn_disconnect` / `_reset_sm_state_for_reconnect` that touch the same fields.  The queues are the
ones of `Strophe.SendQueue`, so everything proved there applies to a restored connection.

Every read of the input buffer goes through `rd`, which fails with `Err.oob` when the index is not
inside the buffer: "restore never reads outside the buffer" is then the theorem that `oob` is
unreachable, i.e. that the C code's own length checks (mirrored here one by one) are sufficient.
-/
import Strophe.Model.SendQueue

namespace Strophe.SmBlob
open Strophe.SendQueue

structure Conn where
  q : St := {}
  /-- `conn->sm_state != NULL` -/
  hasSm : Bool := true
  smSupport : Bool := false
  canResume : Bool := false
  resume : Bool := false
  handledNr : UInt32 := 0
  smId : Option Bytes := none
  deriving Repr

/-- a connection object that was never connected (`xmpp_conn_new`) -/
def fresh : Conn := { q := { connected := false }, hasSm := false }

def u32be (n : UInt32) : Bytes :=
  [(n >>> 24).toUInt8, (n >>> 16).toUInt8, (n >>> 8).toUInt8, n.toUInt8]

/-- `sm_store_u32` -/
def storeU32 (tag : UInt8) (v : UInt32) : Bytes := tag :: u32be v

def storeString (b : Bytes) : Bytes := storeU32 0x7a (UInt32.ofNat b.length) ++ b

def version : Bytes := [0x1a, 0, 0, 0, 0]

inductive SerOut
  | null                 -- `*buf = NULL`, size 0
  | blob (b : Bytes)
  | crash                -- strlen(NULL): SM marked resumable without a session id
  deriving Repr, DecidableEq

/-- `sm_state_serialize` -/
def serialize (c : Conn) : SerOut :=
  if !c.smSupport || !c.q.smEnabled || !c.canResume then .null
  else match c.smId with
    | none => .crash
    | some id =>
      .blob (version ++ storeU32 0x1a c.q.sentNr ++ storeU32 0x1a c.handledNr ++ storeString id ++
        storeU32 0x9a (UInt32.ofNat c.q.queue.length) ++
        (c.q.queue.map fun e => storeString e.data).flatten ++
        storeU32 0xba (UInt32.ofNat c.q.smQueue.length) ++
        (c.q.smQueue.map fun e => storeU32 0x1a e.smH ++ storeString e.data).flatten)

inductive Err
  | oob        -- a read outside the buffer (must be unreachable)
  | invalid    -- XMPP_EINVOP: the C code refused the input
  deriving Repr, DecidableEq

/-- checked read -/
def rd (b : Bytes) (i : Nat) : Except Err UInt8 :=
  match b[i]? with
  | some x => .ok x
  | none => .error .oob

/-- `sm_load_u32`: returns the value and the new cursor -/
def loadU32 (b : Bytes) (pos : Nat) (tag : UInt8) : Except Err (UInt32 × Nat) := do
  if pos ≥ b.length then throw .invalid            -- (the check added by the fix of D15)
  let t ← rd b pos
  if t ≠ tag then throw .invalid
  if pos + 1 + 4 > b.length then throw .invalid
  let b0 ← rd b (pos + 1)
  let b1 ← rd b (pos + 2)
  let b2 ← rd b (pos + 3)
  let b3 ← rd b (pos + 4)
  pure ((b0.toUInt32 <<< 24) ||| (b1.toUInt32 <<< 16) ||| (b2.toUInt32 <<< 8) ||| b3.toUInt32,
        pos + 5)

/-- checked `memcpy(dst, sm->state, l)` -/
def rdMany (b : Bytes) (pos : Nat) : Nat → Except Err Bytes
  | 0 => pure []
  | n + 1 => do
    let x ← rd b pos
    let r ← rdMany b (pos + 1) n
    pure (x :: r)

/-- `sm_load_string` -/
def loadString (b : Bytes) (pos : Nat) : Except Err (Bytes × Nat) := do
  let (l, p) ← loadU32 b pos 0x7a
  if p + l.toNat > b.length then throw .invalid
  let s ← rdMany b p l.toNat
  pure (s, p + l.toNat)

/-- the send-queue loop of `xmpp_conn_restore_sm_state` -/
def loadSendQueue (b : Bytes) : Nat → Nat → Except Err (List Bytes × Nat)
  | 0, pos => pure ([], pos)
  | n + 1, pos => do
    let (s, p) ← loadString b pos
    let (r, p') ← loadSendQueue b n p
    pure (s :: r, p')

/-- the SM-queue loop -/
def loadSmQueue (b : Bytes) : Nat → Nat → Except Err (List (UInt32 × Bytes) × Nat)
  | 0, pos => pure ([], pos)
  | n + 1, pos => do
    let (h, p0) ← loadU32 b pos 0x1a
    let (s, p) ← loadString b p0
    let (r, p') ← loadSmQueue b n p
    pure ((h, s) :: r, p')

structure Parsed where
  sentNr : UInt32
  handledNr : UInt32
  id : Bytes
  sendq : List Bytes
  smq : List (UInt32 × Bytes)
  deriving Repr, DecidableEq

/-- everything after the version check -/
def parseBody (b : Bytes) : Except Err Parsed := do
  let (sent, p1) ← loadU32 b 5 0x1a
  let (handled, p2) ← loadU32 b p1 0x1a
  let (id, p3) ← loadString b p2
  if id.contains 0 then throw .invalid                -- strlen(id) != id_len
  let (n, p4) ← loadU32 b p3 0x9a
  let (sq, p5) ← loadSendQueue b n.toNat p4
  let (m, p6) ← loadU32 b p5 0xba
  let (smq, p7) ← loadSmQueue b m.toNat p6
  if p7 ≠ b.length then throw .invalid                -- trailing bytes
  pure ⟨sent, handled, id, sq, smq⟩

/-- uids for restored elements -/
def mkElems (start : Nat) (texts : List Bytes) : List Elem :=
  texts.zipIdx.map fun (t, i) => { uid := start + i, data := t, owner := .user }

def mkSmElems (start : Nat) (items : List (UInt32 × Bytes)) : List Elem :=
  items.zipIdx.map fun ((h, t), i) => { uid := start + i, data := t, owner := .user, smH := h }

inductive RestoreOut
  | rc (code : Int)      -- return value (0 = XMPP_EOK, -2 = XMPP_EINVOP)
  | oob                  -- model-level: a read outside the buffer happened
  deriving Repr, DecidableEq

/-- `xmpp_conn_restore_sm_state` -/
def restore (c : Conn) (b : Bytes) : Conn × RestoreOut :=
  if c.q.connected then (c, .rc (-2))
  else if c.hasSm then (c, .rc (-2))
  else if b.length < 30 then (c, .rc (-2))
  else if b.take 5 ≠ version then (c, .rc (-2))
  else match parseBody b with
    | .ok p =>
      let sq := mkElems c.q.nextUid p.sendq
      let smq := mkSmElems (c.q.nextUid + p.sendq.length) p.smq
      ({ q := { c.q with queue := c.q.queue ++ sq, len := p.sendq.length, userLen := p.sendq.length,
                         smEnabled := true, rSent := false, sentNr := p.sentNr, smQueue := smq,
                         nextUid := c.q.nextUid + p.sendq.length + p.smq.length },
         hasSm := true, smSupport := true, canResume := true, resume := true,
         handledNr := p.handledNr, smId := some p.id }, .rc 0)
    | .error e =>
      -- err_reload: sm_state freed and cleared, the (partially) restored send queue dropped
      ({ c with q := { c.q with queue := [], len := 0, userLen := 0 }, hasSm := false },
       match e with | .oob => .oob | .invalid => .rc (-2))

/-- `conn_disconnect` → `_reset_sm_state_for_reconnect` on the fields modelled here -/
def disconnect (c : Conn) : Conn :=
  if !c.q.connected then c
  else { c with q := SendQueue.disconnect c.q, smSupport := false, resume := false, smId := none }

end Strophe.SmBlob
