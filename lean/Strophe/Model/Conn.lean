/-
The connection machine: a model of stream negotiation and connection lifecycle of libstrophe,
transition by transition after the C functions named in the docstrings (src/conn.c, src/auth.c,
src/handler.c, src/event.c).  See DESIGN.md Appendix B.

Granularity.  Outbound data is a queue of *items* (classified elements: stream header, starttls,
auth, …) — byte-level FIFO is C06's business.  Inbound data is the sequence of parser events the
real parser delivered (recorded parameter, C10's business).  External engines are inputs:
the TCP connect result, the TLS handshake result, the transport's answer to each write call,
the clock.  Everything else — which handlers exist, what they do, what is sent, which flags
change, which notifications are delivered — is computed here.
-/
import Strophe.Model.XTree
import Strophe.Model.Base64
import Strophe.Model.Jid
import Strophe.Gen.Conn

namespace Strophe.Conn
open Strophe

/-! ### configuration and small enums -/

inductive CType | client | component deriving Repr, DecidableEq, Inhabited
inductive CState | disconnected | connecting | connected deriving Repr, DecidableEq, Inhabited

/-- owner of a queue element -/
inductive Owner | strophe | user | smStrophe deriving Repr, DecidableEq, Inhabited
def Owner.smBit : Owner → Bool | .smStrophe => true | _ => false
def Owner.userBit : Owner → Bool | .user => true | _ => false

/-- classified outbound elements (what the harness reads off the wire) -/
inductive Item
  | hdr (to : Bytes) (frm : Option Bytes) (comp : Bool)
  | starttls
  | auth (mech : Bytes) (hasText : Bool)
  | response (hasText : Bool)
  | compress
  | bind (resource : Option Bytes)
  | session
  | legacy (user : Bytes) (resource : Bytes) (hasPass : Bool)
  | enable (resume : Bool)
  | resume (previd : Bytes) (h : UInt32)
  | ack (h : UInt32)
  | req
  | handshake
  | error (cond : Bytes)
  | user (name : Bytes) (id : Option Bytes)
  | close
  | raw (len : Nat)
  deriving Repr, DecidableEq, Inhabited

/-- does the element carry authentication data (C02) -/
def Item.authBearing : Item → Bool
  | .auth _ t => t
  | .response t => t
  | .legacy _ _ p => p
  | _ => false

/-- ghost record: what the server offered / confirmed on the CURRENT connection attempt.  Never
    read by the machine itself; it only lets theorems speak about "offered on that connection". -/
structure Ghost where
  attempt : Nat := 0               -- number of accepted connect calls so far
  offeredTls : Bool := false
  offeredMechs : Nat := 0          -- mask of every mechanism name seen in a <mechanisms/> list
  offeredBind : Bool := false
  offeredSession : Bool := false
  offeredSm : Bool := false
  offeredComp : Bool := false
  authOk : Bool := false           -- <success/> was processed
  bound : Bool := false            -- the bind request was answered with type='result'
  resumed : Bool := false          -- <resumed/> was accepted
  handshakeAck : Bool := false
  legacyOk : Bool := false
  notifiedConnect : Bool := false  -- CONNECT / RAW_CONNECT delivered on this attempt
  notifiedDisconnect : Nat := 0    -- DISCONNECT notifications on this attempt
  deriving Repr, Inhabited

/-- the facts the properties speak about, as they were when an element was QUEUED -/
structure Snap where
  mandatory : Bool := false        -- flags
  tlsDisabled : Bool := false
  authLegacy : Bool := false
  isClient : Bool := true
  cert : Bool := false
  negotiated : Bool := false       -- stream negotiation completed
  secured : Bool := false          -- a TLS session was established on this connection
  handledNr : UInt32 := 0          -- the inbound XEP-0198 counter
  g : Ghost := {}                  -- offers / confirmations of the attempt so far
  deriving Repr, Inhabited

/-- one element that reached the wire -/
structure TxRec where
  item : Item
  owner : Owner
  sec : Bool                       -- written through an established TLS session
  snap : Snap                      -- situation when it was (first) queued
  attemptW : Nat                   -- attempt during which it was written
  mandatoryW : Bool := false       -- the user's flags when it was written
  tlsDisabledW : Bool := false
  legacyW : Bool := false
  notifiedW : Bool := false        -- CONNECT / RAW_CONNECT had been delivered on the attempt when it was written
  smNum : Option UInt32 := none    -- the XEP-0198 number it was retained under, if it was counted
  deriving Repr, Inhabited

structure QElem where
  item : Item
  owner : Owner
  wip : Bool := false
  linked : Bool := false      -- an `<r/>` whose userdata points to the element before it
  uid : Nat := 0
  snap : Snap := {}
  deriving Repr, Inhabited

inductive Accept | all | again | hard deriving Repr, DecidableEq

/-! ### handlers -/

/-- the SCRAM mechanisms in `scram_algs[]` order are referred to by index -/
abbrev AlgIx := Nat

inductive SysH
  | error | features | featuresSasl | featuresCompress | proceedTls
  | saslResult (mech : Bytes)
  | digestChallenge | digestRspauth
  | scramChallenge (ctx : Nat) (alg : AlgIx)
  | sm | compressResult | componentHs
  | bind | session | legacy             -- id handlers
  deriving Repr, DecidableEq, Inhabited

inductive HFun | sys (h : SysH) | userAll deriving Repr, DecidableEq, Inhabited

structure Handler where
  uid : Nat
  fn : HFun
  ud : Nat := 0                 -- identity of the userdata pointer (duplicate suppression)
  ns : Option Bytes := none
  name : Option Bytes := none
  type : Option Bytes := none
  id : Option Bytes := none     -- id handlers only
  enabled : Bool := false
  user : Bool := false
  deriving Repr, Inhabited

inductive TFun
  | missingFeatures | missingFeaturesSasl | missingBind | missingSession | missingLegacy
  | missingHandshake | disconnectCleanup | userTimed
  deriving Repr, DecidableEq, Inhabited

structure Timed where
  uid : Nat
  fn : TFun
  period : Nat
  lastStamp : Nat
  enabled : Bool := false
  user : Bool := false
  deriving Repr, Inhabited

inductive OpenH | open_ | openTls | openSasl | openCompress | componentOpen | stub
  deriving Repr, DecidableEq, Inhabited

/-- user-visible notifications and callbacks, in order -/
inductive Ev
  | connect | rawConnect
  | disconnect (error : Int) (cond : Option Nat) (text : Option Bytes)
  | userStanza (name : Bytes) (id : Option Bytes)
  | userTimed
  deriving Repr, DecidableEq, Inhabited

/-- places where the C code dereferences a pointer that can be NULL / asserts -/
inductive CrashSite
  | handleErrorNoChildren      -- `_handle_error`: xmpp_stanza_get_next(NULL)
  | serializeNullId            -- `sm_state_serialize`: strlen(NULL)
  | resumedNullPrevid          -- `_handle_sm`: strcmp(previd, NULL)
  deriving Repr, DecidableEq, Inhabited

structure SmState where
  support : Bool := false
  enabled : Bool := false
  canResume : Bool := false
  resume : Bool := false
  dontRequestResume : Bool := false
  rSent : Bool := false
  handledNr : UInt32 := 0
  sentNr : UInt32 := 0
  id : Option Bytes := none
  previd : Option Bytes := none
  boundJid : Option Bytes := none
  bind : Bool := false             -- a copy of the server's <bind/> feature is kept
  queue : List (UInt32 × QElem) := []
  deriving Repr, Inhabited

/-- parser protocol state (ghost) -/
inductive PSt
  | fresh | opened | closed
  deriving Repr, DecidableEq, Inhabited

/-- ghost: what happened to the inbound XEP-0198 count, in order -/
inductive RxEv
  | stanza (counted : Bool)    -- a stanza was dispatched; `counted` = SM was enabled and it is not an SM element
  | enabledAccepted            -- `<enabled/>` answering our `<enable/>`: the count starts at 0
  | smReset                    -- `<failed/>`: the SM record was reset
  deriving Repr, DecidableEq, Inhabited

structure Conn where
  -- configuration
  jid : Option Bytes := none
  pass : Option Bytes := none
  ctype : CType := .client
  isRaw : Bool := false
  cert : Bool := false
  tlsDisabled : Bool := false
  tlsMandatory : Bool := false
  tlsLegacySsl : Bool := false
  tlsTrust : Bool := false
  authLegacy : Bool := false
  smDisable : Bool := false
  compAllowed : Bool := false
  compDontReset : Bool := false
  smCallback : Bool := false
  /-- the application's connection handler sends `<presence id='oc'/>` when it is told CONNECT -/
  sendOnConnect : Bool := false
  -- connection
  state : CState := .disconnected
  negotiated : Bool := false
  secured : Bool := false
  tlsFailed : Bool := false
  hasTls : Bool := false
  tlsSupport : Bool := false
  saslSupport : Nat := 0
  bindRequired : Bool := false
  sessionRequired : Bool := false
  compSupported : Bool := false
  compActive : Bool := false
  hasSm : Bool := false
  sm : SmState := {}
  domain : Option Bytes := none
  boundJid : Option Bytes := none
  streamId : Option Bytes := none
  error : Int := 0
  streamError : Option (Nat × Option Bytes) := none
  queue : List QElem := []
  resetParser : Bool := false
  /-- ghost: where the parser is in the protocol of `parserEvent` -/
  pst : PSt := .closed
  protoViol : Nat := 0
  /-- ghost: history of the inbound count (never cleared: the logical SM session outlives connections) -/
  rxLog : List RxEv := []
  openHandler : OpenH := .stub
  handlers : List Handler := []
  idHandlers : List Handler := []
  timed : List Timed := []
  timeoutStamp : Nat := 0
  nextUid : Nat := 1
  -- environment scripts and clock
  now : Nat := 1000000
  tcpFail : Bool := false
  tcpErr : Bool := false
  tlsStartFail : Bool := false
  tlsNewFail : Bool := false
  sched : List Accept := []
  schedDefault : Accept := .all
  -- observations of the current op
  evs : List (Ghost × Ev) := []          -- (ghost record when it was delivered, notification)
  tx : List TxRec := []
  crash : Option CrashSite := none
  g : Ghost := {}
  deriving Repr, Inhabited

/-! ### constants -/

def eConnAborted : Int := 103
def eConnReset : Int := 104
def eTimedOut : Int := 110
def xmppEInvOp : Int := -2
def xmppEInt : Int := -3

/-- ASCII literal (kernel-reducible, unlike `String.toUTF8`) -/
def b (s : String) : Bytes := s.toList.map fun c => UInt8.ofNat c.toNat

def maskOf (name : String) : Nat :=
  match name with
  | "PLAIN" => Gen.saslMaskPlain
  | "DIGEST-MD5" => Gen.saslMaskDigestmd5
  | "ANONYMOUS" => Gen.saslMaskAnonymous
  | "EXTERNAL" => Gen.saslMaskExternal
  | _ => 0

def scramMaskAll : Nat := (Gen.scramAlgs.map (·.2)).foldl (· ||| ·) 0
def scramPlusMask : Nat :=
  Gen.saslMaskScramsha1Plus ||| Gen.saslMaskScramsha256Plus ||| Gen.saslMaskScramsha512Plus

def toLower (c : UInt8) : UInt8 := if 65 ≤ c ∧ c ≤ 90 then c + 32 else c
/-- `strcasecmp(a, b) == 0` -/
def ciEq (a c : Bytes) : Bool := a.map toLower = c.map toLower

/-! ### stanza handlers and timed handlers bookkeeping (handler.c) -/

/-- `_handler_add`: appended, disabled; an identical (function, userdata) pair is kept once -/
def addHandler (c : Conn) (fn : HFun) (ud : Nat) (ns name type : Option Bytes) (user : Bool) : Conn :=
  if c.handlers.any fun h => h.fn = fn ∧ h.ud = ud then c
  else { c with handlers := c.handlers ++ [{ uid := c.nextUid, fn := fn, ud := ud, ns := ns, name := name, type := type, user := user }], nextUid := c.nextUid + 1 }

/-- `_id_handler_add` -/
def addIdHandler (c : Conn) (fn : HFun) (id : Bytes) (user : Bool) : Conn :=
  if c.idHandlers.any fun h => h.id = some id ∧ h.fn = fn ∧ h.ud = 0 then c
  else { c with idHandlers := c.idHandlers ++ [{ uid := c.nextUid, fn := fn, id := some id, user := user }], nextUid := c.nextUid + 1 }

/-- `_timed_handler_add`: prepended, stamped with the current time -/
def addTimed (c : Conn) (fn : TFun) (period : Nat) (user : Bool) : Conn :=
  if c.timed.any fun t => t.fn = fn then c
  else { c with timed := { uid := c.nextUid, fn := fn, period := period, lastStamp := c.now, user := user } :: c.timed, nextUid := c.nextUid + 1 }

/-- `xmpp_timed_handler_delete` -/
def delTimed (c : Conn) (fn : TFun) : Conn := { c with timed := c.timed.filter (·.fn ≠ fn) }

/-- `handler_reset_timed(conn, 0)` -/
def resetTimed (c : Conn) : Conn :=
  { c with timed := c.timed.map fun t => { t with lastStamp := c.now } }

/-- `handler_system_delete_all` -/
def systemDeleteAll (c : Conn) : Conn :=
  { c with handlers := c.handlers.filter (·.user), idHandlers := c.idHandlers.filter (·.user), timed := c.timed.filter (·.user) }

/-! ### stream-management state (conn.c) -/

/-- `_reset_sm_state_for_reconnect` -/
def resetSmForReconnect (c : Conn) : Conn :=
  let s := c.sm
  let s1 := { s with previd := none }
  let (s2, bj) :=
    if s1.canResume then ({ s1 with previd := s1.id, id := none, boundJid := c.boundJid }, (none : Option Bytes))
    else ({ s1 with id := none }, c.boundJid)
  { c with sm := { s2 with rSent := false, enabled := false, support := false, resume := false, bind := false }, boundJid := bj }

/-- `reset_sm_state` -/
def resetSmState (s : SmState) : SmState :=
  { s with id := none, previd := none, boundJid := none, bind := false, handledNr := 0, sentNr := 0, rSent := false }

/-- `trigger_sm_callback` → `sm_state_serialize`: only its crash behaviour matters here -/
def triggerSmCallback (c : Conn) : Conn :=
  -- with the `!id` guard of the serializer nothing can go wrong here; the callback receives a blob
  -- (C16) or NULL
  c

/-! ### notifications, disconnect -/

def notify (c : Conn) (e : Ev) : Conn :=
  let g := match e with
    | .connect | .rawConnect => { c.g with notifiedConnect := true }
    | .disconnect .. => { c.g with notifiedDisconnect := c.g.notifiedDisconnect + 1 }
    | _ => c.g
  { c with evs := c.evs ++ [(c.g, e)], g := g }

/-- `conn_disconnect` -/
def connDisconnect (c : Conn) : Conn :=
  if c.state = .disconnected then c else
  let c1 := { c with state := .disconnected, negotiated := false, hasTls := false, isRaw := false }
  let c2 := resetSmForReconnect c1
  notify c2 (.disconnect c2.error (c2.streamError.map (·.1)) (c2.streamError.bind (·.2)))

/-! ### sending (conn.c) -/

/-- `_send_raw`: append; with SM enabled and no request outstanding, a non-SM element is followed
    by a linked `<r/>` -/
def curSnap (c : Conn) : Snap :=
  { mandatory := c.tlsMandatory, tlsDisabled := c.tlsDisabled, authLegacy := c.authLegacy, isClient := c.ctype = .client, cert := c.cert, negotiated := c.negotiated, secured := c.secured, handledNr := c.sm.handledNr, g := c.g }

def pushRawWith (c : Conn) (it : Item) (owner0 : Owner) (snap : Snap) : Conn :=
  -- library elements queued before SM is enabled belong to the negotiation: never counted
  let owner := if owner0 = .strophe && !c.sm.enabled then Owner.smStrophe else owner0
  let c1 := { c with queue := c.queue ++ [{ item := it, owner := owner, uid := c.nextUid, snap := snap }], nextUid := c.nextUid + 1 }
  if !owner.smBit && c1.sm.enabled && !c1.sm.rSent then
    -- send_raw(req_ack): refused unless CONNECTED
    let c2 := { c1 with sm := { c1.sm with rSent := true } }
    if c2.state = .connected then
      triggerSmCallback
        { c2 with queue := c2.queue ++ [{ item := .req, owner := .smStrophe, linked := true, uid := c2.nextUid, snap := snap }], nextUid := c2.nextUid + 1 }
    else c2
  else triggerSmCallback c1

def pushRaw (c : Conn) (it : Item) (owner0 : Owner) : Conn := pushRawWith c it owner0 (curSnap c)

/-- `_is_connected(conn, owner)` -/
def isConnectedFor (c : Conn) (owner : Owner) : Bool :=
  c.state = .connected && (owner ≠ .user || c.negotiated)

/-- `send_stanza` -/
def sendStanza (c : Conn) (it : Item) (owner : Owner) : Conn :=
  if isConnectedFor c owner then pushRaw c it owner else c

/-- `send_raw` -/
def sendRaw (c : Conn) (it : Item) (owner : Owner) : Conn :=
  if c.state = .connected then pushRaw c it owner else c

/-- `send_raw_string` (always owned by the library's SM class) -/
def sendRawString (c : Conn) (it : Item) : Conn :=
  if c.state = .connected then pushRaw c it .smStrophe else c

/-- `xmpp_disconnect` -/
def xmppDisconnect (c : Conn) : Conn :=
  if c.state ≠ .connecting ∧ c.state ≠ .connected then c
  else addTimed (sendRawString c .close) .disconnectCleanup Gen.disconnectTimeout false

/-- `conn_tls_start`: returns success -/
def connTlsStart (c : Conn) : Conn × Bool :=
  if c.tlsDisabled then ({ c with hasTls := false }, false)
  else if c.tlsNewFail then ({ c with hasTls := false }, false)
  else if c.tlsStartFail then ({ c with hasTls := false, tlsFailed := true, error := 71 }, false)
  else ({ c with hasTls := true, secured := true }, true)

/-- `xmpp_conn_is_secured` -/
def isSecured (c : Conn) : Bool := c.secured && !c.tlsFailed && c.hasTls

/-- `conn_open_stream` -/
def connOpenStream (c : Conn) : Conn :=
  let frm := match c.jid with
    | some j => if c.hasTls && j.contains 64 then some (Jid.bare j) else none
    | none => none
  sendRawString c (.hdr (c.domain.getD []) frm (c.ctype = .component))

/-- `conn_prepare_reset` -/
def prepareReset (c : Conn) (h : OpenH) : Conn := { c with resetParser := true, openHandler := h }

/-- `_stream_negotiation_success` -/
def negotiationSuccess (c : Conn) : Conn :=
  let c1 := notify { c with negotiated := true } .connect
  -- the application's connection handler may send at once (typically its presence)
  if c1.sendOnConnect then sendStanza c1 (.user (b "presence") (some (b "oc"))) .user else c1

/-! ### authentication (auth.c) -/

/-- tokens of `strtok_r(s, ",")` -/
def splitCommas (s : Bytes) : List Bytes :=
  (s.splitOn 44).filter (!·.isEmpty)

/-- would `sasl_scram` produce a response for this (base64-decoded) server-first message? -/
def scramResponds (challenge : Bytes) : Bool :=
  let toks := splitCommas challenge
  let has (p : Bytes) := toks.any (fun t => t.take 2 = p)
  if !(has (b "r=") && has (b "s=") && has (b "i=")) then false
  else
    -- the LAST token with the prefix wins
    match (toks.filter fun t => t.take 2 = b "s=").getLast? with
    | some t => (Base64.decodeBin (t.drop 2)).isSome
    | none => false

/-- rest of the input starting at the closing quote `q` (or `[]`) -/
def skipQuoted (q : UInt8) : Bytes → Nat → Bytes
  | s, 0 => s
  | [], _ => []
  | c :: r, fuel + 1 =>
    if c = q then c :: r
    else if c = 92 then
      match r with
      | _ :: r2 => skipQuoted q r2 fuel
      | [] => []
    else skipQuoted q r fuel

/-- `_parse_digest_challenge` on the decoded text: the keys of the table -/
def digestKeys (text : Bytes) : List Bytes :=
  let rec go (fuel : Nat) (s : Bytes) (acc : List Bytes) : List Bytes :=
    match fuel with
    | 0 => acc
    | fuel + 1 =>
      let s := s.dropWhile fun c => c = 44 ∨ c = 32
      if s.isEmpty then acc else
      let key := s.takeWhile (· ≠ 61)
      let rest := s.drop key.length
      match rest with
      | [] => acc                          -- no '=': bad string
      | _ :: afterEq =>
        match afterEq with
        | q :: r =>
          if q = 39 ∨ q = 34 then
            -- up to the closing quote; a backslash escapes the next character (quoted-pair)
            let r2 := skipQuoted q r (r.length + 1)
            go fuel (match r2 with | _ :: r3 => r3 | [] => []) (acc ++ [key])
          else
            let v := afterEq.takeWhile (· ≠ 44)
            go fuel (afterEq.drop v.length) (acc ++ [key])
        | [] => acc ++ [key]
  go (text.length + 1) text []

/-- would `sasl_digest_md5` produce a response for this challenge text? -/
def digestResponds (text : Option Bytes) : Bool :=
  match text with
  | none => false
  | some t =>
    match Base64.decodeStr t with
    | none => false
    | some d => (digestKeys d).contains (b "nonce")

def anonJid (c : Conn) : Bool :=
  match c.jid with
  | some j => (Jid.node j).isNone
  | none => true

/-- first SCRAM mechanism in `scram_algs[]` order whose bit is set -/
def firstScram (support : Nat) : Option (AlgIx × Bytes × Nat) :=
  (Gen.scramAlgs.zipIdx.find? fun ((_, m), _) => support &&& m ≠ 0).map fun ((n, m), i) => (i, n, m)

/-- `_auth_legacy` -/
def authLegacyStep (c : Conn) : Conn :=
  match c.jid with
  | none => xmppDisconnect c
  | some j =>
    match Jid.node j with
    | none => xmppDisconnect c              -- disconnect_mem_error
    | some n =>
      match Jid.resource j with
      | none => xmppDisconnect c
      | some r =>
        let c1 := addIdHandler c (.sys .legacy) (b "_xmpp_auth1") false
        let c2 := addTimed c1 .missingLegacy Gen.legacyTimeout false
        -- an empty password renders as an element without text
        sendStanza c2 (.legacy n r !(c.pass.getD []).isEmpty) .strophe

/-- `_auth` -/
def auth (c : Conn) : Nat → Conn
  | 0 => c
  | fuel + 1 =>
    let anon := anonJid c
    if c.tlsSupport then
      if c.tlsNewFail then auth { c with tlsSupport := false } fuel
      else
        let c1 := addHandler c (.sys .proceedTls) 0 (some Gen.nsTls) none none false
        let c2 := sendStanza c1 .starttls .strophe
        { c2 with tlsSupport := false }
    else if c.tlsMandatory && !isSecured c then connDisconnect c
    else if anon && c.saslSupport &&& Gen.saslMaskAnonymous ≠ 0 then
      let c1 := addHandler c (.sys (.saslResult (b "ANONYMOUS"))) 1 (some Gen.nsSasl) none none false
      let c2 := sendStanza c1 (.auth (b "ANONYMOUS") false) .strophe
      { c2 with saslSupport := c2.saslSupport &&& (Gen.saslMaskAnonymous ^^^ 0xFFFF) }
    else if c.saslSupport &&& Gen.saslMaskExternal ≠ 0 then
      let c1 := addHandler c (.sys (.saslResult (b "EXTERNAL"))) 2 (some Gen.nsSasl) none none false
      let c2 := sendStanza c1 (.auth (b "EXTERNAL") true) .strophe
      { c2 with saslSupport := c2.saslSupport &&& (Gen.saslMaskExternal ^^^ 0xFFFF) }
    else if anon then xmppDisconnect c
    else if c.pass.isNone then xmppDisconnect c
    else if c.saslSupport &&& scramMaskAll ≠ 0 then
      match firstScram c.saslSupport with
      | none => c
      | some (ix, name, mask) =>
        let plus := mask &&& scramPlusMask ≠ 0
        -- `_make_scram_init_msg` fails for a -PLUS variant on an unsecured connection
        if plus && !isSecured c then xmppDisconnect c
        else
          let ctx := c.nextUid
          let c0 := { c with nextUid := c.nextUid + 1 }
          let c1 := addHandler c0 (.sys (.scramChallenge ctx ix)) (100 + ctx) (some Gen.nsSasl) none none false
          let c2 := sendStanza c1 (.auth name true) .strophe
          { c2 with saslSupport := c2.saslSupport &&& (mask ^^^ 0xFFFF) }
    else if c.saslSupport &&& Gen.saslMaskDigestmd5 ≠ 0 then
      let c1 := addHandler c (.sys .digestChallenge) 0 (some Gen.nsSasl) none none false
      let c2 := sendStanza c1 (.auth (b "DIGEST-MD5") false) .strophe
      { c2 with saslSupport := c2.saslSupport &&& (Gen.saslMaskDigestmd5 ^^^ 0xFFFF) }
    else if c.saslSupport &&& Gen.saslMaskPlain ≠ 0 then
      let c1 := addHandler c (.sys (.saslResult (b "PLAIN"))) 3 (some Gen.nsSasl) none none false
      let c2 := sendStanza c1 (.auth (b "PLAIN") true) .strophe
      { c2 with saslSupport := c2.saslSupport &&& (Gen.saslMaskPlain ^^^ 0xFFFF) }
    else if c.ctype = .client && c.authLegacy then authLegacyStep c
    else xmppDisconnect c

def authTop (c : Conn) : Conn := auth c 3

/-- `_handle_sasl_children` for one mechanism name -/
def saslChild (c : Conn) (text : Bytes) : Conn :=
  if ciEq text (b "PLAIN") then { c with saslSupport := c.saslSupport ||| Gen.saslMaskPlain }
  else if ciEq text (b "EXTERNAL") && c.cert then { c with saslSupport := c.saslSupport ||| Gen.saslMaskExternal }
  else if ciEq text (b "DIGEST-MD5") then { c with saslSupport := c.saslSupport ||| Gen.saslMaskDigestmd5 }
  else if ciEq text (b "ANONYMOUS") then { c with saslSupport := c.saslSupport ||| Gen.saslMaskAnonymous }
  else match Gen.scramAlgs.find? fun (n, _) => ciEq text n with
    | some (_, m) => { c with saslSupport := c.saslSupport ||| m }
    | none => c

/-- `_foreach_child(parent, name, f)`: text of each child element called `name` -/
def childTexts (parent : XTree) (name : Bytes) : List Bytes :=
  parent.children.filterMap fun ch =>
    if ch.name? = some name then ch.getText else none

/-- mask bit of a mechanism name as offered (EXTERNAL counted whether or not a certificate is
    configured) -/
def mechBit (text : Bytes) : Nat :=
  if ciEq text (b "PLAIN") then Gen.saslMaskPlain
  else if ciEq text (b "EXTERNAL") then Gen.saslMaskExternal
  else if ciEq text (b "DIGEST-MD5") then Gen.saslMaskDigestmd5
  else if ciEq text (b "ANONYMOUS") then Gen.saslMaskAnonymous
  else match Gen.scramAlgs.find? fun (n, _) => ciEq text n with
    | some (_, m) => m
    | none => 0

/-- ghost: record what a `<stream:features/>` element offers -/
def noteOffers (c : Conn) (st : XTree) : Conn :=
  let g := c.g
  let g := if (st.childByNameNs (b "starttls") Gen.nsTls).isSome then { g with offeredTls := true } else g
  let g := match st.childByNameNs (b "mechanisms") Gen.nsSasl with
    | some m => { g with offeredMechs := (childTexts m (b "mechanism")).foldl (fun a t => a ||| mechBit t) g.offeredMechs }
    | none => g
  let g := if (st.childByNameNs (b "bind") Gen.nsBind).isSome then { g with offeredBind := true } else g
  let g := if (st.childByNameNs (b "session") Gen.nsSession).isSome then { g with offeredSession := true } else g
  let g := if (st.childByNameNs (b "sm") Gen.nsSm).isSome then { g with offeredSm := true } else g
  let g := if (st.childByNameNs (b "compression") (b "http://jabber.org/features/compress")).isSome
    then { g with offeredComp := true } else g
  { c with g := g }

/-- `_handle_features` -/
def handleFeatures (c : Conn) (st : XTree) : Conn :=
  let c := noteOffers c st
  let c0 := delTimed c .missingFeatures
  let c1 :=
    if !c0.secured then
      if !c0.tlsDisabled then
        if (st.childByNameNs (b "starttls") Gen.nsTls).isSome then { c0 with tlsSupport := true } else c0
      else { c0 with tlsSupport := false }
    else c0
  let c2 := match st.childByNameNs (b "mechanisms") Gen.nsSasl with
    | some m => (childTexts m (b "mechanism")).foldl saslChild c1
    | none => c1
  let keep := Gen.saslMaskPlain ||| Gen.saslMaskAnonymous
  let c3 := if c2.saslSupport &&& (keep ^^^ 0xFFFF) ≠ 0
    then { c2 with saslSupport := c2.saslSupport &&& (Gen.saslMaskPlain ^^^ 0xFFFF) } else c2
  authTop c3

/-- `_do_bind` -/
def doBind (c : Conn) : Conn :=
  let c1 := addIdHandler c (.sys .bind) (b "_xmpp_bind1") false
  let c2 := addTimed c1 .missingBind Gen.bindTimeout false
  let res := match c2.jid with
    | some j => match Jid.resource j with
      | some r => if r.isEmpty then none else some r
      | none => none
    | none => none
  sendStanza c2 (.bind res) .strophe

/-- `_sm_enable` -/
def smEnable (c : Conn) : Conn :=
  let c1 := addHandler c (.sys .sm) 0 (some Gen.nsSm) none none false
  let c2 := sendStanza c1 (.enable (!c1.sm.dontRequestResume)) .smStrophe
  triggerSmCallback { c2 with sm := { c2.sm with sentNr := 0, enabled := true } }

/-- `_session_start` -/
def sessionStart (c : Conn) : Conn :=
  let c1 := addIdHandler c (.sys .session) (b "_xmpp_session1") false
  let c2 := addTimed c1 .missingSession Gen.sessionTimeout false
  sendStanza c2 .session .strophe

/-- `_handle_features_sasl` -/
def handleFeaturesSasl (c : Conn) (st : XTree) : Conn :=
  let c := noteOffers c st
  let c0 := delTimed c .missingFeaturesSasl
  let hasBind := (st.childByNameNs (b "bind") Gen.nsBind).isSome
  let c1 := { c0 with bindRequired := hasBind }
  let c2 := match st.childByNameNs (b "session") Gen.nsSession with
    | some s => { c1 with sessionRequired := (s.childByName (b "optional")).isNone }
    | none => c1
  let c3 := if (st.childByNameNs (b "sm") Gen.nsSm).isSome
    then { c2 with sm := { c2.sm with support := true } } else c2
  if !c3.smDisable && c3.sm.support && c3.sm.canResume && c3.sm.previd.isSome && c3.sm.boundJid.isSome then
    let c4 := { c3 with sm := { c3.sm with bind := hasBind, resume := true } }
    let c5 := sendStanza c4 (.resume (c4.sm.previd.getD []) c4.sm.handledNr) .smStrophe
    addHandler c5 (.sys .sm) 0 (some Gen.nsSm) none none false
  else if c3.bindRequired then doBind c3
  else xmppDisconnect c3

/-- `compression_handle_feature_children` over the `<method/>` children -/
def compressionOffer (c : Conn) (st : XTree) : Conn :=
  match st.childByNameNs (b "compression") (b "http://jabber.org/features/compress") with
  | some ch =>
    if c.compAllowed && (childTexts ch (b "method")).any (fun t => ciEq t (b "zlib"))
    then { c with compSupported := true } else c
  | none => c

/-- `_handle_features_compress` -/
def handleFeaturesCompress (c : Conn) (st : XTree) : Conn :=
  let c := noteOffers c st
  let c0 := delTimed c .missingFeaturesSasl
  let c1 := compressionOffer c0 st
  if c1.compSupported then
    let c2 := sendRaw c1 .compress .strophe
    addHandler c2 (.sys .compressResult) 0 (some (b "http://jabber.org/protocol/compress")) none none false
  else handleFeaturesSasl c1 st

/-- `_handle_sasl_result` -/
def handleSaslResult (c : Conn) (st : XTree) : Conn :=
  let name := st.name?.getD []
  if name = b "failure" then authTop c
  else if name = b "success" then
    let c := { c with g := { c.g with authOk := true } }
    connOpenStream (prepareReset c (if c.compAllowed then .openCompress else .openSasl))
  else xmppDisconnect c

/-- C `strtoul(s, &end, 10)` followed by `*end != 0` (string_to_ul): (value mod 2^64, failed) -/
def stringToUl (s : Bytes) : Nat × Bool :=
  let ws := s.dropWhile fun c => c = 32 ∨ (9 ≤ c ∧ c ≤ 13)
  let (neg, r) := match ws with
    | 45 :: r => (true, r)
    | 43 :: r => (false, r)
    | r => (false, r)
  let ds := r.takeWhile fun c => 48 ≤ c ∧ c ≤ 57
  if ds.isEmpty then (0, !s.isEmpty)      -- no conversion: endptr = s
  else
    let v : Nat := ds.foldl (fun acc d => acc * 10 + (d.toNat - 48)) 0
    let rest := r.drop ds.length
    let v' := if v ≥ 2 ^ 64 then 2 ^ 64 - 1 else if neg then (2 ^ 64 - v) % 2 ^ 64 else v
    (v', !rest.isEmpty)

/-- `_get_h_attribute`: none = failure -/
def getH (st : XTree) : Option Nat :=
  match st.attr (b "h") with
  | none => none
  | some h => let (v, bad) := stringToUl h; if bad then none else some v

/-- `_sm_queue_cleanup` -/
def smQueueCleanup (q : List (UInt32 × QElem)) (h : Nat) : List (UInt32 × QElem) :=
  q.dropWhile fun e => e.1.toNat < h

/-- `_sm_queue_resend`: every retained element goes back through `send_raw` with its owner -/
def smQueueResend (c : Conn) : Conn :=
  let q := c.sm.queue
  let c0 := { c with sm := { c.sm with queue := [] } }
  -- (ghost: a retransmitted element keeps the snapshot of when it was first queued)
  q.foldl (fun c e => if c.state = .connected then pushRawWith c e.2.item e.2.owner e.2.snap else c) c0

/-- `_handle_sm` -/
def handleSm (c : Conn) (st : XTree) : Conn :=
  let name := st.name?.getD []
  if name = b "enabled" then
    -- an <enabled/> that does not answer <enable/> is a protocol error
    if !c.sm.enabled then { c with sm := { c.sm with enabled := false } } else
    let c1 := { c with sm := { c.sm with handledNr := 0 } }
    match st.attr (b "resume") with
    | some _ =>
      match st.attr (b "id") with
      | none =>
        -- error: name := NULL; sm_enabled := (bind != NULL) = false
        { c1 with sm := { c1.sm with enabled := false } }
      | some id =>
        let c2 := { c1 with sm := { c1.sm with canResume := true, id := some id } }
        triggerSmCallback (negotiationSuccess (smQueueResend c2))
    | none => triggerSmCallback (negotiationSuccess (smQueueResend c1))
  else if name = b "resumed" then
    match c.sm.previd with
    | none => { c with sm := { c.sm with enabled := false } }     -- no resumption was requested
    | some ours =>
      if st.attr (b "previd") ≠ some ours then { c with sm := { c.sm with enabled := false } }
      else match getH st with
        | none => { c with sm := { c.sm with enabled := false } }
        | some h =>
          let q := smQueueCleanup c.sm.queue h
          let sent : UInt32 := match q with
            | e :: _ => e.1
            | [] => UInt32.ofNat h
          let c1 := { c with sm := { c.sm with enabled := true, id := c.sm.previd, previd := none, boundJid := none, sentNr := sent, queue := q }, boundJid := c.sm.boundJid, g := { c.g with resumed := true } }
          triggerSmCallback (negotiationSuccess (smQueueResend c1))
  else if name = b "failed" then
    let wasResume := c.sm.resume
    let c1 := { c with sm := { c.sm with enabled := false } }
    match st.childByNs Gen.nsStanzasIetf with
    | none => c1
    | some cause =>
      let cn := cause.name?.getD []
      let c2 :=
        if cn = b "item-not-found" then
          if c1.sm.resume then
            let h := (getH st).getD 0
            { c1 with sm := { c1.sm with queue := smQueueCleanup c1.sm.queue h } }
          else c1
        else if cn = b "feature-not-implemented" then
          { c1 with sm := { c1.sm with resume := false, canResume := false, dontRequestResume := true } }
        else c1
      let hadBind := c2.sm.bind
      let c3 := { c2 with sm := resetSmState c2.sm }
      -- a failed resumption re-binds; a refused <enable/> completes the negotiation without SM
      if hadBind then triggerSmCallback (doBind c3)
      else if wasResume then triggerSmCallback (xmppDisconnect c3)   -- nothing to fall back to
      else if !c3.negotiated then triggerSmCallback (negotiationSuccess c3)
      else triggerSmCallback c3
  else { c with sm := { c.sm with enabled := false } }

/-- `_handle_bind` -/
def handleBind (c : Conn) (st : XTree) : Conn :=
  let c0 := delTimed c .missingBind
  match st.attr (b "type") with
  | some t =>
    if t = b "error" then xmppDisconnect c0
    else if t = b "result" then
      let bj := match st.childByName (b "bind") with
        | some bnd => match bnd.childByName (b "jid") with
          | some j => j.getText
          | none => none
        | none => none
      let c0 := { c0 with g := { c0.g with bound := true } }
      let c1 := match st.childByName (b "bind") with
        | some bnd => if (bnd.childByName (b "jid")).isSome then { c0 with boundJid := bj } else c0
        | none => c0
      if c1.sessionRequired then sessionStart c1
      else if c1.sm.support && !c1.smDisable then smEnable c1
      else negotiationSuccess c1
    else xmppDisconnect c0
  | none => xmppDisconnect c0

/-- `_handle_session` -/
def handleSession (c : Conn) (st : XTree) : Conn :=
  let c0 := delTimed c .missingSession
  match st.attr (b "type") with
  | some t =>
    if t = b "error" then xmppDisconnect c0
    else if t = b "result" then
      if c0.sm.support && !c0.smDisable then smEnable c0 else negotiationSuccess c0
    else xmppDisconnect c0
  | none => xmppDisconnect c0

/-- `_handle_legacy` -/
def handleLegacy (c : Conn) (st : XTree) : Conn :=
  let c0 := delTimed c .missingLegacy
  match st.attr (b "type") with
  | none => xmppDisconnect c0
  | some t =>
    if st.name? ≠ some (b "iq") then xmppDisconnect c0
    else if t = b "error" then xmppDisconnect c0
    else if t = b "result" then negotiationSuccess { c0 with g := { c0.g with legacyOk := true } }
    else xmppDisconnect c0

/-- `_handle_error`: (condition index, text) -/
def handleError (c : Conn) (st : XTree) : Conn :=
  let step (acc : Nat × Option Bytes) (ch : XTree) : Nat × Option Bytes :=
    if ch.ns? = some Gen.nsStreamsIetf then
      let n := ch.name?.getD []
      if n = b "text" then (acc.1, ch.getText)
      else match Gen.streamErrorNames.find? fun p => p.2 = n with
        | some p => (p.1, acc.2)
        | none => acc
    else acc
  { c with streamError := some (st.children.foldl step (19, none)) }

/-- what one system stanza handler does; returns the new state and "keep the handler" -/
def runSys (c : Conn) (h : SysH) (st : XTree) : Conn × Bool :=
  match h with
  | .error => (handleError c st, true)
  | .features => (handleFeatures c st, false)
  | .featuresSasl => (handleFeaturesSasl c st, false)
  | .featuresCompress => (handleFeaturesCompress c st, false)
  | .proceedTls =>
    if st.name? = some (b "proceed") then
      let (c1, ok) := connTlsStart c
      if ok then (connOpenStream (prepareReset c1 .openTls), false) else (xmppDisconnect c1, false)
    else (c, false)
  | .saslResult _ => (handleSaslResult c st, false)
  | .digestChallenge =>
    if st.name? = some (b "challenge") then
      if digestResponds st.getText then
        let c1 := addHandler c (.sys .digestRspauth) 0 (some Gen.nsSasl) none none false
        (sendStanza c1 (.response true) .strophe, false)
      else (xmppDisconnect c, false)
    else (handleSaslResult c st, false)
  | .digestRspauth =>
    if st.name? = some (b "challenge") then (sendStanza c (.response false) .strophe, true)
    else (handleSaslResult c st, false)
  | .scramChallenge _ _ =>
    if st.name? = some (b "challenge") then
      let ok := match st.getText with
        | none => false
        | some t => match Base64.decodeStr t with
          | none => false
          | some ch => scramResponds ch
      if ok then (sendStanza c (.response true) .strophe, true) else (xmppDisconnect c, false)
    else (handleSaslResult c st, false)
  | .sm =>
    -- matched through a child only: not the answer, keep waiting
    if st.ns? ≠ some Gen.nsSm then (c, true) else (handleSm c st, false)
  | .compressResult =>
    if st.name? = some (b "compressed") then
      (connOpenStream { (prepareReset c .openSasl) with compActive := true }, false)
    else (c, false)
  | .componentHs =>
    let c0 := delTimed c .missingHandshake
    if st.name? ≠ some (b "handshake") then (xmppDisconnect c0, true)
    else (negotiationSuccess { c0 with g := { c0.g with handshakeAck := true } }, false)
  | .bind => (handleBind c st, false)
  | .session => (handleSession c st, false)
  | .legacy => (handleLegacy c st, false)

def runHandler (c : Conn) (h : Handler) (st : XTree) : Conn × Bool :=
  match h.fn with
  | .sys k => runSys c k st
  | .userAll => (notify c (.userStanza (st.name?.getD []) (st.attr (b "id"))), true)

/-- filter of a stanza handler (`handler_fire_stanza`) -/
def hMatches (h : Handler) (st : XTree) : Bool :=
  (match h.ns with
   | none => true
   | some ns => st.ns? = some ns || (st.childByNs ns).isSome) &&
  (match h.name with
   | none => true
   | some n => st.name? = some n) &&
  (match h.type with
   | none => true
   | some t => st.attr (b "type") = some t)

/-- One visit of the `while (item)` loop over `conn->handlers`.  The loop walks `item->next`
    (re-read after every call); handlers added during the dispatch are appended disabled and are
    skipped, handlers deleted by an earlier handler are not reached: that is the same as visiting
    the handlers present at the start, in order, and skipping those no longer present. -/
def fireOne (st : XTree) (c : Conn) (uid : Nat) : Conn :=
  match c.handlers.find? (·.uid = uid) with
  | none => c
  | some h =>
    if (h.user && !c.negotiated) || !h.enabled then c
    else if hMatches h st then
      let (c1, keep) := runHandler c h st
      if keep then c1 else { c1 with handlers := c1.handlers.filter (·.uid ≠ uid) }
    else c

/-- one visit of the id-handler loop -/
def fireIdOne (st : XTree) (c : Conn) (uid : Nat) : Conn :=
  match c.idHandlers.find? (·.uid = uid) with
  | none => c
  | some h =>
    if (h.user && !c.negotiated) || !h.enabled then c
    else
      let (c1, keep) := runHandler c h st
      if keep then c1 else { c1 with idHandlers := c1.idHandlers.filter (·.uid ≠ uid) }

/-- `handler_fire_stanza` -/
def fireStanza (c : Conn) (st : XTree) : Conn :=
  -- enable all added stanza handlers: before the id handlers run, so that one added by an id
  -- handler does not see this stanza
  let cE : Conn := { c with handlers := c.handlers.map fun (h : Handler) => { h with enabled := true } }
  let c1 : Conn := match st.attr (b "id") with
    | some id =>
      let c0 : Conn := { cE with idHandlers := cE.idHandlers.map fun (h : Handler) => if h.id = some id then { h with enabled := true } else h }
      ((c0.idHandlers.filter (·.id = some id)).map (·.uid)).foldl (fireIdOne st) c0
    | none => cE
  (c1.handlers.map (·.uid)).foldl (fireOne st) c1

/-- `_conn_sm_handle_stanza` -/
def smHandleStanza (c : Conn) (st : XTree) : Conn :=
  match st.ns? with
  | some ns =>
    if ns ≠ Gen.nsSm then triggerSmCallback { c with sm := { c.sm with handledNr := c.sm.handledNr + 1 } }
    else smElement c st
  | none => smElement c st
where
  smElement (c : Conn) (st : XTree) : Conn :=
    match st.name? with
    | none => c
    | some name =>
      if name = b "r" then
        triggerSmCallback (sendStanza c (.ack c.sm.handledNr) .smStrophe)
      else if name = b "a" then
        match st.attr (b "h") with
        | none => c
        | some hs =>
          let (v, bad) := stringToUl hs
          let h := if bad then 2 ^ 64 - 1 else v
          triggerSmCallback { c with sm := { c.sm with queue := c.sm.queue.dropWhile (fun e => e.1.toNat < h), rSent := false } }
      else triggerSmCallback c

/-- ghost: the pending XEP-0198 handler (installed with `<enable/>` / `<resume/>`) will see this element -/
def smAnswer (c : Conn) (st : XTree) (name : Bytes) : Bool :=
  (c.handlers.any fun h => h.fn = .sys .sm) && st.ns? = some Gen.nsSm && st.name? = some name

/-- ghost: markers for the inbound count, decided from what arrives and what was asked for (not from
    what `handleSm` does): `<enabled/>` answering our `<enable/>`; `<failed/>` with a cause -/
def rxMarks (c : Conn) (st : XTree) : List RxEv :=
  if smAnswer c st (b "enabled") && c.sm.enabled then [.enabledAccepted]
  else if smAnswer c st (b "failed") && (st.childByNs Gen.nsStanzasIetf).isSome then [.smReset]
  else []

/-- ghost: this dispatched stanza counts for XEP-0198: SM is on (after the handlers ran) and it is
    not an SM element -/
def countsInbound (c0 : Conn) (st : XTree) : Bool :=
  c0.sm.enabled && (match st.ns? with | some ns => ns ≠ Gen.nsSm | none => false)

/-- `_handle_stream_stanza` -/
def handleStreamStanza (c : Conn) (st : XTree) : Conn :=
  if c.state = .disconnected then c else
  let c0 := fireStanza c st
  let c1 := { c0 with rxLog := c0.rxLog ++ rxMarks c st ++ [.stanza (countsInbound c0 st)] }
  if c1.sm.enabled then smHandleStanza c1 st else c1

/-- `_handle_component_auth` + the rest of `auth_handle_component_open` -/
def componentOpen (c : Conn) : Conn :=
  let c1 := resetTimed c
  let c2 := addHandler c1 (.sys .error) 0 (some Gen.nsStreams) (some (b "error")) none false
  match c2.streamId with
  | none => xmppDisconnect c2
  | some _ =>
    let c3 := sendRawString c2 .handshake
    let c4 := addHandler c3 (.sys .componentHs) 0 none (some (b "handshake")) none false
    addTimed c4 .missingHandshake Gen.handshakeTimeout false

/-- the stream-open handlers -/
def runOpenHandler (c : Conn) : Conn :=
  match c.openHandler with
  | .open_ =>
    let c1 := resetTimed c
    let c2 := addHandler c1 (.sys .error) 0 (some Gen.nsStreams) (some (b "error")) none false
    let c3 := addHandler c2 (.sys .features) 0 (some Gen.nsStreams) (some (b "features")) none false
    addTimed c3 .missingFeatures Gen.featuresTimeout false
  | .openTls =>
    let c1 := addHandler c (.sys .features) 0 (some Gen.nsStreams) (some (b "features")) none false
    addTimed c1 .missingFeatures Gen.featuresTimeout false
  | .openSasl =>
    let c1 := addHandler c (.sys .featuresSasl) 0 (some Gen.nsStreams) (some (b "features")) none false
    addTimed c1 .missingFeaturesSasl Gen.featuresTimeout false
  | .openCompress =>
    let c1 := addHandler c (.sys .featuresCompress) 0 (some Gen.nsStreams) (some (b "features")) none false
    addTimed c1 .missingFeaturesSasl Gen.featuresTimeout false
  | .componentOpen => componentOpen c
  | .stub => c

/-- `_handle_stream_start` -/
def handleStreamStart (c : Conn) (name : Bytes) (id : Option Bytes) : Conn :=
  if c.state = .disconnected then c else
  let c1 := { c with streamId := none }
  if name = b "stream" then runOpenHandler { c1 with streamId := id }
  else connDisconnect c1

/-- `_handle_stream_end` -/
def handleStreamEnd (c : Conn) : Conn :=
  if c.state = .disconnected then c else
  let c1 := triggerSmCallback { c with sm := { c.sm with canResume := false } }
  connDisconnect (delTimed c1 .disconnectCleanup)

/-! ### parser events -/

inductive PEv
  | open_ (name : Bytes) (id : Option Bytes)
  | stanza (t : XTree)
  | end_
  | error
  deriving Repr, Inhabited

/-- The parser (parser_expat.c over expat) delivers, between two resets: at most one stream open,
    then stanzas, then at most one stream end; after an end or an error nothing but errors
    (hypothesis H-parser-protocol, checked on every run: the driver reports an event outside it).
    Events outside the protocol are counted in `protoViol` and otherwise ignored. -/
def parserEvent (c : Conn) : PEv → Conn
  | .open_ n id =>
    if c.pst ≠ .fresh then { c with protoViol := c.protoViol + 1 }
    else handleStreamStart { c with pst := .opened } n id
  | .stanza t =>
    if c.pst ≠ .opened then { c with protoViol := c.protoViol + 1 } else handleStreamStanza c t
  | .end_ =>
    if c.pst ≠ .opened then { c with protoViol := c.protoViol + 1 }
    else handleStreamEnd { c with pst := .closed }
  | .error => sendStanza { c with pst := .closed } (.error (b "invalid-xml")) .smStrophe

/-! ### timed handlers (handler.c `handler_fire_timed`) -/

def runTimed (c : Conn) (f : TFun) : Conn × Bool :=
  match f with
  | .missingFeatures =>
    -- xmpp_handler_delete(conn, _handle_features)
    (authTop { c with handlers := c.handlers.filter (fun h => h.fn ≠ .sys .features) }, false)
  | .missingFeaturesSasl | .missingBind | .missingSession | .missingLegacy | .missingHandshake =>
    (xmppDisconnect c, false)
  | .disconnectCleanup => (connDisconnect c, false)
  | .userTimed => (notify c .userTimed, true)

/-- one visit of the timed-handler loop (handlers added meanwhile are prepended: never reached) -/
def fireTimedOne (c : Conn) (uid : Nat) : Conn :=
  match c.timed.find? (·.uid = uid) with
  | none => c
  | some t =>
    if (t.user && !c.negotiated) || !t.enabled then c
    else if c.now - t.lastStamp ≥ t.period then
      let c0 : Conn := { c with timed := c.timed.map fun (x : Timed) => if x.uid = uid then { x with lastStamp := c.now } else x }
      let (c1, keep) := runTimed c0 t.fn
      if keep then c1 else { c1 with timed := c1.timed.filter (·.uid ≠ uid) }
    else c

/-- `handler_fire_timed` for this connection (context-wide handlers are not used here) -/
def fireTimed (c : Conn) : Conn :=
  if c.state ≠ .connected then c
  else
    let c1 : Conn := { c with timed := c.timed.map fun (t : Timed) => { t with enabled := true } }
    (c1.timed.map (·.uid)).foldl fireTimedOne c1

/-! ### the event loop (event.c `xmpp_run_once`) -/

/-- bookkeeping for one completely written element -/
def retire (c : Conn) (e : QElem) : Conn :=
  let c1 := { c with tx := c.tx ++ [{ item := e.item, owner := e.owner, sec := c.hasTls, snap := e.snap, attemptW := c.g.attempt, mandatoryW := c.tlsMandatory, tlsDisabledW := c.tlsDisabled, legacyW := c.authLegacy, notifiedW := c.g.notifiedConnect, smNum := if !e.owner.smBit && c.sm.enabled then some c.sm.sentNr else none }] }
  if !e.owner.smBit && c1.sm.enabled then
    triggerSmCallback { c1 with sm := { c1.sm with queue := c1.sm.queue ++ [(c1.sm.sentNr, e)], sentNr := c1.sm.sentNr + 1 } }
  else triggerSmCallback c1

/-- the write loop, element-wise, over the elements queued when it starts (nothing is queued by
    the loop itself): `all` completes an element, `again` / `hard` stop -/
def writeElems (c : Conn) : List QElem → Conn
  | [] => { c with queue := [] }
  | e :: q =>
    let (a, sched') := match c.sched with
      | a :: r => (a, r)
      | [] => (c.schedDefault, [])
    match a with
    | .all => writeElems (retire { c with queue := q, sched := sched' } e) q
    | .again => { c with queue := { e with wip := true } :: q, sched := sched' }
    | .hard => { c with queue := { e with wip := true } :: q, sched := sched', error := eConnReset }

def writeLoop (c : Conn) : Conn := writeElems c c.queue

/-- `conn_established` -/
def connEstablished (c : Conn) : Conn :=
  if c.tlsLegacySsl && !c.isRaw then
    let (c1, ok) := connTlsStart c
    if !ok then connDisconnect c1
    else connOpenStream c1
  else if c.isRaw then
    notify { (resetTimed c) with negotiated := true } .rawConnect
  else connOpenStream c

inductive Rx
  | none
  | data (evs : List PEv)
  | eof
  | ioerr
  deriving Repr, Inhabited

/-- one `xmpp_run_once` -/
def runOnce (c : Conn) (rx : Rx) : Conn :=
  -- send queued data
  let c1 :=
    if c.state = .connected then
      let w := writeLoop c
      if w.error ≠ 0 then connDisconnect { w with error := eConnAborted } else w
    else c
  -- reset parsers if needed
  let c2 := { c1 with resetParser := false, pst := if c1.resetParser then .fresh else c1.pst }
  -- timed handlers
  let c3 := fireTimed c2
  -- what to wait for
  let c4 :=
    if c3.state = .connecting then
      if c3.now - c3.timeoutStamp ≤ Gen.connectTimeout then c3
      else if c3.tcpFail then connDisconnect { c3 with error := eTimedOut }
      else { c3 with timeoutStamp := c3.now }
    else c3
  if c4.state = .disconnected then c4      -- no descriptor to wait on: sleep and return
  else
    let readable := match rx with | .none => false | _ => true
    let ready := c4.state = .connecting || readable || (c4.state = .connected && !c4.queue.isEmpty)
    if !ready then c4
    else
      let c5 :=
        if c4.state = .connecting then
          if c4.tcpErr then
            if c4.tcpFail then connDisconnect { c4 with error := -1 }
            else { c4 with timeoutStamp := c4.now }
          else connEstablished { c4 with state := .connected }
        else if c4.state = .connected then
          match rx with
          | .none => c4
          | .data evs => evs.foldl parserEvent c4
          | .eof => connDisconnect { c4 with error := 0 }
          | .ioerr => connDisconnect { c4 with error := eConnReset }
        else c4
      fireTimed c5

/-! ### API calls -/

/-- `_conn_reset` -/
def connReset (c : Conn) : Conn :=
  if c.state ≠ .disconnected then c
  else systemDeleteAll
    { c with compActive := false, queue := [], streamError := none, domain := none, boundJid := none, streamId := none, negotiated := false, secured := false, tlsFailed := false, error := 0, tlsSupport := false, saslSupport := 0, compSupported := false, bindRequired := false, sessionRequired := false }

/-- `xmpp_conn_set_flags`: returns the return code -/
def setFlags (c : Conn) (f : Nat) : Conn × Int :=
  let bit (m : Nat) : Bool := f &&& m ≠ 0
  if c.state ≠ .disconnected then (c, xmppEInvOp)
  else if bit Gen.flagDisableTls && (bit Gen.flagMandatoryTls || bit Gen.flagLegacySsl || bit Gen.flagTrustTls) then
    (c, xmppEInvOp)
  else
    let c1 := { c with tlsDisabled := bit Gen.flagDisableTls, tlsMandatory := bit Gen.flagMandatoryTls, tlsLegacySsl := bit Gen.flagLegacySsl, tlsTrust := bit Gen.flagTrustTls, authLegacy := bit Gen.flagLegacyAuth, smDisable := bit Gen.flagDisableSm, compAllowed := bit Gen.flagEnableCompression, compDontReset := bit Gen.flagCompressionDontReset }
    let known := Gen.flagDisableTls ||| Gen.flagMandatoryTls ||| Gen.flagLegacySsl ||| Gen.flagTrustTls |||
                 Gen.flagLegacyAuth ||| Gen.flagDisableSm ||| Gen.flagEnableCompression |||
                 Gen.flagCompressionDontReset
    if f &&& (known ^^^ 0xFFFFFFFFFFFFFFFF) ≠ 0 then (c1, xmppEInvOp) else (c1, 0)

/-- `xmpp_conn_get_flags` -/
def getFlags (c : Conn) : Nat :=
  (if c.tlsDisabled then Gen.flagDisableTls else 0) ||| (if c.tlsMandatory then Gen.flagMandatoryTls else 0) |||
  (if c.tlsLegacySsl then Gen.flagLegacySsl else 0) ||| (if c.tlsTrust then Gen.flagTrustTls else 0) |||
  (if c.smDisable then Gen.flagDisableSm else 0) ||| (if c.compAllowed then Gen.flagEnableCompression else 0) |||
  (if c.compDontReset then Gen.flagCompressionDontReset else 0) |||
  (if c.authLegacy then Gen.flagLegacyAuth else 0)

/-- `_conn_connect` -/
def connConnect (c : Conn) (domain : Bytes) (t : CType) : Conn × Int :=
  if c.state ≠ .disconnected then (c, xmppEInvOp)
  else
    let c1 := { (connReset c) with ctype := t, domain := some domain }
    if c1.tcpFail then (c1, xmppEInt)
    else
      let oh := if c1.isRaw then OpenH.stub else if t = .client then .open_ else .componentOpen
      ({ (prepareReset c1 oh) with state := .connecting, timeoutStamp := c1.now,
                                   g := { attempt := c1.g.attempt + 1 } }, 0)

/-- `xmpp_connect_client` (the harness passes no alternative host) -/
def connectClient (c : Conn) : Conn × Int :=
  match c.jid with
  | none => (c, xmppEInvOp)       -- (with a certificate and no jid: xmppAddr count ≠ 1 → EINVOP too)
  | some j =>
    -- a JID without a usable domain is refused (the domain pins the server certificate)
    if (Jid.domain j).head? = none ∨ (Jid.domain j).head? = some 46 then (c, xmppEInvOp) else
    let c1 := if c.hasSm then c else { c with hasSm := true, sm := {} }
    connConnect c1 (Jid.domain j) .client

/-- `xmpp_connect_component` -/
def connectComponent (c : Conn) : Conn × Int :=
  if c.jid.isNone || c.pass.isNone then (c, xmppEInvOp)
  else
    let (c1, _) := setFlags c (getFlags c ||| Gen.flagDisableTls)
    if !c1.tlsDisabled then (c1, xmppEInt)
    else
      let c2 := if c1.hasSm then c1 else { c1 with hasSm := true, sm := {} }
      connConnect c2 (c2.jid.getD []) .component

/-- `xmpp_connect_raw` -/
def connectRaw (c : Conn) : Conn × Int :=
  if c.state ≠ .disconnected then (c, xmppEInvOp)
  else
    let (c1, rc) := connectClient { c with isRaw := true }
    if rc ≠ 0 then ({ c1 with isRaw := false }, rc) else (c1, rc)

/-- `xmpp_send` -/
def xmppSend (c : Conn) (it : Item) : Conn := sendStanza c it .user
/-- `xmpp_send_raw_string` -/
def xmppSendRawString (c : Conn) (it : Item) : Conn :=
  if isConnectedFor c .user then pushRaw c it .user else c
/-- `xmpp_send_raw`: only the TCP state is checked, NOT the negotiation (known finding D13) -/
def xmppSendRaw (c : Conn) (it : Item) : Conn := sendRaw c it .user

/-- `xmpp_conn_release` (single reference): the part visible to the user -/
def release (c : Conn) : Conn :=
  if c.state = .connecting ∨ c.state = .connected then connDisconnect c else c

end Strophe.Conn
