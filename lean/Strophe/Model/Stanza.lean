/-
Model of src/stanza.c: the stanza tree, its mutators and accessors, `_escape_xml`, the recursive
renderer with its `snprintf`-truncation accounting, `xmpp_stanza_to_text` (1024-byte first attempt,
exact retry), copy, reply, reply_error, error_new.

A node is `struct _xmpp_stanza_t`: `type` ∈ {UNKNOWN, TEXT, TAG}, `data` (name or text), `attributes`
(NULL until the first xmpp_stanza_set_attribute, then a hash table that stays even when emptied), and
the `children` chain (a `List`; `add_child` appends).  Children can hang below nodes of any type
because xmpp_stanza_add_child does not look at the type.  `parent` is not stored: the only reader of
`stanza->parent` is the renderer, which receives the parent's attribute table as an argument.
Reference counts are not part of this model (C12).  All strings are C strings: callers strip
everything from the first NUL (`cstr`).  Allocation failures are not modelled.
-/
import Strophe.Model.HashTab

namespace Strophe

inductive Tree where
  /-- XMPP_STANZA_TAG: `data` = name -/
  | tag (name : Bytes) (attrs : Option HashTab) (kids : List Tree)
  /-- XMPP_STANZA_TEXT: `data` = text -/
  | text (data : Bytes) (kids : List Tree)
  /-- XMPP_STANZA_UNKNOWN: `data` = NULL (fresh from xmpp_stanza_new) -/
  | unknown (kids : List Tree)
  deriving Repr, Inhabited

namespace Stanza

def bytesOfNats (l : List Nat) : Bytes := l.map UInt8.ofNat

def xmlnsKey : Bytes := [120, 109, 108, 110, 115]            -- "xmlns"
def nsClient : Bytes := bytesOfNats Gen.Stanza.nsClient       -- XMPP_NS_CLIENT
def nsStanzas : Bytes := bytesOfNats Gen.Stanza.nsStanzas     -- XMPP_NS_STANZAS_IETF
def nsStreams : Bytes := bytesOfNats Gen.Stanza.nsStreams     -- XMPP_NS_STREAMS_IETF
def kTo : Bytes := [116, 111]                                 -- "to"
def kFrom : Bytes := [102, 114, 111, 109]                     -- "from"
def kType : Bytes := [116, 121, 112, 101]                     -- "type"
def sError : Bytes := [101, 114, 114, 111, 114]               -- "error"
def sText : Bytes := [116, 101, 120, 116]                     -- "text"

/-- what C sees of a byte string handed over as `char *` -/
def cstr (b : Bytes) : Bytes := b.takeWhile (· ≠ 0)

/-! ### construction and mutation (each returns the new node and the C return code) -/

/-- `xmpp_stanza_new` -/
def new : Tree := .unknown []

def kids : Tree → List Tree
  | .tag _ _ ks => ks
  | .text _ ks => ks
  | .unknown ks => ks

def setKids : Tree → List Tree → Tree
  | .tag n a _, ks => .tag n a ks
  | .text d _, ks => .text d ks
  | .unknown _, ks => .unknown ks

/-- `xmpp_stanza_set_name` -/
def setName (t : Tree) (name : Bytes) : Tree × Int :=
  match t with
  | .text _ _ => (t, Gen.Stanza.eInvOp)
  | .tag _ a ks => (.tag name a ks, Gen.Stanza.eOk)
  | .unknown ks => (.tag name none ks, Gen.Stanza.eOk)

/-- `xmpp_stanza_set_text` / `xmpp_stanza_set_text_with_size` -/
def setText (t : Tree) (data : Bytes) : Tree × Int :=
  match t with
  | .tag _ _ _ => (t, Gen.Stanza.eInvOp)
  | .text _ ks => (.text data ks, Gen.Stanza.eOk)
  | .unknown ks => (.text data ks, Gen.Stanza.eOk)

/-- `xmpp_stanza_set_attribute` (the table is created with `attrBuckets` chains on first use) -/
def setAttribute (t : Tree) (key val : Bytes) : Tree × Int :=
  match t with
  | .tag n a ks =>
    (.tag n (some ((a.getD (HashTab.new Gen.Stanza.attrBuckets)).add key val)) ks, Gen.Stanza.eOk)
  | _ => (t, Gen.Stanza.eInvOp)

/-- `xmpp_stanza_set_ns` -/
def setNs (t : Tree) (ns : Bytes) : Tree × Int := setAttribute t xmlnsKey ns

/-- `xmpp_stanza_del_attribute` (returns -1, not an XMPP_E code, on failure) -/
def delAttribute (t : Tree) (key : Bytes) : Tree × Int :=
  match t with
  | .tag n (some tab) ks =>
    let (tab', rc) := tab.drop key
    (.tag n (some tab') ks, rc)
  | _ => (t, -1)

/-- `xmpp_stanza_get_attribute` -/
def getAttribute (t : Tree) (key : Bytes) : Option Bytes :=
  match t with
  | .tag _ (some tab) _ => tab.get key
  | _ => none

/-- `xmpp_stanza_get_attribute_count` -/
def attrCount : Tree → Nat
  | .tag _ (some tab) _ => tab.count
  | _ => 0

/-- the (key, value) pairs in the order `xmpp_stanza_get_attributes` stores them; `none` where
    `hash_get` would answer NULL for a key the iterator has just produced -/
def attrPairs : Tree → List (Bytes × Option Bytes)
  | .tag _ (some tab) _ => tab.toList.map fun e => (e.1, tab.get e.1)
  | _ => []

/-- `xmpp_stanza_add_child` (the reference the caller keeps is outside this model) -/
def addChild (t c : Tree) : Tree × Int := (setKids t (kids t ++ [c]), Gen.Stanza.eOk)

/-! ### `_escape_xml` -/

def escapeByte (b : UInt8) : Bytes :=
  match Gen.Stanza.escapeTable.lookup b.toNat with
  | some r => bytesOfNats r
  | none => [b]

def escapeXml (s : Bytes) : Bytes := s.flatMap escapeByte

/-! ### rendering -/

inductive Err where
  /-- XMPP_EINVOP -/
  | einvop
  /-- XMPP_EMEM -/
  | emem
  /-- XMPP_EINT -/
  | eint
  /-- a NULL pointer would be dereferenced (`strcmp(NULL, …)`, `_escape_xml(ctx, NULL)`) -/
  | crash
  deriving Repr, DecidableEq

def Err.code : Err → Int
  | .einvop => Gen.Stanza.eInvOp
  | .emem => Gen.Stanza.eMem
  | .eint => Gen.Stanza.eInt
  | .crash => -99

/-- the bytes `snprintf(ptr, left, "%s", s)` stores before its terminating NUL
    (nothing at all when `left = 0`, where `ptr` may be NULL) -/
def stored (left : Nat) (s : Bytes) : Bytes := if left = 0 then [] else s.take (left - 1)

/-- cursor of `_render_stanza_recursive`: `written`, `left`, and what the buffer holds from `buf` on -/
structure RS where
  written : Nat
  left : Nat
  out : Bytes
  deriving Repr

/-- one `snprintf` followed by `_render_update(&written, buflen, ret, &left, &ptr)`;
    `ret` is the full length of the piece, `st` the bytes it managed to store -/
def RS.update (s : RS) (buflen ret : Nat) (st : Bytes) : RS :=
  if s.written + ret ≥ buflen then ⟨s.written + ret, 0, s.out ++ st⟩
  else ⟨s.written + ret, s.left - ret, s.out ++ st⟩

/-- `strophe_snprintf(ptr, left, fmt, …)` producing `piece`, then `_render_update` -/
def RS.put (s : RS) (buflen : Nat) (piece : Bytes) : RS :=
  s.update buflen piece.length (stored s.left piece)

/-- is the `xmlns` attribute with value `val` of a stanza left out?  `par = none`: no parent;
    `par = some a`: parent with attribute table `a` (possibly NULL) -/
def elideNs (par : Option (Option HashTab)) (val : Bytes) : Bool :=
  match par with
  | some (some ptab) =>
    match ptab.get xmlnsKey with
    | some pv => val = pv
    | none => false
  | some none => false
  | none => val = nsClient

def sp : UInt8 := 32
def lt : UInt8 := 60
def gt : UInt8 := 62
def sl : UInt8 := 47
def eq : UInt8 := 61
def dq : UInt8 := 34

/-- the attribute loop of `_render_stanza_recursive` over the keys the iterator yields -/
def renderAttrsRec (par : Option (Option HashTab)) (tab : HashTab) (buflen : Nat) :
    List Entry → RS → Except Err RS
  | [], s => .ok s
  | (key, _) :: rest, s =>
    match tab.get key with
    | none => .error .crash
    | some val =>
      if key = xmlnsKey ∧ elideNs par val then renderAttrsRec par tab buflen rest s
      else
        renderAttrsRec par tab buflen rest
          (s.put buflen (sp :: key ++ eq :: dq :: escapeXml val ++ [dq]))

/-- `if (stanza->attributes && hash_num_keys(stanza->attributes) > 0) { … }` -/
def renderAttrs (par : Option (Option HashTab)) (attrs : Option HashTab) (buflen : Nat) (s : RS) :
    Except Err RS :=
  match attrs with
  | some tab => if tab.count > 0 then renderAttrsRec par tab buflen tab.toList s else .ok s
  | none => .ok s

mutual
/-- `_render_stanza_recursive(stanza, buf, buflen)`: the return value and the bytes stored in `buf` -/
def renderRec (par : Option (Option HashTab)) : Tree → Nat → Except Err (Nat × Bytes)
  | .unknown _, _ => .error .einvop
  | .text d _, buflen =>
    let s := (RS.mk 0 buflen []).put buflen (escapeXml d)
    .ok (s.written, s.out)
  | .tag name attrs ks, buflen =>
    let s0 := (RS.mk 0 buflen []).put buflen (lt :: name)
    match renderAttrs par attrs buflen s0 with
    | .error e => .error e
    | .ok s1 =>
      match ks with
      | [] =>
        let s2 := s1.put buflen [sl, gt]
        .ok (s2.written, s2.out)
      | k :: ks' =>
        let s2 := s1.put buflen [gt]
        match renderKidsRec (some attrs) (k :: ks') buflen s2 with
        | .error e => .error e
        | .ok s3 =>
          let s4 := s3.put buflen (lt :: sl :: name ++ [gt])
          .ok (s4.written, s4.out)
/-- the `while (child)` loop -/
def renderKidsRec (par : Option (Option HashTab)) : List Tree → Nat → RS → Except Err RS
  | [], _, s => .ok s
  | k :: ks, buflen, s =>
    match renderRec par k s.left with
    | .error e => .error e
    | .ok (ret, st) => renderKidsRec par ks buflen (s.update buflen ret st)
end

/-- `xmpp_stanza_to_text`: the returned C string and `*buflen` -/
def toText (par : Option (Option HashTab)) (t : Tree) : Except Err (Bytes × Nat) :=
  let length := Gen.Stanza.firstBuf
  match renderRec par t length with
  | .error e => .error e
  | .ok (ret, out) =>
    if ret > length - 1 then
      let length := ret + 1
      match renderRec par t length with
      | .error _ => .error .emem          -- `(size_t)ret > length - 1` with a negative `ret`
      | .ok (ret2, out2) =>
        if ret2 > length - 1 then .error .emem
        else .ok (cstr out2, ret2)         -- `buffer[length - 1] = 0`
    else .ok (cstr out, ret)

/-! ### the rendering as a plain function of the tree (what the two passes are proved to produce) -/

def renderAttr (e : Entry) : Bytes := sp :: e.1 ++ eq :: dq :: escapeXml e.2 ++ [dq]

/-- the attributes that are written, in iteration order -/
def shownAttrs (par : Option (Option HashTab)) (attrs : Option HashTab) : List Entry :=
  match attrs with
  | some tab => tab.toList.filter fun e => ¬ (e.1 = xmlnsKey ∧ elideNs par e.2)
  | none => []

/-- `/>` for a stanza without children, else `>` children `</name>` -/
def tagBody (name : Bytes) (noKids : Bool) (inner : Bytes) : Bytes :=
  if noKids then [sl, gt] else gt :: inner ++ lt :: sl :: name ++ [gt]

mutual
def render (par : Option (Option HashTab)) : Tree → Bytes
  | .unknown _ => []
  | .text d _ => escapeXml d
  | .tag name attrs ks =>
    lt :: name ++ (shownAttrs par attrs).flatMap renderAttr ++
      tagBody name ks.isEmpty (renderKids (some attrs) ks)
def renderKids (par : Option (Option HashTab)) : List Tree → Bytes
  | [] => []
  | k :: ks => render par k ++ renderKids par ks
end

mutual
/-- no XMPP_STANZA_UNKNOWN node is reached by the renderer -/
def renderable : Tree → Bool
  | .unknown _ => false
  | .text _ _ => true
  | .tag _ _ ks => renderableKids ks
def renderableKids : List Tree → Bool
  | [] => true
  | k :: ks => renderable k && renderableKids ks
end

mutual
/-- every attribute table in the tree satisfies the hash-table invariant (true of every
    tree built through the API, `Lemmas/StanzaOps.lean`) -/
def TabsWF : Tree → Prop
  | .tag _ attrs ks => (∀ tab, attrs = some tab → HashTab.WF tab) ∧ TabsWFKids ks
  | .text _ ks => TabsWFKids ks
  | .unknown ks => TabsWFKids ks
def TabsWFKids : List Tree → Prop
  | [] => True
  | k :: ks => TabsWF k ∧ TabsWFKids ks
end

mutual
/-- no string of the tree contains a NUL — true of everything that came in through a `char *` -/
def NulFree : Tree → Prop
  | .tag name attrs ks =>
    (0 : UInt8) ∉ name ∧ (∀ tab, attrs = some tab → ∀ e ∈ tab.toList, (0 : UInt8) ∉ e.1 ∧ (0 : UInt8) ∉ e.2) ∧
      NulFreeKids ks
  | .text d _ => (0 : UInt8) ∉ d
  | .unknown _ => True
def NulFreeKids : List Tree → Prop
  | [] => True
  | k :: ks => NulFree k ∧ NulFreeKids ks
end

/-! ### copy, reply, reply_error, error_new -/

/-- `_stanza_copy_attributes` into a stanza without table -/
def copyAttrsRec (src : HashTab) : List Entry → Option HashTab → Except Err (Option HashTab)
  | [], dst => .ok dst
  | (key, _) :: rest, dst =>
    match src.get key with
    | none => .error .eint
    | some val =>
      copyAttrsRec src rest (some ((dst.getD (HashTab.new Gen.Stanza.attrBuckets)).add key val))

def copyAttrs (src : Option HashTab) : Except Err (Option HashTab) :=
  match src with
  | none => .ok none
  | some tab => copyAttrsRec tab tab.toList none

mutual
/-- `xmpp_stanza_copy` (`none` = NULL) -/
def copy : Tree → Option Tree
  | .unknown ks => (copyKids ks).map .unknown
  | .text d ks => (copyKids ks).map (.text d)
  | .tag n a ks =>
    match copyAttrs a with
    | .error .emem => none                            -- `_stanza_copy_attributes(...) == -1`
    | .error _ => (copyKids ks).map (.tag n none)     -- XMPP_EINT is not -1: the copy goes on without table
    | .ok a' => (copyKids ks).map (.tag n a')
def copyKids : List Tree → Option (List Tree)
  | [] => some []
  | k :: ks =>
    match copy k with
    | none => none
    | some k' => (copyKids ks).map (k' :: ·)
end

/-- `xmpp_stanza_reply` -/
def reply (t : Tree) : Option Tree :=
  match getAttribute t kFrom with
  | none => none
  | some frm =>
    match t with
    | .tag n a _ =>
      match copyAttrs a with
      | .error _ => none
      | .ok a' =>
        let c : Tree := .tag n a' []
        let c := (delAttribute c kTo).1
        let c := (delAttribute c kFrom).1
        let c := (delAttribute c xmlnsKey).1
        let (c, rc) := setAttribute c kTo frm
        if rc ≠ Gen.Stanza.eOk then none else some c
    | _ => none

/-- a tag with the given attributes set in order -/
def mkTag (name : Bytes) (attrs : List Entry) (ks : List Tree) : Tree :=
  attrs.foldl (fun t e => (setAttribute t e.1 e.2).1) (.tag name none ks)

/-- `xmpp_stanza_reply_error` -/
def replyError (t : Tree) (errorType condition text : Option Bytes) : Option Tree :=
  match errorType, condition with
  | some et, some cond =>
    match reply t with
    | none => none
    | some r =>
      let r := (setAttribute r kType sError).1
      let r := match getAttribute t kTo with
        | some to => (setAttribute r kFrom to).1
        | none => r
      let item := mkTag cond [(xmlnsKey, nsStanzas)] []
      let more := match text with
        | some tx => [mkTag sText [(xmlnsKey, nsStanzas)] [.text tx []]]
        | none => []
      let error := mkTag sError [(kType, et)] (item :: more)
      some (addChild r error).1
  | _, _ => none

/-- `xmpp_error_new(ctx, type, text)`; `type` is the numeric value of the enum -/
def errorNew (type : Int) (text : Option Bytes) : Tree :=
  let name :=
    if type < 0 then Gen.Stanza.streamErrorDefault
    else Gen.Stanza.streamErrorNames.getD type.toNat Gen.Stanza.streamErrorDefault
  let cond := mkTag (bytesOfNats name) [(xmlnsKey, nsStreams)] []
  let more := match text with
    | some tx => [mkTag sText [(xmlnsKey, nsStreams)] [.text tx []]]
    | none => []
  .tag (bytesOfNats Gen.Stanza.streamErrorElement) none (cond :: more)

/-! ### variables holding trees (the state of the driver engine `stz`) -/

abbrev Store := List (Option Tree)

/-- attribute table a child of this node sees as `stanza->parent->attributes` -/
def attrsOf : Tree → Option HashTab
  | .tag _ a _ => a
  | _ => none

/-- follow a path of child indices; returns the node and the rendering context of that node -/
def walk : Tree → List Nat → Option (Option HashTab) → Option (Tree × Option (Option HashTab))
  | t, [], par => some (t, par)
  | t, i :: rest, _ =>
    match (kids t)[i]? with
    | some k => walk k rest (some (attrsOf t))
    | none => none

/-- apply `f` to the node at the path -/
def modifyAt (f : Tree → Tree) : Tree → List Nat → Tree
  | t, [] => f t
  | t, i :: rest =>
    match (kids t)[i]? with
    | some k => setKids t ((kids t).set i (modifyAt f k rest))
    | none => t

/-- a mutator applied at `path` below variable `v` -/
def Store.mutate (s : Store) (v : Nat) (path : List Nat) (f : Tree → Tree) : Store :=
  match s.getD v none with
  | some t => s.set v (some (modifyAt f t path))
  | none => s

/-- `vw := xmpp_stanza_copy(node at path below vv)` -/
def Store.copyTo (s : Store) (v : Nat) (path : List Nat) (w : Nat) : Store :=
  match s.getD v none with
  | some t =>
    match walk t path none with
    | some (n, _) => s.set w (copy n)
    | none => s
  | none => s

end Stanza
end Strophe
