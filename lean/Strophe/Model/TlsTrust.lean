/-
C08 — the decision logic libstrophe puts around OpenSSL's certificate verification, transition by
transition after the C functions named in the docstrings (src/tls_openssl.c: tls_new, _tls_verify,
tls_start; src/conn.c: xmpp_connect_client's domain check, conn_tls_start, xmpp_conn_is_secured,
conn_established; src/auth.c: _auth's trial tls_new, _handle_proceedtls_default; src/event.c: the
write pass of xmpp_run_once).

OpenSSL is the parameter `Spec.OpenSsl.Engine` (what the set-up calls answer; SSL_connect driven to
completion: callback invocations, result, error class).  Everything else is computed here: the
verification configuration handed to OpenSSL, what the verify callback answers, what a handshake
result does to the connection, what the callers do next and what reaches the wire in the clear /
through TLS on the three ways a handshake is reached (STARTTLS, legacy SSL, xmpp_conn_tls_start on a
raw connection) against the scripted server of harness/eng_tls.c.

No proofs here.
-/
import Strophe.Util.Hex
import Strophe.Gen.Tls
import Strophe.Spec.OpenSsl

namespace Strophe.TlsTrust
open Strophe Strophe.Spec.OpenSsl

/-- the user's certificate-failure handler (xmpp_certfail_handler): the k-th invocation (0-based)
    is asked about a failure at `depth` with X509_V_ERR code `err`; answer 0 = terminate,
    1 = establish (any integer can come back) -/
abbrev Handler := Nat → Nat → Nat → Int

/-- the verification policy inputs of a connection (src/conn.c setters) -/
structure Policy where
  /-- conn->domain (domain part of the JID) -/
  domain : Bytes
  /-- XMPP_CONN_FLAG_TRUST_TLS -/
  trust : Bool := false
  /-- XMPP_CONN_FLAG_DISABLE_TLS -/
  disabled : Bool := false
  /-- xmpp_conn_set_certfail_handler -/
  handler : Option Handler := none

/-- `xmpp_conn_set_flags` refuses a word in which DISABLE_TLS (1) comes with MANDATORY_TLS (2),
    LEGACY_SSL (4) or TRUST_TLS (8) -/
def flagConflict (w : Nat) : Bool :=
  w % 2 == 1 && (w / 2 % 2 == 1 || w / 4 % 2 == 1 || w / 8 % 2 == 1)

/-- `xmpp_conn_set_flags` as far as this property reads it: an accepted word REPLACES the trust and
    disable bits, a refused one changes nothing -/
def setFlags (p : Policy) (w : Nat) : Policy × Bool :=
  if flagConflict w then (p, false)
  else ({ p with trust := w / 8 % 2 == 1, disabled := w % 2 == 1 }, true)

/-! ### tls_openssl.c -/

/-- `tls_new`: the verification configuration of the SSL object.
    `if (conn->tls_trust) SSL_set_verify(ssl, SSL_VERIFY_NONE, NULL); else SSL_set_verify(ssl,
    SSL_VERIFY_PEER, _tls_verify);  X509_VERIFY_PARAM_set_hostflags(param,
    X509_CHECK_FLAG_NO_PARTIAL_WILDCARDS);  X509_VERIFY_PARAM_set1_host(param, conn->domain, 0);
    SSL_set_tlsext_host_name(ssl, conn->domain)` -/
def sslCfg (p : Policy) : SslCfg :=
  { verifyMode := if p.trust then Gen.Tls.verifyModeTrust else Gen.Tls.verifyModeDefault,
    hasCallback := if p.trust then Gen.Tls.callbackTrustName != "NULL" else Gen.Tls.callbackDefaultName != "NULL",
    hostFlags := Gen.Tls.hostFlags,
    hosts := set1Host p.domain,
    sni := sniOf p.domain }

/-- `_tls_verify(preverify_ok, x509_ctx)`: 1 for a certificate that passed; 0 when no certfail
    handler is installed; otherwise the handler's answer as it is.  `k` = failures reported before
    this one = number of earlier handler invocations. -/
def tlsVerify (h : Option Handler) : Callback := fun k v =>
  if v.ok then Gen.Tls.verifyRetPreverified
  else match h with
    | none => Gen.Tls.verifyRetNoHandler
    | some f => f k v.depth v.err

/-- the callback tls_new installs -/
def verifyCb (p : Policy) : Option Callback :=
  if (sslCfg p).hasCallback then some (tlsVerify p.handler) else none

/-- invocations of the user's handler during a run: the failures among the callback invocations,
    with the answers -/
def handlerCalls (p : Policy) (calls : List (VCall × Int)) : List (VCall × Int) :=
  if (sslCfg p).hasCallback && p.handler.isSome then calls.filter (fun c => !c.1.ok) else []

/-- `tls_start`: `ret <= 0 ? 0 : 1`, tls->lasterror = error class -/
def tlsStart (E : Engine) (p : Policy) : Outcome := E.connect (sslCfg p) (verifyCb p)

/-! ### conn.c -/

inductive CState | disconnected | connected deriving DecidableEq, Repr, Inhabited

structure Conn where
  policy : Policy
  state : CState := .connected
  /-- conn->tls != NULL -/
  hasTls : Bool := false
  secured : Bool := false
  tlsFailed : Bool := false
  /-- conn->intf is tls_intf (otherwise the plain socket interface) -/
  intfTls : Bool := false
  /-- conn->error -/
  error : Int := 0

/-- `conn_tls_start`: new state and return code -/
def connTlsStart (E : Engine) (c : Conn) : Conn × Int :=
  if c.policy.disabled then ({ c with hasTls := false }, Gen.Tls.rcDisabled)
  else if !E.newOk then ({ c with hasTls := false }, Gen.Tls.rcNewFail)
  else
    let o := tlsStart E c.policy
    if o.ok then ({ c with hasTls := true, intfTls := true, secured := true }, 0)
    else ({ c with hasTls := false, tlsFailed := true, error := (o.err : Int) }, Gen.Tls.rcStartFail)

/-- `xmpp_conn_is_secured`: conn->secured && !conn->tls_failed && conn->tls != NULL -/
def isSecured (c : Conn) : Bool := c.secured && !c.tlsFailed && c.hasTls

/-- `xmpp_connect_client`: a JID without usable domain is refused before anything is connected -/
def connectRefused (domain : Bytes) : Bool :=
  (Gen.Tls.connectRefusesEmptyDomain && domain.isEmpty) ||
  (Gen.Tls.connectRefusesDotDomain && domain.head? == some 46)

/-! ### the callers, the event loop and the wire (scenario of harness/eng_tls.c) -/

inductive Path | starttls | legacy | direct deriving DecidableEq, Repr, Inhabited

/-- classified outbound elements -/
inductive Item | hdr | starttls | auth | close | probe deriving DecidableEq, Repr, Inhabited

inductive Ev | rawConnect | disconnect (err : Int) deriving DecidableEq, Repr, Inhabited

structure Sess where
  conn : Conn
  path : Path
  /-- conn->stream_negotiation_completed (set at once on a raw connection) -/
  negotiated : Bool := false
  /-- send queue -/
  queue : List Item := []
  /-- what reached the server in the clear / through TLS, since the last report -/
  clear : List Item := []
  enc : List Item := []
  evs : List Ev := []
  /-- number of tls_new calls so far, result of the last one -/
  att : Nat := 0
  newOk : Bool := false
  /-- result of the handshake, if one was run -/
  hs : Option Outcome := none
  /-- result of xmpp_conn_tls_start (path direct) -/
  rc : Option Int := none

/-- `conn_disconnect`: DISCONNECT notification with conn->error, socket closed, TLS object freed -/
def connDisconnect (s : Sess) : Sess :=
  if s.conn.state = .disconnected then s
  else { s with conn := { s.conn with state := .disconnected, hasTls := false }, queue := [],
                evs := s.evs ++ [.disconnect s.conn.error] }

/-- the write pass of `xmpp_run_once` for a connected connection: the queue goes out through the
    current interface; `if (conn->error) { conn->error = ECONNABORTED; conn_disconnect(conn); }` -/
def writePass (s : Sess) : Sess :=
  if s.conn.state ≠ .connected then s
  else
    let s := if s.conn.intfTls then { s with enc := s.enc ++ s.queue, queue := [] }
             else { s with clear := s.clear ++ s.queue, queue := [] }
    if s.conn.error ≠ 0 then
      connDisconnect { s with conn := { s.conn with error := Gen.Tls.teardownError } }
    else s

def send (s : Sess) (i : Item) : Sess :=
  if s.conn.state = .connected then { s with queue := s.queue ++ [i] } else s

/-- `xmpp_disconnect` as far as this scenario sees it: `</stream:stream>` is queued -/
def xmppDisconnect (s : Sess) : Sess := send s .close

/-- one handshake attempt through `conn_tls_start` (counts the tls_new call it makes) -/
def attempt (E : Engine) (s : Sess) : Sess × Int :=
  let r := connTlsStart E s.conn
  let made := !s.conn.policy.disabled
  let ran := made && E.newOk
  ({ s with conn := r.1, att := if made then s.att + 1 else s.att,
            newOk := if made then E.newOk else s.newOk,
            hs := if ran then some (tlsStart E s.conn.policy) else s.hs }, r.2)

/-- after a successful handshake on a library-driven path: stream header through TLS, the server
    offers PLAIN, the credentials follow through TLS -/
def negotiateOverTls (s : Sess) : Sess :=
  writePass (send (writePass (send s .hdr)) .auth)

/-- the `start` op: from the TCP connection to three loop iterations after the TLS attempt -/
def start (E : Engine) (p : Policy) (path : Path) : Sess :=
  let s0 : Sess := { conn := { policy := p }, path := path }
  match path with
  | .legacy =>
    -- conn_established: `if (conn_tls_start(conn) != 0) { conn_disconnect(conn); return; }`
    let (s, rc) := attempt E s0
    if rc ≠ 0 then connDisconnect s else negotiateOverTls s
  | .direct =>
    -- conn_established on a raw connection: RAW_CONNECT; the user calls xmpp_conn_tls_start
    let s := { s0 with negotiated := true, evs := [.rawConnect] }
    let (s, rc) := attempt E s
    writePass { s with rc := some rc }
  | .starttls =>
    -- stream header in the clear, the server offers <starttls/> and PLAIN
    let s := writePass (send s0 .hdr)
    if p.disabled then writePass (send s .auth)
    else
      -- _auth: trial tls_new; "If we couldn't init tls, it isn't there, so go on"
      let s := { s with att := s.att + 1, newOk := E.newOk }
      if !E.newOk then writePass (send s .auth)
      else
        let s := writePass (send s .starttls)
        -- <proceed/>: _handle_proceedtls_default
        let (s, rc) := attempt E s
        if rc = 0 then negotiateOverTls s
        else writePass (xmppDisconnect s)

/-- `probe` op: the user sends `<probe/>` (gated = xmpp_send_raw_string / xmpp_send, which require
    the negotiation to be complete; ungated = xmpp_send_raw), then the loop runs -/
def probe (s : Sess) (gated : Bool) : Sess :=
  let s := if gated && !s.negotiated then s else send s .probe
  writePass s

/-- `tick` op: time passes, the loop runs -/
def tick (s : Sess) : Sess := writePass s

/-- `drop` op: `conn_disconnect` (what every fatal error ends in), then the loop runs -/
def drop (s : Sess) : Sess := writePass (connDisconnect s)

end Strophe.TlsTrust
