/-
C17 — model of src/sha256.c and src/sha512.c (LibTomCrypt).  The two C files are the same
template instantiated with block size 64/128 and 32/64-bit words; the streaming part
(`*_process`, `*_done`) is therefore modelled once (`Ltc`), parameterised by the block size,
the position of the 64-bit length field and the compression function, and instantiated as
`Sha256.*` / `Sha512.*`.

  sha256_compress / sha512_compress ↦ Sha256.compress / Sha512.compress
  sha256_init / sha512_init         ↦ Sha256.init / Sha512.init
  sha256_process / sha512_process   ↦ Sha256.process / Sha512.process   (= Ltc.process)
  sha256_done / sha512_done         ↦ Sha256.done / Sha512.done         (= Ltc.done)
  sha256_hash / sha512_hash         ↦ Sha256.hash / Sha512.hash
-/
import Strophe.Model.Hash.Common

namespace Strophe.Hash

/-- eight working variables / state words -/
structure S8 (α : Type) where
  a : α
  b : α
  c : α
  d : α
  e : α
  f : α
  g : α
  h : α
deriving DecidableEq, Repr

namespace Ltc

/-- `sha256_context` / `sha512_context`: `length` (bits already compressed), `state[8]`,
    `curlen` (bytes in `buf`; `uint32_t` resp. `uint8_t` in C — it never exceeds the block
    size, so it is a `Nat` here), `buf[bs]` (bytes at index ≥ curlen are stale). -/
structure Ctx (σ : Type) where
  length : UInt64
  state : σ
  curlen : Nat
  buf : Bytes
deriving DecidableEq, Repr

variable {σ : Type}

/-- the `while (inlen > 0) { … }` loop of `*_process`; `inp`/`inlen` are the C variables
    `in`/`inlen`.  Every iteration consumes at least one byte when `curlen < bs`, so `fuel =
    inlen + 1` iterations always suffice (the fuel only makes the recursion structural). -/
def processLoop (bs : Nat) (f : σ → Bytes → σ) : Nat → Ctx σ → Bytes → Nat → Ctx σ
  | 0, md, _, _ => md
  | fuel + 1, md, inp, inlen =>
    if inlen > 0 then
      if md.curlen = 0 ∧ inlen ≥ bs then
        -- compress(md, in); md->length += bs * 8; in += bs; inlen -= bs;
        processLoop bs f fuel
          { md with state := f md.state (inp.take bs), length := md.length + UInt64.ofNat (bs * 8) }
          (inp.drop bs) (inlen - bs)
      else
        -- n = MIN(inlen, bs - md->curlen); memcpy(md->buf + md->curlen, in, n); md->curlen += n;
        let n := min inlen (bs - md.curlen)
        let md := { md with buf := memcpy md.buf md.curlen (inp.take n), curlen := md.curlen + n }
        -- if (md->curlen == bs) { compress(md, md->buf); md->length += 8 * bs; md->curlen = 0; }
        let md := if md.curlen = bs then
            { md with state := f md.state md.buf, length := md.length + UInt64.ofNat (8 * bs), curlen := 0 }
          else md
        processLoop bs f fuel md (inp.drop n) (inlen - n)
    else md

/-- `*_process(md, in, inlen)` -/
def process (bs : Nat) (f : σ → Bytes → σ) (md : Ctx σ) (inp : Bytes) : Ctx σ :=
  let inlen := inp.length
  -- if (md->curlen > sizeof(md->buf)) return;
  if md.curlen > bs then md
  -- if ((md->length + inlen) < md->length) return;
  else if md.length + UInt64.ofNat inlen < md.length then md
  else processLoop bs f (inlen + 1) md inp inlen

/-- `*_done(md, out)`.  `lenPos` is where the 64-bit length is stored (56 resp. 120),
    `thr` the "above thr bytes" test (56 resp. 112).  `none`: the early return that
    leaves `out` untouched.  The byte-filling `while` loops are written as one `memcpy` of
    zeros. -/
def done (bs thr lenPos : Nat) (f : σ → Bytes → σ) (enc : σ → Bytes) (md : Ctx σ) : Option Bytes :=
  -- if (md->curlen >= sizeof(md->buf)) return;
  if md.curlen ≥ bs then none else
  -- md->length += md->curlen * 8;
  let length := md.length + UInt64.ofNat (md.curlen * 8)
  -- md->buf[md->curlen++] = 0x80;
  let buf := memcpy md.buf md.curlen [0x80]
  let curlen := md.curlen + 1
  -- if (md->curlen > thr) { while (md->curlen < bs) md->buf[md->curlen++] = 0; compress; md->curlen = 0; }
  let (st, buf, curlen) :=
    if curlen > thr then
      let buf := memcpy buf curlen (zeros (bs - curlen))
      (f md.state buf, buf, 0)
    else (md.state, buf, curlen)
  -- while (md->curlen < lenPos) md->buf[md->curlen++] = 0;
  let buf := memcpy buf curlen (zeros (lenPos - curlen))
  -- STORE64H(md->length, md->buf + lenPos); compress(md, md->buf);
  let buf := memcpy buf lenPos (store64H length)
  some (enc (f st buf))

end Ltc

/-! ## SHA-256 -/
namespace Sha256
abbrev State := S8 UInt32
abbrev Ctx := Ltc.Ctx State

def K : Array UInt32 := Gen.sha256K.toArray

def ch (x y z : UInt32) : UInt32 := z ^^^ (x &&& (y ^^^ z))
def maj (x y z : UInt32) : UInt32 := ((x ||| y) &&& z) ||| (x &&& y)
def bigSigma0 (x : UInt32) : UInt32 :=
  ror32 x Gen.sha256Sigma0.1 ^^^ ror32 x Gen.sha256Sigma0.2.1 ^^^ ror32 x Gen.sha256Sigma0.2.2
def bigSigma1 (x : UInt32) : UInt32 :=
  ror32 x Gen.sha256Sigma1.1 ^^^ ror32 x Gen.sha256Sigma1.2.1 ^^^ ror32 x Gen.sha256Sigma1.2.2
def gamma0 (x : UInt32) : UInt32 :=
  ror32 x Gen.sha256Gamma0.1 ^^^ ror32 x Gen.sha256Gamma0.2.1 ^^^ (x >>> UInt32.ofNat Gen.sha256Gamma0.2.2)
def gamma1 (x : UInt32) : UInt32 :=
  ror32 x Gen.sha256Gamma1.1 ^^^ ror32 x Gen.sha256Gamma1.2.1 ^^^ (x >>> UInt32.ofNat Gen.sha256Gamma1.2.2)

/-- `W[0..63]`: 16 big-endian words, then
    `W[i] = Gamma1(W[i-2]) + W[i-7] + Gamma0(W[i-15]) + W[i-16]` -/
def schedule (block : Bytes) : Array UInt32 :=
  (List.range 48).foldl (fun (w : Array UInt32) t =>
      let i := t + 16
      w.push (gamma1 (w.getD (i - 2) 0) + w.getD (i - 7) 0 + gamma0 (w.getD (i - 15) 0) + w.getD (i - 16) 0))
    (words32H block).toArray

/-- `RND(a,b,c,d,e,f,g,h,i,ki)` followed by the register renaming the unrolled code does
    by permuting the macro arguments (S[0..7] → S[7],S[0..6]) -/
def rnd (s : State) (ki wi : UInt32) : State :=
  let t0 := s.h + bigSigma1 s.e + ch s.e s.f s.g + ki + wi
  let t1 := bigSigma0 s.a + maj s.a s.b s.c
  { a := t0 + t1, b := s.a, c := s.b, d := s.c, e := s.d + t0, f := s.e, g := s.f, h := s.g }

/-- `sha256_compress(md, buf)` on the state -/
def compress (st : State) (block : Bytes) : State :=
  let w := schedule block
  let s := (List.range 64).foldl (fun s i => rnd s (K.getD i 0) (w.getD i 0)) st
  { a := st.a + s.a, b := st.b + s.b, c := st.c + s.c, d := st.d + s.d,
    e := st.e + s.e, f := st.f + s.f, g := st.g + s.g, h := st.h + s.h }

def iv : State :=
  let v := Gen.sha256Init
  { a := v.getD 0 0, b := v.getD 1 0, c := v.getD 2 0, d := v.getD 3 0,
    e := v.getD 4 0, f := v.getD 5 0, g := v.getD 6 0, h := v.getD 7 0 }

/-- `STORE32H(md->state[i], out + 4*i)` -/
def digestOf (s : State) : Bytes :=
  store32H s.a ++ store32H s.b ++ store32H s.c ++ store32H s.d ++
  store32H s.e ++ store32H s.f ++ store32H s.g ++ store32H s.h

/-- `sha256_init` (buf is left uninitialised in C) -/
def init : Ctx := { length := 0, state := iv, curlen := 0, buf := zeros 64 }
def process (md : Ctx) (inp : Bytes) : Ctx := Ltc.process 64 compress md inp
def done (md : Ctx) : Option Bytes := Ltc.done 64 56 56 compress digestOf md
/-- `sha256_hash` -/
def hash (data : Bytes) : Option Bytes := done (process init data)
end Sha256

/-! ## SHA-512 -/
namespace Sha512
abbrev State := S8 UInt64
abbrev Ctx := Ltc.Ctx State

def K : Array UInt64 := Gen.sha512K.toArray

def ch (x y z : UInt64) : UInt64 := z ^^^ (x &&& (y ^^^ z))
def maj (x y z : UInt64) : UInt64 := ((x ||| y) &&& z) ||| (x &&& y)
def bigSigma0 (x : UInt64) : UInt64 :=
  ror64 x Gen.sha512Sigma0.1 ^^^ ror64 x Gen.sha512Sigma0.2.1 ^^^ ror64 x Gen.sha512Sigma0.2.2
def bigSigma1 (x : UInt64) : UInt64 :=
  ror64 x Gen.sha512Sigma1.1 ^^^ ror64 x Gen.sha512Sigma1.2.1 ^^^ ror64 x Gen.sha512Sigma1.2.2
def gamma0 (x : UInt64) : UInt64 :=
  ror64 x Gen.sha512Gamma0.1 ^^^ ror64 x Gen.sha512Gamma0.2.1 ^^^ (x >>> UInt64.ofNat Gen.sha512Gamma0.2.2)
def gamma1 (x : UInt64) : UInt64 :=
  ror64 x Gen.sha512Gamma1.1 ^^^ ror64 x Gen.sha512Gamma1.2.1 ^^^ (x >>> UInt64.ofNat Gen.sha512Gamma1.2.2)

/-- `W[0..79]` -/
def schedule (block : Bytes) : Array UInt64 :=
  (List.range 64).foldl (fun (w : Array UInt64) t =>
      let i := t + 16
      w.push (gamma1 (w.getD (i - 2) 0) + w.getD (i - 7) 0 + gamma0 (w.getD (i - 15) 0) + w.getD (i - 16) 0))
    (words64H block).toArray

def rnd (s : State) (ki wi : UInt64) : State :=
  let t0 := s.h + bigSigma1 s.e + ch s.e s.f s.g + ki + wi
  let t1 := bigSigma0 s.a + maj s.a s.b s.c
  { a := t0 + t1, b := s.a, c := s.b, d := s.c, e := s.d + t0, f := s.e, g := s.f, h := s.g }

/-- `sha512_compress(md, buf)` on the state -/
def compress (st : State) (block : Bytes) : State :=
  let w := schedule block
  let s := (List.range 80).foldl (fun s i => rnd s (K.getD i 0) (w.getD i 0)) st
  { a := st.a + s.a, b := st.b + s.b, c := st.c + s.c, d := st.d + s.d,
    e := st.e + s.e, f := st.f + s.f, g := st.g + s.g, h := st.h + s.h }

def iv : State :=
  let v := Gen.sha512Init
  { a := v.getD 0 0, b := v.getD 1 0, c := v.getD 2 0, d := v.getD 3 0,
    e := v.getD 4 0, f := v.getD 5 0, g := v.getD 6 0, h := v.getD 7 0 }

def digestOf (s : State) : Bytes :=
  store64H s.a ++ store64H s.b ++ store64H s.c ++ store64H s.d ++
  store64H s.e ++ store64H s.f ++ store64H s.g ++ store64H s.h

def init : Ctx := { length := 0, state := iv, curlen := 0, buf := zeros 128 }
def process (md : Ctx) (inp : Bytes) : Ctx := Ltc.process 128 compress md inp
/-- `sha512_done`: zero padding up to byte 120 — bytes 112..119, the upper half of the
    128-bit length field, are always zero, as in C — and the 64-bit length at 120. -/
def done (md : Ctx) : Option Bytes := Ltc.done 128 112 120 compress digestOf md
def hash (data : Bytes) : Option Bytes := done (process init data)
end Sha512

end Strophe.Hash
