/-
C17 — helpers shared by the digest models: fixed-size buffer `memcpy`, the "whole blocks
straight from the input" loop, and the byte <-> word conversions of src/sha.h and src/md5.c.
-/
import Strophe.Util.Hex
import Strophe.Gen.HashConsts

namespace Strophe.Hash

/-- `memcpy(buf + off, src, |src|)` on a fixed-size byte array: bytes outside
    `[off, off+|src|)` keep their (possibly stale) value. -/
def memcpy (buf : Bytes) (off : Nat) (src : Bytes) : Bytes :=
  buf.take off ++ src ++ buf.drop (off + src.length)

def zeros (n : Nat) : Bytes := List.replicate n 0

/-- `n` iterations of `{ st = f(st, p); p += bs; }` starting at `d`;
    returns the state and what is left of the input. -/
def foldBlocks {σ : Type} (bs : Nat) (f : σ → Bytes → σ) : Nat → σ → Bytes → σ × Bytes
  | 0, st, d => (st, d)
  | n + 1, st, d => foldBlocks bs f n (f st (d.take bs)) (d.drop bs)

/-- compress whole `bs`-byte blocks of `d` while at least `bs` bytes remain -/
def blocksFold {σ : Type} (bs : Nat) (f : σ → Bytes → σ) (st : σ) (d : Bytes) : σ × Bytes :=
  foldBlocks bs f (d.length / bs) st d

/-! ### big-endian (src/sha.h LOAD32H/STORE32H/LOAD64H/STORE64H) -/

def load32H (a b c d : UInt8) : UInt32 :=
  (a.toUInt32 <<< 24) ||| (b.toUInt32 <<< 16) ||| (c.toUInt32 <<< 8) ||| d.toUInt32

def store32H (x : UInt32) : Bytes :=
  [(x >>> 24).toUInt8, (x >>> 16).toUInt8, (x >>> 8).toUInt8, x.toUInt8]

def load64H (a b c d e f g h : UInt8) : UInt64 :=
  (a.toUInt64 <<< 56) ||| (b.toUInt64 <<< 48) ||| (c.toUInt64 <<< 40) ||| (d.toUInt64 <<< 32) |||
  (e.toUInt64 <<< 24) ||| (f.toUInt64 <<< 16) ||| (g.toUInt64 <<< 8) ||| h.toUInt64

def store64H (x : UInt64) : Bytes :=
  [(x >>> 56).toUInt8, (x >>> 48).toUInt8, (x >>> 40).toUInt8, (x >>> 32).toUInt8,
   (x >>> 24).toUInt8, (x >>> 16).toUInt8, (x >>> 8).toUInt8, x.toUInt8]

/-- the 32-bit big-endian words of a block -/
def words32H : Bytes → List UInt32
  | a :: b :: c :: d :: rest => load32H a b c d :: words32H rest
  | _ => []

def words64H : Bytes → List UInt64
  | a :: b :: c :: d :: e :: f :: g :: h :: rest => load64H a b c d e f g h :: words64H rest
  | _ => []

/-! ### little-endian (src/md5.c GET_32BIT_LSB_FIRST / PUT_32BIT_LSB_FIRST) -/

def load32L (a b c d : UInt8) : UInt32 :=
  a.toUInt32 ||| (b.toUInt32 <<< 8) ||| (c.toUInt32 <<< 16) ||| (d.toUInt32 <<< 24)

def store32L (x : UInt32) : Bytes :=
  [x.toUInt8, (x >>> 8).toUInt8, (x >>> 16).toUInt8, (x >>> 24).toUInt8]

def words32L : Bytes → List UInt32
  | a :: b :: c :: d :: rest => load32L a b c d :: words32L rest
  | _ => []

/-- `rol(value, bits)` of sha1.c / the rotate inside MD5STEP (0 < n < 32) -/
def rol32 (x : UInt32) (n : UInt32) : UInt32 := (x <<< n) ||| (x >>> (32 - n))

/-- `RORc(x, n)` of sha.h -/
def ror32 (x : UInt32) (n : Nat) : UInt32 :=
  (x >>> UInt32.ofNat (n &&& 31)) ||| (x <<< UInt32.ofNat ((32 - (n &&& 31)) &&& 31))

/-- `ROR64c(x, n)` of sha.h -/
def ror64 (x : UInt64) (n : Nat) : UInt64 :=
  (x >>> UInt64.ofNat (n &&& 63)) ||| (x <<< UInt64.ofNat ((64 - (n &&& 63)) &&& 63))

end Strophe.Hash
