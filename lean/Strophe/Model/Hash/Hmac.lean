/-
C17 — model of `crypto_HMAC` (src/scram.c) over `struct hash_alg`.
-/
import Strophe.Model.Hash.Sha1
import Strophe.Model.Hash.Sha2

namespace Strophe.Hash
open Strophe

/-- `struct hash_alg` (the members `crypto_HMAC` uses) together with the context type the
    function pointers operate on (`union common_hash_ctx`).  `final`/`hash` return `none`
    when the C function returns without writing the digest (LibTomCrypt's guard). -/
structure Alg where
  Ctx : Type
  digestSize : Nat
  hash : Bytes → Option Bytes
  init : Ctx
  update : Ctx → Bytes → Ctx
  final : Ctx → Option Bytes

/-- `scram_sha1` -/
def algSha1 : Alg :=
  { Ctx := Sha1.Ctx, digestSize := Gen.sha1DigestSize, hash := fun d => some (Sha1.hash d),
    init := Sha1.init, update := Sha1.update, final := fun c => some (Sha1.final c) }

/-- `scram_sha256` -/
def algSha256 : Alg :=
  { Ctx := Sha256.Ctx, digestSize := Gen.sha256DigestSize, hash := Sha256.hash,
    init := Sha256.init, update := Sha256.process, final := Sha256.done }

/-- `scram_sha512` -/
def algSha512 : Alg :=
  { Ctx := Sha512.Ctx, digestSize := Gen.sha512DigestSize, hash := Sha512.hash,
    init := Sha512.init, update := Sha512.process, final := Sha512.done }

/-- `blocksize = alg->digest_size < 48 ? 64 : 128` -/
def hmacBlockSize (alg : Alg) : Nat :=
  if alg.digestSize < Gen.hmacBlockThreshold then Gen.hmacBlockSmall else Gen.hmacBlockLarge

/-- `crypto_HMAC(alg, key, key_len, text, len, digest)` -/
def hmac (alg : Alg) (key text : Bytes) : Option Bytes :=
  let blocksize := hmacBlockSize alg
  -- memset(key_pad, 0, blocksize);
  let keyPad0 := zeros blocksize
  -- if (key_len <= blocksize) memcpy(key_pad, key, key_len); else alg->hash(key, key_len, key_pad);
  let keyPad? : Option Bytes :=
    if key.length ≤ blocksize then some (memcpy keyPad0 0 key)
    else (alg.hash key).map fun d => memcpy keyPad0 0 d
  keyPad?.bind fun keyPad =>
  -- key_ipad[i] = key_pad[i] ^ ipad; key_opad[i] = key_pad[i] ^ opad;
  let keyIpad := keyPad.map fun (b : UInt8) => b ^^^ Gen.hmacIpad
  let keyOpad := keyPad.map fun (b : UInt8) => b ^^^ Gen.hmacOpad
  -- init; update(key_ipad, blocksize); update(text, len); final(sha_digest);
  (alg.final (alg.update (alg.update alg.init keyIpad) text)).bind fun shaDigest =>
  -- init; update(key_opad, blocksize); update(sha_digest, alg->digest_size); final(digest);
  alg.final (alg.update (alg.update alg.init keyOpad) (shaDigest.take alg.digestSize))

end Strophe.Hash
