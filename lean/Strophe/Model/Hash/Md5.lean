/-
C17 — model of src/md5.c (Colin Plumb's MD5).

  MD5Transform ↦ Md5.transform   (64 MD5STEP lines as a fold; per-step function / data index /
                                  constant / shift from Gen; words are loaded little-endian
                                  with GET_32BIT_LSB_FIRST — this tree has no byteReverse)
  MD5Init      ↦ Md5.init
  MD5Update    ↦ Md5.update      (`len` is a uint32_t)
  MD5Final     ↦ Md5.final
-/
import Strophe.Model.Hash.Common

namespace Strophe.Hash.Md5
open Strophe Strophe.Hash

/-- `uint32_t buf[4]` -/
structure State where
  a : UInt32
  b : UInt32
  c : UInt32
  d : UInt32
deriving DecidableEq, Repr

/-- `struct MD5Context`: `buf[4]`, `bits[2]` (bit count, low word first), `in[64]`
    (only `in[0 .. (bits0 >> 3) & 63)` is meaningful) -/
structure Ctx where
  buf : State
  bits0 : UInt32
  bits1 : UInt32
  inp : Bytes
deriving DecidableEq, Repr

def stepF : Array Nat := Gen.md5StepF.toArray
def stepIdx : Array Nat := Gen.md5StepIdx.toArray
def stepK : Array UInt32 := Gen.md5StepK.toArray
def stepS : Array Nat := Gen.md5StepS.toArray

def F1 (x y z : UInt32) : UInt32 := z ^^^ (x &&& (y ^^^ z))
def F2 (x y z : UInt32) : UInt32 := F1 z x y
def F3 (x y z : UInt32) : UInt32 := x ^^^ y ^^^ z
def F4 (x y z : UInt32) : UInt32 := y ^^^ (x ||| ~~~ z)

/-- `MD5STEP(f, w, x, y, z, in[k] + K, s)`: `w += f(x,y,z) + data; w = rol(w, s); w += x`,
    followed by the renaming of the registers the unrolled code does by permuting the macro
    arguments (a,b,c,d → d,a,b,c) -/
def step (inw : Array UInt32) (r : State) (n : Nat) : State :=
  let f := match stepF.getD n 0 with
    | 1 => F1 r.b r.c r.d
    | 2 => F2 r.b r.c r.d
    | 3 => F3 r.b r.c r.d
    | _ => F4 r.b r.c r.d
  let w := r.a + (f + (inw.getD (stepIdx.getD n 0) 0 + stepK.getD n 0))
  let w := rol32 w (UInt32.ofNat (stepS.getD n 0))
  let w := w + r.b
  { a := r.d, b := w, c := r.b, d := r.c }

/-- `MD5Transform(buf, inext)` -/
def transform (st : State) (block : Bytes) : State :=
  let inw := (words32L block).toArray
  let r := (List.range 64).foldl (step inw) st
  { a := st.a + r.a, b := st.b + r.b, c := st.c + r.c, d := st.d + r.d }

def iv : State :=
  let v := Gen.md5Init
  { a := v.getD 0 0, b := v.getD 1 0, c := v.getD 2 0, d := v.getD 3 0 }

/-- `MD5Init` -/
def init : Ctx := { buf := iv, bits0 := 0, bits1 := 0, inp := zeros 64 }

/-- body of `while (len >= 64) { memcpy(ctx->in, buf, 64); MD5Transform(ctx->buf, ctx->in); … }`
    on the pair (ctx->buf, ctx->in) -/
def loopBody (p : State × Bytes) (block : Bytes) : State × Bytes :=
  let inp := memcpy p.2 0 block
  (transform p.1 inp, inp)

/-- `MD5Update(ctx, buf, len)`, `len = data.length` (must fit a `uint32_t`) -/
def update (ctx : Ctx) (data : Bytes) : Ctx :=
  let len := data.length
  -- t = ctx->bits[0]; if ((ctx->bits[0] = (t + ((uint32_t)len << 3)) & 0xffffffff) < t) ctx->bits[1]++;
  let t := ctx.bits0
  let b0 := (t + (UInt32.ofNat len <<< 3)) &&& 0xffffffff
  let b1 := if b0 < t then ctx.bits1 + 1 else ctx.bits1
  -- ctx->bits[1] += len >> 29;
  let b1 := b1 + (UInt32.ofNat len >>> 29)
  -- t = (t >> 3) & 0x3f;
  let t := ((t >>> 3) &&& 0x3f).toNat
  if t ≠ 0 ∧ len < 64 - t then
    -- memcpy(p, buf, len); return;
    { buf := ctx.buf, bits0 := b0, bits1 := b1, inp := memcpy ctx.inp t data }
  else
    -- if (t) { memcpy(p, buf, 64 - t); MD5Transform(ctx->buf, ctx->in); buf += 64 - t; len -= 64 - t; }
    let (st, inp, data, len) :=
      if t ≠ 0 then
        let inp := memcpy ctx.inp t (data.take (64 - t))
        (transform ctx.buf inp, inp, data.drop (64 - t), len - (64 - t))
      else (ctx.buf, ctx.inp, data, len)
    -- while (len >= 64) { … }
    let r := foldBlocks 64 loopBody (len / 64) (st, inp) data
    -- memcpy(ctx->in, buf, len);
    { buf := r.1.1, bits0 := b0, bits1 := b1, inp := memcpy r.1.2 0 r.2 }

/-- `MD5Final(digest, ctx)` -/
def final (ctx : Ctx) : Bytes :=
  -- count = (ctx->bits[0] >> 3) & 0x3F; p = ctx->in + count; *p++ = 0x80;
  let count := ((ctx.bits0 >>> 3) &&& 0x3f).toNat
  let inp := memcpy ctx.inp count [0x80]
  -- count = 64 - 1 - count;
  let pad := 64 - 1 - count
  let (st, inp) :=
    if pad < 8 then
      -- memset(p, 0, count); MD5Transform(ctx->buf, ctx->in); memset(ctx->in, 0, 56);
      let inp := memcpy inp (count + 1) (zeros pad)
      (transform ctx.buf inp, memcpy inp 0 (zeros 56))
    else
      -- memset(p, 0, count - 8);
      (ctx.buf, memcpy inp (count + 1) (zeros (pad - 8)))
  -- PUT_32BIT_LSB_FIRST(ctx->in + 56, ctx->bits[0]); PUT_32BIT_LSB_FIRST(ctx->in + 60, ctx->bits[1]);
  let inp := memcpy inp 56 (store32L ctx.bits0)
  let inp := memcpy inp 60 (store32L ctx.bits1)
  let st := transform st inp
  store32L st.a ++ store32L st.b ++ store32L st.c ++ store32L st.d

def hash (data : Bytes) : Bytes := final (update init data)

end Strophe.Hash.Md5
