/-
C17 — model of src/sha1.c (Steve Reid's SHA-1) and of the public xmpp_sha1_* API of
src/crypto.c.  Function for function:

  SHA1_Transform        ↦ Sha1.transform      (80 rounds as a fold, constants from Gen)
  crypto_SHA1_Init      ↦ Sha1.init
  crypto_SHA1_Update    ↦ Sha1.update
  crypto_SHA1_Final     ↦ Sha1.final
  crypto_SHA1           ↦ Sha1.hash
  digest_to_string      ↦ Sha1.digestToString
  xmpp_sha1_new/update/final/to_string/to_digest, xmpp_sha1, xmpp_sha1_digest ↦ Sha1.Api.*
-/
import Strophe.Model.Hash.Common

namespace Strophe.Hash.Sha1
open Strophe Strophe.Hash

/-- `uint32_t state[5]` -/
structure State where
  h0 : UInt32
  h1 : UInt32
  h2 : UInt32
  h3 : UInt32
  h4 : UInt32
deriving DecidableEq, Repr

/-- `SHA1_CTX`: `state[5]`, `count[2]` (bit count, low word first), `buffer[64]`.
    Only `buffer[0 .. (count0 >> 3) & 63)` is meaningful, the rest is stale. -/
structure Ctx where
  state : State
  count0 : UInt32
  count1 : UInt32
  buffer : Bytes
deriving DecidableEq, Repr

/-- working variables a..e and the 16-word circular schedule `block->l[16]` -/
structure Work where
  a : UInt32
  b : UInt32
  c : UInt32
  d : UInt32
  e : UInt32
  l : Array UInt32

def macroK : Array UInt32 := Gen.sha1MacroK.toArray

/-- one invocation `Rm(v,w,x,y,z,i)` followed by the renaming of the registers that the
    unrolled C code does by permuting the macro arguments (a,b,c,d,e → e,a,b,c,d) -/
def round (s : Work) (i m : Nat) : Work :=
  -- blk0(i): the block word, big-endian (words are converted when the block is loaded);
  -- blk(i): l[i&15] = rol(l[(i+13)&15] ^ l[(i+8)&15] ^ l[(i+2)&15] ^ l[i&15], 1)
  let wi := if m = 0 then s.l.getD i 0
    else rol32 (s.l.getD ((i + 13) &&& 15) 0 ^^^ s.l.getD ((i + 8) &&& 15) 0 ^^^
                s.l.getD ((i + 2) &&& 15) 0 ^^^ s.l.getD (i &&& 15) 0) 1
  let l := if m = 0 then s.l else s.l.setIfInBounds (i &&& 15) wi
  let f := match m with
    | 0 => (s.b &&& (s.c ^^^ s.d)) ^^^ s.d
    | 1 => (s.b &&& (s.c ^^^ s.d)) ^^^ s.d
    | 3 => ((s.b ||| s.c) &&& s.d) ||| (s.b &&& s.c)
    | _ => s.b ^^^ s.c ^^^ s.d
  let z := s.e + (f + wi + macroK.getD m 0 + rol32 s.a 5)
  { a := z, b := s.a, c := rol32 s.b 30, d := s.c, e := s.d, l := l }

/-- `SHA1_Transform(state, buffer)`; `block` is the 64 bytes at `buffer` -/
def transform (st : State) (block : Bytes) : State :=
  let w0 : Work := { a := st.h0, b := st.h1, c := st.h2, d := st.h3, e := st.h4,
                     l := (words32H block).toArray }
  let r := Gen.sha1RoundMacro.foldl (fun (p : Work × Nat) m => (round p.1 p.2 m, p.2 + 1)) (w0, 0)
  let w := r.1
  { h0 := st.h0 + w.a, h1 := st.h1 + w.b, h2 := st.h2 + w.c, h3 := st.h3 + w.d, h4 := st.h4 + w.e }

def iv : State :=
  { h0 := Gen.sha1Init.getD 0 0, h1 := Gen.sha1Init.getD 1 0, h2 := Gen.sha1Init.getD 2 0,
    h3 := Gen.sha1Init.getD 3 0, h4 := Gen.sha1Init.getD 4 0 }

/-- `crypto_SHA1_Init` (the C function leaves `buffer` uninitialised; its content is never
    read before it is written) -/
def init : Ctx := { state := iv, count0 := 0, count1 := 0, buffer := zeros 64 }

/-- `crypto_SHA1_Update(context, data, len)`, `len = data.length` (a `size_t`) -/
def update (ctx : Ctx) (data : Bytes) : Ctx :=
  let len := data.length
  -- j = (context->count[0] >> 3) & 63;
  let j := ((ctx.count0 >>> 3) &&& 63).toNat
  -- if ((context->count[0] += (uint32_t)len << 3) < ((uint32_t)len << 3)) context->count[1]++;
  let l3 : UInt32 := UInt32.ofNat len <<< 3
  let c0 := ctx.count0 + l3
  let c1 := if c0 < l3 then ctx.count1 + 1 else ctx.count1
  -- context->count[1] += (uint32_t)(len >> 29);
  let c1 := c1 + UInt32.ofNat (len >>> 29)
  if j + len > 63 then
    -- memcpy(&context->buffer[j], data, (i = 64 - j)); SHA1_Transform(state, buffer);
    let i := 64 - j
    let buffer := memcpy ctx.buffer j (data.take i)
    let st := transform ctx.state buffer
    -- for (; i + 63 < len; i += 64) SHA1_Transform(state, data + i);
    let r := foldBlocks 64 transform ((len - i) / 64) st (data.drop i)
    -- j = 0; memcpy(&context->buffer[j], &data[i], len - i);
    { state := r.1, count0 := c0, count1 := c1, buffer := memcpy buffer 0 r.2 }
  else
    -- i = 0; memcpy(&context->buffer[j], &data[i], len - i);
    { state := ctx.state, count0 := c0, count1 := c1, buffer := memcpy ctx.buffer j data }

/-- `while ((context->count[0] & 504) != 448) crypto_SHA1_Update(context, "\0", 1);`
    The loop runs at most 63 times (`Lemmas`: `padLoop_exit`); the fuel only makes the
    recursion structural. -/
def padLoop : Nat → Ctx → Ctx
  | 0, ctx => ctx
  | fuel + 1, ctx =>
    if (ctx.count0 &&& 504) != 448 then padLoop fuel (update ctx [0]) else ctx

/-- `finalcount[i] = (count[i >= 4 ? 0 : 1] >> ((3 - (i & 3)) * 8)) & 255`, i = 0..7 -/
def finalcount (ctx : Ctx) : Bytes :=
  (List.range 8).map fun i =>
    (((if i ≥ 4 then ctx.count0 else ctx.count1) >>> UInt32.ofNat ((3 - (i &&& 3)) * 8)) &&& 255).toUInt8

/-- `digest[i] = (state[i>>2] >> ((3 - (i & 3)) * 8)) & 255`, i = 0..19 -/
def digestOf (st : State) : Bytes :=
  (List.range 20).map fun i =>
    let w := match i >>> 2 with
      | 0 => st.h0 | 1 => st.h1 | 2 => st.h2 | 3 => st.h3 | _ => st.h4
    ((w >>> UInt32.ofNat ((3 - (i &&& 3)) * 8)) &&& 255).toUInt8

/-- `crypto_SHA1_Final(context, digest)` (the wiping of the context afterwards is not
    modelled: the context is dead after this call) -/
def final (ctx : Ctx) : Bytes :=
  let fc := finalcount ctx
  let ctx := update ctx [0x80]
  let ctx := padLoop 64 ctx
  let ctx := update ctx fc
  digestOf ctx.state

/-- `crypto_SHA1(data, len, digest)` -/
def hash (data : Bytes) : Bytes := final (update init data)

/-! ### public API (src/crypto.c) -/

def hexDigit (n : UInt8) : UInt8 := if n < 10 then 48 + n else 87 + n

/-- `digest_to_string`: `snprintf(s + 2*i, 3, "%02x", digest[i])` for the 20 digest bytes
    (the result is the 40 characters; the terminating NUL is not part of the model) -/
def digestToString (digest : Bytes) : Bytes :=
  digest.flatMap fun (b : UInt8) => [hexDigit (b >>> 4), hexDigit (b &&& 15)]

namespace Api
/-- `xmpp_sha1_t`: the SHA1_CTX and the digest slot (zeroed by `xmpp_sha1_new`) -/
structure T where
  ctx : Ctx
  digest : Bytes
deriving DecidableEq

def new : T := { ctx := init, digest := zeros 20 }
def update (s : T) (data : Bytes) : T := { s with ctx := Sha1.update s.ctx data }
def final (s : T) : T := { s with digest := Sha1.final s.ctx }
def toString (s : T) : Bytes := digestToString s.digest
def toDigest (s : T) : Bytes := s.digest
/-- `xmpp_sha1` -/
def sha1 (data : Bytes) : Bytes := digestToString (hash data)
/-- `xmpp_sha1_digest` -/
def sha1Digest (data : Bytes) : Bytes := hash data
end Api

end Strophe.Hash.Sha1
