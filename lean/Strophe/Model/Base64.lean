/-
Model of the base64 codec of src/crypto.c (`base64_encode`, `base64_decoded_len`,
`base64_decode`, `xmpp_base64_decode_str`, `xmpp_base64_decode_bin`).

Tables come from `Strophe.Gen.Base64Tables`, regenerated from /repo on every run.
The decoder mirrors the two phases of the C code: the quartet loop with its early
`break`, then the re-decoding of the last quartet selected by `dlen % 3`.  It
returns the bytes actually *written* and the length `dlen` that the C code reports,
so "reports more bytes than it initialised" is representable.
-/
import Strophe.Util.Hex
import Strophe.Gen.Base64Tables

namespace Strophe.Base64

/-- `_base64_invcharmap[c]` -/
def inv (c : UInt8) : Nat := Gen.base64InvCharmap.getD c.toNat 65

/-- `_base64_charmap[h]` -/
def chr (h : Nat) : UInt8 := UInt8.ofNat (Gen.base64Charmap.getD h 0)

def pad : UInt8 := chr 64

/-- `base64_encode` -/
def encode : Bytes → Bytes
  | a :: b :: c :: rest =>
    let w := a.toNat * 65536 + b.toNat * 256 + c.toNat
    chr (w / 262144 % 64) :: chr (w / 4096 % 64) :: chr (w / 64 % 64) :: chr (w % 64) ::
      encode rest
  | [a] => [chr (a.toNat / 4), chr (a.toNat % 4 * 16), pad, pad]
  | [a, b] =>
    [chr (a.toNat / 4), chr (a.toNat % 4 * 16 + b.toNat / 16), chr (b.toNat % 16 * 4), pad]
  | [] => []

/-- the backwards scan of `base64_decoded_len`; `none` = the `return 0` for a foreign byte -/
def nudgeScan : Bytes → Nat → Option Nat
  | [], n => some n
  | c :: rest, n =>
    if inv c < 64 then some n
    else if inv c = 64 then nudgeScan rest (n + 1)
    else none

/-- `base64_decoded_len` -/
def decodedLen (s : Bytes) : Nat :=
  if s.length < 4 then 0
  else match nudgeScan s.reverse 0 with
    | none => 0
    | some n => if n > 2 then 0 else 3 * (s.length / 4) - n

def byte (n : Nat) : UInt8 := UInt8.ofNat (n % 256)

/-- Result of the quartet loop: bytes written so far, the value of `hextet` when the loop
    ended, and the not yet consumed input (`[]` iff the loop ran to the end). -/
structure LoopEnd where
  written : Bytes
  hextet : Nat
  rest : Bytes
  deriving Repr, DecidableEq

/-- the `for (i = 0; i + 3 < len; i += 4)` loop of `base64_decode` -/
def quartets : Bytes → Bytes → Nat → LoopEnd
  | c0 :: c1 :: c2 :: c3 :: rest, acc, _ =>
    if inv c0 ≥ 64 then ⟨acc, inv c0, c0 :: c1 :: c2 :: c3 :: rest⟩
    else if inv c1 ≥ 64 then ⟨acc, inv c1, c0 :: c1 :: c2 :: c3 :: rest⟩
    else if inv c2 ≥ 64 then ⟨acc, inv c2, c0 :: c1 :: c2 :: c3 :: rest⟩
    else if inv c3 ≥ 64 then ⟨acc, inv c3, c0 :: c1 :: c2 :: c3 :: rest⟩
    else
      let w := inv c0 * 262144 + inv c1 * 4096 + inv c2 * 64 + inv c3
      quartets rest (acc ++ [byte (w / 65536), byte (w / 256), byte w]) (inv c3)
  | [], acc, h => ⟨acc, h, []⟩
  | _, acc, h => ⟨acc, h, []⟩   -- fewer than 4 left: unreachable when len % 4 = 0

/-- the `switch (dlen % 3)` tail of `base64_decode`, applied to the last four characters -/
def tail (last4 : Bytes) (m : Nat) : Option Bytes :=
  match last4, m with
  | _, 0 => some []
  | [c0, c1, c2, c3], 1 =>
    if inv c0 ≥ 64 then none
    else if inv c1 ≥ 64 then none
    else if inv c2 ≠ 64 then none
    else if inv c3 ≠ 64 then none
    else some [byte (inv c0 * 4 + inv c1 / 16)]
  | [c0, c1, c2, c3], 2 =>
    if inv c0 ≥ 64 then none
    else if inv c1 ≥ 64 then none
    else if inv c2 ≥ 64 then none
    else if inv c3 ≠ 64 then none
    else
      let w := inv c0 * 1024 + inv c1 * 16 + inv c2 / 4
      some [byte (w / 256), byte w]
  | _, _ => none

/-- `base64_decode`: `none` = `*out = NULL, *outlen = 0`;
    `some (written, dlen)` = a buffer holding `written` (then a NUL) reported with length `dlen`. -/
def decode (s : Bytes) : Option (Bytes × Nat) :=
  if s.length % 4 ≠ 0 then none
  else
    let dlen := decodedLen s
    if dlen = 0 then none
    else
      let e := quartets s [] 0
      if e.hextet > 64 then none
      -- padding is only allowed at the end of the last quartet
      else if e.rest ≠ [] ∧ (e.rest.length ≠ 4 ∨ dlen % 3 = 0) then none
      else match tail (s.drop (s.length - 4)) (dlen % 3) with
        | none => none
        | some t => some (e.written ++ t, dlen)

/-- `xmpp_base64_decode_bin` -/
def decodeBin (s : Bytes) : Option (Bytes × Nat) := decode s

/-- C `strlen` on the NUL-terminated buffer `written ++ [0]` -/
def cStrlen (b : Bytes) : Nat := (b.takeWhile (· ≠ 0)).length

/-- `xmpp_base64_decode_str` (the buffer is `written` followed by a NUL) -/
def decodeStr (s : Bytes) : Option Bytes :=
  if s.length = 0 then some []
  else match decode s with
    | none => none
    | some (w, dlen) => if dlen ≠ cStrlen w then none else some w

end Strophe.Base64
