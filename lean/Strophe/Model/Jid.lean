/-
Model of src/jid.c over NUL-free byte strings (C strings).
`none` = the C function returns NULL.
-/
import Strophe.Util.Hex
import Strophe.Gen.Limits

namespace Strophe.Jid

def slash : UInt8 := 47
def at_ : UInt8 := 64

/-- the bytes before the first `c` (`strcspn` / `strchr` + truncation) -/
def before (c : UInt8) : Bytes → Bytes
  | [] => []
  | x :: xs => if x = c then [] else x :: before c xs

/-- the bytes after the first `c`; `none` if `strchr` finds nothing -/
def after (c : UInt8) : Bytes → Option Bytes
  | [] => none
  | x :: xs => if x = c then some xs else after c xs

/-- `xmpp_jid_bare`: `strcspn(jid, "/")` bytes -/
def bare (s : Bytes) : Bytes := before slash s

/-- `xmpp_jid_resource`: `strchr(jid, '/')`, then everything after it -/
def resource (s : Bytes) : Option Bytes := after slash s

/-- `xmpp_jid_node`: strip the resource, then the part before the first '@' (NULL if none) -/
def node (s : Bytes) : Option Bytes :=
  match after at_ (bare s) with
  | none => none
  | some _ => some (before at_ (bare s))

/-- `xmpp_jid_domain`: strip the resource, then drop up to and including the first '@' -/
def domain (s : Bytes) : Bytes :=
  match after at_ (bare s) with
  | none => bare s
  | some r => r

/-- the `strcspn(node, "\"&'/:<>@") != nlen - 1` test -/
def localOk (n : Bytes) : Bool := n.all fun c => !(Gen.jidForbidden.contains c.toNat)

/-- `xmpp_jid_new` -/
def jidNew (n d r : Option Bytes) : Option Bytes :=
  match d with
  | none => none
  | some d =>
    let nlen := match n with | some n => n.length + 1 | none => 0
    let rlen := match r with | some r => r.length + 1 | none => 0
    if d.length > Gen.jidDomainMax then none
    else if nlen > Gen.jidLocalMaxPlus1 then none
    else if rlen > Gen.jidResourceMaxPlus1 then none
    else if (match n with | some n => !localOk n | none => false) then none
    else
      some ((match n with | some n => n ++ [at_] | none => []) ++ d ++
            (match r with | some r => slash :: r | none => []))

end Strophe.Jid
