/-
Model of the send queue of src/conn.c (`send_raw`, `_send_raw`, `xmpp_send_raw`,
`xmpp_conn_send_queue_len`, `xmpp_conn_send_queue_drop_element`, `_drop_send_queue_element`,
`conn_disconnect` as far as the queue is concerned) and of the write loop of `xmpp_run_once`
(src/event.c).  The doubly linked C list is a `List`; C object identity (the `userdata` link of a
`<r/>` to the element it follows) is a unique id.  The two C counters are modelled as separate
`Int` fields so that "counter = length of the list" is a theorem, not a definition.
-/
import Strophe.Util.Hex
import Strophe.Gen.Conn

namespace Strophe.SendQueue

/-- `xmpp_send_queue_owner_t` -/
inductive Owner
  | strophe     -- XMPP_QUEUE_STROPHE
  | user        -- XMPP_QUEUE_USER
  | smStrophe   -- XMPP_QUEUE_SM_STROPHE
  deriving DecidableEq, Repr, Inhabited

/-- `owner & XMPP_QUEUE_USER` -/
def Owner.userBit : Owner → Bool
  | .user => true
  | _ => false

/-- `owner & XMPP_QUEUE_SM` -/
def Owner.smBit : Owner → Bool
  | .smStrophe => true
  | _ => false

structure Elem where
  uid : Nat
  data : Bytes
  written : Nat := 0
  wip : Bool := false
  owner : Owner
  /-- `userdata`: the uid of the element an `<r/>` is linked to -/
  link : Option Nat := none
  smH : UInt32 := 0
  deriving Repr, DecidableEq, Inhabited

/-- what one `conn_interface_write` call answers -/
inductive Accept
  | all                 -- everything offered
  | upTo (n : Nat)      -- at most n bytes (0 = "returned 0")
  | again               -- < 0 with a recoverable error
  | hard                -- < 0 with an unrecoverable error
  deriving Repr, DecidableEq

structure St where
  /-- `conn->state == XMPP_STATE_CONNECTED`; the only other state these engines reach is
      DISCONNECTED -/
  connected : Bool := true
  queue : List Elem := []
  len : Int := 0
  userLen : Int := 0
  smEnabled : Bool := false
  rSent : Bool := false
  sentNr : UInt32 := 0
  smQueue : List Elem := []
  nextUid : Nat := 0
  /-- number of XMPP_CONN_DISCONNECT notifications delivered -/
  disconnects : Nat := 0
  deriving Repr

def Elem.rest (e : Elem) : Bytes := e.data.drop e.written

/-- `_send_raw` without the `<r/>` follow-up: append one element, bump the counters -/
def push (s : St) (owner : Owner) (data : Bytes) (link : Option Nat) : St :=
  { s with
    queue := s.queue ++ [{ uid := s.nextUid, data := data, owner := owner, link := link }]
    len := s.len + 1
    userLen := if owner = .user then s.userLen + 1 else s.userLen
    nextUid := s.nextUid + 1 }

/-- `_send_raw` adjusts the owner first: what the library queues before stream management is
    enabled belongs to the negotiation and is never counted (owner class SM) -/
def adjustOwner (s : St) (owner : Owner) : Owner :=
  if owner = .strophe && !s.smEnabled then .smStrophe else owner

/-- `send_raw` + `_send_raw` for an already adjusted owner: refused unless CONNECTED; with SM
    enabled and no `<r/>` outstanding a non-SM element is followed by a linked `<r/>` -/
def sendRawCore (s : St) (owner : Owner) (data : Bytes) : St :=
  if !s.connected then s
  else
    let uid := s.nextUid
    let s1 := push s owner data none
    if !owner.smBit && s1.smEnabled && !s1.rSent then
      push { s1 with rSent := true } .smStrophe Gen.reqAck (some uid)
    else s1

/-- `send_raw` + `_send_raw` -/
def sendRaw (s : St) (owner : Owner) (data : Bytes) : St :=
  sendRawCore s (adjustOwner s owner) data

/-- result of the `while (sq)` loop over the queue -/
structure LoopOut where
  done : List Elem      -- completely written, in order
  rest : List Elem      -- what stays queued
  wire : Bytes          -- bytes accepted by the transport
  hardErr : Bool

/-- the write loop: one `Accept` per `conn_interface_write` call; an exhausted schedule answers
    `again` -/
def writeLoop : List Elem → List Accept → LoopOut
  | [], _ => ⟨[], [], [], false⟩
  | e :: q, sched =>
    let towrite := e.data.length - e.written
    let a := sched.headD .again
    match a with
    | .again => ⟨[], { e with wip := true } :: q, [], false⟩
    | .hard => ⟨[], { e with wip := true } :: q, [], true⟩
    | .all =>
      let r := writeLoop q sched.tail
      ⟨{ e with wip := true } :: r.done, r.rest, e.rest ++ r.wire, r.hardErr⟩
    | .upTo n =>
      if n ≥ towrite then
        let r := writeLoop q sched.tail
        ⟨{ e with wip := true } :: r.done, r.rest, e.rest ++ r.wire, r.hardErr⟩
      else
        ⟨[], { e with written := e.written + n, wip := true } :: q, e.rest.take n, false⟩

/-- bookkeeping for one completely written element: counters, and the move to the SM queue -/
def retire (s : St) (e : Elem) : St :=
  let s1 := { s with len := s.len - 1, userLen := if e.owner.userBit then s.userLen - 1 else s.userLen }
  if !e.owner.smBit && s1.smEnabled then
    { s1 with smQueue := s1.smQueue ++ [{ e with smH := s1.sentNr }], sentNr := s1.sentNr + 1 }
  else s1

/-- `conn_disconnect` -/
def disconnect (s : St) : St :=
  { s with connected := false, disconnects := s.disconnects + 1, rSent := false, smEnabled := false }

/-- `conn_disconnect` as an API call: it returns at once when the connection is already
    disconnected (the application is told about a disconnect exactly once) -/
def disconnectOnce (s : St) : St := if s.connected then disconnect s else s

/-- the send half of `xmpp_run_once` for this connection; returns the bytes put on the wire -/
def runOnce (s : St) (sched : List Accept) : St × Bytes :=
  if !s.connected then (s, [])
  else
    let r := writeLoop s.queue sched
    let s1 := r.done.foldl retire { s with queue := r.rest }
    let s2 := if r.hardErr then disconnect s1 else s1
    (s2, r.wire)

/-- `xmpp_conn_send_queue_len` -/
def queueLen (s : St) : Int :=
  match s.queue with
  | e :: _ => if e.wip && e.owner = .user then s.userLen - 1 else s.userLen
  | [] => s.userLen

/-- index of the last USER element at or before index `i` (walking `prev`) -/
def lastUserUpTo (q : List Elem) : Nat → Option Nat
  | 0 => match q[0]? with
    | some e => if e.owner = .user then some 0 else none
    | none => none
  | i + 1 => match q[i + 1]? with
    | some e => if e.owner = .user then some (i + 1) else lastUserUpTo q i
    | none => lastUserUpTo q i

/-- index of the first USER element at or after index `i` (walking `next`) -/
def firstUserFrom (q : List Elem) (i : Nat) : Option Nat :=
  ((q.drop i).findIdx? fun e => e.owner = .user).map (· + i)

inductive Which | oldest | youngest deriving Repr, DecidableEq

/-- `_drop_send_queue_element`: unlink the element at index `i`, fix the counters -/
def unlinkAt (s : St) (i : Nat) : St :=
  match s.queue[i]? with
  | none => s
  | some e =>
    { s with queue := s.queue.eraseIdx i, len := s.len - 1,
             userLen := if e.owner = .user then s.userLen - 1 else s.userLen }

/-- `xmpp_conn_send_queue_drop_element`; returns the dropped element's text -/
def dropElement (s : St) (which : Which) : St × Option Bytes :=
  let disconnected := !s.connected
  match s.queue with
  | [] => (s, none)
  | head :: tl =>
    if tl.isEmpty && ((head.wip && !disconnected) || head.owner ≠ .user) then (s, none)
    else
      let t0 : Option Nat := match which with
        | .oldest => some 0
        | .youngest => lastUserUpTo s.queue (s.queue.length - 1)
      match t0 with
      | none => (s, none)
      | some t0 =>
        -- head is already sent out partially
        let t1 := if t0 = 0 && head.wip && !disconnected then 1 else t0
        match firstUserFrom s.queue t1 with
        | none => (s, none)
        | some t =>
          match s.queue[t]? with
          | none => (s, none)
          | some e =>
            -- an `<r/>` linked to the element goes with it
            let s1 := match s.queue[t + 1]? with
              | some nx => if nx.link = some e.uid then { unlinkAt s (t + 1) with rSent := false } else s
              | none => s
            (unlinkAt s1 t, some e.data)

end Strophe.SendQueue

namespace Strophe.SendQueue

/-! ### operations as data (for theorems over arbitrary histories) -/

inductive Op
  | send (owner : Owner) (data : Bytes)
  | run (sched : List Accept)
  | drop (w : Which)
  | setSm (b : Bool)
  | disc
  deriving Repr

inductive Out
  | none
  | wire (b : Bytes)
  | dropped (r : Option Bytes)
  deriving Repr, DecidableEq

def step (s : St) : Op → St × Out
  | .send o d => (sendRaw s o d, .none)
  | .run sched => let (s', w) := runOnce s sched; (s', .wire w)
  | .drop w => let (s', r) := dropElement s w; (s', .dropped r)
  | .setSm b => ({ s with smEnabled := b }, .none)
  | .disc => (disconnectOnce s, .none)

/-- bytes still to be written, in queue order -/
def pending (q : List Elem) : Bytes := (q.map Elem.rest).flatten

/-- History with a ghost record of what an outside observer (the application handing elements in
    and getting dropped texts back, plus the peer reading the wire) knows must still arrive:
    `ghost` holds, per element ever queued and in queue order, the part of its text that was not
    taken back by a drop.  A drop on a live connection takes the whole text back (nothing of it
    was written); after a disconnect only the unwritten rest can be taken back. -/
structure Hist where
  st : St := {}
  wire : Bytes := []
  ghost : List (Nat × Bytes) := []

def stepH (h : Hist) (op : Op) : Hist :=
  let (s', out) := step h.st op
  let added := (s'.queue.filter fun e => h.st.nextUid ≤ e.uid).map fun e => (e.uid, e.data)
  let removed := h.st.queue.filter fun e => !(s'.queue.any fun e' => e'.uid = e.uid) &&
                                            !(s'.smQueue.any fun e' => e'.uid = e.uid)
  match op, out with
  | .drop _, _ =>
    { st := s', wire := h.wire,
      ghost := h.ghost.map fun (u, t) =>
        match removed.find? (fun e => e.uid = u) with
        | some e => (u, t.take e.written)
        | none => (u, t) }
  | _, .wire w => { st := s', wire := h.wire ++ w, ghost := h.ghost ++ added }
  | _, _ => { st := s', wire := h.wire, ghost := h.ghost ++ added }

def runH (ops : List Op) : Hist := ops.foldl stepH {}

end Strophe.SendQueue
