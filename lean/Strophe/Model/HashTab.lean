/-
Model of src/hash.c as used for stanza attributes (string keys, string values).

`entries[i]` is a singly linked chain; the model keeps each chain as a `List`, head first.
  * `_hash_key`      — XOR of the key bytes shifted by 0, 8, 16, 24, 0, … bits (32-bit unsigned),
                       reduced modulo the bucket count
  * `hash_add`       — value replaced IN PLACE when the key exists, otherwise the new entry is
                       PREPENDED to its chain; `num_keys` is a separate counter
  * `hash_drop`      — first entry with that key unlinked from its chain
  * `hash_iter_next` — buckets in index order, each chain from its head
so iteration order — which decides the order of attributes in rendered XML — is reproduced exactly.
-/
import Strophe.Util.Hex
import Strophe.Gen.Stanza

namespace Strophe

abbrev Entry := Bytes × Bytes

/-- `hash_t`: `entries` (array of chains) and `num_keys` -/
structure HashTab where
  buckets : List (List Entry)
  numKeys : Nat
  deriving Repr, DecidableEq

namespace HashTab

/-- `hash_new(ctx, size, free)` -/
def new (size : Nat) : HashTab := ⟨List.replicate size [], 0⟩

/-- the loop of `_hash_key`: `hash ^= (unsigned)*c++ << shift; shift += 8; if (shift > 24) shift = 0;` -/
def hashLoop : Bytes → UInt32 → Nat → UInt32
  | [], h, _ => h
  | c :: cs, h, shift =>
    hashLoop cs (h ^^^ (c.toUInt32 <<< shift.toUInt32))
      (if shift + Gen.Stanza.hashShiftStep > Gen.Stanza.hashShiftLimit then 0
       else shift + Gen.Stanza.hashShiftStep)

/-- `_hash_key(table, key)` = `hash % (unsigned)table->length` -/
def hashKey (t : HashTab) (key : Bytes) : Nat := (hashLoop key 0 0).toNat % t.buckets.length

/-- the chain walk of `_hash_entry_find` -/
def chainFind (key : Bytes) : List Entry → Option Bytes
  | [] => none
  | (k, v) :: rest => if k = key then some v else chainFind key rest

/-- `hash_get` -/
def get (t : HashTab) (key : Bytes) : Option Bytes :=
  chainFind key (t.buckets.getD (t.hashKey key) [])

/-- replace the value of the first entry with this key -/
def chainReplace (key val : Bytes) : List Entry → List Entry
  | [] => []
  | (k, v) :: rest => if k = key then (k, val) :: rest else (k, v) :: chainReplace key val rest

/-- `hash_add` (allocation failure not modelled) -/
def add (t : HashTab) (key val : Bytes) : HashTab :=
  let i := t.hashKey key
  let chain := t.buckets.getD i []
  match chainFind key chain with
  | some _ => { t with buckets := t.buckets.set i (chainReplace key val chain) }
  | none => { buckets := t.buckets.set i ((key, val) :: chain), numKeys := t.numKeys + 1 }

/-- unlink the first entry with this key -/
def chainDrop (key : Bytes) : List Entry → List Entry
  | [] => []
  | (k, v) :: rest => if k = key then rest else (k, v) :: chainDrop key rest

/-- `hash_drop`: new table and the return code (0 / -1) -/
def drop (t : HashTab) (key : Bytes) : HashTab × Int :=
  let i := t.hashKey key
  let chain := t.buckets.getD i []
  match chainFind key chain with
  | some _ => ({ buckets := t.buckets.set i (chainDrop key chain), numKeys := t.numKeys - 1 }, 0)
  | none => (t, -1)

/-- the sequence of entries visited by `hash_iter_new` / `hash_iter_next` -/
def toList (t : HashTab) : List Entry := t.buckets.flatten

/-- `hash_num_keys` -/
def count (t : HashTab) : Nat := t.numKeys

/-- bucket index of a key in a table with `n` chains -/
def hashIdx (n : Nat) (key : Bytes) : Nat := (hashLoop key 0 0).toNat % n

/-- invariant of every table built by `hash_new` / `hash_add` / `hash_drop` (proved in
    `Lemmas/HashTab.lean`): there are chains, keys within a chain are distinct, every entry sits in the
    chain its key hashes to, and `num_keys` counts the entries -/
structure WF (t : HashTab) : Prop where
  pos : 0 < t.buckets.length
  nodup : ∀ i (h : i < t.buckets.length), (t.buckets[i].map Prod.fst).Nodup
  home : ∀ i (h : i < t.buckets.length), ∀ e ∈ t.buckets[i], hashIdx t.buckets.length e.1 = i
  count : t.numKeys = t.toList.length

end HashTab
end Strophe
