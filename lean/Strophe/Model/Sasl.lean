/-
C07 — executable model of the credential computations of libstrophe:

  src/sasl.c   sasl_plain ↦ saslPlain;  _parse_digest_challenge ↦ parseChallenge;
               _make_quoted/_add_key ↦ addKey;  _digest_to_hex ↦ digestToHex;
               sasl_digest_md5 ↦ digestMd5;  sasl_scram ↦ scramFinal
  src/scram.c  SCRAM_Hi ↦ hi;  SCRAM_ClientKey ↦ clientKey;  SCRAM_ClientSignature ↦
               clientSignature;  SCRAM_ClientProof ↦ clientProof
  src/auth.c   _make_scram_init_msg ↦ scramInit;  _handle_scram_challenge ↦ handleScramChallenge;
               _handle_digestmd5_challenge ↦ handleDigestChallenge;  _auth (ANONYMOUS / EXTERNAL /
               PLAIN / legacy branches) ↦ authFirst;  _auth_legacy ↦ legacyAuth;
               _handle_component_auth ↦ componentHandshake
  src/rand.c   xmpp_rand_nonce ↦ randNonce (the random bytes are an input)

Byte strings are C strings (NUL-free `List UInt8`) unless said otherwise.  Every C dereference
of a pointer that can be NULL is an `Option` elimination with an explicit `Res.crash site`; an
`assert` that can fail is `Res.abort site`; so "robust against every challenge" is the theorem
"the model never returns crash/abort".  Hashes, HMAC, base64 and the JID helpers are the models
of C17, C18 and C19 (`Strophe.Hash`, `Strophe.Base64`, `Strophe.Jid`).
-/
import Strophe.Model.Hash
import Strophe.Model.Base64
import Strophe.Model.Jid
import Strophe.Gen.Sasl
import Strophe.Gen.Conn

namespace Strophe.Sasl
open Strophe Strophe.Hash

/-- result of a C call: a value, a NULL dereference (`crash`), a failed `assert` (`abort`), or a
    value that depends on memory the code never initialised (`undef`; only for inputs of 2^60
    bytes and more, where the LibTomCrypt length guards make the digests return early) -/
inductive Res (α : Type) where
  | ok (a : α)
  | crash (site : String)
  | abort (site : String)
  | undef (why : String)
  deriving Repr, DecidableEq

namespace Res
def bind {α β : Type} (r : Res α) (f : α → Res β) : Res β :=
  match r with
  | .ok a => f a
  | .crash s => .crash s
  | .abort s => .abort s
  | .undef s => .undef s

def isOk {α : Type} : Res α → Bool
  | .ok _ => true
  | _ => false

/-- neither a NULL dereference nor a failed assert -/
def safe {α : Type} : Res α → Bool
  | .crash _ => false
  | .abort _ => false
  | _ => true
end Res

/-- a digest the hash layer did not write (`none`) makes everything computed from it undefined -/
def ofDigest (why : String) : Option Bytes → Res Bytes
  | some d => .ok d
  | none => .undef why

/-! ### small C-string helpers -/

def comma : UInt8 := 44
def eq_ : UInt8 := 61
def colon : UInt8 := 58
def dquote : UInt8 := 34
def squote : UInt8 := 39
def space : UInt8 := 32
def backslash : UInt8 := 92

/-- `strncmp(p, lit, lit.length) == 0` -/
def hasPrefix (lit s : Bytes) : Bool := s.take lit.length == lit

/-- the characters C's `isspace` accepts in the "C" locale -/
def isSpace (c : UInt8) : Bool := c == 32 || (9 ≤ c && c ≤ 13)

def isDigit (c : UInt8) : Bool := 48 ≤ c && c ≤ 57

/-- `strtol(s, &end, 10)`: optional white space, optional sign, the longest run of digits
    (none: 0), saturated to `LONG_MIN .. LONG_MAX` (64-bit long) -/
def strtol (s : Bytes) : Int :=
  let s := s.dropWhile isSpace
  let neg := s.head? == some 45                                         -- '-'
  let s := if s.head? == some 45 || s.head? == some 43 then s.tail else s  -- '-' or '+'
  let v : Nat := (s.takeWhile isDigit).foldl (fun a c => a * 10 + (c.toNat - 48)) 0
  if neg then (if v > 2 ^ 63 then -(2 ^ 63 : Int) else -(v : Int))
  else (if v > 2 ^ 63 - 1 then (2 ^ 63 - 1 : Int) else (v : Int))

/-- `(uint32_t)ival` -/
def toU32 (v : Int) : Nat := (v % (2 ^ 32 : Int)).toNat

/-- `rand_byte2hex` for every byte: upper-case hexadecimal -/
def hexUpper (d : Bytes) : Bytes :=
  d.flatMap fun b => [Gen.Sasl.randHexTbl.getD (b.toNat / 16) 0, Gen.Sasl.randHexTbl.getD (b.toNat % 16) 0]

/-- the first `n` bytes the (scripted) random source delivers: the script, then zeros -/
def randBytes (n : Nat) (rnd : Bytes) : Bytes := (rnd ++ List.replicate n 0).take n

/-- `xmpp_rand_nonce(rand, output, len)`: `len / 2` random bytes rendered as `2·(len/2)` hex
    characters, then `output[len-1] = 0`.  `none`: `len = 0`, nothing is written. -/
def randNonce (len : Nat) (rnd : Bytes) : Option Bytes :=
  if len = 0 then none
  else some ((hexUpper (randBytes (len / 2) rnd)).take (len - 1))

/-! ### PLAIN (sasl_plain) -/

/-- `sasl_plain(ctx, authid, password)`: `Base64(NUL authid NUL password)` -/
def saslPlain (authid password : Bytes) : Bytes :=
  Base64.encode ([0] ++ authid ++ [0] ++ password)

/-! ### DIGEST-MD5 -/

/-- `hash_t` as used by sasl_digest_md5: only `hash_add` (replace or insert) and `hash_get` are
    used and the table is never iterated, so an association list is observationally equal -/
abbrev Table := List (Bytes × Bytes)

def Table.get (t : Table) (k : Bytes) : Option Bytes := t.lookup k

def Table.add (t : Table) (k v : Bytes) : Table :=
  if t.any (fun e => e.1 == k) then t.map (fun e => if e.1 == k then (k, v) else e) else t ++ [(k, v)]

/-- where the scanning loops of `_parse_digest_challenge` stand -/
inductive PState where
  /-- top of the outer loop: skipping `','` and `' '` -/
  | skip
  /-- `while ((*t != '=') && (*t != '\0')) t++;` with the key bytes seen so far (reversed) -/
  | inKey (acc : Bytes)
  /-- just after the `'='`: `if ((*s == '\'') || (*s == '"'))` is about to be evaluated -/
  | valStart (key : Bytes)
  /-- inside a quoted value opened by `q`; `acc` = the value with quoted-pairs already
      reduced (the C code scans first and unescapes the copy afterwards, pairing the same way) -/
  | inQuoted (key : Bytes) (q : UInt8) (acc : Bytes)
  /-- inside a quoted value, just after a backslash (fix 8218356: RFC 2831 §7.2 quoted-pair) -/
  | inQuotedEsc (key : Bytes) (q : UInt8) (acc : Bytes)
  /-- inside an unquoted value (ends at `','`) -/
  | inBare (key : Bytes) (acc : Bytes)
  deriving Repr, DecidableEq

/-- one input byte -/
def pstep (st : PState × Table) (c : UInt8) : PState × Table :=
  match st with
  | (.skip, t) =>
    if c == comma || c == space then (.skip, t)
    else if c == eq_ then (.valStart [], t)
    else (.inKey [c], t)
  | (.inKey acc, t) =>
    if c == eq_ then (.valStart acc.reverse, t) else (.inKey (c :: acc), t)
  | (.valStart key, t) =>
    if c == squote || c == dquote then (.inQuoted key c [], t)
    else if c == comma then (.skip, t.add key [])
    else (.inBare key [c], t)
  | (.inQuoted key q acc, t) =>
    if c == q then (.skip, t.add key acc.reverse)
    -- if ((*t == '\\') && (t[1] != '\0')) t++;  … and the unescape loop drops the backslash
    else if c == backslash then (.inQuotedEsc key q acc, t)
    else (.inQuoted key q (c :: acc), t)
  | (.inQuotedEsc key q acc, t) => (.inQuoted key q (c :: acc), t)
  | (.inBare key acc, t) =>
    if c == comma then (.skip, t.add key acc.reverse) else (.inBare key (c :: acc), t)

/-- the terminating NUL -/
def pfinish : PState × Table → Table
  | (.skip, t) => t
  | (.inKey _, t) => t                                -- `if (*t == '\0') break; /* bad string */`
  | (.valStart key, t) => t.add key []
  | (.inQuoted key _ acc, t) => t.add key acc.reverse -- unterminated quote: value up to the NUL
  | (.inQuotedEsc key _ acc, t) => t.add key (acc.reverse ++ [backslash]) -- a lone final backslash is kept
  | (.inBare key acc, t) => t.add key acc.reverse

/-- the loop of `_parse_digest_challenge` over the decoded text -/
def parseChallenge (text : Bytes) : Table := pfinish (text.foldl pstep (.skip, []))

/-- `_digest_to_hex`: lower-case hexadecimal -/
def digestToHex (d : Bytes) : Bytes :=
  d.flatMap fun b =>
    let dig (n : Nat) : UInt8 := UInt8.ofNat (if n < 10 then 48 + n else 87 + n)
    [dig (b.toNat / 16 % 16), dig (b.toNat % 16)]

/-- `_make_quoted` (fix 8218356): `"` and `\` travel as quoted-pairs -/
def makeQuoted (value : Bytes) : Bytes :=
  [dquote] ++ value.flatMap (fun c => if c == dquote || c == backslash then [backslash, c] else [c]) ++ [dquote]

/-- `_add_key(ctx, table, key, buf, quote)`; `buf = []` stands for both NULL and "" -/
def addKey (t : Table) (key : Bytes) (buf : Bytes) (quote : Bool) : Bytes :=
  let value := (t.get key).getD []          -- "couldn't retrieve value": value = ""
  let qvalue := if quote then makeQuoted value else value
  (if buf.isEmpty then buf else buf ++ [comma]) ++ key ++ [eq_] ++ qvalue

def md5Of (chunks : List Bytes) : Bytes := Md5.final (chunks.foldl Md5.update Md5.init)

def kRealm : Bytes := cs ['r', 'e', 'a', 'l', 'm']
def kNonce : Bytes := cs ['n', 'o', 'n', 'c', 'e']
def kCnonce : Bytes := cs ['c', 'n', 'o', 'n', 'c', 'e']
def kNc : Bytes := cs ['n', 'c']
def kQop : Bytes := cs ['q', 'o', 'p']
def kUsername : Bytes := cs ['u', 's', 'e', 'r', 'n', 'a', 'm', 'e']
def kDigestUri : Bytes := cs ['d', 'i', 'g', 'e', 's', 't', '-', 'u', 'r', 'i']
def kResponse : Bytes := cs ['r', 'e', 's', 'p', 'o', 'n', 's', 'e']
def kCharset : Bytes := cs ['c', 'h', 'a', 'r', 's', 'e', 't']

/-- `realm = hash_get(table, "realm"); if (realm == NULL || strlen(realm) == 0) hash_add(table,
    "realm", strophe_strdup(ctx, domain));` -/
def withRealm (table : Table) (domain : Bytes) : Table :=
  match table.get kRealm with
  | none => table.add kRealm domain
  | some r => if r.isEmpty then table.add kRealm domain else table

/-- the part of `sasl_digest_md5` after the challenge has been parsed and `node`/`domain` have been
    extracted: fill the table, hash, build the reply.  `cnonce` = what xmpp_rand_nonce wrote. -/
def digestReply (table : Table) (node domain password cnonce : Bytes) : Res (Option Bytes) :=
  let table := withRealm table domain
  let realm := (table.get kRealm).getD []
  -- hash_add(table, "username", strophe_strdup(ctx, node));
  let table := table.add kUsername node
  let table := table.add kCnonce cnonce
  let table := table.add kNc Gen.Sasl.digestNc
  -- hash_add(table, "qop", strophe_strdup(ctx, "auth"));   (unconditional since fix 554713d)
  let table := table.add kQop Gen.Sasl.digestQopDefault
  let digestUri := Gen.Sasl.digestUriPrefix ++ domain
  let table := table.add kDigestUri digestUri
  -- MD5(node : realm : password)
  let d1 := md5Of [node, [colon], realm, [colon], password]
  -- value = hash_get(table, "nonce"); MD5Update(&MD5, value, strlen(value));
  match table.get kNonce with
  | none => .crash "sasl_digest_md5:strlen(nonce)"
  | some nonce =>
  let cn := (table.get kCnonce).getD []
  let ha1 := md5Of [d1, [colon], nonce, [colon], cn]
  -- strcmp(hash_get(table, "qop"), "auth")
  match table.get kQop with
  | none => .crash "sasl_digest_md5:strcmp(qop)"
  | some qop =>
  let ha2 := md5Of ([Gen.Sasl.digestA2Prefix, (table.get kDigestUri).getD []] ++
      (if qop != Gen.Sasl.digestQopAuth then [Gen.Sasl.digestA2Suffix] else []))
  let resp := md5Of [digestToHex ha1, [colon], nonce, [colon], (table.get kNc).getD [], [colon], cn,
      [colon], qop, [colon], digestToHex ha2]
  let table := table.add kResponse (digestToHex resp)
  -- the _add_key calls; `charset` only `if (hash_get(table, "charset"))`   (fix 6a95a25)
  let reply := Gen.Sasl.digestReplyKeys.foldl (fun buf kq =>
      if kq.1 == kCharset && (table.get kCharset).isNone then buf else addKey table kq.1 buf kq.2) []
  .ok (some (Base64.encode reply))

/-- `sasl_digest_md5(ctx, challenge, jid, password)`; `rnd` = what the random source delivers
    for the cnonce.  `ok none` = NULL. -/
def digestMd5 (challenge : Option Bytes) (jid password rnd : Bytes) : Res (Option Bytes) :=
  match challenge with
  -- _parse_digest_challenge: if (msg == NULL) return NULL;   (fix 26900de)
  | none => .ok none
  | some msg =>
  -- text = xmpp_base64_decode_str(ctx, msg, strlen(msg)); if (text == NULL) return NULL;
  match Base64.decodeStr msg with
  | none => .ok none
  | some text =>
  let table := parseChallenge text
  -- if (hash_get(table, "nonce") == NULL) { hash_release(table); return NULL; }   (fix 69bedf1)
  if (table.get kNonce).isNone then .ok none else
  -- node = xmpp_jid_node(ctx, jid); domain = xmpp_jid_domain(ctx, jid); …
  -- hash_add(table, "username", strophe_strdup(ctx, node)) dereferences node
  match Jid.node jid with
  | none => .crash "sasl_digest_md5:strdup(node)"
  | some node =>
    -- xmpp_rand_nonce(ctx->rand, cnonce, sizeof(cnonce));
    digestReply table node (Jid.domain jid) password ((randNonce Gen.Sasl.digestCnonceBuf rnd).getD [])

/-- outcome of a SASL challenge handler: the text of the `<response/>` handed to send_stanza, or
    `disconnect_mem_error` -/
inductive Handled where
  | resp (text : Bytes)
  | memerr
  deriving Repr, DecidableEq

/-- `_handle_digestmd5_challenge` on `<challenge>text</challenge>`; `none` = no text child (or
    only empty ones): `xmpp_stanza_get_text` returns NULL -/
def handleDigestChallenge (text : Option Bytes) (jid password rnd : Bytes) : Res Handled :=
  let text := match text with | some [] => none | t => t
  (digestMd5 text jid password rnd).bind fun
    | none => .ok .memerr
    | some r => .ok (.resp r)

/-! ### SCRAM primitives (scram.c) -/

def xorBytes (a b : Bytes) : Bytes := List.zipWith (· ^^^ ·) a b

/-- the loop `for (j = 1; j < i; j++) { HMAC(text, tmp) → tmp; digest ^= tmp; }` with `n`
    iterations left -/
def hiLoop (alg : Alg) (text : Bytes) : Nat → Bytes → Bytes → Option Bytes
  | 0, _, dg => some dg
  | n + 1, tmp, dg => (hmac alg text tmp).bind fun t => hiLoop alg text n t (xorBytes dg t)

/-- `crypto_HMAC_parts(alg, key, key_len, text, len, text2, len2, digest)`: HMAC of
    `text ‖ text2` fed to the inner hash as two updates (`crypto_HMAC` is this function with
    `len2 = 0`, i.e. `Strophe.Hash.hmac`, see `Lemmas/Sasl.lean hmacParts_nil`) -/
def hmacParts (alg : Alg) (key text text2 : Bytes) : Option Bytes :=
  let blocksize := hmacBlockSize alg
  let keyPad0 := zeros blocksize
  let keyPad? : Option Bytes :=
    if key.length ≤ blocksize then some (memcpy keyPad0 0 key)
    else (alg.hash key).map fun d => memcpy keyPad0 0 d
  keyPad?.bind fun keyPad =>
  let keyIpad := keyPad.map fun (b : UInt8) => b ^^^ Gen.hmacIpad
  let keyOpad := keyPad.map fun (b : UInt8) => b ^^^ Gen.hmacOpad
  -- init; update(key_ipad); update(text, len); if (len2 > 0) update(text2, len2); final(sha_digest);
  let c := alg.update (alg.update alg.init keyIpad) text
  let c := if text2.length > 0 then alg.update c text2 else c
  (alg.final c).bind fun shaDigest =>
  alg.final (alg.update (alg.update alg.init keyOpad) (shaDigest.take alg.digestSize))

/-- `SCRAM_Hi(alg, text, len, salt, salt_len, i, digest)` (after fix 61739ad: the salt is no longer
    copied into `tmp[]`; `tmp` only holds digests) -/
def hi (alg : Alg) (text salt : Bytes) (i : Nat) : Res Bytes :=
  -- assert(alg->digest_size <= sizeof(tmp));
  if alg.digestSize > Gen.Sasl.hiTmpSize then .abort "SCRAM_Hi:assert(digest_size)"
  -- memset(digest, 0, alg->digest_size); if (i == 0) return;
  else if i = 0 then .ok (zeros alg.digestSize)
  else
    ofDigest "SCRAM_Hi:hmac" <|
      (hmacParts alg text salt Gen.Sasl.hiInt1).bind fun u1 => hiLoop alg text (i - 1) u1 u1

/-- `SCRAM_ClientKey` (Normalize(password) is omitted in the C code) -/
def clientKey (alg : Alg) (password salt : Bytes) (i : Nat) : Res Bytes :=
  (hi alg password salt i).bind fun salted =>
    ofDigest "SCRAM_ClientKey:hmac" (hmac alg (salted.take alg.digestSize) Gen.Sasl.clientKeyLabel)

/-- `SCRAM_ClientSignature`: `HMAC(H(ClientKey), AuthMessage)` -/
def clientSignature (alg : Alg) (key authMessage : Bytes) : Res Bytes :=
  ofDigest "SCRAM_ClientSignature" <|
    (alg.hash (key.take alg.digestSize)).bind fun stored => hmac alg (stored.take alg.digestSize) authMessage

/-- `SCRAM_ClientProof`: byte-wise xor over `digest_size` bytes -/
def clientProof (alg : Alg) (key sign : Bytes) : Bytes :=
  xorBytes (key.take alg.digestSize) (sign.take alg.digestSize)

/-! ### SCRAM client-final (sasl_scram) -/

/-- `strtok_r(s, ",", …)` until NULL: the maximal comma-free runs, empty ones skipped -/
def tokensAux : Bytes → Bytes → List Bytes
  | [], cur => if cur.isEmpty then [] else [cur.reverse]
  | c :: rest, cur =>
    if c == comma then (if cur.isEmpty then tokensAux rest [] else cur.reverse :: tokensAux rest [])
    else tokensAux rest (c :: cur)

def tokens (s : Bytes) : List Bytes := tokensAux s []

structure Fields where
  /-- the whole token `r=…` -/
  r : Option Bytes := none
  /-- what follows `s=` -/
  s : Option Bytes := none
  /-- what follows `i=` -/
  i : Option Bytes := none
  deriving Repr, DecidableEq

def litR : Bytes := cs ['r', '=']
def litS : Bytes := cs ['s', '=']
def litI : Bytes := cs ['i', '=']
def litC : Bytes := cs ['c', '=']
def litP : Bytes := cs [',', 'p', '=']

/-- the `while (ptr)` loop of sasl_scram: a later attribute overrides an earlier one -/
def scanFields (toks : List Bytes) : Fields :=
  toks.foldl (fun f t =>
    if hasPrefix litR t then { f with r := some t }
    else if hasPrefix litS t then { f with s := some (t.drop 2) }
    else if hasPrefix litI t then { f with i := some (t.drop 2) }
    else f) {}

/-- `sasl_scram(ctx, alg, channel_binding, challenge, first_bare, jid, password)`;
    `ok none` = NULL -/
def scramFinal (alg : Alg) (channelBinding challenge firstBare password : Bytes) : Res (Option Bytes) :=
  let f := scanFields (tokens challenge)
  match f.r, f.s, f.i with
  | some r, some s, some i =>
    -- xmpp_base64_decode_bin(ctx, s, strlen(s), &sval, &sval_len); if (!sval) goto out;
    match Base64.decodeBin s with
    | none => .ok none
    | some (sval, svalLen) =>
      let ival := strtol i
      let signB64Len := (alg.digestSize + 2) / 3 * 4
      let responseLen := 3 + channelBinding.length + r.length + 3 + signB64Len + 1
      let authLen := 3 + responseLen + firstBare.length + challenge.length
      -- snprintf(response, response_len, "c=%s,%s", channel_binding, r)
      let response := litC ++ channelBinding ++ [comma] ++ r
      if response.length ≥ responseLen then .ok none else
      -- snprintf(auth, auth_len, "%s,%s,%s", first_bare, challenge, response)
      let auth := firstBare ++ [comma] ++ challenge ++ [comma] ++ response
      if auth.length ≥ authLen then .ok none else
      (clientKey alg password (sval.take svalLen) (toU32 ival)).bind fun key =>
      (clientSignature alg key auth).bind fun sign =>
      let proof := clientProof alg key sign
      let signB64 := Base64.encode proof
      -- if (strlen(response) + strlen(sign_b64) + 3 + 1 > response_len) goto out_auth;
      if response.length + signB64.length + 3 + 1 > responseLen then .ok none else
      .ok (some (Base64.encode (response ++ litP ++ signB64)))
  | _, _, _ => .ok none

/-! ### SCRAM client-first (_make_scram_init_msg) -/

/-- what the TLS layer reports: `tls_init_channel_binding` (`none`: it fails, else the binding
    type, e.g. "tls-exporter") and `tls_get_channel_binding_data` (`none`: NULL) -/
structure TlsCb where
  bindingType : Option Bytes
  data : Option Bytes
  deriving Repr, DecidableEq

structure ScramInit where
  /-- `scram->scram_init`: the client-first-message -/
  message : Bytes
  /-- `scram->channel_binding`: base64 of gs2-header ‖ channel-binding data -/
  channelBinding : Bytes
  /-- `scram->first_bare - scram->scram_init` -/
  firstBareOff : Nat
  deriving Repr, DecidableEq

def ScramInit.firstBare (s : ScramInit) : Bytes := s.message.drop s.firstBareOff

def litGs2Tail : Bytes := cs [',', ',', 'n', '=']   -- ",,n="
def litRsep : Bytes := cs [',', 'r', '=']           -- ",r="
def litPeq : Bytes := cs ['p', '=']

/-- `_scram_escape_name` (fix 1d69871): `','` ↦ "=2C", `'='` ↦ "=3D" -/
def escapeName (name : Bytes) : Bytes :=
  name.flatMap fun c =>
    if c == comma then [eq_, 50, 67] else if c == eq_ then [eq_, 51, 68] else [c]

/-- `_make_scram_init_msg(scram)`; `none` = -1.  `rnd` = the random bytes of the nonce. -/
def scramInit (plus secured : Bool) (tls : TlsCb) (jid rnd : Bytes) : Option ScramInit :=
  -- if (scram->sasl_plus) { if (!is_secured) return -1; if (tls_init_channel_binding(…)) return -1; … }
  let bt? : Option (Option Bytes) :=
    if plus then (if !secured then none else match tls.bindingType with
      | none => none
      | some t => some (some t))
    else some none
  match bt? with
  | none => none
  | some bt =>
  let btLen0 := match bt with | some t => t.length + 1 | none => 0
  match Jid.node jid with
  | none => none
  | some node0 =>
  -- message = _scram_escape_name(ctx, node); node = message;
  let node := escapeName node0
  let nonce := (randNonce Gen.Sasl.scramNonceLen rnd).getD []
  let messageLen := node.length + nonce.length + 8 + btLen0 + 1
  let btLen := btLen0 + 3
  let message := match bt with
    | some t => litPeq ++ t ++ litGs2Tail ++ node ++ litRsep ++ nonce
    | none => [if secured then 121 else 110] ++ litGs2Tail ++ node ++ litRsep ++ nonce
  if message.length ≥ messageLen then none
  else if btLen > Gen.Sasl.scramInitBuf then none
  else
    let header := message.take btLen
    if plus then
      match tls.data with
      | none => none
      | some data =>
        if data.length > Gen.Sasl.scramInitBuf - btLen then none
        else some ⟨message, Base64.encode (header ++ data), btLen⟩
    else some ⟨message, Base64.encode header, btLen⟩

/-- `_handle_scram_challenge` on `<challenge>text</challenge>` with the record built by
    `scramInit` (`none`: no text) -/
def handleScramChallenge (alg : Alg) (init : ScramInit) (text : Option Bytes) (password : Bytes) : Res Handled :=
  let text := match text with | some [] => none | t => t
  match text with
  | none => .ok .memerr
  | some text =>
    match Base64.decodeStr text with
    | none => .ok .memerr
    | some challenge =>
      (scramFinal alg init.channelBinding challenge init.firstBare password).bind fun
        | none => .ok .memerr
        | some r => .ok (.resp r)

/-! ### "is a `<response/>` sent?" — for the connection model (C01–C03), which needs only this bit -/

/-- `_handle_digestmd5_challenge` answers with a `<response/>` (instead of disconnecting) exactly
    when the challenge has text that base64-decodes to a NUL-free string whose directive list
    contains `nonce` (for a JID with a node; `Lemmas/Sasl.lean digestResponds_spec`) -/
def digestResponds (text : Option Bytes) : Bool :=
  match text with
  | none => false
  | some [] => false
  | some msg =>
    match Base64.decodeStr msg with
    | none => false
    | some t => ((parseChallenge t).get kNonce).isSome

/-- `_handle_scram_challenge` answers with a `<response/>` exactly when the challenge has text
    that decodes to a string with `r=`, `s=`, `i=` attributes and a base64-decodable salt
    (`Lemmas/Sasl.lean scramResponds_spec`) -/
def scramResponds (text : Option Bytes) : Bool :=
  match text with
  | none => false
  | some [] => false
  | some msg =>
    match Base64.decodeStr msg with
    | none => false
    | some ch =>
      let f := scanFields (tokens ch)
      match f.r, f.s, f.i with
      | some _, some s, some _ => (Base64.decodeBin s).isSome
      | _, _, _ => false

/-! ### component handshake, legacy authentication, the first `<auth/>` -/

/-- `_handle_component_auth`: `Except rc wire` -/
def componentHandshake (streamId : Option Bytes) (secret : Bytes) : Except Int Bytes :=
  match streamId with
  | none => .error (-3)       -- XMPP_EINT
  | some id =>
    let md := Sha1.final (Sha1.update (Sha1.update Sha1.init id) secret)
    -- send_raw_string(conn, "<handshake xmlns='%s'>%s</handshake>", XMPP_NS_COMPONENT, digest)
    let part (k : Nat) : Bytes := Gen.Sasl.handshakeParts.getD k []
    .ok (part 0 ++ Gen.Sasl.nsComponent ++ part 1 ++ digestToHex md ++ part 2)

inductive AuthOut where
  /-- `<auth mechanism=…>text</auth>` (`none`: no text child) -/
  | mech (name : Bytes) (text : Option Bytes)
  /-- `<iq type id><query xmlns><username/><password/><resource/></query></iq>` -/
  | iq (type id ns user pass resource : Bytes)
  | disc
  | memerr
  deriving Repr, DecidableEq

/-- `_auth_legacy`: node, password and resource of jabber:iq:auth -/
def legacyAuth (jid password : Bytes) : AuthOut :=
  match Jid.node jid with
  | none => .memerr
  | some node =>
    match Jid.resource jid with
    | none => .disc
    | some res => .iq Gen.Sasl.legacyIqType Gen.Sasl.legacyIqId Gen.Sasl.nsAuth node password res

def mechAnonymous : Bytes := cs ['A', 'N', 'O', 'N', 'Y', 'M', 'O', 'U', 'S']
def mechExternal : Bytes := cs ['E', 'X', 'T', 'E', 'R', 'N', 'A', 'L']
def mechPlain : Bytes := cs ['P', 'L', 'A', 'I', 'N']

/-- `_auth` restricted to masks ⊆ {PLAIN, ANONYMOUS, EXTERNAL} (no TLS pending): which `<auth/>`
    goes out and the new `sasl_support`.  `xaddrNum`/`xaddr0` = what the client certificate's
    xmppAddr entries are. -/
def authFirst (mask : Nat) (legacy : Bool) (jid : Bytes) (password : Option Bytes)
    (xaddrNum : Nat) (xaddr0 : Option Bytes) : AuthOut × Nat :=
  let anonjid := (Jid.node jid).isNone
  let has (b : Nat) : Bool := mask / b % 2 == 1
  if anonjid && has Gen.saslMaskAnonymous then
    (.mech mechAnonymous none, mask - Gen.saslMaskAnonymous)
  else if has Gen.saslMaskExternal then
    let str := if xaddrNum ≥ 1 then xaddr0 else none
    let text := match str with
      | none => [eq_]
      | some a => if xaddrNum == 1 && a == jid then [eq_] else Base64.encode jid
    (.mech mechExternal (some text), mask - Gen.saslMaskExternal)
  else if anonjid then (.disc, mask)
  else match password with
    | none => (.disc, mask)
    | some pw =>
      if has Gen.saslMaskPlain then
        match Jid.node jid with
        | none => (.memerr, mask)
        | some authid => (.mech mechPlain (some (saslPlain authid pw)), mask - Gen.saslMaskPlain)
      else if legacy then (legacyAuth jid pw, mask)
      else (.disc, mask)

end Strophe.Sasl
