import Strophe.Drv.B64
import Strophe.Drv.Jid

open Strophe

/-- stateless engines: one output line per input line -/
def stateless : String → Option (String → String)
  | "b64" => some Drv.B64.step
  | "jid" => some Drv.Jid.step
  | _ => none

partial def loopStateless (h : IO.FS.Stream) (out : IO.FS.Stream) (f : String → String) : IO Unit := do
  let line ← h.getLine
  if line.isEmpty then return ()
  let l := line.trimAscii.toString
  if l.isEmpty || l.startsWith "#" then
    loopStateless h out f
  else
    out.putStrLn (f l)
    loopStateless h out f

def main (args : List String) : IO UInt32 := do
  let stdin ← IO.getStdin
  let stdout ← IO.getStdout
  match args with
  | [eng] =>
    match stateless eng with
    | some f => loopStateless stdin stdout f; return 0
    | none => IO.eprintln s!"unknown engine {eng}"; return 2
  | _ => IO.eprintln "usage: drv <engine>"; return 2
