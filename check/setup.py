#!/usr/bin/env python3
"""MANIFEST.setup_cmd: cold build of the Lean library + driver and the harness (offline)."""
import os
import sys

HERE = os.path.dirname(os.path.abspath(__file__))
sys.path.insert(0, HERE)
import build  # noqa: E402


def main():
    errs, _ = build.run_extract()
    if errs:
        print("extract problems (checks will report them):", errs)
    ok, s, log = build.lake_build(["Strophe", "drv"])
    print("lake build Strophe drv: %s in %.1fs" % ("ok" if ok else "FAILED", s))
    if not ok:
        print(log[-3000:])
    try:
        for v in ["std"]:
            print("harness:", build.build_harness(v))
    except build.BuildError as e:
        print(e.what)
        print(e.log)
        return 1
    return 0 if ok else 1


if __name__ == "__main__":
    sys.exit(main())
