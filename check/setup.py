#!/usr/bin/env python3
"""MANIFEST.setup_cmd: cold build of the Lean library + driver and the harness (offline)."""
import os
import sys

HERE = os.path.dirname(os.path.abspath(__file__))
sys.path.insert(0, HERE)
import build  # noqa: E402


def main():
    errs, _ = build.run_extract()
    if errs:
        print("extract problems (checks will report them):", errs)
    # only what the claimed checks use: work in progress on unclaimed properties must not break setup
    import json
    man = json.load(open(os.path.join(build.VERIF, "MANIFEST.json")))
    targets = ["Strophe.Props.%s" % c["property_id"] for c in man.get("checks", [])] + ["drv"]
    ok, s, log = build.lake_build(targets)
    print("lake build %s: %s in %.1fs" % (" ".join(targets), "ok" if ok else "FAILED", s))
    if not ok:
        print(log[-3000:])
    engs = sorted(f[4:-2] for f in os.listdir(os.path.join(build.VERIF, "harness"))
                  if f.startswith("eng_") and f.endswith(".c"))
    for e in engs:
        try:
            print("harness %s:" % e, build.build_harness(e))
        except build.BuildError as ex:
            # reported again (as a broken tie) by the check of the property that uses this engine
            print("harness %s: %s\n%s" % (e, ex.what, ex.log[-800:]))
    return 0 if ok else 1


if __name__ == "__main__":
    sys.exit(main())
