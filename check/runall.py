#!/usr/bin/env python3
"""Run the quick (or given tier) check of every property claimed in MANIFEST.json, in parallel."""
import concurrent.futures
import json
import os
import subprocess
import sys

HERE = os.path.dirname(os.path.abspath(__file__))
VERIF = os.path.dirname(HERE)
tier = sys.argv[1] if len(sys.argv) > 1 else "quick"
man = json.load(open(os.path.join(VERIF, "MANIFEST.json")))


def run(c):
    cmd = c["quick_cmd"] if tier == "quick" else c["thorough_cmd"]
    p = subprocess.run(cmd, shell=True, cwd=VERIF, capture_output=True, text=True)
    tail = [l for l in p.stdout.strip().split("\n") if l][-1:] or [""]
    viol = [l for l in p.stdout.split("\n") if l.startswith("VIOLATION") or l.startswith("KNOWN-FINDING")]
    return c["property_id"], p.returncode, tail[0], viol


with concurrent.futures.ThreadPoolExecutor(max_workers=6) as ex:
    bad = 0
    for pid, rc, tail, viol in ex.map(run, man["checks"]):
        print("%s rc=%d %s" % (pid, rc, tail))
        for v in viol:
            print("    " + v)
        bad += rc != 0
sys.exit(1 if bad else 0)
