#!/usr/bin/env python3
"""Regenerates the generated tables of DESIGN.md (between the BEGIN/END markers):
the findings table from known_findings.json and the seeded-change table from seeded/*/result.json."""
import io
import json
import os
import re
import sys
from contextlib import redirect_stdout

HERE = os.path.dirname(os.path.abspath(__file__))
VERIF = os.path.dirname(HERE)
sys.path.insert(0, HERE)
import seeded  # noqa: E402


def findings_table():
    k = json.load(open(os.path.join(VERIF, "known_findings.json")))
    rows = ["| property | status | /repo commit | what failed |", "|---|---|---|---|"]
    for f in k["findings"]:
        w = re.sub(r"^fixed: property=C\d\d [0-9a-f]+ ", "", f["what"])
        rows.append("| %s | %s | %s | %s |" % (f["property"], f["status"], f.get("commit") or "—", w.replace("|", "\\|")))
    return "\n".join(rows) + "\n"


def seeded_table():
    buf = io.StringIO()
    with redirect_stdout(buf):
        seeded.cmd_table()
    return buf.getvalue()


def main():
    p = os.path.join(VERIF, "DESIGN.md")
    s = open(p).read()
    for name, fn in (("FINDINGS-TABLE", findings_table), ("SEEDED-TABLE", seeded_table)):
        b, e = "<!-- %s-BEGIN -->" % name, "<!-- %s-END -->" % name
        i, j = s.index(b) + len(b), s.index(e)
        s = s[:i] + "\n" + fn() + "\n" + s[j:]
    open(p, "w").write(s)


if __name__ == "__main__":
    main()
