#!/usr/bin/env python3
"""scenario text -> .ops for engine conn: lines `rx <xml>` and `new <jid> <pass> <flags> <c|k|r> <cert>`
are hex-encoded, everything else is copied.  usage: mkops.py in.txt out.ops"""
import sys

HDR = ("<?xml version='1.0'?><stream:stream xmlns='jabber:client' xmlns:stream='http://etherx.jabber.org/streams' "
       "id='%s' from='example.org' version='1.0'>")


def conv(line):
    t = line.rstrip("\n").split(" ", 1)
    if t[0] == "rx":
        txt = t[1].replace("@HDR1@", HDR % "s1").replace("@HDR2@", HDR % "s2").replace("@HDR3@", HDR % "s3")
        return "rx " + txt.encode().hex()
    if t[0] == "new":
        a = t[1].split(" ")
        return "new %s %s %s" % (a[0].encode().hex(), a[1].encode().hex() if a[1] != "-" else "-", " ".join(a[2:]))
    return line.rstrip("\n")


if __name__ == "__main__":
    out = [conv(l) for l in open(sys.argv[1]) if l.strip() and not l.startswith("#")]
    open(sys.argv[2], "w").write("\n".join(out) + "\n")
