#!/usr/bin/env python3
"""Writes /verif/MANIFEST.json from the table below (keeps it schema-valid at all times)."""
import json
import os

HERE = os.path.dirname(os.path.abspath(__file__))
VERIF = os.path.dirname(HERE)

PROOF_NOTE = ("Trusted: Lean 4.33 kernel + axioms propext/Classical.choice/Quot.sound (audited with "
              "#print axioms on every run; no sorry/native_decide/bv_decide/own axioms); "
              "extract/extract.py; the hand-written model is tied to /repo by differential execution "
              "(harness hdrv vs compiled Lean driver drv on the same generated ops) and by regenerated "
              "tables/constants (Strophe/Gen). ")

CLAIMED = {
    "C12": dict(
        engine="own", design="5.12",
        technique="Lean 4 theorems over a pointer-level heap model of stanza.c + hash.c ownership (every field access checked against freed nodes, the allocator's books carried along) for all API programs respecting the documented ownership rules; differential execution with EXACT live-block prediction after every call under an instrumented allocator + ASan; allocator-bypass and whole-connection balance as oracles (companion pass on engine conn)",
        text=("For every program satisfying WellOwned (the documented rules R1-R4, stated as a decidable predicate): "
              "no_use_after_free (no access to a freed node, at the end and at every prefix), freed_at_most_once / "
              "freed_exactly_once (the free log has no duplicates; with no references left every block is returned: blocks = 0), "
              "alive_while_referenced (everything reachable from a held reference is live, including a child whose parent was "
              "released), refcount_exact, parent_never_dangles, blocks_predicted (the live-block count equals the structural "
              "count 1 per node + 1 per string + 2+3n per attribute table: what the harness compares after every call), "
              "end_releases_everything; d6_old_code_uaf / d6_repaired (machine-checked witnesses of the repaired defect). "
              "Necessity of each rule is shown by decided examples. Five defects found and repaired (D6 use-after-free, three "
              "leaks), one known finding (D28 second context bypasses the allocator for expat)."),
        note=PROOF_NOTE + "PARTIAL: the theorems cover the stanza/attribute-table ownership core; connection-level balance (connect/negotiate/fail/disconnect/reconnect/release, SM hand-over, global timed handlers) and 'nothing bypasses the allocator' are ORACLES on the real code (zero live blocks at the end of every generated history, link-wrapped malloc family), not theorems; allocation-failure paths are not modelled."),
    "C04": dict(
        engine="conn", design="5.4",
        technique="Lean 4: invariants over every operation history of the connection-machine model (numbering, contiguity, retained = written) and step theorems for <a/>, <resumed/>, <failed/>, <enabled/> with the ghost number of every written element; tied to event.c/conn.c/auth.c by differential execution + model-free SM monitor",
        text=("retire_counts + only_user_stanzas_numbered (exactly the user's stanzas are numbered: no negotiation element, <r/>, <a/>, "
              "stream error or header), contiguous_numbers / contiguous_while_resumable (retained numbers are consecutive and end "
              "at sent-1 on every answered or resumable session), retained_were_written, retained_only_released_by_h (NOTHING IS "
              "LOST from the retained queue except by an h the server sent or by being put back for retransmission, every reachable "
              "state and operation), ack_releases_exactly (<a h> releases exactly the numbers below h), "
              "resumed_retransmits_exactly (exactly the stanzas beyond h, once, in order, before CONNECT is delivered, counter "
              "continues at h), failed_keeps_unhandled + enabled_resends_all, retained_are_user_items. Known finding D52 with "
              "machine-checked witness resend_lost_on_second_loss (retransmissions not yet written are lost if the connection "
              "drops again) and the positive part requeued_until_reset_partial. Six defects found and repaired."),
        note=PROOF_NOTE + "PARTIAL: the property's 'never loses' holds up to the known finding C04:retransmission-lost (D52); sequence numbers are compared without wrap-around by the code (NoWrap is a hypothesis of the step theorems; 2^32 stanzas are out of reach of an honest session); the transport and the server are inputs."),
    "C08": dict(
        engine="tls", design="5.8",
        technique="Lean 4 theorems over the decision logic of tls_openssl.c/conn.c above OpenSSL, with OpenSSL's path validation and name matching as a parameter under the named hypothesis H-openssl (checked on every recorded handshake); the real tls_openssl.c against an in-process OpenSSL server with certificates generated per case; ground-truth Python oracle with its own RFC 6125 matcher",
        text=("secured_iff / secured_iff_good / secured_sound (after conn_tls_start the connection is secured iff the handshake "
              "completed and: no failure was reported, or the trust flag is set, or the handler accepted EACH failing certificate; "
              "for any number of failures and any handler), no_callback_aborts, reject_one_aborts, trust_flag_skips_verification, "
              "handler_sees_failures_in_order, config_verifies_peer_unless_trusted / config_pins_host / config_no_partial_wildcards "
              "(the OpenSSL configuration read back from the real code), refused_domains (empty / leading-dot domain refused), "
              "failed_start_restores / failed_handshake_marks_connection, never_cleartext_after_failure_{starttls,legacy,raw}, "
              "data_over_tls_only_if_secured, same_transition_as_conn_machine (ties this model to Model/Conn.lean). Every run covers "
              "the full 7x4x3x2 table of the property plus 23 certificate kinds x 8 handler modes, CA dir/env store, reconnect "
              "rounds. Two defects found and repaired (empty / dot domain switches the host check off)."),
        note=PROOF_NOTE + "PARTIAL: X.509 path validation, validity and RFC 6125 name matching are OpenSSL's and enter as hypothesis H-openssl (Spec/OpenSsl.lean), which is checked against the real OpenSSL on every case together with an independent Python matcher; the theorems are about libstrophe's configuration and decision logic."),
    "C11": dict(
        engine="hnd", design="5.11",
        technique="Lean 4 theorems over a statement-level model of handler.c for arbitrary handler sets, filters, scripted behaviours (a function of callback x userdata and invocation index), stanza sequences and clock advances, against a specification written from the property text; differential execution of the real handler.c under ASan + independent Python reference",
        text=("fire_exact (a dispatch that returns invoked exactly: id handlers first, then the matching stanza handlers, each once, in "
              "registration order, as registered at dispatch start minus those deleted by earlier callbacks, user handlers gated "
              "by the negotiation), match_def, fire_total, added_during_dispatch_skips_current, duplicate_kept_once, "
              "returned_false_is_gone / deleted_is_gone / gone_never_again, timed_not_early, timed_fires_when_due (+ context-wide), "
              "timed_only_connected, timed_stamps_{add,reset,fire}, no_stale_access_partial + stale_only_if_self_delete, "
              "pin_structure (nine structural facts extracted from handler.c). Two defects found and repaired (D7 stale id-list "
              "head: use-after-free; D27 handler added in the id phase saw the stanza); one known finding (a callback deleting "
              "its own callback function: C11:self-delete, machine-checked witness no_stale_access_false)."),
        note=PROOF_NOTE + "no_stale_access holds under the hypothesis that no callback deletes its own callback function from the list it is dispatched from (known finding otherwise); hash bucket order, allocation failure and a clock running backwards are not modelled."),
    "C05": dict(
        engine="conn", design="5.5",
        technique="Lean 4: the counter equals a specification over the ghost history of dispatched stanzas in every reachable state (invariant proof over all operation histories), step theorems for <r/> -> <a/>, global theorem over the log of written elements for the reported h; tied to conn.c/auth.c by differential execution + model-free monitor over the REAL parser's events; companion pass on engine q",
        text=("handled_is_dispatch_count (in EVERY reachable state sm_handled_nr = the number of dispatched non-SM stanzas since the "
              "<enabled/> that answered our <enable/>, mod 2^32, carried across disconnects and resumptions; the history and its "
              "markers are ghost data decided from what arrives, not from what _handle_sm does), sm_elements_never_counted, "
              "every_r_one_a (each <r/> on a live connection queues exactly one <a h=count/>, itself never numbered), "
              "reported_h_is_count (the h of every <a/> and <resume/> that reaches the wire is the counter when it was produced), "
              "count_carried_across. One defect found by the proof (D51: an element merely containing an SM child taken for the "
              "SM answer) and repaired."),
        note=PROOF_NOTE + "Stanzas are counted as the real parser delivers them (C10 covers the parser); a stanza with no namespace at all (a server whose stream header declares no default namespace) is not counted by the code nor by the model."),
    "C03": dict(
        engine="conn", design="5.3",
        technique="Lean 4 invariant proofs over every operation history of the connection-machine model, statements over the log of everything written (with the server's offers of that attempt as ghost data at queue time) and of every notification; tied to auth.c/conn.c/handler.c by differential execution of scripted sessions on the real library + model-free transcript monitor",
        text=("For EVERY history (all server scripts: conforming, reordering, repeating or omitting steps, wrong elements; client / "
              "component / raw; SM on/off; resource given or not; repeated connect/disconnect cycles on one object): "
              "requests_answer_offers (STARTTLS, the chosen SASL mechanism, compression, bind, session, SM enable/resume are only "
              "requested when offered on that connection attempt), negotiation_order (RFC 6120 order; <starttls/> only on a not yet "
              "secured stream; no <auth/> after <success/>), header_fields (to = configured domain, from only on a secured stream), "
              "bind_resource, connect_once (CONNECT at most once per attempt), connect_implies_negotiated (only after authentication "
              "and bind / resumption / handshake acknowledgement), no_user_callback_before_connect (stanza, id and timed handlers), "
              "no_user_data_before_connect_partial (no user element reaches the wire before CONNECT; proved for histories without "
              "xmpp_send_raw, which is the recorded known finding D13 with the machine-checked witness send_raw_before_connect), "
              "negotiated_iff_notified. Eleven defects found through this property's proofs/monitor and repaired."),
        note=PROOF_NOTE + "PARTIAL for the last clause only: xmpp_send_raw() is not gated by the negotiation (known finding C03:user-stanza-on-wire-before-connected); compression itself is C20's subject (here only its negotiation)."),
    "C02": dict(
        engine="conn", design="5.2",
        technique="Lean 4 invariant proofs over every operation history of the connection-machine model, statements over the log of everything written to the wire (with the user's flags at write time and the server's offers at queue time as ghost data); tied to auth.c/conn.c by differential execution of scripted sessions on the real library + model-free transcript monitor",
        text=("For EVERY history (all flag words the API accepts, all JIDs/passwords, all server behaviours incl. failed/refused "
              "handshakes, SASL failures forcing fallback, missing/duplicated starttls, reconnect cycles with flag changes): "
              "mandatory_tls_gate (an element carrying authentication data is written only through an established TLS session "
              "when MANDATORY_TLS is set at the time of writing; also for the flag at queue time), never_starttls_when_disabled, "
              "plain_only_if_nothing_stronger (PLAIN only if no SCRAM-*/DIGEST-MD5, and with a client certificate no EXTERNAL, "
              "was offered on that connection), legacy_only_if_enabled (jabber:iq:auth only for client connections with "
              "LEGACY_AUTH, at queue and at write time), set_flags_table (complete decision table of xmpp_conn_set_flags over "
              "all 256 words and all states, accepted flags read back), tls_failed_never_secured. Seven defects found through "
              "this property's statements/monitor and repaired."),
        note=PROOF_NOTE + "The TLS handshake result is an input of the model (OpenSSL is scripted: ok / fail / context allocation failure); certificate validation is C08's subject. SCRAM/DIGEST response contents are C07's."),
    "C13": dict(
        engine="conn", design="5.13",
        technique="Lean 4 invariant proofs over every operation history of the connection-machine model (Model/Conn.lean: event loop, handlers, timed handlers, negotiation, SM, API calls), tied to conn.c/auth.c/event.c/handler.c by differential execution of the same sessions on the real library (scripted socket/TLS, real parser) + model-free transcript monitors",
        text=("For EVERY history of API calls, loop iterations, clock advances, parser events and transport outcomes from a fresh "
              "connection object: one_disconnect_per_attempt (at most one DISCONNECT per accepted attempt), ended_iff_notified "
              "(state disconnected <-> exactly one DISCONNECT delivered for the attempt), connect_before_disconnect (never CONNECT "
              "after DISCONNECT), events_belong_to_attempts, predicates_partition + predicates_agree (exactly one of "
              "connecting/connected/disconnected, agreeing with the notifications), timed_not_early / timed_fires_when_due / "
              "timed_only_connected / timed_uids_nodup (deadlines given up when and not before they pass; pin_deadlines pins "
              "5 s / 15 s / 2 s to the constants extracted from the source), flags_offline_only + the complete 256-word "
              "set_flags table (C02), connect_refused_unless_disconnected, stream_error_stored + disconnect_reports_stream_error. "
              "Five defects found by the proofs/monitors and repaired (D45-D49)."),
        note=PROOF_NOTE + "PARTIAL: the TCP connect timeout per address and the resolver are the subject of C14; the model's transport, TLS handshake result and clock are scripted parameters (any behaviour), the parser is the real one on the implementation side and an event stream obeying H-parser-protocol on the model side (violations are reported by the driver)."),
    "C01": dict(
        engine="conn", design="5.1", category="proof",
        technique="Lean 4: totality of the connection-machine model with explicit crash sites (no_crash: no NULL-dereference site is reachable in any history), fuel sufficiency of the authentication fallback loop, reconnectable/releasable after every history; tied to the real code by differential execution under ASan+UBSan with a per-case leak oracle",
        text=("no_crash (the model marks every place where the C code would dereference NULL or abort; none is reachable from a "
              "fresh object by ANY history of server events, chunkings, API calls, clock advances), auth_fuel_enough (the mechanism "
              "fallback loop terminates: no spin inside one iteration), one_outcome (C13's exactly-one-disconnect), reconnectable "
              "(after any history a disconnected object accepts connect again), release_disconnects. The memory-safety half of the "
              "property (invalid access in the real C code) is NOT a theorem: it is checked by running the same adversarial sessions "
              "on the real code under ASan+UBSan (harness) and is labelled as such."),
        note=PROOF_NOTE + "PARTIAL: memory safety of the C code itself is established by sanitizer runs over generated sessions (testing, not proof); SCRAM iteration counts are bounded by the generator as the property allows; parser-internal safety is C10's, SASL parsing safety C07's, SM blob C16's."),
    "C07": dict(
        engine="sasl", design="5.7",
        technique="Lean 4 theorems: client SCRAM proof accepted by an RFC 5802 server-side verifier written from the RFC, message grammar, DIGEST-MD5 = RFC 2831, PLAIN = RFC 4616, XEP-0114 handshake, parser robustness; differential correspondence + independent Python RFC 5802/2831 server",
        text=("scram_proof_verifies (every mechanism, password, non-empty salt of ANY length, 1 <= i < 2^32, server nonce, channel "
              "binding: the client proof passes serverVerify), hi_eq_spec, scram_messages_wellformed (gs2 header, c= field, nonce "
              "echo, saslname escaping), scram_exchange(_plus), digest_md5_eq_rfc2831 (quoted-pairs included), plain_eq_rfc4616, "
              "handshake_eq_xep0114, legacy_fields, scram_parse_no_crash / digest_parse_no_crash (no NULL dereference or abort for "
              "any server bytes). Built on the C17 hash models (proved equal to the standards). Tied to sasl.c/scram.c/auth.c every "
              "run; every response is also verified by an independent Python server (hashlib.pbkdf2_hmac, hmac, md5). Eight defects "
              "found and repaired."),
        note=PROOF_NOTE + "Nonce freshness is checked empirically on the real rand.c (the DRBG is not modelled); Normalize(password) is the identity as in the C code; built without NDEBUG."),
    "C10": dict(
        engine="xml", design="5.10",
        technique="Lean 4 refinement + invariant theorems over arbitrary expat callback traces with expat as a parameter under the named hypothesis H-expat; recorded-parameter replay against the real parser; ElementTree oracle",
        text=("chars_split_invariant / text_whole (text split across callbacks is delivered whole and in order), chunk_invariant and "
              "chunk_invariant_restarts (given H-expat, delivery does not depend on the partition of the byte stream, with restarts "
              "at any point), reset_clean_slate, assembly_safe / buffer_safe / assembly_invariant (no NULL dereference, no "
              "uninitialised read, bookkeeping invariant in every reachable state), ns_split_correct. The model is the layer of "
              "parser_expat.c above expat; expat's callback trace is recorded from a second parser instance fed with the same "
              "bytes and replayed into the model; every partition is also compared with the one-read delivery and, for "
              "well-formed input, with Python ElementTree."),
        note=PROOF_NOTE + "PARTIAL: expat's tokenisation is not modelled; H-expat (callback traces of two chunkings agree up to character-data splitting, with the documented error-tail allowance) is a hypothesis of chunk_invariant and is checked on the recorded traces of every run."),
    "C09": dict(
        engine="stz", design="5.9",
        technique="Lean 4 theorems (escape/unescape, parse(render t) = canon t for every well-formed tree against an independent XML reader spec, exact to_text for every buffer size, copy/reply structure) over a byte-exact model of stanza.c + hash.c + differential correspondence with three independent readers",
        text=("escape_no_breakout, unescape_escape, toText_exact (any size: below/at/above the 1024-byte first buffer), "
              "parse_render (any depth/fan-out, attributes, namespace scoping) against Spec/Xml.lean, copy_deep/copy_same_tree, "
              "reply_addresses_sender, reply_error_structure; hash.c modelled exactly (bucket order) so rendering is byte-exact. "
              "Re-reading through xmpp_stanza_new_from_string is proved under NoUndecl (reread_*_partial); the full statement is "
              "false (machine-checked witness) and recorded as known finding F2. Tied to the code every run: random API programs, "
              "rendered bytes read back by the Lean spec reader, raw expat, Python ElementTree and the library's own parser."),
        note=PROOF_NOTE + "copy independence of C objects (no sharing) is checked by the differential run, value semantics in the model; known finding C09:reparse:reread-undeclared-ns."),
    "C20": dict(
        engine="zl", design="5.20",
        technique="Lean 4 theorems over the staging-layer model with zlib as a parameter under named hypotheses (H-zlib), recorded-parameter replay of every deflate/inflate call of the real zlib",
        text=("write_transparent (ANY partial-write/EAGAIN/hard-error schedule of the lower transport: what the peer can inflate is "
              "always a prefix of the submitted stream and equals it after an iteration whose transport accepted everything), "
              "read_transparent (ANY fragmentation: delivered plaintext = plaintext of everything that arrived, connection stays up), "
              "no_spurious_disconnect, free_releases_everything, reads/writes leave the other side alone. zlib is a Codec parameter "
              "with hypotheses HDeflate/HInflate, checked on every recorded call of the real zlib at run time. Eight defects found "
              "and repaired in /repo."),
        note=PROOF_NOTE + "H-zlib (stream correctness + progress of deflate/inflate) is assumed in the theorems and tested at run time; loop termination carries a fuel hypothesis (needs a quantitative zlib progress bound)."),
    "C16": dict(
        engine="smblob", design="5.16",
        technique="Lean 4 round-trip / strictness / bounds-safety theorems over a byte-level model of the SM blob codec + full-state differential correspondence on a real connection object",
        text=("restore_serialize (every serialisable state restores to the same counters, id, both queues with texts, order and "
              "sequence numbers), restore_strict (an accepted blob IS the serialisation of the state it produced: truncated, "
              "extended or altered blobs are refused), restore_safe (no read outside the buffer for any bytes: the checked "
              "accessor's oob outcome is unreachable), reject_leaves_fresh / reject_clean, offline_only, serialize_injective "
              "(no two different resumable states share a blob), restored_queues_like_native (the restored state satisfies the "
              "C06 queue invariant) and restored_then_fifo (EVERY later history from a restored connection keeps the invariant "
              "and is byte-exact FIFO, starting with the restored unsent texts in their saved order). "
              "Tied to conn.c every run: blobs from the real serializer, every truncation, forged tags/lengths/counts, then queue "
              "operations on the restored object, comparing the complete internal state."),
        note=PROOF_NOTE + "Restore target is a fresh connection object; allocation failures not modelled."),
    "C06": dict(
        engine="q", design="5.6",
        technique="Lean 4 invariant + refinement theorems over arbitrary operation histories (induction over List Op) + full-state differential correspondence on a real connection object",
        text=("For EVERY history of sends (user/library/SM), loop iterations under any per-write accept schedule, drops, SM "
              "toggles and disconnects: wire ++ still-queued bytes = concatenation in queueing order of everything handed in "
              "minus what drops took back (wire_is_fifo); run_fifo per iteration; drop_exact/drop_none characterise "
              "xmpp_conn_send_queue_drop_element completely; queue length = user elements not started; counters = list "
              "lengths in every reachable state. The model is tied to conn.c/event.c by comparing the COMPLETE internal queue "
              "state of a real xmpp_conn_t (scripted conn_interface) with the model after every op."),
        note=PROOF_NOTE + "Transport = scripted conn_interface; a dropped text is observed as a C string; allocation failures not modelled."),
    "C14": dict(
        engine="disc", design="5.14",
        technique="Lean 4 theorems over the address-cursor / connect-loop model for every environment and loop schedule + differential correspondence on the real sock.c/resolver.c/event.c with libc wrapped at link time",
        text=("attempt_order (connect(2) targets are always a prefix of the SRV-sorted candidate list), first_accept_wins, "
              "failure_only_after_all, explicit_host_bypasses_srv, legacy_ssl_and_component_bypass, default ports pinned to "
              "5222/5223/5347, CONNECT_TIMEOUT pinned to 5000 ms; srv_targets_sorted reuses C15.found_sorted. Tied to the real "
              "code: res_query/getaddrinfo/socket/connect/getsockopt/select scripted per scenario, ordered list of "
              "(address, port) passed to connect compared with the model and with an independent Python expectation."),
        note=PROOF_NOTE + "Kernel/libc behaviour is scripted (refuse, late failure, hang, accept); first_accept_wins assumes the loop is run at least once per CONNECT_TIMEOUT (counter-example without it is a theorem)."),
    "C15": dict(
        engine="dns", design="5.15",
        technique="Lean 4 theorems (memory safety as unreachability of oobRead/oobWrite for every buffer, outcome consistency, sort correctness+stability, decode_correct against a relational RFC 1035 spec) + differential correspondence",
        text=("decode_safe (no out-of-bounds read/write for ANY buffer; no 32-bit cursor wrap below 2^32-2^17 bytes), "
              "outcome_consistent, sort_correct/sort_stable, decode_correct (any compression, any record mix) proved in Lean "
              "over a model mirroring resolver.c function by function with checked accessors; termination by Lean's own "
              "termination check (no fuel). Tied to resolver.c every run: captured packets + all truncations, encoder-built "
              "valid responses checked against an independent Python reference, forged counts/lengths/pointers, under ASan."),
        note=PROOF_NOTE + "HAVE_CARES undefined; WfResponse excludes 'labels followed by a pointer to the root label' (trailing-dot quirk, stated as a theorem)."),
    "C17": dict(
        engine="hash", design="5.17",
        technique="Lean 4 theorems (streaming = standard hash of the concatenation for every chunk list; exact bit counters incl. 2^32 carry; HMAC = RFC 2104) + differential correspondence + hashlib three-way comparison",
        text=("For SHA-1, SHA-256, SHA-512, MD5: final(foldl update init chunks) = Spec.hash(chunks.flatten) for EVERY list of chunks "
              "(models mirror the C contexts: count[2]/length, curlen, buffer); bit counter = 8*len mod 2^64 incl. carry; "
              "crypto_HMAC = RFC 2104; xmpp_sha1 API = lower-case hex. Round constants/IVs regenerated from the C sources "
              "and pinned; compression functions validated by FIPS/RFC vectors in the kernel and by run-time comparison with "
              "Python hashlib; counters near 2^32/2^64 reached by injecting block-aligned counts into real contexts."),
        note=PROOF_NOTE + "Compression functions are shared between model and spec (validated by vectors + hashlib); little-endian host."),
    "C18": dict(
        engine="b64", design="5.18",
        technique="Lean 4 theorems (decoder = strict RFC 4648 decoder on every string; round trip; tables = RFC alphabet) + differential correspondence + exhaustive small-alphabet enumeration",
        text=("decode_exact: for EVERY byte string the model of base64_decode (two-phase C control flow, returns bytes written "
              "and length reported) equals an independent strict RFC 4648 decoder; decode_encode round trip; encode = RFC "
              "encoder; regenerated tables proved to be the RFC alphabet and its inverse (decide +kernel); "
              "writes_within_buffer: on accepted AND refused inputs the quartet loop and the tail store at most dlen bytes "
              "into the buffer sized by base64_decoded_len, resting on the translated-and-pinned nudge guard "
              "(pin_nudge_guard). Model tied to "
              "crypto.c every run: all strings over a 7-symbol alphabet up to length 6 plus random/mutated encodings and "
              "whole quartets followed by long padding runs (ASan on exact-size blocks), with a "
              "double-fill-pattern oracle for uninitialised output."),
        note=PROOF_NOTE + "Allocation failures not modelled."),
    "C19": dict(
        engine="jid", design="5.19",
        technique="Lean 4 theorems over a hand-written model of jid.c + differential correspondence + model-free reference oracle",
        text=("All-input theorems (parts_rejoin, bare_is_prefix, resource_after_first_slash, node_before_first_at, "
              "new_split, new_refuses, new_isSome_iff) proved in Lean for every NUL-free byte string / part triple; "
              "limits and forbidden set regenerated from jid.c and pinned to the property's literals; model tied to "
              "the C code by running both on generated JIDs every run."),
        note=PROOF_NOTE + "NUL-free inputs; allocation failures not modelled."),
}

NOT_YET = {
}

ALL = ["C%02d" % i for i in range(1, 21)]


def main():
    checks = []
    for pid in ALL:
        if pid not in CLAIMED:
            continue
        c = CLAIMED[pid]
        checks.append({
            "property_id": pid,
            "quick_cmd": "python3 check/check.py %s --tier quick" % pid,
            "thorough_cmd": "python3 check/check.py %s --tier thorough" % pid,
            "evidence_file": "evidence/%s.json" % pid,
            "replay_cmd_template": "python3 check/check.py %s --replay {path}" % pid,
            "engine": c["engine"],
            "level_claimed": {"category": c.get("category", "proof"), "text": c["text"],
                              "design_ref": "DESIGN.md §" + c["design"]},
            "level_note": c["note"],
            "technique": c["technique"],
        })
    na = []
    for pid in ALL:
        if pid not in CLAIMED:
            na.append({"property_id": pid,
                       "reason": NOT_YET.get(pid, "not claimed yet: model/theorems/correspondence for this "
                                             "property are designed (DESIGN.md §5) but not built at this commit")})
    man = {
        "version": 1,
        "setup_cmd": "python3 check/setup.py",
        "hooks": {
            "guard": "STROPHE_LIBSTROPHE_VERIF",
            "enable": "harness compiles /repo/src/*.c itself with -DSTROPHE_LIBSTROPHE_VERIF (check/build.py); "
                      "no guarded code exists in /repo at present",
            "baseline_off_cmd": "make -C /repo check",
            "source_commits": [],
            "add_only": True,
        },
        "engines": [
            {"name": "drv", "path": "lean/Driver.lean", "serves_properties": sorted(CLAIMED),
             "kind_free_text": "compiled Lean 4 driver executing the models (line protocol)"},
            {"name": "hdrv", "path": "harness/hdrv.c", "serves_properties": sorted(CLAIMED),
             "kind_free_text": "C harness executing /repo's code under ASan+UBSan on the same ops"},
        ],
        "checks": checks,
        "notes": "See DESIGN.md. known_findings.json lists genuine defects (fixed or recorded).",
        "not_applicable": na,
    }
    # evidence of properties that are not claimed (work in progress) is not kept
    for pid in ALL:
        ev = os.path.join(VERIF, "evidence", pid + ".json")
        if pid not in CLAIMED and os.path.exists(ev):
            os.remove(ev)
    with open(os.path.join(VERIF, "MANIFEST.json"), "w") as f:
        json.dump(man, f, indent=1)
        f.write("\n")


if __name__ == "__main__":
    main()
