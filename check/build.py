#!/usr/bin/env python3
"""Build steps shared by all checks: extractor + lake build + harness build.

Everything is rebuilt from /repo's current working tree.  Harness objects are cached under
/verif/build/<hash of every input file and flag>/ so an unchanged tree costs nothing.
"""
import concurrent.futures
import glob
import hashlib
import os
import re
import shlex
import shutil
import subprocess
import sys
import time

HERE = os.path.dirname(os.path.abspath(__file__))
VERIF = os.path.dirname(HERE)
REPO = os.environ.get("VERIF_REPO", "/repo")
LEAN = os.path.join(VERIF, "lean")
BUILD = os.path.join(VERIF, "build")
GUARD = "STROPHE_LIBSTROPHE_VERIF"

sys.path.insert(0, os.path.join(VERIF, "extract"))

LIB_SOURCES = [
    "auth.c", "conn.c", "crypto.c", "ctx.c", "deprecated.c", "event.c", "handler.c", "hash.c",
    "jid.c", "md5.c", "rand.c", "resolver.c", "sasl.c", "scram.c", "sha1.c", "sha256.c",
    "sha512.c", "sock.c", "stanza.c", "tls.c", "util.c", "uuid.c", "compression.c",
    "tls_openssl.c", "parser_expat.c",
]

DEFAULT_DEFS = ("-DHAVE_STDIO_H=1 -DHAVE_STDLIB_H=1 -DHAVE_STRING_H=1 -DHAVE_INTTYPES_H=1 "
                "-DHAVE_STDINT_H=1 -DHAVE_STRINGS_H=1 -DHAVE_SYS_STAT_H=1 -DHAVE_SYS_TYPES_H=1 "
                "-DHAVE_UNISTD_H=1 -DSTDC_HEADERS=1 -DHAVE_CLOCK_GETTIME=1 -DHAVE_SNPRINTF=1 "
                "-DHAVE_VSNPRINTF=1 -DHAVE_VA_COPY=1 -DHAVE_GETRANDOM=1 -DHAVE_ZLIB=1 "
                "-DLIBXMPP_VERSION_MAJOR=0 -DLIBXMPP_VERSION_MINOR=14")


def repo_defs():
    """The DEFS line of /repo/Makefile (the build's own feature macros)."""
    try:
        with open(os.path.join(REPO, "Makefile")) as f:
            for line in f:
                if line.startswith("DEFS = "):
                    toks = shlex.split(line[len("DEFS = "):].strip())
                    # keep feature macros only; string-valued PACKAGE_* macros are not needed
                    keep = [t for t in toks if not re.match(r"-DPACKAGE|-DVERSION|-DLT_OBJDIR", t)]
                    return keep
    except OSError:
        pass
    return shlex.split(DEFAULT_DEFS)


CFLAGS = ["-O1", "-g", "-fsanitize=address,undefined", "-fno-sanitize-recover=all",
          "-fno-omit-frame-pointer", "-Wno-deprecated-declarations", "-D" + GUARD]
LDLIBS = ["-lexpat", "-lssl", "-lcrypto", "-lz", "-lresolv", "-lm"]


def _hash_inputs(files, extra):
    h = hashlib.sha256()
    for f in sorted(files):
        h.update(f.encode())
        try:
            with open(f, "rb") as fh:
                h.update(fh.read())
        except OSError:
            h.update(b"<missing>")
    h.update(repr(extra).encode())
    return h.hexdigest()[:20]


def _prune_builds(keep):
    try:
        dirs = [os.path.join(BUILD, d) for d in os.listdir(BUILD)]
    except OSError:
        return
    dirs = [d for d in dirs if os.path.isdir(d) and d != keep]
    dirs.sort(key=lambda d: os.path.getmtime(d), reverse=True)
    for d in dirs[6:]:
        shutil.rmtree(d, ignore_errors=True)


class BuildError(Exception):
    def __init__(self, what, log):
        super().__init__(what)
        self.what = what
        self.log = log


import contextlib
import fcntl


@contextlib.contextmanager
def build_lock(name):
    """Serialises builds between concurrently running checks (one lock per kind of build)."""
    os.makedirs(BUILD, exist_ok=True)
    f = open(os.path.join(BUILD, ".lock_" + name), "w")
    try:
        fcntl.flock(f, fcntl.LOCK_EX)
        yield
    finally:
        fcntl.flock(f, fcntl.LOCK_UN)
        f.close()


def build_harness(variant="std"):
    with build_lock("harness"):
        return _build_harness(variant)


def _build_harness(variant="std"):
    """Compile /repo/src + /verif/harness into build/<hash>/hdrv_<variant>; return its path."""
    repo_files = glob.glob(os.path.join(REPO, "src", "*.[ch]")) + [os.path.join(REPO, "strophe.h")]
    h_files = glob.glob(os.path.join(VERIF, "harness", "*.[ch]"))
    defs = repo_defs()
    key = _hash_inputs(repo_files + h_files, (defs, CFLAGS, LDLIBS, variant))
    out_dir = os.path.join(BUILD, key)
    exe = os.path.join(out_dir, "hdrv_" + variant)
    if os.path.exists(exe):
        os.utime(out_dir, None)
        return exe
    os.makedirs(out_dir, exist_ok=True)
    _prune_builds(out_dir)
    _gen_engine_table(out_dir, h_files)
    replaced = VARIANT_REPLACED.get(variant, set())
    srcs = [os.path.join(REPO, "src", s) for s in LIB_SOURCES if s not in replaced]
    srcs += [f for f in h_files if f.endswith(".c") and _in_variant(f, variant)]
    jobs = []
    for s in srcs:
        o = os.path.join(out_dir, variant + "_" + os.path.basename(os.path.dirname(s)) + "_" +
                         os.path.basename(s)[:-2] + ".o")
        cmd = ["clang-14", "-c", s, "-o", o, "-I" + REPO, "-I" + os.path.join(REPO, "src"),
               "-I" + os.path.join(VERIF, "harness"), "-I" + out_dir] + CFLAGS + defs
        jobs.append((cmd, o))
    logs = []

    def run(job):
        cmd, o = job
        p = subprocess.run(cmd, capture_output=True, text=True)
        return (p.returncode, " ".join(cmd) + "\n" + p.stdout + p.stderr, o)

    with concurrent.futures.ThreadPoolExecutor(max_workers=16) as ex:
        results = list(ex.map(run, jobs))
    failed = [r for r in results if r[0] != 0]
    if failed:
        raise BuildError("harness compile failed", "\n".join(r[1] for r in failed)[-6000:])
    objs = [r[2] for r in results]
    wraps = VARIANT_WRAPS.get(variant, [])
    cmd = ["clang-14", "-o", exe + ".tmp"] + objs + ["-fsanitize=address,undefined"] + \
          ["-Wl,--wrap=" + w for w in wraps] + LDLIBS
    p = subprocess.run(cmd, capture_output=True, text=True)
    if p.returncode != 0:
        raise BuildError("harness link failed", (p.stdout + p.stderr)[-6000:])
    os.replace(exe + ".tmp", exe)
    for o in objs:
        try:
            os.remove(o)
        except OSError:
            pass
    return exe


def _gen_engine_table(out_dir, h_files):
    """hdrv_engines.h: one entry per `int eng_<name>(FILE *in, FILE *out)` found in harness/eng_*.c"""
    names = []
    for f in sorted(h_files):
        if os.path.basename(f).startswith("eng_") and f.endswith(".c"):
            with open(f) as fh:
                for m in re.finditer(r"^int\s+eng_(\w+)\s*\(\s*FILE", fh.read(), re.M):
                    names.append(m.group(1))
    text = "/* GENERATED by check/build.py */\n"
    text += "".join("int eng_%s(FILE *in, FILE *out);\n" % n for n in names)
    text += "static const struct { const char *name; engine_fn fn; } engines[] = {\n"
    text += "".join('    {"%s", eng_%s},\n' % (n, n) for n in names)
    text += "};\n"
    _write_if_changed(os.path.join(out_dir, "hdrv_engines.h"), text)


# harness files named eng_*.c / hcommon.c / hdrv.c belong to "std"; files named <variant>_*.c to
# that variant only.
VARIANT_REPLACED = {"std": {"scram.c"}}  # compiled via harness/wrap_scram.c
VARIANT_WRAPS = {"std": ["select", "gettimeofday", "clock_gettime"]}


def _in_variant(path, variant):
    base = os.path.basename(path)
    m = re.match(r"v([a-z0-9]+)_", base)
    if m:
        return m.group(1) == variant
    return True


def run_extract():
    with build_lock("lake"):
        return _run_extract()


def _run_extract():
    """Regenerate Gen/*.lean; returns list of error strings."""
    import importlib
    import extract as ex
    importlib.reload(ex)
    ex._collect_plugins()
    errs = []
    for g in ex.GENERATORS:
        try:
            g()
        except Exception as e:  # noqa: BLE001 - any failure is a broken tie
            errs.append("%s: %s" % (g.__name__, e))
    return errs, ex.all_fingerprints()


def _write_if_changed(path, text):
    try:
        with open(path) as f:
            if f.read() == text:
                return
    except OSError:
        pass
    with open(path, "w") as f:
        f.write(text)


def gen_lean_roots():
    """Regenerate lean/Driver.lean (engine dispatch) and lean/Strophe.lean (library root) from the
    files present, so that adding an engine or a module needs no edit of a shared file.
    Convention: Strophe/Drv/<Name>.lean defines either `def run (i o : IO.FS.Stream) : IO Unit`
    or a stateless `def step (line : String) : String` in namespace Strophe.Drv.<Name>; the engine
    name is <Name> in lower case."""
    drv_dir = os.path.join(LEAN, "Strophe", "Drv")
    engines = []
    for f in sorted(os.listdir(drv_dir)):
        if not f.endswith(".lean") or f == "Common.lean":
            continue
        name = f[:-5]
        with open(os.path.join(drv_dir, f), encoding="utf-8") as fh:
            text = fh.read()
        kind = "run" if re.search(r"^(partial\s+)?def\s+run\b", text, re.M) else "step"
        engines.append((name, kind))
    lines = ["-- GENERATED by check/build.py (gen_lean_roots) — do not edit.",
             "import Strophe.Drv.Common"]
    lines += ["import Strophe.Drv.%s" % n for n, _ in engines]
    lines += ["", "open Strophe", "",
              "def engines : List (String × (IO.FS.Stream → IO.FS.Stream → IO Unit)) := ["]
    ents = []
    for n, kind in engines:
        if kind == "run":
            ents.append('  ("%s", Drv.%s.run)' % (n.lower(), n))
        else:
            ents.append('  ("%s", Drv.runStateless Drv.%s.step)' % (n.lower(), n))
    lines.append(",\n".join(ents) + "]")
    lines += ["",
              "def main (args : List String) : IO UInt32 := do",
              "  let stdin ← IO.getStdin",
              "  let stdout ← IO.getStdout",
              "  match args with",
              "  | [eng] =>",
              "    match engines.lookup eng with",
              "    | some f => f stdin stdout; return 0",
              '    | none => IO.eprintln s!"unknown engine {eng}"; return 2',
              '  | _ => IO.eprintln "usage: drv <engine>"; return 2', ""]
    _write_if_changed(os.path.join(LEAN, "Driver.lean"), "\n".join(lines))
    mods = []
    for root, _, files in os.walk(os.path.join(LEAN, "Strophe")):
        for f in files:
            if f.endswith(".lean"):
                rel = os.path.relpath(os.path.join(root, f), LEAN)[:-5]
                mods.append(rel.replace(os.sep, "."))
    _write_if_changed(os.path.join(LEAN, "Strophe.lean"),
                      "-- GENERATED by check/build.py (gen_lean_roots) — do not edit.\n" +
                      "".join("import %s\n" % m for m in sorted(mods)))


def lake_build(targets):
    """Returns (ok, seconds, log)."""
    with build_lock("lake"):
        gen_lean_roots()
        t0 = time.time()
        p = subprocess.run(["lake", "build"] + targets, cwd=LEAN, capture_output=True, text=True)
        return p.returncode == 0, time.time() - t0, p.stdout + p.stderr


def drv_path():
    return os.path.join(LEAN, ".lake", "build", "bin", "drv")


if __name__ == "__main__":
    errs, fp = run_extract()
    print("extract:", errs or "ok")
    ok, s, log = lake_build(["Strophe", "drv"])
    print("lake build:", ok, "%.1fs" % s)
    if not ok:
        print(log[-4000:])
    try:
        print("harness:", build_harness("std"))
    except BuildError as e:
        print(e.what)
        print(e.log)
        sys.exit(1)
    sys.exit(0 if ok and not errs else 1)
