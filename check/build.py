#!/usr/bin/env python3
"""Build steps shared by all checks: extractor + lake build + harness build.

Everything is rebuilt from /repo's current working tree.  Harness objects are cached under
/verif/build/<hash of every input file and flag>/ so an unchanged tree costs nothing.
"""
import concurrent.futures
import glob
import hashlib
import json
import os
import re
import shlex
import shutil
import subprocess
import sys
import time

HERE = os.path.dirname(os.path.abspath(__file__))
VERIF = os.path.dirname(HERE)
REPO = os.environ.get("VERIF_REPO", "/repo")
LEAN = os.path.join(VERIF, "lean")
BUILD = os.path.join(VERIF, "build")
GUARD = "STROPHE_LIBSTROPHE_VERIF"

sys.path.insert(0, os.path.join(VERIF, "extract"))

LIB_SOURCES = [
    "auth.c", "conn.c", "crypto.c", "ctx.c", "deprecated.c", "event.c", "handler.c", "hash.c",
    "jid.c", "md5.c", "rand.c", "resolver.c", "sasl.c", "scram.c", "sha1.c", "sha256.c",
    "sha512.c", "sock.c", "stanza.c", "tls.c", "util.c", "uuid.c", "compression.c",
    "tls_openssl.c", "parser_expat.c",
]

DEFAULT_DEFS = ("-DHAVE_STDIO_H=1 -DHAVE_STDLIB_H=1 -DHAVE_STRING_H=1 -DHAVE_INTTYPES_H=1 "
                "-DHAVE_STDINT_H=1 -DHAVE_STRINGS_H=1 -DHAVE_SYS_STAT_H=1 -DHAVE_SYS_TYPES_H=1 "
                "-DHAVE_UNISTD_H=1 -DSTDC_HEADERS=1 -DHAVE_CLOCK_GETTIME=1 -DHAVE_SNPRINTF=1 "
                "-DHAVE_VSNPRINTF=1 -DHAVE_VA_COPY=1 -DHAVE_GETRANDOM=1 -DHAVE_ZLIB=1 "
                "-DLIBXMPP_VERSION_MAJOR=0 -DLIBXMPP_VERSION_MINOR=14")


def repo_defs():
    """The DEFS line of /repo/Makefile (the build's own feature macros)."""
    try:
        with open(os.path.join(REPO, "Makefile")) as f:
            for line in f:
                if line.startswith("DEFS = "):
                    toks = shlex.split(line[len("DEFS = "):].strip())
                    # keep feature macros only; string-valued PACKAGE_* macros are not needed
                    keep = [t for t in toks if not re.match(r"-DPACKAGE|-DVERSION|-DLT_OBJDIR", t)]
                    return keep
    except OSError:
        pass
    return shlex.split(DEFAULT_DEFS)


CFLAGS = ["-O1", "-g", "-fsanitize=address,undefined", "-fno-sanitize-recover=all",
          "-fno-omit-frame-pointer", "-Wno-deprecated-declarations", "-D" + GUARD]
LDLIBS = ["-lexpat", "-lssl", "-lcrypto", "-lz", "-lresolv", "-lm"]


def _hash_inputs(files, extra):
    h = hashlib.sha256()
    for f in sorted(files):
        h.update(f.encode())
        try:
            with open(f, "rb") as fh:
                h.update(fh.read())
        except OSError:
            h.update(b"<missing>")
    h.update(repr(extra).encode())
    return h.hexdigest()[:20]


def _prune_builds(keep):
    try:
        dirs = [os.path.join(BUILD, d) for d in os.listdir(BUILD)]
    except OSError:
        return
    dirs = [d for d in dirs if os.path.isdir(d) and d != keep]
    dirs.sort(key=lambda d: os.path.getmtime(d), reverse=True)
    for d in dirs[6:]:
        shutil.rmtree(d, ignore_errors=True)


class BuildError(Exception):
    def __init__(self, what, log):
        super().__init__(what)
        self.what = what
        self.log = log


import contextlib
import fcntl


@contextlib.contextmanager
def build_lock(name):
    """Serialises builds between concurrently running checks (one lock per kind of build)."""
    os.makedirs(BUILD, exist_ok=True)
    f = open(os.path.join(BUILD, ".lock_" + name), "w")
    try:
        fcntl.flock(f, fcntl.LOCK_EX)
        yield
    finally:
        fcntl.flock(f, fcntl.LOCK_UN)
        f.close()


def build_harness(engine):
    with build_lock("harness"):
        return _build_harness(engine)


ALWAYS = ["hcommon.c", "hdrv.c", "hconn.c"]
DEFAULT_WRAPS = ["select", "gettimeofday", "clock_gettime"]


def engine_directives(engine):
    """harness/eng_<engine>.c may carry lines
         /* HARNESS wraps: sym1,sym2 */      extra -Wl,--wrap= symbols for this engine's binary
         /* HARNESS replaces: scram.c */     /repo/src files NOT linked (compiled via an extra file)
         /* HARNESS extra: wrap_scram.c */   further harness/*.c files to link
    Every engine gets its own binary, so wraps and replacements never affect another engine."""
    path = os.path.join(VERIF, "harness", "eng_%s.c" % engine)
    d = {"wraps": [], "replaces": [], "extra": []}
    with open(path) as f:
        text = f.read()
    for m in re.finditer(r"HARNESS\s+(wraps|replaces|extra)\s*:\s*([^*\n]*)", text):
        d[m.group(1)] += [x.strip() for x in m.group(2).split(",") if x.strip()]
    return d


def _compile_many(jobs):
    def run(job):
        cmd, o = job
        if os.path.exists(o):
            return (0, "", o)
        p = subprocess.run(cmd[:-1] + [o + ".tmp"], capture_output=True, text=True)
        if p.returncode == 0:
            os.replace(o + ".tmp", o)
        return (p.returncode, " ".join(cmd) + "\n" + p.stdout + p.stderr, o)

    with concurrent.futures.ThreadPoolExecutor(max_workers=16) as ex:
        results = list(ex.map(run, jobs))
    failed = [r for r in results if r[0] != 0]
    if failed:
        raise BuildError("harness compile failed", "\n".join(r[1] for r in failed)[-6000:])
    return [r[2] for r in results]


def _build_harness(engine):
    """Compile /repo/src (objects cached per content hash) and link them with harness/hcommon.c,
    hdrv.c, hconn.c, eng_<engine>.c (+ its extras) into build/<hash>/hdrv_<engine>_<hhash>."""
    repo_files = glob.glob(os.path.join(REPO, "src", "*.[ch]")) + [os.path.join(REPO, "strophe.h")]
    defs = repo_defs()
    rkey = _hash_inputs(repo_files, (defs, CFLAGS))
    out_dir = os.path.join(BUILD, rkey)
    os.makedirs(out_dir, exist_ok=True)
    os.utime(out_dir, None)
    _prune_builds(out_dir)
    d = engine_directives(engine)
    hnames = ALWAYS + ["eng_%s.c" % engine] + d["extra"]
    hsrcs = [os.path.join(VERIF, "harness", n) for n in hnames]
    hdeps = hsrcs + glob.glob(os.path.join(VERIF, "harness", "*.h")) + \
        [os.path.join(REPO, "src", r) for r in d["replaces"]]
    hkey = _hash_inputs(hdeps, (d, LDLIBS, DEFAULT_WRAPS))
    exe = os.path.join(out_dir, "hdrv_%s_%s" % (engine, hkey))
    if os.path.exists(exe):
        return exe
    for old in glob.glob(os.path.join(out_dir, "hdrv_%s_*" % engine)):
        try:
            os.remove(old)
        except OSError:
            pass
    inc = ["-I" + REPO, "-I" + os.path.join(REPO, "src"), "-I" + os.path.join(VERIF, "harness")]
    jobs = []
    for s in LIB_SOURCES:
        o = os.path.join(out_dir, "lib_" + s[:-2] + ".o")
        jobs.append((["clang-14", "-c", os.path.join(REPO, "src", s)] + inc + CFLAGS + defs + ["-o", o], o))
    lib_objs = _compile_many(jobs)
    lib_objs = [o for o, s in zip(lib_objs, LIB_SOURCES) if s not in d["replaces"]]
    edir = os.path.join(out_dir, "e_%s_%s" % (engine, hkey))
    os.makedirs(edir, exist_ok=True)
    with open(os.path.join(edir, "hdrv_engines.h"), "w") as f:
        f.write("/* GENERATED by check/build.py */\nint eng_%s(FILE *in, FILE *out);\n"
                "static const struct { const char *name; engine_fn fn; } engines[] = {\n"
                '    {"%s", eng_%s},\n};\n' % (engine, engine, engine))
    jobs = []
    for sfile in hsrcs:
        o = os.path.join(edir, os.path.basename(sfile)[:-2] + ".o")
        jobs.append((["clang-14", "-c", sfile] + inc + ["-I" + edir] + CFLAGS + defs + ["-o", o], o))
    try:
        h_objs = _compile_many(jobs)
        wraps = DEFAULT_WRAPS + [w for w in d["wraps"] if w not in DEFAULT_WRAPS]
        cmd = ["clang-14", "-o", exe + ".tmp"] + h_objs + lib_objs + ["-fsanitize=address,undefined"] + \
              ["-Wl,--wrap=" + w for w in wraps] + LDLIBS
        p = subprocess.run(cmd, capture_output=True, text=True)
        if p.returncode != 0:
            raise BuildError("harness link failed", (p.stdout + p.stderr)[-6000:])
        os.replace(exe + ".tmp", exe)
    finally:
        shutil.rmtree(edir, ignore_errors=True)
    return exe


def run_extract():
    with build_lock("lake"):
        return _run_extract()


def _run_extract():
    """Regenerate Gen/*.lean; returns list of error strings."""
    import importlib
    import extract as ex
    importlib.reload(ex)
    ex._collect_plugins()
    errs = []
    map_path = os.path.join(VERIF, "build", "gen_map.json")
    try:
        with open(map_path) as f:
            gen_map = json.load(f)
    except (OSError, ValueError):
        gen_map = {}
    for g in ex.GENERATORS:
        ex.CURRENT[0] = g.__name__
        try:
            g()
        except Exception as e:  # noqa: BLE001 - any failure is a broken tie
            # the error names the Gen modules it concerns: "<generator> [Gen.A,Gen.B]: what";
            # `only` (set by a generator that kept the last good value of one item) narrows it to
            # the properties that pin that item
            mods = set(ex.WRITES.get(g.__name__, set())) | set(gen_map.get(g.__name__, []))
            if not mods:
                # never seen succeeding: read the module names off the generator's source
                try:
                    import inspect
                    src_txt = inspect.getsource(sys.modules[g.__module__])
                    mods = set(re.findall(r"""\bwrite\(\s*["'](\w+)["']""", src_txt))
                except Exception:  # noqa: BLE001
                    mods = set()
            mods = sorted(mods)
            only = getattr(e, "only_props", None)
            errs.append("%s [%s]%s: %s" % (g.__name__, ",".join("Gen." + m for m in mods),
                                           " {only %s}" % ",".join(only) if only else "", e))
        finally:
            ex.CURRENT[0] = None
        if ex.WRITES.get(g.__name__):
            gen_map[g.__name__] = sorted(ex.WRITES[g.__name__])
    try:
        os.makedirs(os.path.dirname(map_path), exist_ok=True)
        with open(map_path, "w") as f:
            json.dump(gen_map, f)
    except OSError:
        pass
    return errs, ex.all_fingerprints()


def _write_if_changed(path, text):
    try:
        with open(path) as f:
            if f.read() == text:
                return
    except OSError:
        pass
    with open(path, "w") as f:
        f.write(text)


def gen_lean_roots():
    """Regenerate lean/Driver.lean (engine dispatch) and lean/Strophe.lean (library root) from the
    files present, so that adding an engine or a module needs no edit of a shared file.
    Convention: Strophe/Drv/<Name>.lean defines either `def run (i o : IO.FS.Stream) : IO Unit`
    or a stateless `def step (line : String) : String` in namespace Strophe.Drv.<Name>; the engine
    name is <Name> in lower case."""
    drv_dir = os.path.join(LEAN, "Strophe", "Drv")
    engines = []
    for f in sorted(os.listdir(drv_dir)):
        if not f.endswith(".lean") or f == "Common.lean":
            continue
        name = f[:-5]
        with open(os.path.join(drv_dir, f), encoding="utf-8") as fh:
            text = fh.read()
        kind = "run" if re.search(r"^(partial\s+)?def\s+run\b", text, re.M) else "step"
        engines.append((name, kind))
    lines = ["-- GENERATED by check/build.py (gen_lean_roots) — do not edit.",
             "import Strophe.Drv.Common"]
    lines += ["import Strophe.Drv.%s" % n for n, _ in engines]
    lines += ["", "open Strophe", "",
              "def engines : List (String × (IO.FS.Stream → IO.FS.Stream → IO Unit)) := ["]
    ents = []
    for n, kind in engines:
        if kind == "run":
            ents.append('  ("%s", Drv.%s.run)' % (n.lower(), n))
        else:
            ents.append('  ("%s", Drv.runStateless Drv.%s.step)' % (n.lower(), n))
    lines.append(",\n".join(ents) + "]")
    lines += ["",
              "def main (args : List String) : IO UInt32 := do",
              "  let stdin ← IO.getStdin",
              "  let stdout ← IO.getStdout",
              "  match args with",
              "  | [eng] =>",
              "    match engines.lookup eng with",
              "    | some f => f stdin stdout; return 0",
              '    | none => IO.eprintln s!"unknown engine {eng}"; return 2',
              '  | _ => IO.eprintln "usage: drv <engine>"; return 2', ""]
    _write_if_changed(os.path.join(LEAN, "Driver.lean"), "\n".join(lines))
    mods = []
    for root, _, files in os.walk(os.path.join(LEAN, "Strophe")):
        for f in files:
            if f.endswith(".lean"):
                rel = os.path.relpath(os.path.join(root, f), LEAN)[:-5]
                mods.append(rel.replace(os.sep, "."))
    _write_if_changed(os.path.join(LEAN, "Strophe.lean"),
                      "-- GENERATED by check/build.py (gen_lean_roots) — do not edit.\n" +
                      "".join("import %s\n" % m for m in sorted(mods)))


def lake_build(targets):
    """Returns (ok, seconds, log)."""
    with build_lock("lake"):
        gen_lean_roots()
        t0 = time.time()
        p = subprocess.run(["lake", "build"] + targets, cwd=LEAN, capture_output=True, text=True)
        return p.returncode == 0, time.time() - t0, p.stdout + p.stderr


def drv_path():
    return os.path.join(LEAN, ".lake", "build", "bin", "drv")


if __name__ == "__main__":
    errs, fp = run_extract()
    print("extract:", errs or "ok")
    ok, s, log = lake_build(["Strophe", "drv"])
    print("lake build:", ok, "%.1fs" % s)
    if not ok:
        print(log[-4000:])
    engs = sys.argv[1:] or sorted(f[4:-2] for f in os.listdir(os.path.join(VERIF, "harness"))
                                  if f.startswith("eng_") and f.endswith(".c"))
    bad = 0
    for e in engs:
        try:
            print("harness %s:" % e, build_harness(e))
        except BuildError as ex:
            bad = 1
            print("harness %s: %s" % (e, ex.what))
            print(ex.log[-1500:])
    if bad:
        sys.exit(1)
    sys.exit(0 if ok and not errs else 1)
