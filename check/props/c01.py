"""C01 — no peer input can crash, corrupt or wedge the client.  Engine `conn`."""
import re

from .common import hx, unhx, rbytes, load_corpus
from . import conn_gen

ID = "C01"
ENGINE = "conn"
# companion pass: adversarial SASL payloads against the real sasl.c/scram.c (engine sasl, C07's generator)
ALSO = [("c07", 0)]
VARIANT = "std"
STATEFUL = True
LEVEL = "proof"
FILES = ["conn.c", "auth.c", "event.c", "handler.c", "parser_expat.c", "sasl.c", "scram.c"]
TRUSTED = ["model Strophe/Model/Conn.lean tied to conn.c/auth.c/handler.c/event.c by differential execution "
           "(engine conn: real code over fake sock / fake TLS / zero RNG / virtual clock; real expat)",
           "parser events are recorded from the real parser and replayed into the model (C10 covers the parser)"]
ASSUMPTIONS = ["transport, TLS handshake result, TCP connect result and clock are scripted",
               "stream compression is not enabled in these scenarios (C20 covers the layer)",
               "SCRAM iteration counts ≤ 4096"]
RULE = ("server scripts from a reference RFC 6120/XEP-0198/XEP-0114 state machine with a deviation operator "
        "(drop, duplicate, wrong element, truncation, garbage, stream error, early close), random chunking, client "
        "schedule (ticks, write back-pressure, user sends, disconnect, reconnect cycles); distinct = tag "
        "(op kind, items written, events, state)")

lean_input = conn_gen.lean_input
# allocator balance is C12's subject (same engine, own signatures), not C01's
IGNORE_ORACLE = ["leak"]


def corpus():
    return load_corpus(ID)


def generate(rng, tier, override=0):
    n = override or (1500 if tier == "quick" else 250000)
    return [conn_gen.gen_session(rng, tier, "sm" if i % 4 == 3 else "mixed") for i in range(n)]


PAT = re.compile(r"^= (.*?) \| tx (\S+) \| ev (\S+) \| st (\S+) neg (\d) sec (\d) q (-?\d+)(?: sm .*)?$")


def py_oracle(ops, outs):
    fails = []
    disc_since_connect = 0
    connected_since = 0
    attempt = False
    for i, (op, out) in enumerate(zip(ops, outs)):
        m = PAT.match(out)
        if not m:
            if not out.startswith("= bad-op") and not out.startswith("= case"):
                fails.append((i, "unparsable-output %s" % out[:80]))
            continue
        res, tx, ev, st, neg, sec, q = m.groups()
        if st == "BAD":
            fails.append((i, "state-predicates-not-exclusive"))
        if op.split(" ")[0] == "connect" and res == "rc 0":
            attempt = True
            disc_since_connect = 0
            connected_since = 0
        for e in ([] if ev == "-" else ev.split(",")):
            if e.startswith("DISCONNECT"):
                disc_since_connect += 1
                if disc_since_connect > 1:
                    fails.append((i, "double-disconnect"))
            if e in ("CONNECT", "RAW"):
                connected_since += 1
                if connected_since > 1:
                    fails.append((i, "double-connect"))
                if disc_since_connect:
                    fails.append((i, "connect-after-disconnect"))
    return fails


def signature(case, i, what):
    w = what.split(" ")
    if w[0] == "crash":
        m = re.search(r" in (\w+) ", what)
        return "%s:crash:%s" % (ID, m.group(1) if m else "?")
    return "%s:%s" % (ID, w[1] if w[0] == "ORACLE-FAIL" and len(w) > 1 else w[0])


def tags(case, outs):
    res = []
    for op, out in zip(case.ops, outs):
        m = PAT.match(out)
        k = op.split(" ")[0]
        if not m:
            res.append(k + ":?")
            continue
        _, tx, ev, st, neg, sec, q = m.groups()
        txk = "+".join(sorted(set(x.split(":")[0].split("/")[0] for x in tx.split(",")))) if tx != "-" else "-"
        evk = "+".join(sorted(set(x.split(":")[0] for x in ev.split(",")))) if ev != "-" else "-"
        res.append("%s:%s:%s:%s%s%s" % (k, txk, evk, st, neg, sec))
    return res
