"""C04 — XEP-0198 outbound: numbering, retention, release, retransmission (engine `conn`;
model-free statement: conn_mon.monitor_sm)."""
from .common import load_corpus
from . import conn_gen, conn_mon, c01

ID = "C04"
ENGINE = "conn"
# companion pass: partial transport writes of counted stanzas (byte-level schedules are engine q's, C06's generator)
ALSO = [("c06", 1500)]
VARIANT = "std"
STATEFUL = True
LEVEL = "proof"
FILES = c01.FILES
TRUSTED = c01.TRUSTED
ASSUMPTIONS = c01.ASSUMPTIONS
RULE = c01.RULE
lean_input = conn_gen.lean_input
IGNORE_ORACLE = ["leak"]
PAT = c01.PAT


def corpus():
    return load_corpus(ID)


def generate(rng, tier, override=0):
    n = override or (1500 if tier == "quick" else 250000)
    return [conn_gen.gen_session(rng, tier, "sm" if i % 5 else "mixed") for i in range(n)]


def py_oracle_ex(ops, outs, extras):
    return conn_mon.monitor_sm(ops, outs, ID, extras)


def signature(case, i, what):
    return c01.signature(case, i, what).replace("C01", ID, 1)


tags = c01.tags
