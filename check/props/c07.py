"""C07 — SASL / legacy / component credentials are what the RFCs say.  Engine `sasl` (stateless).

Generator: random and boundary credentials, all six SCRAM variants, secured or not, fake
channel-binding data, well-formed and malformed server challenges.
Model-free oracle: an independent RFC 5802 / RFC 2831 *server* written here with hashlib / hmac /
base64 that parses what the client put on the wire and verifies it (nonce echo, c= field, proof,
response-value), plus RFC 4616, XEP-0114 and jabber:iq:auth references.
"""
import base64
import hashlib
import hmac as pyhmac
import re

from .common import hx, unhx, rbytes, load_corpus

ID = "C07"
ENGINE = "sasl"
VARIANT = "std"
STATEFUL = False
LEVEL = "proof"
FILES = ["sasl.c", "scram.c", "auth.c", "rand.c", "jid.c", "crypto.c", "md5.c"]
TRUSTED = ["model Strophe/Model/Sasl.lean tied to sasl.c / scram.c / auth.c (_make_scram_init_msg, "
           "_handle_scram_challenge, _handle_digestmd5_challenge, _auth, _auth_legacy, _handle_component_auth) / "
           "rand.c (xmpp_rand_nonce) by differential execution (engine sasl, static functions reached through "
           "harness/wrap_auth.c and wrap_scram.c)",
           "Spec/Rfc5802.lean, Spec/Rfc2831.lean, Spec/Rfc4616.lean cross-checked at run time by the Python "
           "RFC 5802 / RFC 2831 server in check/props/c07.py (hashlib.pbkdf2_hmac, hmac, hashlib.md5)",
           "hash / HMAC / base64 / JID models and their equality with the standards: C17, C18, C19",
           "harness fakes: scripted getrandom() (harness/fake_rand.c; everything else of rand.c is real), "
           "tls_init_channel_binding / tls_get_channel_binding_data / tls_id_on_xmppaddr*, capturing "
           "send_stanza / send_raw_string / xmpp_disconnect / disconnect_mem_error (-Wl,--wrap)"]
ASSUMPTIONS = ["client-nonce FRESHNESS is checked empirically, not proved: op `fresh n` runs the real rand.c "
               "(getrandom) and asserts that the n SCRAM client nonces and n DIGEST-MD5 cnonces are pairwise "
               "distinct upper-case hex strings of 32 / 12 characters; the random source is not modelled "
               "(in all other ops the random bytes are an input of both sides)",
               "rand.c fills the nonce inside assert(_read_getrandom(...) == 0): the property relies on the "
               "library being built without NDEBUG (as here)",
               "Normalize(password) (SASLprep) is the identity, as in the C code (XXX comment in SCRAM_ClientKey); "
               "DIGEST-MD5 hashes user/realm/password bytes as given (UTF-8)",
               "iteration counts are below 2^32 (the C code casts strtol's result to uint32_t); generated ones "
               "stay below 10^5",
               "sasl_digest_md5's caller guarantees a JID with a node and a non-NULL password (_auth checks both)",
               "DIGEST-MD5 directive names are matched case-sensitively in lower case (RFC 2831 literals are "
               "case-insensitive; a challenge spelling `Nonce=` is refused cleanly, not answered)",
               "allocation failure paths are not modelled",
               "byte strings of 2^60 bytes and more are outside the theorems (LibTomCrypt length guards)"]
RULE = ("per op kind: random + boundary credentials (lengths 0..2 KiB, bytes valid in a JID node / any non-NUL "
        "password bytes, with ',' '=' '\"' '\\\\'), salts 1..200 bytes, i in {1,2,3,4096,99999,…}, six SCRAM "
        "variants x secured x channel-binding data of 12/32/36 bytes, server-first / digest challenges well-formed "
        "and malformed (missing r/s/i/nonce, bad base64, foreign nonce, i=0, non-numeric i, NULL, empty, "
        "unterminated quotes, qop lists, no charset); distinct = tag (op, alg, shape of the input, outcome)")

ALGS = {"sha1": ("sha1", 20), "sha256": ("sha256", 32), "sha512": ("sha512", 64)}
VARIANTS = ["sha1", "sha256", "sha512", "sha1plus", "sha256plus", "sha512plus"]

# bytes a JID node may contain (xmpp_jid_new's reject set "\"&'/:<>@" and NUL excluded)
NODE_BYTES = [c for c in range(1, 256) if c not in b"\"&'/:<>@"]
NODE_ASCII = [c for c in range(0x21, 0x7f) if c not in b"\"&'/:<>@"]
PW_BYTES = list(range(1, 256))
NONCE_CHARS = [c for c in range(0x21, 0x7f) if c not in b',"\\']


def corpus():
    return load_corpus(ID)


# ---------------------------------------------------------------------------------------------
# helpers

def b64(b):
    return base64.b64encode(b)


def cstr(b):
    """what a C function sees of a byte buffer handed over as a string"""
    if b is None:
        return None
    i = b.find(b"\0")
    return b if i < 0 else b[:i]


def jid_node(jid):
    bare = jid.split(b"/", 1)[0]
    return bare.split(b"@", 1)[0] if b"@" in bare else None


def jid_domain(jid):
    bare = jid.split(b"/", 1)[0]
    return bare.split(b"@", 1)[1] if b"@" in bare else bare


def jid_resource(jid):
    return jid.split(b"/", 1)[1] if b"/" in jid else None


def hex_upper(b):
    return b.hex().upper().encode()


def rnd_take(rnd, n):
    return (rnd + b"\0" * n)[:n]


def xor(a, b):
    return bytes(x ^ y for x, y in zip(a, b))


def alg_of(variant):
    plus = variant.endswith("plus")
    return ALGS[variant[:-4] if plus else variant] + (plus,)


# ---------------------------------------------------------------------------------------------
# the independent RFC 5802 server

class Reject(Exception):
    pass


def saslname_decode(s):
    """RFC 5802 §5.1: ',' and '=' travel as =2C / =3D; any other '=' or a bare ',' is an error"""
    out = bytearray()
    i = 0
    while i < len(s):
        c = s[i]
        if c == 0x2C:
            raise Reject("scram-saslname: n= contains ','")
        if c == 0x3D:
            esc = s[i:i + 3]
            if esc == b"=2C":
                out.append(0x2C)
            elif esc == b"=3D":
                out.append(0x3D)
            else:
                raise Reject("scram-saslname: n= contains a bare '='")
            i += 3
            continue
        out.append(c)
        i += 1
    return bytes(out)


def parse_client_first(msg):
    """-> (gs2 header bytes, cbflag, cbname, username, cnonce, bare)"""
    m = re.match(rb"(n|y|p=([A-Za-z0-9.\-]+)),(a=[^,]*)?,", msg, re.S)
    if not m:
        raise Reject("scram-gs2: bad gs2-header")
    header = m.group(0)
    bare = msg[len(header):]
    m2 = re.fullmatch(rb"n=([^,]*),r=([\x21-\x2b\x2d-\x7e]+)((?:,[A-Za-z]=[^,]*)*)", bare, re.S)
    if not m2:
        raise Reject("scram-saslname: client-first-bare does not match n=saslname,r=printable")
    user = saslname_decode(m2.group(1))
    if len(user) == 0:
        raise Reject("scram-saslname: empty user name")
    flag = msg[:1]
    return header, flag, m.group(2), user, m2.group(2), bare


def parse_server_first(sf):
    """RFC 5802 §7 server-first-message = [reserved-mext ","] nonce "," salt "," iteration-count ["," ext]"""
    m = re.fullmatch(rb"r=([\x21-\x2b\x2d-\x7e]+),s=([A-Za-z0-9+/]+={0,2}),i=([1-9][0-9]*)((?:,[A-Za-z]=[^,]*)*)", sf, re.S)
    if not m:
        return None
    try:
        salt = base64.b64decode(m.group(2), validate=True)
    except Exception:  # noqa: BLE001
        return None
    if base64.b64encode(salt) != m.group(2) or len(salt) == 0:
        return None
    return m.group(1), salt, int(m.group(3))


def scram_verify(hname, bare, server_first, client_final, password, salt, i, snonce, expect_cbind):
    m = re.fullmatch(rb"c=([A-Za-z0-9+/]+={0,2}),r=([\x21-\x2b\x2d-\x7e]+),p=([A-Za-z0-9+/]+={0,2})", client_final, re.S)
    if not m:
        raise Reject("scram-final-grammar: client-final does not match c=…,r=…,p=…")
    if base64.b64decode(m.group(1), validate=True) != expect_cbind:
        raise Reject("scram-cbind: c= is not base64(gs2-header || cbind-data)")
    if m.group(2) != snonce:
        raise Reject("scram-nonce: r= does not echo the server nonce")
    proof = base64.b64decode(m.group(3), validate=True)
    without_proof = client_final[:client_final.rindex(b",p=")]
    auth_message = bare + b"," + server_first + b"," + without_proof
    salted = hashlib.pbkdf2_hmac(hname, password, salt, i)
    client_key = pyhmac.new(salted, b"Client Key", hname).digest()
    stored_key = hashlib.new(hname, client_key).digest()
    signature = pyhmac.new(stored_key, auth_message, hname).digest()
    if len(proof) != len(signature):
        raise Reject("scram-proof: proof has the wrong length")
    if hashlib.new(hname, xor(proof, signature)).digest() != stored_key:
        raise Reject("scram-proof: ClientProof does not verify against StoredKey")


# ---------------------------------------------------------------------------------------------
# the independent RFC 2831 server

TOKEN = rb"[!#$%&'*+\-.0-9A-Z^_`a-z|~]+"


def parse_digest_directives(s):
    """RFC 2831 §7.1/7.2: #( token "=" ( token | quoted-string ) ); quoted-string with '\\' quoting"""
    res = {}
    i = 0
    n = len(s)
    while i < n:
        m = re.compile(TOKEN).match(s, i)
        if not m or m.end() >= n or s[m.end()] != 0x3D:
            raise Reject("grammar: directive does not start with token '='")
        key = m.group(0).lower()
        i = m.end() + 1
        if i < n and s[i] == 0x22:
            i += 1
            val = bytearray()
            while True:
                if i >= n:
                    raise Reject("grammar: unterminated quoted-string")
                c = s[i]
                if c == 0x5C:
                    if i + 1 >= n:
                        raise Reject("grammar: dangling backslash")
                    val.append(s[i + 1])
                    i += 2
                elif c == 0x22:
                    i += 1
                    break
                else:
                    val.append(c)
                    i += 1
            val = bytes(val)
        else:
            m = re.compile(TOKEN).match(s, i)
            if not m:
                raise Reject(("charset" if key == b"charset" else "grammar") + ": empty or malformed token value for %s" % key.decode())
            val = m.group(0)
            i = m.end()
        if key in res:
            raise Reject("grammar: directive %s twice" % key.decode())
        res[key] = val
        if i < n:
            if s[i] != 0x2C:
                raise Reject(("qop" if key == b"qop" else "grammar") + ": junk after directive %s" % key.decode())
            i += 1
    return res


def digest_verify(resp, user, password, domain, realms, nonce, qops, charset, cnonce_expected):
    d = parse_digest_directives(resp)
    for k in (b"username", b"nonce", b"cnonce", b"nc", b"digest-uri", b"response"):
        if k not in d:
            raise Reject("grammar: missing %s" % k.decode())
    if d[b"username"] != user:
        raise Reject("username: username is not the JID node")
    if d[b"nonce"] != nonce:
        raise Reject("nonce: nonce not echoed")
    if d[b"cnonce"] != cnonce_expected:
        raise Reject("nonce: cnonce is not HEX(random bytes)")
    if d[b"nc"] != b"00000001":
        raise Reject("grammar: nc")
    qop = d.get(b"qop", b"auth")
    if qop not in (qops or [b"auth"]):
        raise Reject("qop: qop is not one of the offered alternatives")
    if qop != b"auth":
        raise Reject("qop: qop that the client does not implement")
    if d[b"digest-uri"] != b"xmpp/" + domain:
        raise Reject("grammar: digest-uri")
    realm = d.get(b"realm", b"")
    if realms and realm not in realms:
        raise Reject("realm: realm is not one of the offered ones")
    if b"charset" in d:
        if not charset or d[b"charset"] != b"utf-8":
            raise Reject("charset: charset directive not allowed / wrong")
    elif charset:
        raise Reject("charset: charset=utf-8 offered but not sent")
    a1 = hashlib.md5(user + b":" + realm + b":" + password).digest() + b":" + nonce + b":" + d[b"cnonce"]
    a2 = b"AUTHENTICATE:" + d[b"digest-uri"]
    ha1 = hashlib.md5(a1).hexdigest().encode()
    ha2 = hashlib.md5(a2).hexdigest().encode()
    want = hashlib.md5(ha1 + b":" + nonce + b":" + d[b"nc"] + b":" + d[b"cnonce"] + b":" + qop + b":" + ha2).hexdigest().encode()
    if d[b"response"] != want:
        raise Reject("response: response-value differs from RFC 2831 §2.1.2.1")


def quote(v):
    return b'"' + v.replace(b"\\", b"\\\\").replace(b'"', b'\\"') + b'"'


def mk_digest_challenge(rng, shape):
    """-> (challenge text, meta dict or None when it is not a well-formed RFC 2831 challenge)"""
    nonce = rbytes(rng, rng.choice([1, 8, 16, 32, rng.randrange(1, 80)]), NONCE_CHARS)
    realms = []
    qops = [b"auth"]
    charset = True
    extra = [b"algorithm=md5-sess"]
    wf = True
    if shape == "std":
        realms = [rbytes(rng, rng.randrange(1, 20), NONCE_CHARS)]
    elif shape == "norealm":
        pass
    elif shape == "emptyrealm":
        realms = [b""]
    elif shape == "tworealms":
        realms = [rbytes(rng, 5, NONCE_CHARS), rbytes(rng, 7, NONCE_CHARS)]
    elif shape == "noqop":
        qops = None
    elif shape == "qoplist":
        qops = rng.choice([[b"auth", b"auth-int"], [b"auth-int", b"auth"], [b"auth", b"auth-int", b"auth-conf"]])
    elif shape == "nocharset":
        charset = False
    elif shape == "escaped":
        for _ in range(rng.choice([1, 1, 2, 3])):
            k = rng.randrange(0, len(nonce) + 1)
            nonce = nonce[:k] + rng.choice([b'"', b"\\", b"\\\\", b'\\"', b",", b"'"]) + nonce[k:]
        realms = [rbytes(rng, 4, NONCE_CHARS)]
        if rng.random() < 0.5:
            k = rng.randrange(0, 5)
            realms = [realms[0][:k] + rng.choice([b'"', b"\\", b'","', b"="]) + realms[0][k:]]
    elif shape == "extras":
        realms = [rbytes(rng, 6, NONCE_CHARS)]
        extra = [b"maxbuf=65536", b"stale=true", b"algorithm=md5-sess", b'cipher="rc4,des"']
    dirs = [b"realm=" + quote(r) for r in realms] + [b"nonce=" + quote(nonce)]
    if qops is not None:
        dirs.append(b"qop=" + quote(b",".join(qops)))
    if charset:
        dirs.append(b"charset=utf-8")
    dirs += extra
    if shape in ("std", "extras") and rng.random() < 0.5:
        rng.shuffle(dirs)
    text = b",".join(dirs)
    meta = {"nonce": nonce, "realms": [r for r in realms if r], "qops": qops, "charset": charset}
    if shape == "emptyrealm":
        meta["realms"] = []
    return text, (meta if wf else None)


BAD_DIGEST = ["null", "empty", "badb64", "nonul", "nononce", "unterminated", "junk", "nokeyeq", "onlycommas",
              "nulinside", "bigjunk"]


UNTERMINATED = [b'nonce="abc', b"nonce='abc", b'realm="x",nonce="ab,c', b'nonce="', b"nonce=",
                b'nonce="abc\\', b'nonce="abc\\"', b'nonce="\\', b'realm="a\\\\",nonce="b\\',
                b'realm="localhost",nonce="abc\\', b'nonce="a",qop="auth\\', b'nonce="a\\"\\']


def mk_bad_digest(rng, kind):
    """-> challenge token as handed to the op (None = NULL), i.e. the BASE64 text or junk"""
    if kind == "null":
        return None
    if kind == "empty":
        return b""
    if kind == "badb64":
        return rng.choice([b"!!!!", b"abc", b"ab=c", b"====", b"YWJj*A=="])
    if kind == "nulinside":
        return b64(b'nonce="a\0b",qop="auth"')
    if kind == "nononce":
        return b64(rng.choice([b'realm="x",qop="auth",charset=utf-8', b'rspauth=0123456789abcdef', b'qop="auth"',
                               b"nonc=abc", b'Nonce="abc"']))
    if kind == "unterminated":
        return b64(rng.choice(UNTERMINATED))
    if kind.startswith("unterminated:"):
        return b64(UNTERMINATED[int(kind.split(":")[1])])
    if kind == "junk":
        return b64(rbytes(rng, rng.randrange(1, 60), list(range(1, 256))))
    if kind == "nokeyeq":
        return b64(rng.choice([b"nonce", b"abc,def", b"=", b"==,=", b'="x"', b",,, ,"]))
    if kind == "onlycommas":
        return b64(b"," * rng.randrange(1, 9))
    if kind == "bigjunk":
        return b64(rbytes(rng, 3000, list(b'abc=",\' \\')))
    return b64(b"x")


# ---------------------------------------------------------------------------------------------
# generators

def rand_node(rng, style=None):
    style = style or rng.choice(["ascii", "ascii", "bytes", "special", "long", "one"])
    if style == "ascii":
        return rbytes(rng, rng.randrange(1, 24), NODE_ASCII)
    if style == "bytes":
        return rbytes(rng, rng.randrange(1, 40), NODE_BYTES)
    if style == "special":
        base = bytearray(rbytes(rng, rng.randrange(0, 10), NODE_ASCII))
        for _ in range(rng.randrange(1, 4)):
            base.insert(rng.randrange(len(base) + 1), rng.choice(list(b",=\\ =,")))
        return bytes(base)
    if style == "long":
        return rbytes(rng, rng.choice([255, 256, 1023, 2048]), NODE_ASCII)
    return rbytes(rng, 1, NODE_ASCII)


def rand_pass(rng):
    style = rng.choice(["ascii", "bytes", "special", "empty", "long", "ascii"])
    if style == "ascii":
        return rbytes(rng, rng.randrange(1, 30), list(range(0x20, 0x7f)))
    if style == "bytes":
        return rbytes(rng, rng.randrange(1, 64), PW_BYTES)
    if style == "special":
        return rbytes(rng, rng.randrange(1, 12), list(b',="\\:@/ab'))
    if style == "empty":
        return b""
    return rbytes(rng, rng.choice([64, 65, 128, 129, 200, 2048]), PW_BYTES)


def rand_jid(rng, node=None, resource=True):
    node = rand_node(rng) if node is None else node
    dom = rbytes(rng, rng.randrange(1, 20), list(b"abcdefghijklmnopqrstuvwxyz0123456789.-"))
    j = node + b"@" + dom
    if resource and rng.random() < 0.5:
        j += b"/" + rbytes(rng, rng.randrange(0, 12), [c for c in range(1, 256)])
    return j


def rand_salt(rng):
    n = rng.choice([1, 2, 3, 8, 16, 16, 32, 64, 100, 123, 124, rng.randrange(1, 125)])
    return rbytes(rng, n)


def rand_iter(rng, tier):
    r = rng.random()
    if r < 0.75:
        return rng.choice([1, 1, 2, 3, 4, 5, 10, 17])
    if r < 0.97:
        return rng.choice([100, 1000, 4096])
    return 99999 if tier == "thorough" else rng.choice([4096, 10000])


def cb_setup(rng, plus, secured):
    """-> (type token, cbdata token) for the fake TLS layer"""
    if not plus:
        return (None, None) if rng.random() < 0.7 else (b"tls-unique", rbytes(rng, 12))
    ty, n = rng.choice([(b"tls-unique", 12), (b"tls-unique", 36), (b"tls-exporter", 32)])
    return ty, rbytes(rng, n)


def gen_scramx(rng, tier, variant=None, bad=None):
    variant = variant or rng.choice(VARIANTS)
    hname, ds, plus = alg_of(variant)
    secured = 1 if (plus or rng.random() < 0.5) else 0
    ty, cbd = cb_setup(rng, plus, secured)
    jid = rand_jid(rng)
    pw = rand_pass(rng)
    rnd = rbytes(rng, 16)
    cnonce = hex_upper(rnd)
    snonce = cnonce + rbytes(rng, rng.randrange(1, 40), NONCE_CHARS)
    salt = rand_salt(rng)
    it = rand_iter(rng, tier)
    sf = b"r=" + snonce + b",s=" + b64(salt) + b",i=" + str(it).encode()
    if bad is None and rng.random() < 0.15:
        sf += rng.choice([b",x=ext", b",m=1", b",a=b,c=d"])  # extensions
    if bad == "nor":
        sf = b"s=" + b64(salt) + b",i=" + str(it).encode()
    elif bad == "nos":
        sf = b"r=" + snonce + b",i=" + str(it).encode()
    elif bad == "noi":
        sf = b"r=" + snonce + b",s=" + b64(salt)
    elif bad == "emptysalt":
        sf = b"r=" + snonce + b",s=,i=" + str(it).encode()
    elif bad == "badsalt":
        sf = b"r=" + snonce + b",s=" + rng.choice([b"!!!!", b"abc", b"QUJD=", b"QQ==QQ==", b"A"]) + b",i=1"
    elif bad == "foreignnonce":
        sf = b"r=" + rbytes(rng, 20, NONCE_CHARS) + b",s=" + b64(salt) + b",i=" + str(it).encode()
    elif bad == "i0":
        sf = b"r=" + snonce + b",s=" + b64(salt) + b",i=0"
    elif bad == "inan":
        sf = b"r=" + snonce + b",s=" + b64(salt) + b",i=" + rng.choice([b"x", b"", b"-", b"abc", b"+"])
    elif bad == "iwrap":
        sf = b"r=" + snonce + b",s=" + b64(salt) + b",i=" + rng.choice(
            [b"4294967297", b"-4294967295", b" 1", b"+2", b"1x", b"8589934594", b"3.5", b"0x10", b"\t2", b"\n\v\f\r 3",
             b"+-1", b"12884901889"])  # strtol + (uint32_t) cast give a SMALL count (never one near 2^32: hours of HMACs)
    elif bad == "longsalt":
        salt = rbytes(rng, rng.choice([125, 126, 128, 129, 200]))
        sf = b"r=" + snonce + b",s=" + b64(salt) + b",i=1"
    elif bad == "reorder":
        sf = b"i=" + str(it).encode() + b",s=" + b64(salt) + b",r=" + snonce
    elif bad == "dup":
        sf = b"r=junk,s=QUJD,i=7,r=" + snonce + b",s=" + b64(salt) + b",i=" + str(it).encode()
    elif bad == "commas":
        sf = b",,r=" + snonce + b",,,s=" + b64(salt) + b",i=" + str(it).encode() + b",,"
    elif bad == "empty":
        sf = rng.choice([b",", b"x", b"r=", b"r=,s=,i="])
    elif bad == "notext":
        sf = None
    elif bad == "badb64text":
        sf = b"\xff"
    text = None if sf is None else (b"!!!" if bad == "badb64text" else b64(sf))
    return "scramx %s %d %s %s %s %s %s %s" % (variant, secured, hx(ty), hx(cbd), hx(jid), hx(pw), hx(rnd), hx(text))


BAD_SCRAM = ["nor", "nos", "noi", "emptysalt", "badsalt", "foreignnonce", "i0", "inan", "iwrap", "longsalt",
             "reorder", "dup", "commas", "empty", "notext", "badb64text"]


def gen_scraminit_edge(rng):
    variant = rng.choice(VARIANTS)
    plus = variant.endswith("plus")
    kind = rng.choice(["unsecured", "inittype-", "nodata", "longdata", "longtype", "nonode", "shortrnd", "ok"])
    secured = 0 if kind == "unsecured" else 1
    ty = None if kind == "inittype-" else (rbytes(rng, rng.choice([49, 50, 52, 53, 60]), list(b"abcdefgh-")) if kind == "longtype"
                                           else rng.choice([b"tls-unique", b"tls-exporter"]))
    cbd = None if kind == "nodata" else rbytes(rng, rng.choice([37, 38, 40, 41, 42, 44, 45, 56, 100]) if kind == "longdata"
                                               else rng.choice([12, 32, 36]))
    jid = rbytes(rng, 8, list(b"abcdef.")) if kind == "nonode" else rand_jid(rng)
    rnd = rbytes(rng, rng.choice([0, 1, 15])) if kind == "shortrnd" else rbytes(rng, 16)
    if not plus and rng.random() < 0.5:
        secured = rng.choice([0, 1])
    return "scraminit %s %d %s %s %s %s" % (variant, secured, hx(ty), hx(cbd), hx(jid), hx(rnd))


def gen_digest(rng, op=None, shape=None, backslash_user=False):
    op = op or rng.choice(["digest", "digestx"])
    shape = shape or rng.choice(["std", "std", "norealm", "emptyrealm", "tworealms", "noqop", "extras", "qoplist",
                                 "nocharset", "escaped", "escaped"])
    text, _ = mk_digest_challenge(rng, shape)
    node = rand_node(rng)
    if backslash_user or rng.random() < 0.15:
        k = rng.randrange(0, len(node) + 1)
        node = node[:k] + b"\\" + node[k:]
    jid = rand_jid(rng, node=node)
    return "%s %s %s %s %s" % (op, hx(b64(text)), hx(jid), hx(rand_pass(rng)), hx(rbytes(rng, 6)))


def gen_bad_digest(rng, kind, op=None):
    op = op or rng.choice(["digest", "digestx"])
    ch = mk_bad_digest(rng, kind)
    return "%s %s %s %s %s" % (op, hx(ch), hx(rand_jid(rng)), hx(rand_pass(rng)), hx(rbytes(rng, 6)))


def gen_prims(rng, tier):
    a = rng.choice(["sha1", "sha256", "sha512"])
    ds = ALGS[a][1]
    k = rng.choice(["hi", "hi", "ckey", "csig", "cproof"])
    if k in ("hi", "ckey"):
        pw = rbytes(rng, rng.choice([0, 1, 8, 63, 64, 65, 127, 128, 129, 300]))
        salt = rbytes(rng, rng.choice([0, 1, 16, 60, 123, 124]))
        it = rng.choice([0, 1, 2, 3, 4, 7, 50, 4096 if rng.random() < 0.1 else 9])
        return "%s %s %s %s %d" % (k, a, hx(pw), hx(salt), it)
    if k == "csig":
        return "csig %s %s %s" % (a, hx(rbytes(rng, ds)), hx(rbytes(rng, rng.choice([0, 1, 55, 56, 64, 119, 120, 500]))))
    return "cproof %s %s %s" % (a, hx(rbytes(rng, ds)), hx(rbytes(rng, ds)))


def gen_scram_direct(rng, tier):
    """sasl_scram with arbitrary (not necessarily consistent) arguments"""
    a = rng.choice(VARIANTS)
    cb = rng.choice([b"biws", b"eSws", b64(b"p=tls-unique,," + rbytes(rng, 12)), b"", rbytes(rng, 5, NONCE_CHARS)])
    snonce = rbytes(rng, rng.randrange(1, 30), NONCE_CHARS)
    salt = rand_salt(rng)
    sf = b"r=" + snonce + b",s=" + b64(salt) + b",i=" + str(rand_iter(rng, "quick")).encode()
    fb = b"n=" + rand_node(rng, "ascii") + b",r=" + snonce[:5]
    if rng.random() < 0.2:
        fb = rbytes(rng, rng.randrange(0, 20), NONCE_CHARS + [0x2C])
    return "scram %s %s %s %s %s" % (a, hx(cb), hx(sf), hx(fb), hx(rand_pass(rng)))


def gen_misc(rng):
    k = rng.choice(["plain", "plain", "hs", "hs", "legacy", "auth", "auth", "nonce"])
    if k == "plain":
        return "plain %s %s" % (hx(rand_node(rng) if rng.random() < 0.9 else b""), hx(rand_pass(rng)))
    if k == "hs":
        sid = None if rng.random() < 0.1 else rbytes(rng, rng.choice([0, 1, 8, 20, 55, 56, 64, 200]), list(range(1, 256)))
        return "hs %s %s" % (hx(sid), hx(rand_pass(rng)))
    if k == "legacy":
        jid = rng.choice([rand_jid(rng), rand_jid(rng, resource=False) + b"/" + rbytes(rng, 5, NODE_ASCII),
                          b"example.org/r", rand_jid(rng, resource=False)])
        return "legacy %s %s" % (hx(jid), hx(rand_pass(rng)))
    if k == "auth":
        mask = rng.choice([0, 1, 4, 5, 64, 65, 68, 69])
        jid = rng.choice([rand_jid(rng), b"example.org", b"anon.example.org/r", rand_jid(rng, resource=False) + b"/res"])
        pw = None if rng.random() < 0.2 else rand_pass(rng)
        n = rng.choice([0, 1, 1, 2, 3])
        x0 = rng.choice([jid, jid, b"other@example.org", None])
        return "auth %d %d %s %s %d %s" % (mask, rng.choice([0, 1]), hx(jid), hx(pw), n, hx(x0))
    ln = rng.choice([0, 1, 2, 3, 4, 13, 33, 64, 65])
    return "nonce %d %s" % (ln, hx(rbytes(rng, rng.choice([0, 1, ln // 2, ln // 2 + 3, 40]))))


def generate(rng, tier, override=0):
    cases = []
    scale = 1 if tier == "quick" else 12
    if override:
        scale = 1
    n_good = override or 120 * scale
    ops = []
    # every SCRAM variant x (un)secured appears; then random
    for v in VARIANTS:
        for _ in range(3 if not override else 1):
            ops.append(gen_scramx(rng, tier, v))
    for _ in range(n_good):
        ops.append(gen_scramx(rng, tier))
    for _ in range(n_good):
        ops.append(gen_digest(rng))
    for _ in range(n_good // 2):
        ops.append(gen_scram_direct(rng, tier))
    for _ in range(n_good):
        ops.append(gen_prims(rng, tier))
    for _ in range(n_good):
        ops.append(gen_misc(rng))
    for _ in range(n_good // 3):
        ops.append(gen_scraminit_edge(rng))
    ops.append("fresh %d" % (64 if tier == "quick" else 1000))
    rng.shuffle(ops)
    cases += [ops[i:i + 40] for i in range(0, len(ops), 40)]
    # boundary / malformed inputs: one op per case so that an abort does not hide its neighbours
    risky = []
    for kind in BAD_SCRAM:
        for _ in range((2 if not override else 1) * scale):
            risky.append(gen_scramx(rng, tier, bad=kind))
    for kind in BAD_DIGEST:
        for _ in range((2 if not override else 1) * scale):
            risky.append(gen_bad_digest(rng, kind))
    for i in range(len(UNTERMINATED)):      # every variant, both entry points, on every run
        for op in ("digest", "digestx"):
            risky.append(gen_bad_digest(rng, "unterminated:%d" % i, op))
    for _ in range(4 * scale):
        a = rng.choice(["sha1", "sha256", "sha512"])
        risky.append("hi %s %s %s %d" % (a, hx(rbytes(rng, 8)), hx(rbytes(rng, rng.choice([125, 126, 128, 200, 4096]))), 1))
    cases += [[op] for op in risky]
    return cases


# ---------------------------------------------------------------------------------------------
# oracle

def expect(cond, msg):
    if not cond:
        raise Reject(msg)


def check_scraminit(variant, secured, ty, cbd, jid, rnd, fields):
    """fields = [msg, cbb64, off] as printed after `= ok`"""
    hname, ds, plus = alg_of(variant)
    msg, cbf, off = unhx(fields[0]), unhx(fields[1]), int(fields[2])
    header, flag, cbname, user, cnonce, bare = parse_client_first(msg)
    node = jid_node(jid)
    expect(user == node, "scram-saslname: n= does not decode to the JID node")
    expect(cnonce == hex_upper(rnd_take(rnd, 16)), "scram-nonce: client nonce is not HEX(random bytes)")
    if plus:
        expect(flag == b"p" and cbname == ty, "scram-gs2: gs2-cbind-flag must be p=<binding type> for -PLUS")
        cbind = header + cbd
    elif secured:
        expect(flag == b"y", "scram-gs2: gs2-cbind-flag must be y (TLS, no -PLUS)")
        cbind = header
    else:
        expect(flag == b"n", "scram-gs2: gs2-cbind-flag must be n (no TLS)")
        cbind = header
    expect(cbf == b64(cbind), "scram-cbind: channel-binding field is not base64(gs2-header || data)")
    if not plus:
        expect(cbf == (b"eSws" if secured else b"biws"), "scram-cbind: c= must be biws / eSws")
    expect(off == len(header) and msg[off:] == bare, "scram-firstbare: first_bare does not point at client-first-message-bare")
    return header, bare, cnonce, cbind


def init_should_succeed(variant, secured, ty, cbd, jid):
    hname, ds, plus = alg_of(variant)
    if jid_node(jid) is None:
        return False
    if plus:
        if not secured or ty is None or cbd is None:
            return False
        if len(ty) + 4 > 56 or len(cbd) > 56 - (len(ty) + 4):
            return False
    return True


def oracle_op(op, out):
    t = op.split(" ")
    k = t[0]
    if out.startswith("= bad-op"):
        return "harness rejected a generated op"
    if k == "plain":
        want = "= ok " + hx(b64(b"\0" + cstr(unhx(t[1])) + b"\0" + cstr(unhx(t[2]))))
        return None if out == want else "plain: not base64(NUL authid NUL password)"
    if k in ("digest", "digestx"):
        ch, jid, pw, rnd = unhx(t[1]), cstr(unhx(t[2])), cstr(unhx(t[3])), unhx(t[4])
        ch = cstr(ch)
        okword, nullword = ("= ok ", "= null") if k == "digest" else ("= resp ", "= memerr")
        node = jid_node(jid)
        if node is None:
            return None  # precondition of sasl_digest_md5 (see ASSUMPTIONS); robustness not demanded
        text = None
        if ch is not None and not (k == "digestx" and ch == b""):
            if ch == b"":
                text = b""
            else:
                try:
                    text = base64.b64decode(ch, validate=True)
                    if base64.b64encode(text) != ch or b"\0" in text:
                        text = None
                except Exception:  # noqa: BLE001
                    text = None
        meta = None
        if text is not None:
            try:
                d = parse_digest_directives_multi(text)
                meta = d
            except Reject:
                meta = None
        if text is None or (meta is not None and b"nonce" not in meta):
            # undecodable, or an RFC 2831 directive list without nonce: nothing to answer with
            return None if out == nullword else "digest-unusable: unusable challenge was answered: " + out[:60]
        if meta is None:
            # decodable but not an RFC 2831 directive list: refusing is right, lenient parsing is
            # tolerated (that it does not crash is established by the run itself)
            return None
        if not out.startswith(okword):
            return "digest-refused: well-formed challenge refused: " + out[:40]
        try:
            resp = base64.b64decode(unhx(out[len(okword):]), validate=True)
            qops = [q.strip() for q in meta[b"qop"][0].split(b",")] if b"qop" in meta else None
            digest_verify(resp, node, pw, jid_domain(jid), [r for r in meta.get(b"realm", []) if r],
                          meta[b"nonce"][0], qops, meta.get(b"charset", [b""])[0] == b"utf-8",
                          hex_upper(rnd_take(rnd, 6)))
        except Reject as e:
            return digest_kind(node, meta, str(e).split(":")[0]) + ": " + str(e)
        except Exception as e:  # noqa: BLE001
            return digest_kind(node, meta, "grammar") + ": response not parseable (%s)" % type(e).__name__
        return None
    if k in ("scraminit", "scramx"):
        variant, secured = t[1], int(t[2])
        ty, cbd, jid = cstr(unhx(t[3])), unhx(t[4]), cstr(unhx(t[5]))
        x = k == "scramx"
        pw = cstr(unhx(t[6])) if x else None
        rnd = unhx(t[7] if x else t[6])
        text = cstr(unhx(t[8])) if x else None
        hname, ds, plus = alg_of(variant)
        should = init_should_succeed(variant, secured, ty, cbd, jid)
        f = out.split(" ")
        if not should:
            return None if out == "= fail" else "scram-init: should have failed"
        if f[:2] != ["=", "ok"]:
            return "scram-init: failed on valid input"
        try:
            header, bare, cnonce, cbind = check_scraminit(variant, secured, ty, cbd, jid, rnd, f[2:5])
        except Reject as e:
            return str(e)
        if not x:
            return None
        sf = None
        if text:
            try:
                sf = base64.b64decode(text, validate=True)
                if base64.b64encode(sf) != text or b"\0" in sf:
                    sf = None
            except Exception:  # noqa: BLE001
                sf = None
        parsed = parse_server_first(sf) if sf is not None else None
        if parsed is None:
            # not an RFC 5802 server-first-message: refusing is right; answering is tolerated only
            # if the C parser found r/s/i (lenient parsing is not a property violation)
            return None
        snonce, salt, it = parsed
        if not snonce.startswith(cnonce) or snonce == cnonce:
            # RFC 5802 §5.1 wants the client to abort; the property only speaks about what the client
            # SENDS, so an answer is not flagged (out of scope, see Props/C07.lean) but not verified either
            return None
        if it >= 2 ** 32:
            return None
        if f[5:6] != ["resp"]:
            return "scram-refused: well-formed server-first refused"
        try:
            cf = base64.b64decode(unhx(f[6]), validate=True)
            scram_verify(hname, bare, sf, cf, pw, salt, it, snonce, cbind)
        except Reject as e:
            return str(e)
        except Exception as e:  # noqa: BLE001
            return "scram-final-grammar: client-final not parseable (%s)" % type(e).__name__
        return None
    if k == "scram":
        variant = t[1]
        hname, ds, plus = alg_of(variant)
        cb, sf, fb, pw = (cstr(unhx(x)) for x in t[2:6])
        parsed = parse_server_first(sf)
        if parsed is None or parsed[2] >= 2 ** 32:
            return None
        snonce, salt, it = parsed
        if not out.startswith("= ok "):
            return "scram-refused: well-formed server-first refused"
        cf = base64.b64decode(unhx(out[5:]))
        want_prefix = b"c=" + cb + b",r=" + snonce
        if not cf.startswith(want_prefix + b",p="):
            return "scram-final-grammar: client-final-without-proof is not c=<cb>,r=<nonce>"
        auth = fb + b"," + sf + b"," + want_prefix
        salted = hashlib.pbkdf2_hmac(hname, pw, salt, it)
        ck = pyhmac.new(salted, b"Client Key", hname).digest()
        sig = pyhmac.new(hashlib.new(hname, ck).digest(), auth, hname).digest()
        if cf != want_prefix + b",p=" + b64(xor(ck, sig)):
            return "scram-proof: proof differs from ClientKey xor ClientSignature"
        return None
    if k in ("hi", "ckey"):
        hname, ds = ALGS[t[1]]
        pw, salt, it = unhx(t[2]), unhx(t[3]), int(t[4])
        if it == 0 or len(salt) > 124:
            return None  # outside RFC 5802 (i >= 1) / reported by the crash if it aborts
        salted = hashlib.pbkdf2_hmac(hname, pw, salt, it)
        want = salted if k == "hi" else pyhmac.new(salted, b"Client Key", hname).digest()
        return None if out == "= " + hx(want) else k + ": differs from PBKDF2-HMAC"
    if k == "csig":
        hname, ds = ALGS[t[1]]
        want = pyhmac.new(hashlib.new(hname, unhx(t[2])).digest(), unhx(t[3]), hname).digest()
        return None if out == "= " + hx(want) else "csig: differs from HMAC(H(key), msg)"
    if k == "cproof":
        return None if out == "= " + hx(xor(unhx(t[2]), unhx(t[3]))) else "cproof: not xor"
    if k == "hs":
        sid, sec = cstr(unhx(t[1])), cstr(unhx(t[2]))
        if sid is None:
            return None if out == "= rc -3 -" else "hs: no stream id must give XMPP_EINT and send nothing"
        want = b"<handshake xmlns='jabber:component:accept'>" + hashlib.sha1(sid + sec).hexdigest().encode() + b"</handshake>"
        return None if out == "= rc 0 " + hx(want) else "hs: not hex(SHA1(stream-id || secret))"
    if k == "legacy":
        jid, pw = cstr(unhx(t[1])), cstr(unhx(t[2]))
        node, res = jid_node(jid), jid_resource(jid)
        if node is None or res is None:
            return None if not out.startswith("= iq") else "legacy: iq sent without node/resource"
        want = "= iq %s %s %s %s %s %s" % (hx(b"set"), hx(b"_xmpp_auth1"), hx(b"jabber:iq:auth"), hx(node), hx(pw), hx(res))
        return None if out == want else "legacy: fields are not node / password / resource"
    if k == "auth":
        mask, legacy = int(t[1]), int(t[2])
        jid, pw, n, x0 = cstr(unhx(t[3])), cstr(unhx(t[4])), int(t[5]), cstr(unhx(t[6]))
        node = jid_node(jid)
        f = out.split(" ")
        if node is None and mask & 4:
            return None if f[:4] == ["=", "mech", hx(b"ANONYMOUS"), "-"] else "auth: ANONYMOUS must carry no identity"
        if mask & 64:
            cert_ids = ([x0] if x0 is not None else []) if n >= 1 else []
            want = b"=" if (not cert_ids or (n == 1 and cert_ids[0] == jid)) else b64(jid)
            return None if f[:4] == ["=", "mech", hx(b"EXTERNAL"), hx(want)] else "auth: EXTERNAL identity"
        if node is None or pw is None:
            return None if f[1] == "disc" else "auth: must disconnect"
        if mask & 1:
            want = b64(b"\0" + node + b"\0" + pw)
            return None if f[:4] == ["=", "mech", hx(b"PLAIN"), hx(want)] else "auth: PLAIN identity"
        return None
    if k == "nonce":
        ln, rnd = int(t[1]), unhx(t[2])
        if ln == 0:
            return None if out == "= - 0" else "nonce: len 0 must write nothing"
        want = hex_upper(rnd_take(rnd, ln // 2))[:ln - 1]
        return None if out == "= %s %d" % (hx(want), ln // 2) else "nonce: not upper-case hex of the random bytes"
    return None


def digest_kind(node, meta, what):
    """failures on inputs that need RFC 2831 quoted-pair handling get their own signature"""
    vals = [node] + meta.get(b"nonce", []) + meta.get(b"realm", [])
    if any(b'"' in v or b"\\" in v for v in vals):
        return "digest-quoted-pair"
    return "digest-" + what


def parse_digest_directives_multi(s):
    """server-side view of its OWN challenge: like parse_digest_directives but directives may repeat
    (realm) -> dict key -> [values]"""
    res = {}
    i = 0
    n = len(s)
    while i < n:
        m = re.compile(TOKEN).match(s, i)
        if not m or m.end() >= n or s[m.end()] != 0x3D:
            raise Reject("bad directive")
        key = m.group(0)  # names as sent; the client matches them case-sensitively (see ASSUMPTIONS)
        i = m.end() + 1
        if i < n and s[i] == 0x22:
            i += 1
            val = bytearray()
            while True:
                if i >= n:
                    raise Reject("unterminated")
                c = s[i]
                if c == 0x5C:
                    if i + 1 >= n:
                        raise Reject("dangling")
                    val.append(s[i + 1])
                    i += 2
                elif c == 0x22:
                    i += 1
                    break
                else:
                    val.append(c)
                    i += 1
            val = bytes(val)
        else:
            if key in (b"realm", b"nonce", b"qop", b"cipher"):
                raise Reject("RFC 2831 §2.1.1: %s takes a quoted-string" % key.decode())
            m = re.compile(TOKEN).match(s, i)
            if not m:
                raise Reject("bad value")
            val = m.group(0)
            i = m.end()
        res.setdefault(key, []).append(val)
        if i < n:
            if s[i] != 0x2C:
                raise Reject("junk")
            i += 1
    for k in (b"nonce", b"qop", b"charset"):
        if k in res and len(res[k]) > 1:
            raise Reject("repeated " + k.decode())
    return res


def py_oracle(ops, outs):
    fails = []
    for i, (op, out) in enumerate(zip(ops, outs)):
        try:
            msg = oracle_op(op, out)
        except Exception as e:  # noqa: BLE001 - an unparsable output is a failure of the op
            msg = "oracle-exception %s: %s" % (type(e).__name__, e)
        if msg:
            fails.append((i, "%s | op %s… | got %s" % (msg, op[:60], out[:80])))
    return fails


def signature(case, i, what):
    op = case.ops[i] if i < len(case.ops) else "?"
    k = op.split(" ")[0]
    w = what.split(" ")
    if w[0] == "ORACLE-FAIL":
        kind = w[1]
    elif w[0] == "crash":
        m = re.search(r"in (\w+) (\w+\.c)", what)
        kind = "crash:" + (m.group(1) if m else "?")
        if "Assertion" in what or "ABRT" in what:
            kind = "abort:" + (m.group(1) if m else "?")
    elif w[0] == "diff":
        kind = "diff"
    else:
        kind = re.sub(r"[^A-Za-z0-9=_.-]+", "-", what.split(":")[0].strip())[:40]
    return "%s:%s:%s" % (ID, k, kind)


def tags(case, outs):
    res = []
    for op, out in zip(case.ops, outs):
        t = op.split(" ")
        k = t[0]
        o = out.split(" ")
        outcome = o[1] if len(o) > 1 else "?"
        if k in ("scramx", "scraminit"):
            extra = o[5] if len(o) > 5 else ""
            res.append("%s:%s:s%s:%s%s" % (k, t[1], t[2], outcome, ":" + extra if extra else ""))
        elif k == "scram":
            res.append("scram:%s:%s" % (t[1], outcome))
        elif k in ("digest", "digestx"):
            ch = t[1]
            res.append("%s:%s:%s" % (k, "null" if ch == "-" else "empty" if ch == "." else "len%d" % min(len(ch) // 64, 4), outcome))
        elif k in ("hi", "ckey"):
            sl = 0 if t[3] == "." else len(t[3]) // 2
            res.append("%s:%s:salt%s:i%s" % (k, t[1], "0" if sl == 0 else "le124" if sl <= 124 else "gt124",
                                             t[4] if int(t[4]) < 5 else "many"))
        elif k == "auth":
            res.append("auth:m%s:%s" % (t[1], outcome))
        elif k == "nonce":
            res.append("nonce:%s" % ("0" if t[1] == "0" else "odd" if int(t[1]) % 2 else "even"))
        else:
            res.append("%s:%s" % (k, outcome if k in ("legacy", "hs") else t[1] if k in ("csig", "cproof") else "x"))
    return res
