"""Scenario generator for engine `conn` (shared by C01, C02, C03, C04, C05, C13): a small reference
server following RFC 6120/6121, XEP-0198, XEP-0114, with a deviation operator (DESIGN.md App. C)."""
import base64

from .common import hx, rbytes

NS_STREAM = "http://etherx.jabber.org/streams"
NS_TLS = "urn:ietf:params:xml:ns:xmpp-tls"
NS_SASL = "urn:ietf:params:xml:ns:xmpp-sasl"
NS_BIND = "urn:ietf:params:xml:ns:xmpp-bind"
NS_SESSION = "urn:ietf:params:xml:ns:xmpp-session"
NS_SM = "urn:xmpp:sm:3"
NS_STANZAS = "urn:ietf:params:xml:ns:xmpp-stanzas"
NS_STREAMS_IETF = "urn:ietf:params:xml:ns:xmpp-streams"

F_DISABLE_TLS, F_MANDATORY_TLS, F_LEGACY_SSL, F_TRUST_TLS, F_LEGACY_AUTH, F_DISABLE_SM, F_COMPRESS, F_COMP_DR = \
    1, 2, 4, 8, 16, 32, 64, 128

SCRAM_ORDER = ["SCRAM-SHA-512-PLUS", "SCRAM-SHA-256-PLUS", "SCRAM-SHA-1-PLUS", "SCRAM-SHA-512",
               "SCRAM-SHA-256", "SCRAM-SHA-1"]
ALL_MECHS = ["PLAIN", "DIGEST-MD5", "ANONYMOUS", "EXTERNAL"] + SCRAM_ORDER + ["X-UNKNOWN", "plain", "Scram-Sha-1"]


def h(s):
    return hx(s.encode() if isinstance(s, str) else s)


class Scenario:
    def __init__(self, rng):
        self.rng = rng
        self.ops = []
        self.sid = 0

    # ---------------------------------------------------------------- server snippets
    def header(self, comp=False, name="stream:stream"):
        self.sid += 1
        return ("<?xml version='1.0'?><%s xmlns='%s' xmlns:stream='%s' id='s%d' from='example.org' version='1.0'>"
                % (name, "jabber:component:accept" if comp else "jabber:client", NS_STREAM, self.sid))

    def features(self, starttls=False, mechs=None, bind=False, session=None, sm=False, unknown=False,
                 required=False, compression=None):
        parts = []
        if starttls:
            parts.append("<starttls xmlns='%s'>%s</starttls>" % (NS_TLS, "<required/>" if required else ""))
        if mechs is not None:
            def mech(m):
                k = self.rng.random()
                if k < 0.03 and len(m) > 2:
                    return "<mechanism>%s<x/>%s</mechanism>" % (m[:2], m[2:])     # text in two nodes
                if k < 0.05:
                    return "<mechanism>%s</mechanism><mechanism/>" % m           # followed by an empty one
                return "<mechanism>%s</mechanism>" % m
            ms = [mech(m) for m in mechs]
            if mechs and self.rng.random() < 0.06:
                ms.insert(self.rng.randrange(len(ms) + 1), self.rng.choice(["<mechanism/>", "<mechanism><x/></mechanism>",
                                                                           "<other>PLAIN</other>"]))
            parts.append("<mechanisms xmlns='%s'>%s</mechanisms>" % (NS_SASL, "".join(ms)))
        if bind:
            parts.append("<bind xmlns='%s'/>" % NS_BIND)
        if session is not None:
            parts.append("<session xmlns='%s'>%s</session>" % (NS_SESSION, "<optional/>" if session == "optional" else ""))
        if sm:
            parts.append("<sm xmlns='%s'/>" % NS_SM)
        if compression is not None:
            parts.append("<compression xmlns='http://jabber.org/features/compress'>%s</compression>" %
                         "".join("<method>%s</method>" % m for m in compression))
        if unknown:
            parts.append("<ver xmlns='urn:xmpp:features:rosterver'/>")
        if self.rng.random() < 0.12:
            # look-alikes in foreign namespaces: not offers
            parts.append(self.rng.choice(["<sm xmlns='urn:xmpp:sm:2'/>", "<sm xmlns='urn:xmpp:sm:2'/>",
                                          "<bind xmlns='urn:example:bind'/>",
                                          "<session xmlns='urn:example:session'/>", "<starttls xmlns='urn:example:tls'/>",
                                          "<mechanisms xmlns='urn:example:sasl'><mechanism>PLAIN</mechanism></mechanisms>",
                                          "<compression xmlns='urn:example:compress'><method>zlib</method></compression>"]))
        self.rng.shuffle(parts)
        return "<stream:features>%s</stream:features>" % "".join(parts)

    # ---------------------------------------------------------------- emit helpers
    def rx(self, text):
        """deliver server bytes; sometimes split into several reads"""
        data = text.encode() if isinstance(text, str) else text
        r = self.rng.random()
        if r < 0.15 and len(data) > 2:
            k = self.rng.randrange(1, len(data))
            self.ops.append("rx " + hx(data[:k]))
            self.ops.append("rx " + hx(data[k:]))
        elif r < 0.18 and len(data) > 3:
            a = self.rng.randrange(1, len(data) - 1)
            b = self.rng.randrange(a, len(data))
            for part in (data[:a], data[a:b], data[b:]):
                if part:
                    self.ops.append("rx " + hx(part))
        else:
            self.ops.append("rx " + hx(data))
        if self.rng.random() < 0.3:
            self.ops.append("run")

    def client_noise(self, connected_hint):
        r = self.rng.random()
        if r < 0.08:
            self.ops.append("usend m%d" % self.rng.randrange(100))
        elif r < 0.12:
            self.ops.append("uraw " + h("<presence id='p%d'/>" % self.rng.randrange(100)))
        elif r < 0.15:
            self.ops.append("urawstr " + h("<iq id='q%d'/>" % self.rng.randrange(100)))
        elif r < 0.19:
            self.ops.append("tick %d" % self.rng.choice([1, 500, 999, 1000, 1001, 1999, 2000, 2001, 4999, 5000, 5001,
                                                         14999, 15000, 15001, 20000]))
            self.ops.append("run")
        elif r < 0.21:
            self.ops.append("wr " + self.rng.choice(["again", "all,again", "-", "all"]))
        elif r < 0.23:
            self.ops.append("wr all")
        elif r < 0.24:
            self.ops.append("run")
        elif r < 0.27:
            # a stanza for the application (its id handler, its catch-all handler) at any moment
            self.rx(self.rng.choice(["<iq type='result' id='uid1'/>", "<message id='uid1' from='a@b'/>",
                                     "<presence from='a@b'/>"]))


def predict_mech(offered, jid, has_pass, cert, secured, tried):
    """which mechanism the client will pick (auth.c `_auth`), None = gives up / legacy"""
    names = [m.upper() for m in offered]
    sup = set()
    for m in names:
        if m in ("PLAIN", "DIGEST-MD5", "ANONYMOUS") or m in SCRAM_ORDER:
            sup.add(m)
        if m == "EXTERNAL" and cert:
            sup.add(m)
    if sup - {"PLAIN", "ANONYMOUS"}:
        sup.discard("PLAIN")
    sup -= tried
    anon = "@" not in jid.split("/")[0]
    if anon and "ANONYMOUS" in sup:
        return "ANONYMOUS"
    if "EXTERNAL" in sup:
        return "EXTERNAL"
    if anon or not has_pass:
        return None
    for m in SCRAM_ORDER:
        if m in sup:
            if m.endswith("-PLUS") and not secured:
                return None
            return m
    if "DIGEST-MD5" in sup:
        return "DIGEST-MD5"
    if "PLAIN" in sup:
        return "PLAIN"
    return None


def gen_session(rng, tier, profile="mixed"):
    if profile == "sm":
        return gen_sm_session(rng)
    s = Scenario(rng)
    policy = profile == "policy"
    ops = s.ops
    flags = 0
    r = rng.random()
    if r < 0.45:
        flags = 0
    elif r < 0.6:
        flags = F_MANDATORY_TLS
    elif r < 0.7:
        flags = F_DISABLE_TLS
    elif r < 0.75:
        flags = F_LEGACY_SSL
    elif r < 0.8:
        flags = F_LEGACY_AUTH | rng.choice([0, F_DISABLE_TLS])
    else:
        flags = rng.randrange(256) & ~F_COMPRESS
    if rng.random() < 0.25:
        flags |= F_DISABLE_SM
    if policy:
        flags = rng.randrange(256)          # every flag word, accepted or refused by the API
    flags &= ~F_COMPRESS
    if rng.random() < 0.1 or profile == "compress":
        flags |= F_COMPRESS             # allowed by the user; the scripted server never grants it
    s.force_comp = profile == "compress"
    s.may_compress = bool(flags & F_COMPRESS)
    if profile == "compress":
        flags &= ~(F_LEGACY_SSL | F_MANDATORY_TLS)
    ctype = rng.choice(["c"] * 8 + ["k", "r"])
    jid = rng.choice(["user@example.org/res", "user@example.org", "example.org", "u@example.org/",
                      "a,b=c@example.org/r"] * 4 + ["user@", "user@.example.org/r", "@/r", "."])
    if ctype == "k":
        jid = "comp.example.org"
    pw = rng.choice(["secret", "secret", "secret", "", None])
    if ctype == "k" and (pw is None or rng.random() < 0.9):
        pw = "secret"
    cert = rng.choice([1, 1, 2, 3]) if rng.random() < (0.3 if policy else 0.1) else 0
    ops.append("new %s %s %d %s %d" % (h(jid), "-" if pw is None else h(pw), flags, ctype, cert))
    ctype0 = ctype
    if rng.random() < 0.15:
        ops.append("althost " + h(rng.choice(["127.0.0.1", "xmpp.other.example", "h"])))
    if rng.random() < 0.3:
        ops.append("onconnect 1")
    if rng.random() < 0.6:
        ops.append("uhandlers")
    if rng.random() < 0.3:
        ops.append("smcb")
    cycles = rng.choice([1, 1, 1, 2, 2, 3])
    sm_resumable = False
    for cyc in range(cycles):
        ops.append("wr all")
        if rng.random() < 0.05:
            # a connect call that fails synchronously (any entry point), then life goes on
            ops.append("tcpfail 1")
            ops.append(rng.choice(["connect", "connect", "connect r", "connect c", "connect k"]))
            ops.append("tcpfail 0")
            continue
        if rng.random() < 0.06:
            ops.append("tcperr 1")
        if cyc > 0 and rng.random() < 0.1:
            # another API entry point on the same object
            ctype = rng.choice(["c", "k", "r"])
            ops.append("connect " + ctype)
        else:
            ops.append("connect" if ctype == ctype0 and rng.random() < 0.7 else "connect " + ctype)
        if rng.random() < 0.06:
            ops.append("connect " + rng.choice(["c", "k", "r"]))      # refused: not disconnected
        if rng.random() < 0.03:
            # the application lets go of the object while the attempt is still in progress
            ops += rng.choice([["release"], ["run", "release"], ["run", "run", "release"]])
            return ops
        if rng.random() < 0.1:
            f2 = rng.randrange(256)
            ops.append("setflags %d" % f2)
            if f2 & F_COMPRESS:
                s.may_compress = True
        ops.append("run")
        if rng.random() < 0.08:
            ops += ["tick %d" % rng.choice([4999, 5000, 5001, 6000]), "run", "tcperr 0", "run"]
        ops.append("tcperr 0")
        ops.append("run")
        one_stream(s, rng, flags, ctype, jid, pw, cert, sm_resumable)
        sm_resumable = True
        # end of the cycle
        e = rng.random()
        if e < 0.35:
            ops.append("eof")
        elif e < 0.5:
            ops.append("ioerr")
        elif e < 0.65:
            s.rx("</stream:stream>")
        elif e < 0.8:
            ops += ["udisc", "run", rng.choice(["eof", "tick 2000", "tick 1999"]), "run", "tick 1", "run"]
        elif e < 0.9:
            ops += ["wr err", "usend x", "run", "wr all"]
        ops.append("run")
    if rng.random() < 0.7:
        ops.append("release")
    return ops


def one_stream(s, rng, flags, ctype, jid, pw, cert, sm_resumable):
    ops = s.ops
    dev = rng.random() < 0.3            # inject a deviation somewhere
    dev_at = rng.randrange(0, 12)
    step = [0]

    def deviate(text):
        """maybe replace a server step by something else"""
        step[0] += 1
        if not dev or step[0] != dev_at:
            return text
        k = rng.random()
        if k < 0.15:
            return None                                  # drop
        if k < 0.25:
            return text + text                           # duplicate
        if k < 0.5:
            w = rng.choice(WRONG)(rng)                   # wrong element
            # (a real <compressed/> after a real <compress/> would start a deflated stream, which
            #  this engine cannot read back: engine zl covers compressed streams)
            return "<handshake/>" if ((flags & F_COMPRESS) or getattr(s, "may_compress", False)) and "<compressed" in w else w
        if k < 0.6:
            return text[: rng.randrange(1, max(2, len(text)))]   # truncated (parse trouble later)
        if k < 0.7:
            return "<<garbage&"
        if k < 0.8:
            return "<stream:error><%s xmlns='%s'/><text xmlns='%s'>by<b/>e, bye</text></stream:error>" % (
                rng.choice(["conflict", "host-unknown", "not-well-formed", "xml-not-well-formed", "bogus"]),
                NS_STREAMS_IETF, NS_STREAMS_IETF)
        if k < 0.9:
            return "</stream:stream>"
        return "<stream:error/>"

    def send(text):
        t = deviate(text)
        if t is not None:
            s.rx(t)
        s.client_noise(False)

    if ctype == "r":
        # raw connection: the application drives; feed something anyway
        send(s.header())
        if rng.random() < 0.5:
            # the application starts TLS itself (xmpp_conn_tls_start)
            if rng.random() < 0.3:
                ops.append("tls " + rng.choice(["fail", "nonew"]))
            ops += ["utls", "tls ok", "run"]
        send("<message id='r1'/>")
        return
    if ctype == "k":
        send(s.header(comp=True) if rng.random() < 0.9 else "<?xml version='1.0'?><stream:stream xmlns='jabber:component:accept' xmlns:stream='%s'>" % NS_STREAM)
        send(rng.choice(["<handshake/>", "<handshake/>", "<handshake/>", "<stream:error><not-authorized xmlns='%s'/></stream:error>" % NS_STREAMS_IETF, "<message/>"]))
        traffic(s, rng, False)
        return
    secured = False
    legacy_ssl = bool(flags & F_LEGACY_SSL) and not (flags & F_DISABLE_TLS)
    if legacy_ssl:
        secured = True
    offer_tls = rng.random() < 0.7 and not secured
    mechs = rng.sample(ALL_MECHS, rng.randrange(0, 6))
    if rng.random() < 0.5:
        mechs = rng.choice([["PLAIN"], ["SCRAM-SHA-1", "PLAIN"], ["DIGEST-MD5"], ["SCRAM-SHA-256-PLUS", "SCRAM-SHA-256"],
                            ["ANONYMOUS"], ["EXTERNAL", "PLAIN"], ["EXTERNAL", "PLAIN"], ["PLAIN", "EXTERNAL", "ANONYMOUS"], []])
    if rng.random() < 0.07:
        # the stream header arrives, the features do not (in time): the features time-out decides
        send(s.header())
        ops += ["tick %d" % rng.choice([14999, 15000, 15000, 15001, 20000]), "run", "run"]
        if rng.random() < 0.6:
            send(rng.choice(["<iq type='result' id='_xmpp_auth1'/>", "<iq type='error' id='_xmpp_auth1'/>"]))
        if rng.random() < 0.5:
            send(s.features(starttls=offer_tls, mechs=mechs))          # late features
            ops.append("run")
        traffic(s, rng, False)
        return
    send(s.header() + s.features(starttls=offer_tls, mechs=mechs if rng.random() < 0.9 else None,
                                 unknown=rng.random() < 0.2, required=rng.random() < 0.3))
    if offer_tls and not (flags & F_DISABLE_TLS):
        t = rng.random()
        if t < 0.1:
            ops.append("tls fail")
        elif t < 0.13:
            ops.append("tls nonew")
        send("<proceed xmlns='%s'/>" % NS_TLS if rng.random() < 0.9 else "<failure xmlns='%s'/>" % NS_TLS)
        ops.append("tls ok")
        secured = t >= 0.13
        if rng.random() < 0.5:
            mechs = rng.choice([["PLAIN"], ["SCRAM-SHA-1-PLUS", "SCRAM-SHA-1", "PLAIN"], ["DIGEST-MD5", "PLAIN"],
                                mechs])
        send(s.header() + s.features(mechs=mechs, starttls=rng.random() < 0.05))
    # SASL
    tried = set()
    ok = False
    for attempt in range(4):
        m = predict_mech(mechs, jid, pw is not None, cert, secured, tried)
        if m is None:
            if flags & F_LEGACY_AUTH:
                send(rng.choice(["<iq type='result' id='_xmpp_auth1'/>", "<iq type='error' id='_xmpp_auth1'/>",
                                 "<iq id='_xmpp_auth1'/>"]))
                traffic(s, rng, False)
            return
        tried.add(m)
        def split_text(t):
            # (text delivered as two text nodes around a child element)
            if rng.random() < 0.05 and len(t) > 4:
                k = rng.randrange(1, len(t) - 1)
                return t[:k] + "<x/>" + t[k:]
            return t
        if m.startswith("SCRAM"):
            send("<challenge xmlns='%s'>%s</challenge>" % (NS_SASL, split_text(scram_challenge(rng))))
        elif m == "DIGEST-MD5":
            send("<challenge xmlns='%s'>%s</challenge>" % (NS_SASL, split_text(digest_challenge(rng))))
            if rng.random() < 0.7:
                send("<challenge xmlns='%s'>cnNwYXV0aD1hYmM=</challenge>" % NS_SASL)
        if rng.random() < 0.75:
            send("<success xmlns='%s'/>" % NS_SASL)
            ok = True
            break
        send("<failure xmlns='%s'><not-authorized/></failure>" % NS_SASL)
    if not ok:
        return
    # post-auth stream
    want_sm = rng.random() < 0.7
    sess = rng.choice([None, None, "required", "optional"])
    comp = rng.choice([None, None, None, ["zlib"], ["zlib"], ["lzw"], ["lzw", "zlib"], []])
    if getattr(s, "force_comp", False) and rng.random() < 0.85:
        comp = rng.choice([["zlib"], ["zlib"], ["lzw", "zlib"]])
    send(s.header() + s.features(bind=rng.random() < 0.93, session=sess, sm=want_sm, unknown=rng.random() < 0.1,
                                 compression=comp))
    if (flags & F_COMPRESS) and comp and "zlib" in comp:
        # the client asks for compression; this server never grants it (a compressed stream is
        # engine `zl`'s subject): the negotiation must not go on as if it had
        send(rng.choice(["<failure xmlns='http://jabber.org/protocol/compress'><setup-failed/></failure>",
                         "<failure xmlns='http://jabber.org/protocol/compress'><unsupported-method/></failure>",
                         "<failure xmlns='http://jabber.org/protocol/compress'/>"]))
        ops.append("run")
        if rng.random() < 0.5:
            # the features did arrive: their time-out must not fire any more
            ops += ["tick %d" % rng.choice([14999, 15000, 15001, 30000]), "run", "run"]
        traffic(s, rng, False)
        return
    sm_on = want_sm and not (flags & F_DISABLE_SM)
    if sm_resumable and sm_on and rng.random() < 0.8:
        r = rng.random()
        hval = rng.choice(["0", "1", "2", "3", "5", "abc", "-1", "99999999999999999999999", ""])
        if r < 0.55:
            send("<resumed xmlns='%s' previd='%s' h='%s'/>" % (NS_SM, rng.choice(["sm1", "sm1", "other"]), hval))
            traffic(s, rng, True)
            return
        if r < 0.85:
            send("<failed xmlns='%s'%s><%s xmlns='%s'/></failed>" % (
                NS_SM, rng.choice(["", " h='%s'" % hval]),
                rng.choice(["item-not-found", "item-not-found", "feature-not-implemented", "unexpected-request"]), NS_STANZAS))
        else:
            send("<failed xmlns='%s'/>" % NS_SM)
    send(rng.choice(["<iq type='result' id='_xmpp_bind1'><bind xmlns='%s'><jid>user@example.org/res</jid></bind></iq>" % NS_BIND] * 6 +
                    ["<iq type='result' id='_xmpp_bind1'><bind xmlns='%s'><jid>user@exa<x/>mple.org/res</jid></bind></iq>" % NS_BIND] +
                    ["<iq type='result' id='_xmpp_bind1'/>", "<iq type='error' id='_xmpp_bind1'/>", "<iq id='_xmpp_bind1'/>"]))
    if sess == "required" or (sess is not None and rng.random() < 0.3):
        send(rng.choice(["<iq type='result' id='_xmpp_session1'/>"] * 5 + ["<iq type='error' id='_xmpp_session1'/>"]))
    if sm_on:
        send(rng.choice(["<enabled xmlns='%s' id='sm1' resume='true'/>" % NS_SM] * 5 +
                        ["<enabled xmlns='%s'/>" % NS_SM, "<enabled xmlns='%s' resume='1'/>" % NS_SM,
                         "<failed xmlns='%s'><unexpected-request xmlns='%s'/></failed>" % (NS_SM, NS_STANZAS)]))
    traffic(s, rng, sm_on)


def conforming_login(s, rng, sm=True, resume=None, bind_jid="user@example.org/res"):
    """a conforming PLAIN login up to CONNECT (or to the <resume/> answer when `resume` is given)"""
    s.rx(s.header() + s.features(mechs=["PLAIN"]))
    s.rx("<success xmlns='%s'/>" % NS_SASL)
    # (a server that offers resumption but no <bind/> when a resumption is expected: rare, allowed)
    s.rx(s.header() + s.features(bind=not (resume is not None and rng.random() < 0.15), sm=sm,
                                 session=rng.choice([None, None, "optional"])))
    if resume is not None:
        s.rx(resume)
        if "<resumed" in resume:
            return
    s.rx("<iq type='result' id='_xmpp_bind1'><bind xmlns='%s'><jid>%s</jid></bind></iq>" % (NS_BIND, bind_jid))
    if sm:
        s.rx("<enabled xmlns='%s' id='sm1' resume='true'/>" % NS_SM)


def sm_traffic(s, rng, n, server):
    """traffic with an honest server that counts what it receives; `server` = dict(h_in, sent)"""
    ops = s.ops
    for _ in range(n):
        k = rng.random()
        if k < 0.28:
            ops.append("usend m%d" % server["next_id"])
            server["next_id"] += 1
            if rng.random() < 0.7:
                ops.append("run")
        elif k < 0.45:
            s.rx(rng.choice(["<message id='i%d' from='a@b'><body>hi</body></message>", "<presence id='i%d'/>",
                             "<iq id='i%d' type='get'><ping xmlns='urn:xmpp:ping'/></iq>"]) % rng.randrange(1000))
        elif k < 0.58:
            s.rx("<r xmlns='%s'/>" % NS_SM)
        elif k < 0.72:
            s.rx("<a xmlns='%s' h='%s'/>" % (NS_SM, rng.choice(["0", "1", "1", "2", "2", "3", "4", "5", "7", "x", "-1"])))
        elif k < 0.8:
            ops.append("wr " + rng.choice(["again", "all,again", "all,all,again", "-"]))
            ops.append("run")
            if rng.random() < 0.6:
                ops.append("wr all")
        elif k < 0.86:
            ops += ["wr all", "run"]
        elif k < 0.9:
            ops += ["tick %d" % rng.choice([999, 1000, 1001, 3000]), "run"]
        else:
            ops.append("run")


def gen_sm_session(rng):
    """stream-management histories: login, traffic, loss, reconnect with resumed / failed / plain bind"""
    s = Scenario(rng)
    ops = s.ops
    flags = rng.choice([0, 0, 0, F_DISABLE_TLS, F_DISABLE_SM])
    ops.append("new %s %s %d c 0" % (h(rng.choice(["user@example.org/res", "user@example.org"])), h("secret"), flags))
    if rng.random() < 0.7:
        ops.append("uhandlers")
    if rng.random() < 0.5:
        ops.append("smcb")
    if rng.random() < 0.5:
        ops.append("onconnect 1")
    server = {"next_id": 0}
    first = True
    for cyc in range(rng.choice([1, 2, 2, 3, 3, 4, 6])):
        ops += ["wr all", "connect", "run", "run"]
        if first:
            conforming_login(s, rng, sm=rng.random() < 0.95)
        else:
            r = rng.random()
            hval = rng.choice(["0", "1", "2", "2", "3", "4", "5", "abc", "-1", "99999999999999999999999"])
            if r < 0.55:
                conforming_login(s, rng, resume="<resumed xmlns='%s' previd='%s' h='%s'/>" % (
                    NS_SM, rng.choice(["sm1"] * 6 + ["other"]), hval))
            elif r < 0.85:
                conforming_login(s, rng, resume="<failed xmlns='%s'%s><%s xmlns='%s'/></failed>" % (
                    NS_SM, rng.choice(["", " h='%s'" % hval]),
                    rng.choice(["item-not-found", "item-not-found", "feature-not-implemented"]), NS_STANZAS))
            else:
                conforming_login(s, rng, sm=rng.random() < 0.8)
        first = False
        ops.append("run")
        sm_traffic(s, rng, rng.randrange(2, 14), server)
        e = rng.random()
        if e < 0.6:
            ops.append("eof")
        elif e < 0.75:
            ops.append("ioerr")
        elif e < 0.85:
            ops += ["wr err", "usend z%d" % cyc, "run", "wr all"]
        elif e < 0.93:
            s.rx("</stream:stream>")
        else:
            ops += ["udisc", "run", "eof"]
        ops.append("run")
    if rng.random() < 0.6:
        ops.append("release")
    return ops


def scram_challenge(rng):
    k = rng.random()
    salt = base64.b64encode(rbytes(rng, rng.choice([0, 1, 8, 16, 124, 125, 200]))).decode()
    if k < 0.7:
        txt = "r=%s,s=%s,i=%d" % ("abcdef", salt, rng.choice([1, 2, 4096]))
    elif k < 0.78:
        txt = "r=abc,i=4096"
    elif k < 0.84:
        txt = "s=%s,i=1" % salt
    elif k < 0.9:
        txt = "r=abc,s=%%%%,i=1"
    elif k < 0.95:
        txt = "r=abc,s=,i=1"
    else:
        txt = "r=a\0b,s=%s,i=1" % salt
    b = base64.b64encode(txt.encode()).decode()
    if rng.random() < 0.08:
        b = rng.choice(["", "!!!!", b[:-1], "AA==AAAA"])
    return b


def digest_challenge(rng):
    k = rng.random()
    if k < 0.6:
        txt = 'realm="example.org",nonce="OA6MG9tEQGm2hh",qop="auth",charset=utf-8,algorithm=md5-sess'
    elif k < 0.7:
        txt = 'realm="x",qop="auth"'
    elif k < 0.8:
        txt = 'nonce="a\\"b",realm="r\\\\q"'
    elif k < 0.84:
        txt = rng.choice(['realm="localhost",nonce="abc\\', 'nonce="abc', 'nonce="abc\\"', 'nonce="a",realm=\\',
                          'nonce="a",qop="auth\\'])
    elif k < 0.9:
        txt = ""
    else:
        txt = "nonce=abc"
    b = base64.b64encode(txt.encode()).decode()
    if rng.random() < 0.1:
        b = rng.choice(["", "%%%", b + "="])
    return b


def traffic(s, rng, sm_on):
    ops = s.ops
    n = rng.randrange(0, 10)
    for _ in range(n):
        k = rng.random()
        if k < 0.3:
            s.rx(rng.choice(["<message id='i%d' from='a@b'><body>hi</body></message>",
                             "<presence id='i%d'/>", "<iq id='i%d' type='get'><ping xmlns='urn:xmpp:ping'/></iq>",
                             "<foo xmlns='urn:x' id='i%d'/>", "<iq type='result' id='uid1'><q n='%d'/></iq>"])
                 % rng.randrange(1000))
        elif k < 0.33:
            s.rx(rng.choice(["<success xmlns='%s'/>" % NS_SASL, "<failure xmlns='%s'><not-authorized/></failure>" % NS_SASL,
                             "<challenge xmlns='%s'>cnNwYXV0aD1hYmM=</challenge>" % NS_SASL,
                             "<proceed xmlns='%s'/>" % NS_TLS]))
        elif k < 0.36:
            # more than one read buffer (4096 bytes) in one piece
            n = rng.choice([4000, 4095, 4096, 4097, 5000, 8192, 9000])
            ops.append("rx " + hx(("<message id='big'><body>%s</body></message>" % ("x" * n)).encode()))
            ops.append("run")
        elif k < 0.42:
            s.rx("<r xmlns='%s'/>" % NS_SM)
        elif k < 0.54:
            s.rx("<a xmlns='%s' h='%s'/>" % (NS_SM, rng.choice(["0", "1", "2", "3", "4", "10", "x", "-1", ""])))
        elif k < 0.58:
            s.rx("<a xmlns='%s'/>" % NS_SM)
        elif k < 0.75:
            ops.append("usend m%d" % rng.randrange(100))
            if rng.random() < 0.6:
                ops.append("run")
        elif k < 0.8:
            ops.append("uraw " + h("<presence id='p%d'/>" % rng.randrange(100)))
        elif k < 0.85:
            ops.append("wr " + rng.choice(["again", "all,again", "all,all,again", "-"]))
            ops.append("run")
            ops.append("wr all")
        elif k < 0.9:
            ops += ["tick %d" % rng.choice([999, 1000, 1001, 3000]), "run"]
        elif k < 0.93:
            s.rx("<enabled xmlns='%s' id='late'/>" % NS_SM)
        elif k < 0.96:
            s.rx("<stream:error><conflict xmlns='%s'/></stream:error>" % NS_STREAMS_IETF)
        else:
            ops.append("run")


WRONG = [
    lambda r: "<iq type='error' id='uid1'/>",            # matches the application's id handler
    lambda r: "<message id='uid1'><x xmlns='%s'/></message>" % NS_SM,
    lambda r: "<success xmlns='%s'/>" % NS_SASL,
    lambda r: "<failure xmlns='%s'/>" % NS_SASL,
    lambda r: "<challenge xmlns='%s'/>" % NS_SASL,
    lambda r: "<challenge xmlns='%s'>AAAA</challenge>" % NS_SASL,
    lambda r: "<proceed xmlns='%s'/>" % NS_TLS,
    lambda r: "<iq type='result' id='_xmpp_bind1'/>",
    lambda r: "<iq type='result' id='_xmpp_session1'/>",
    lambda r: "<iq type='result' id='_xmpp_auth1'/>",
    lambda r: "<enabled xmlns='%s' id='z' resume='true'/>" % NS_SM,
    lambda r: "<resumed xmlns='%s' previd='sm1' h='1'/>" % NS_SM,
    lambda r: "<failed xmlns='%s'><item-not-found xmlns='%s'/></failed>" % (NS_SM, NS_STANZAS),
    lambda r: "<stream:features/>",
    lambda r: "<stream:features><bind xmlns='%s'/></stream:features>" % NS_BIND,
    lambda r: "<handshake/>",
    lambda r: "<message id='w'/>",
    lambda r: "<r xmlns='%s'/>" % NS_SM,
    lambda r: "<a xmlns='%s' h='5'/>" % NS_SM,
    lambda r: "<compressed xmlns='http://jabber.org/protocol/compress'/>",
]


def lean_input(ops, extras):
    """annotated trace for the model: the parser events the real code saw, before each op"""
    out = []
    for op, ex in zip(ops, extras):
        out += [e for e in ex if e.startswith("pe ")]
        out.append(op)
    return out
