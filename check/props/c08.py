"""C08 — a TLS session is only trusted if the certificate verifies or the user said so.
Engine `tls` (stateful, recorded-parameter replay).

Implementation side: harness/eng_tls.c = the real tls_openssl.c / tls.c / conn.c / auth.c / event.c /
sock.c against an in-process OpenSSL server (SSL_accept on the other end of a socketpair) that
presents a certificate chain built for the case.  Model side: Strophe/Model/TlsTrust.lean driven by
Strophe/Drv/Tls.lean, which consumes the ops annotated with what the real OpenSSL reported
(`lean_input`: `vf` = verification events under accept-all, `hr` = error class of the handshake).

The oracle below is independent of both the model and OpenSSL's report: the generator KNOWS whether
the certificate it describes chains to the configured anchor, is inside its validity period and
names the domain (its own RFC 6125 matcher), and states the property from that ground truth.  This
is what catches a library that configures OpenSSL wrongly (the model takes OpenSSL's report as
input, the oracle does not)."""
from .common import hx, unhx, load_corpus

ID = "C08"
ENGINE = "tls"
# companion pass: the trust flag must read back as set / not set (flag words through the public API, engine conn, C02's policy profile)
ALSO = [("c02", 300)]
VARIANT = "std"
STATEFUL = True
LEVEL = "proof"
FILES = ["tls_openssl.c", "tls.c", "conn.c", "auth.c"]
TRUSTED = ["model Strophe/Model/TlsTrust.lean (policy wiring above OpenSSL: tls_new's verification configuration, "
           "_tls_verify, tls_start, conn_tls_start, xmpp_conn_is_secured, the callers' reaction to a failed "
           "handshake, the write pass) tied to the real code by differential execution (engine tls) against an "
           "in-process OpenSSL server with per-case certificate chains",
           "OpenSSL itself (X.509 path validation, validity periods, host-name matching, the record layer) is a "
           "parameter under the named hypotheses Spec/OpenSsl.lean HOpenSsl; every clause is checked on every "
           "recorded run (harness: ORACLE-FAIL hyp-openssl; driver: good= / hyp-openssl-violated) and the "
           "meaning clause independently by this module's RFC 6125 matcher",
           "extract/gen_tls.py: verify modes, callback names, host flags, pinned expression, return codes and the "
           "failure-branch assignments of conn_tls_start are read from the sources and pinned in Props/C08.lean"]
ASSUMPTIONS = ["H-openssl (Spec.OpenSsl.HOpenSsl): callback invoked per verification event in order until one is "
               "answered 0; VERIFY_PEER handshake succeeds iff the peer completes and nothing was answered 0; "
               "VERIFY_NONE iff the peer completes; no failure event iff chain reaches a configured anchor, all "
               "certificates inside validity, leaf names the pinned host (full-label wildcards only)",
               "a certfail handler answers 0 or a positive number (negative answers are passed to OpenSSL as they "
               "are; OpenSSL's reaction to them depends on the verification step)",
               "the scripted server completes its side of the handshake whenever the client does (srv=ok), or never "
               "presents a certificate (srv=close / garbage); a server that stops answering is not modelled "
               "(tls_start has no time-out of its own)",
               "allocation failures are not modelled; client certificates are not used"]
RULE = ("cases = full product {certificate kind (valid exact / wildcard / CN-only / via intermediate; wrong name; "
        "partial wildcards f*. and *oo.; wildcard for apex, for two levels, for a TLD; NUL in SAN / CN; xmppAddr "
        "only; expired; not yet valid; unknown issuer sent / not sent; intermediate missing / not a CA / expired; "
        "self-signed; several failures at once)} x {trust flag, no callback, accept all, reject all, accept first k, "
        "reject the j-th, answer 2} x {STARTTLS, legacy SSL, xmpp_conn_tls_start on a raw connection} x {CA file, "
        "none} every run, plus CA directory / default store from the environment / other root / missing file, "
        "histories (earlier xmpp_conn_set_flags words incl. refused ones, earlier certfail handlers set and "
        "cleared, earlier rounds on the same connection object ended by failure or conn_disconnect), "
        "domains in several spellings (case, sub-domain, IDN A-label, IP literal, empty, leading dot), presented "
        "identifiers fuzzed around the domain (case, wildcards in every position, partial / double / inner "
        "wildcards, bad labels, trailing / leading dots, NUL, one-byte changes), server that closes, answers "
        "garbage or never answers, TLS disabled; followed by gated / ungated user sends and clock ticks; distinct = "
        "tag (path, trust, callback class, CA mode, server mode, ground truth, kind, outcome shape)")


def corpus():
    return load_corpus(ID)


# ---------------------------------------------------------------------------------------------
# ground truth: an RFC 6125 matcher written for this oracle (full-label wildcards only)

def _ldh(c):
    return (48 <= c <= 57) or (65 <= c <= 90) or (97 <= c <= 122) or c == 45


def _good_label(l):
    return len(l) > 0 and all(_ldh(c) for c in l) and l[0] != 45 and l[-1] != 45


def names_host(pat, host):
    """does the presented identifier `pat` name the reference identifier `host`?"""
    if b"\0" in pat or not host:
        return False
    if pat.lower() == host.lower():
        return True
    pl, hl = pat.split(b"."), host.split(b".")
    if pl[0] != b"*" or len(pl) < 3 or len(pl) != len(hl):
        return False
    if not all(_good_label(x) for x in pl[1:]) or not _good_label(hl[0]):
        return False
    return all(a.lower() == b.lower() for a, b in zip(pl[1:], hl[1:]))


class Desc:
    """parsed `cfg` op"""

    def __init__(self, op):
        kv = dict(t.split("=", 1) for t in op.split(" ")[1:])
        self.domain = unhx(kv["dom"])
        self.path = kv["path"]
        # every word is one xmpp_conn_set_flags call; a word with DISABLE_TLS (1) and TRUST_TLS (8) or
        # LEGACY_SSL (4, added by path l) is refused.  What counts is what the user said LAST.
        self.flag_words = [int(x) for x in kv.get("flags", "0").split(",")]
        add = 4 if self.path == "l" else 0
        self.flags_refused = bool((self.flag_words[-1] | add) & 1) and bool((self.flag_words[-1] | add) & (2 | 4 | 8))
        self.flags = self.flag_words[-1]
        self.trust = bool(self.flags & 8)
        self.disabled = bool(self.flags & 1)
        # one xmpp_conn_set_certfail_handler call per entry: the last decides whether a handler is
        # installed, the last entry that is not `none` how it answers
        cbs = kv.get("cb", "none").split(",")
        self.cb = "none" if cbs[-1] == "none" else cbs[-1]
        self.ca = kv.get("ca", "none")
        self.srv = kv.get("srv", "ok")
        iss, nb, na, cn, sans = kv["leaf"].split(";")
        self.iss, self.nb, self.na = iss, int(nb), int(na)
        self.cn = unhx(cn)
        self.dns = [unhx(t[2:]) for t in sans.split(",") if t.startswith("d:")] if sans != "-" else []
        self.inter = None
        if "inter" in kv:
            a, b, c = kv["inter"].split(";")
            self.inter = (int(a), int(b), c != "0")

    def refused(self):
        return self.domain == b"" or self.domain.startswith(b".")

    def chains(self):
        anchored = self.ca in ("file", "path", "env")
        if self.iss == "root":
            return anchored
        if self.iss == "inter":
            return anchored and (self.inter is None or self.inter[2])
        return False

    def in_validity(self):
        ok = self.nb <= 0 < self.na
        if self.iss == "inter" and self.inter is not None:
            ok = ok and self.inter[0] <= 0 < self.inter[1]
        return ok

    def names(self):
        presented = self.dns if self.dns else ([self.cn] if self.cn is not None else [])
        return any(names_host(p, self.domain) for p in presented)

    def good(self):
        return self.chains() and self.in_validity() and self.names()


# ---------------------------------------------------------------------------------------------
# generation

def leaf(iss, nb, na, cn, sans):
    return "%s;%d;%d;%s;%s" % (iss, nb, na, hx(cn) if cn is not None else "-",
                               ",".join("%s:%s" % (k, hx(v)) for k, v in sans) if sans else "-")


def parent(dom):
    return dom.split(b".", 1)[1] if b"." in dom else dom


def kinds(dom):
    """certificate kinds for a domain: name -> (leaf description, inter description or None)"""
    par = parent(dom)
    first = dom.split(b".")[0]
    wrong = b"other.example.com"
    k = {
        "valid": (leaf("root", -1, 365, dom, [("d", dom)]), None),
        "valid-multi-san": (leaf("root", -1, 365, b"irrelevant", [("d", wrong), ("d", dom), ("x", dom)]), None),
        "valid-cn-only": (leaf("root", -1, 365, dom, []), None),
        "valid-inter": (leaf("inter", -1, 365, dom, [("d", dom)]), "-10;3000;1"),
        "wrong-name": (leaf("root", -1, 365, wrong, [("d", wrong)]), None),
        "cn-matches-san-does-not": (leaf("root", -1, 365, dom, [("d", wrong)]), None),
        "nul-in-san": (leaf("root", -1, 365, None, [("d", dom + b"\0.evil.example")]), None),
        "nul-in-cn": (leaf("root", -1, 365, dom + b"\0.evil.example", []), None),
        "xmppaddr-only": (leaf("root", -1, 365, None, [("x", dom)]), None),
        "expired": (leaf("root", -30, -1, dom, [("d", dom)]), None),
        "not-yet-valid": (leaf("root", 1, 365, dom, [("d", dom)]), None),
        "unknown-issuer": (leaf("unk", -1, 365, dom, [("d", dom)]), None),
        "unknown-issuer-sent": (leaf("unkc", -1, 365, dom, [("d", dom)]), None),
        "inter-missing": (leaf("interx", -1, 365, dom, [("d", dom)]), "-10;3000;1"),
        "inter-not-ca": (leaf("inter", -1, 365, dom, [("d", dom)]), "-10;3000;0"),
        "inter-expired": (leaf("inter", -1, 365, dom, [("d", dom)]), "-100;-1;1"),
        "self-signed": (leaf("self", -1, 365, dom, [("d", dom)]), None),
        "expired-wrong-unknown": (leaf("unk", -30, -1, wrong, [("d", wrong)]), None),
        "expired-wrong-inter-expired": (leaf("inter", -30, -1, wrong, [("d", wrong)]), "-100;-1;0"),
    }
    if dom.count(b".") >= 2 and _good_label(first):
        k["valid-wildcard"] = (leaf("root", -1, 365, None, [("d", b"*." + par)]), None)
        k["partial-wildcard-prefix"] = (leaf("root", -1, 365, None, [("d", first[:1] + b"*." + par)]), None)
        k["partial-wildcard-suffix"] = (leaf("root", -1, 365, None, [("d", b"*" + first[1:] + b"." + par)]), None)
        k["wildcard-inner"] = (leaf("root", -1, 365, None, [("d", first + b".*." + parent(par))]), None)
    else:
        k["wildcard-for-apex"] = (leaf("root", -1, 365, None, [("d", b"*." + dom)]), None)
        k["wildcard-tld"] = (leaf("root", -1, 365, None, [("d", b"*." + parent(dom))]), None)
    k["wildcard-two-levels"] = (leaf("root", -1, 365, None, [("d", b"*." + parent(par))]), None)
    return k


PROPERTY_KINDS = ["valid", "wrong-name", "partial-wildcard-prefix", "expired", "not-yet-valid", "unknown-issuer",
                  "self-signed"]
CB_ALL = ["trust", "none", "acc", "rej", "k1", "r0", "r1", "v2"]
DOMAINS = [b"foo.example.org", b"example.org", b"Foo.EXAMPLE.org", b"a.b.example.org",
           b"xn--bcher-kva.example.org", b"192.0.2.1", b"xmpp-1.example.org"]


def fuzz_pattern(rng, dom):
    """a presented identifier in the neighbourhood of `dom`"""
    labs = dom.split(b".")
    first, par = labs[0], parent(dom)
    pp = parent(par)

    def recase(b):
        return bytes((c ^ 32) if (65 <= c <= 90 or 97 <= c <= 122) and rng.random() < 0.5 else c for c in b)

    k = rng.randrange(24)
    if k == 0:
        return dom
    if k == 1:
        return recase(dom)
    if k == 2:
        return b"*." + par
    if k == 3:
        return b"*." + recase(par)
    if k == 4:
        return b"*." + dom
    if k == 5:
        return b"*." + pp
    if k == 6:
        c = rng.randrange(0, len(first) + 1)
        return first[:c] + b"*" + b"." + par
    if k == 7:
        c = rng.randrange(0, len(first) + 1)
        return b"*" + first[c:] + b"." + par
    if k == 8:
        return b"*.*." + pp
    if k == 9:
        return b"**." + par
    if k == 10:
        return dom + b"."
    if k == 11:
        return b"." + dom
    if k == 12:
        return par
    if k == 13:
        i = rng.randrange(len(dom))
        return dom[:i] + bytes([dom[i] ^ 1]) + dom[i + 1:]
    if k == 14:
        return dom + b"\0" + rng.choice([b"", b".evil.example"])
    if k == 15:
        return first + b".*." + pp
    if k == 16:
        bad = rng.choice([b"_x", b"-x", b"x-", b"", b"x_y", b"x y"])
        return b"*." + b".".join([bad] + par.split(b".")[1:])
    if k == 17:
        return b""
    if k == 18:
        return b"sub." + dom
    if k == 19:
        return b"*"
    if k == 20:
        return b"*." + par + b"."
    if k == 21:
        return rng.choice([b"*.org", b"*.example", b"*.2.1"])
    if k == 22:
        return b"*." + par.split(b".")[0] + b"x." + b".".join(par.split(b".")[1:])
    return b"other.example.com"


def fuzz_case(rng):
    dom = rng.choice(DOMAINS + [b"localhost", b"a-b.c-d.example.org", b"7.example.org", b"x.y.z.example.org"])
    sans = [("d", fuzz_pattern(rng, dom)) for _ in range(rng.choice([0, 1, 1, 1, 2, 3]))]
    if rng.random() < 0.2:
        sans.append(rng.choice([("x", dom), ("i", bytes([192, 0, 2, 1]))]))
    cn = fuzz_pattern(rng, dom) if rng.random() < 0.6 else None
    lf = leaf("root", -1, 365, cn, sans)
    cbm = rng.choice(["none", "none", "rej", "acc"])
    return ["cfg dom=%s path=%s flags=0 cb=%s ca=file srv=ok leaf=%s" % (hx(dom), rng.choice(["l", "l", "s", "d"]), cbm, lf),
            "start", "end"]


def mk_case(dom, kind_name, cbmode, path, ca, srv="ok", disabled=False, follow=None, history=None):
    lf, inter = kinds(dom)[kind_name]
    flags = str((8 if cbmode == "trust" else 0) | (1 if disabled else 0))
    cb = "none" if cbmode == "trust" else cbmode
    if history:
        flags = history[0] + flags
        cb = history[1] + cb
    op = "cfg dom=%s path=%s flags=%s cb=%s ca=%s srv=%s leaf=%s" % (hx(dom), path, flags, cb, ca, srv, lf)
    if inter:
        op += " inter=" + inter
    return ["#kind " + kind_name, op, "start"] + list(follow or []) + ["end"]


def follow_ups(rng):
    r = rng.random()
    if r < 0.3:
        return []
    pool = ["probe", "probe raw", "tick 100", "tick 2100", "probe", "tick 3000"]
    return [rng.choice(pool) for _ in range(rng.randrange(1, 4))]


def strip_comments(case):
    return [l for l in case if not l.startswith("#")]


def generate(rng, tier, override=0):
    cases = []
    # (1) the property's own table, every run: 7 kinds x {trust, none, acc, rej} x {s, l} x {file, none}
    #     on the domain where every kind exists, + the raw path
    dom = DOMAINS[0]
    for kind in PROPERTY_KINDS:
        for cbm in ("trust", "none", "acc", "rej"):
            for path in ("s", "l", "d"):
                for ca in ("file", "none"):
                    cases.append(mk_case(dom, kind, cbm, path, ca, follow=follow_ups(rng)))
    if override:
        rng.shuffle(cases)
        return [strip_comments(c) for c in cases[:override]]
    # (2) every certificate kind x every callback mode x every path x {file, none}
    allkinds = sorted(set(kinds(DOMAINS[0])) | set(kinds(DOMAINS[1])))
    n_doms = len(DOMAINS)
    i = 0
    for kind in allkinds:
        for cbm in CB_ALL:
            for path in ("s", "l", "d"):
                for ca in ("file", "none"):
                    if kind in PROPERTY_KINDS and cbm in ("trust", "none", "acc", "rej"):
                        continue
                    d = DOMAINS[0] if kind in kinds(DOMAINS[0]) else DOMAINS[1]
                    if tier == "quick" and (i % 3) != rng.randrange(3) and cbm in ("k1", "r1", "v2"):
                        i += 1
                        continue
                    i += 1
                    cases.append(mk_case(d, kind, cbm, path, ca, follow=follow_ups(rng)))
    # (3) random cells: other domains, other CA modes, broken servers, TLS disabled, callback indices
    n = 250 if tier == "quick" else 4000
    for _ in range(n):
        d = rng.choice(DOMAINS)
        kk = kinds(d)
        kind = rng.choice(sorted(kk))
        cbm = rng.choice(CB_ALL + ["k0", "k2", "k3", "r2", "r3", "v7"])
        path = rng.choice(["s", "l", "d"])
        ca = rng.choice(["file", "file", "none", "path", "env", "other", "missing"])
        srv = rng.choice(["ok"] * 12 + ["close", "garbage", "mute"])
        disabled = path != "l" and cbm != "trust" and rng.random() < 0.05
        cases.append(mk_case(d, kind, cbm, path, ca, srv, disabled, follow_ups(rng)))
    # (3a) what the user said LAST counts: earlier xmpp_conn_set_flags / set_certfail_handler calls, and
    #      earlier rounds on the same connection object (reconnect after a failed or dropped attempt)
    for _ in range(150 if tier == "quick" else 2500):
        d = rng.choice(DOMAINS[:4])
        kk = kinds(d)
        rounds = []
        prev_ca = None
        for r in range(rng.choice([1, 2, 2, 3])):
            kind = rng.choice(sorted(kk))
            cbm = rng.choice(CB_ALL)
            path = rng.choice(["s", "l", "d"])
            # CA file and CA directory are separate, cumulative settings that cannot be taken back:
            # every round of a case uses the same one
            ca = prev_ca or rng.choice(["file", "file", "none", "path", "other"])
            prev_ca = ca
            hist = (rng.choice(["", "8,", "0,", "8,0,", "9,", "8,9,", "1,"] if path != "l" else ["", "8,", "0,", "8,0,", "1,", "9,"]),
                    rng.choice(["", "acc,", "rej,", "acc,none,", "none,", "k1,"]))
            c = mk_case(d, kind, cbm, path, ca, follow=follow_ups(rng), history=hist)[:-1]
            rounds += c + ["drop"]
        cases.append(rounds + ["end"])
    # (3b) presented identifiers in the neighbourhood of the domain: OpenSSL's matcher, the Lean
    #      specification `namesHost` and this module's matcher must agree on every one
    for _ in range(400 if tier == "quick" else 6000):
        cases.append(fuzz_case(rng))
    # (4) domains the connect must refuse
    for d in (b"", b".example.org", b".foo.example.org"):
        for path in ("s", "l", "d"):
            lf = leaf("root", -1, 365, b"evil.example.org", [("d", b"evil.example.org")])
            cases.append(["cfg dom=%s path=%s flags=0 cb=none ca=file srv=ok leaf=%s" % (hx(d), path, lf), "start",
                          "probe raw", "end"])
    return [strip_comments(c) for c in cases]


# ---------------------------------------------------------------------------------------------
# annotated trace for the model

def lean_input(ops, extras_per_op):
    lines = []
    for op, extras in zip(ops, extras_per_op):
        if op == "start":
            lines += [e for e in extras if e.startswith("vf ") or e.startswith("hr ")]
        lines.append(op)
    return lines


# ---------------------------------------------------------------------------------------------
# model-free oracle

def fields(out):
    d = {}
    for t in out.split(" ")[2:]:
        if "=" in t:
            k, v = t.split("=", 1)
            d[k] = v
    return d


def lst(v):
    return [] if v in ("-", "") else v.split(",")


def py_oracle_ex(ops, outs, extras):  # noqa: C901
    fails = []
    seen = set()

    def fail(i, kind, msg):
        if kind not in seen:
            seen.add(kind)
            fails.append((i, "%s %s" % (kind, msg)))

    d = None
    attempted = False      # a handshake was run
    failed_attempt = False  # conn_tls_start was reached and did not succeed
    trusted_session = False
    clear_all, enc_all, evs_all = [], [], []
    started = False
    for i, (op, out) in enumerate(zip(ops, outs)):
        t = op.split(" ")
        if t[0] == "cfg":
            if out != "= cfg ok":
                d = None
                continue
            d = Desc(op)
            # a new round (possibly on the same connection object)
            attempted = failed_attempt = trusted_session = False
            clear_all, enc_all, evs_all = [], [], []
            continue
        if d is None:
            continue
        if t[0] == "start":
            started = True
            if out.startswith("= start connect-failed"):
                if not d.refused():
                    fail(i, "connect-failed", "a usable domain was refused: %s" % out)
                continue
            if out == "= start bad-flags":
                if not d.flags_refused:
                    fail(i, "flags-refused", "xmpp_conn_set_flags refused %s" % d.flag_words)
                continue
            if d.flags_refused:
                fail(i, "flags-accepted", "xmpp_conn_set_flags accepted conflicting flags %s" % d.flag_words)
                continue
            if not out.startswith("= start att="):
                fail(i, "start-shape", out[:120])
                continue
            if d.refused():
                fail(i, "host-not-pinned", "domain %r is empty or starts with a dot, the connection was started "
                     "anyway: %s" % (d.domain, out[:200]))
            f = fields(out)
            sec = f["sec"] == "1"
            hs = f["hs"]
            attempted = hs != "-"
            good = d.good()
            uh = [tuple(int(x) for x in e.split(":")) for e in lst(f["uh"])]
            calls = [tuple(int(x) for x in e.split(":")) for e in lst(f["calls"])]
            vf = []
            for e in extras[i]:
                if e.startswith("vf ") and e != "vf -":
                    vf = [tuple(int(x) for x in c.split(":")) for c in e[3:].split(",")]
            reported_failures = [c for c in vf if c[0] == 0]
            accepted_each = (d.cb != "none" and not d.trust and len(uh) == len(reported_failures)
                             and all(a[2] != 0 for a in uh))
            trusted_session = good or d.trust or (accepted_each and len(uh) > 0)
            # reached conn_tls_start and it did not succeed
            reached = f["att"] != "0" and (d.path != "s" or "starttls" in lst(f["clear"]))
            failed_attempt = reached and not (hs == "1")
            # P1 soundness
            if sec and not trusted_session:
                fail(i, "secured-untrusted", "secured although the certificate is not good for %r (chains=%s "
                     "validity=%s names=%s), no trust flag, handler answers %s for %d reported failure(s)"
                     % (d.domain, d.chains(), d.in_validity(), d.names(), [a[2] for a in uh],
                        len(reported_failures)))
            if hs == "1" and not trusted_session:
                fail(i, "handshake-untrusted", "handshake completed with an untrusted certificate")
            # P2 no callback, bad certificate
            if not good and not d.trust and d.cb == "none" and attempted and (sec or hs == "1"):
                fail(i, "no-callback-accepted", "bad certificate, no callback, yet hs=%s sec=%s" % (hs, f["sec"]))
            # P3 one rejection aborts
            if any(a[2] == 0 for a in uh) and (sec or hs == "1"):
                fail(i, "rejected-but-connected", "the handler answered 0, yet hs=%s sec=%s" % (hs, f["sec"]))
            # P7 configuration
            if f["cfg"] != "-":
                vmode, hascb, hostflags, nhosts, host, sni = f["cfg"].split(":")
                if (vmode == "0") != d.trust:
                    fail(i, "verify-mode", "verify mode %s with trust flag %s" % (vmode, d.trust))
                if not d.trust and hascb != "1":
                    fail(i, "verify-callback", "VERIFY_PEER without the verify callback")
                if not int(hostflags) & 4:
                    fail(i, "partial-wildcards-allowed", "host flags %s" % hostflags)
                if nhosts != "1" or unhx(host) != d.domain:
                    fail(i, "host-not-pinned", "expected hosts: %s x %s, domain %r" % (nhosts, host, d.domain))
            # P8 the handler is asked about failures only, in order
            failing_calls = [c for c in calls if c[0] == 0]
            if d.cb != "none" and not d.trust:
                if [(c[1], c[2]) for c in failing_calls] != [(a[0], a[1]) for a in uh]:
                    fail(i, "handler-calls", "handler invocations %s do not match the failing verify calls %s"
                         % (uh, failing_calls))
            elif uh:
                fail(i, "handler-calls", "handler invoked although %s" % ("trust flag" if d.trust else "not installed"))
            # P9 state consistency
            if sec and not (f["intf"] == "tls" and f["tls"] == "1" and f["failed"] == "0" and hs == "1"):
                fail(i, "secured-inconsistent", out[:200])
            if attempted and hs == "0" and not (f["intf"] == "sock" and f["tls"] == "0" and f["failed"] == "1"):
                fail(i, "failure-inconsistent", out[:200])
            if f["rc"] != "-":
                if (f["rc"] == "0") != (hs == "1"):
                    fail(i, "return-code", "xmpp_conn_tls_start returned %s, handshake %s" % (f["rc"], hs))
            # P6 non-vacuity: what must work does work
            if d.srv == "ok" and not d.disabled and d.ca != "missing":
                must = good or d.trust or (d.cb in ("acc", "v2", "v7"))
                if must and not sec:
                    fail(i, "false-reject", "good=%s trust=%s cb=%s but not secured: %s" % (good, d.trust, d.cb, out[:160]))
        if t[0] in ("start", "probe", "tick", "drop") and out.startswith("= "):
            f = fields(out)
            if "clear" not in f:
                continue
            cl, en, ev = lst(f["clear"]), lst(f["enc"]), lst(f["ev"])
            # P4 nothing goes through TLS unless the session is trusted
            if en and not trusted_session:
                fail(i, "data-over-untrusted-tls", "%s written through an untrusted TLS session" % en)
            if f["sec"] == "1" and not trusted_session:
                fail(i, "secured-untrusted", "reported secured later on")
            # P5 after a failed start nothing of the library's negotiation goes out in the clear
            if failed_attempt and d.path in ("s", "l"):
                before = clear_all
                new = cl
                if t[0] == "start":
                    # what precedes the attempt on the STARTTLS path: header and <starttls/>
                    if d.path == "s" and "starttls" in new:
                        k = new.index("starttls")
                        before, new = new[:k + 1], new[k + 1:]
                    lib = [x for x in new if x not in ("close",)]
                else:
                    lib = [x for x in new if x not in ("close", "probe")]
                if t[0] == "drop":
                    lib = []
                if lib:
                    fail(i, "cleartext-after-failure", "%s written in the clear after the failed handshake" % lib)
                if f["st"] != "d":
                    fail(i, "not-torn-down", "still connected after the failed handshake: %s" % out[:160])
            if failed_attempt and "auth" in en + cl[(cl.index("starttls") + 1 if "starttls" in cl else 0):] \
                    and d.path in ("s", "l"):
                fail(i, "credentials-after-failure", "credentials sent after the failed handshake")
            clear_all += cl
            enc_all += en
            evs_all += ev
            if len([e for e in evs_all if e.startswith("DISCONNECT")]) > 1:
                fail(i, "double-disconnect", str(evs_all))
        if t[0] == "end" and out.startswith("= end live=") and out != "= end live=0":
            fail(i, "leak", "%s block(s) still allocated after xmpp_conn_release" % out.split("=")[-1])
    _ = started
    return fails


def signature(case, i, what):
    w = what.split(" ")
    if w[0] == "ORACLE-FAIL" and len(w) > 1:
        return "%s:%s" % (ID, w[1] if w[1] != "hyp-openssl" or len(w) < 3 else "hyp-openssl-" + w[2])
    return "%s:%s" % (ID, w[0])


# ---------------------------------------------------------------------------------------------

def classify_kind(d):
    parts = []
    parts.append("chain" if d.chains() else "nochain:" + d.iss)
    parts.append("valid" if d.in_validity() else "outside")
    parts.append("names" if d.names() else "noname")
    return "/".join(parts)


def tags(case, outs):
    res = []
    d = None
    for op, out in zip(case.ops, outs):
        t = op.split(" ")
        if t[0] == "cfg" and out == "= cfg ok":
            d = Desc(op)
            res.append("cfg")
        elif t[0] == "start" and d is not None:
            if out.startswith("= start att="):
                f = fields(out)
                nf = len([c for c in lst(f["calls"]) if c.startswith("0:")])
                cbclass = "trust" if d.trust else d.cb
                res.append("start:%s:%s:%s:%s:%s:dis%d:%s:hs%s:sec%s:nf%d:st%s" % (
                    d.path, cbclass, d.ca, d.srv, classify_kind(d), d.disabled, "good" if d.good() else "bad",
                    f["hs"], f["sec"], min(nf, 4), f["st"]))
            else:
                res.append("start:" + " ".join(out.split(" ")[2:3]))
        elif t[0] in ("probe", "tick", "drop") and out.startswith("= io"):
            f = fields(out)
            res.append("%s:%s:sec%s:st%s:cl%s:en%s" % (op if t[0] == "probe" else "tick", d.path if d else "?", f["sec"],
                                                       f["st"], f["clear"], f["enc"]))
        else:
            res.append(t[0] + ":" + (out.split(" ")[1] if len(out.split(" ")) > 1 else "?"))
    return res
