"""C13 — connection-machine property over engine `conn` (see c01.py for the engine, conn_mon.py for
the model-free statement of the property over the observable transcript)."""
from .common import load_corpus
from . import conn_gen, conn_mon, c01

ID = "C13"
ENGINE = "conn"
# companion pass: the per-address TCP connect deadline is exercised on engine disc (C14's generator)
ALSO = [("c14", 0)]
VARIANT = "std"
STATEFUL = True
LEVEL = "proof"
FILES = c01.FILES
TRUSTED = c01.TRUSTED
ASSUMPTIONS = c01.ASSUMPTIONS
RULE = c01.RULE
lean_input = conn_gen.lean_input
IGNORE_ORACLE = ["leak"]
PAT = c01.PAT


def corpus():
    return load_corpus(ID)


def generate(rng, tier, override=0):
    n = override or (1500 if tier == "quick" else 250000)
    return [conn_gen.gen_session(rng, tier, PROFILE(i)) for i in range(n)]


def py_oracle_ex(ops, outs, extras):
    return conn_mon.monitor(ops, outs, ID, extras)


def signature(case, i, what):
    return c01.signature(case, i, what).replace("C01", ID, 1)


tags = c01.tags


def PROFILE(i):
    return "sm" if i % 5 == 4 else "mixed"
