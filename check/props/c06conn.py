"""companion pass of C06: the send queue inside whole sessions — what `xmpp_conn_send_queue_len` reports (field `ql`
of the status line) across disconnects and reconnects of one connection object, compared between model and
implementation on ordinary `conn` sessions plus a model-free oracle:
the reported length is between 0 and the number of queued elements (so it is 0 for an empty queue, e.g. after
the queue was discarded at a reconnect)
"""
import re

from . import conn_gen, c01

ID = "C06"
ENGINE = "conn"
VARIANT = "std"
STATEFUL = True
LEVEL = "proof"
FILES = c01.FILES
TRUSTED = c01.TRUSTED
ASSUMPTIONS = c01.ASSUMPTIONS
RULE = c01.RULE
lean_input = conn_gen.lean_input
IGNORE_ORACLE = ["leak"]
PAT = c01.PAT


def corpus():
    return []


def generate(rng, tier, override=0):
    n = override or 300
    return [conn_gen.gen_session(rng, tier, rng.choice(["mixed", "sm"])) for _ in range(n)]


QL = re.compile(r" q (-?\d+)(?: sm .*?)? sid \S+ ql (-?\d+)$")


def py_oracle(ops, outs):
    fails = []
    for i, out in enumerate(outs):
        m = QL.search(out)
        if not m:
            continue
        q, ql = int(m.group(1)), int(m.group(2))
        if not 0 <= ql <= q:
            fails.append((i, "reported-length-outside-queue q=%d ql=%d" % (q, ql)))
            break
    return fails


def signature(case, i, what):
    return c01.signature(case, i, what).replace("C01", ID, 1)


tags = c01.tags
