"""C14 — server discovery tries every candidate in SRV order.  Engine `disc` (stateful): real
sock.c / resolver.c / event.c / conn.c with scripted libc (harness/eng_disc.c)."""
import itertools
import struct

from .common import hx, unhx, load_corpus
from . import c15

ID = "C14"
ENGINE = "disc"
VARIANT = "std"
STATEFUL = True
LEVEL = "proof"
FILES = ["sock.c", "resolver.c", "event.c", "conn.c"]
TRUSTED = ["model Strophe/Model/Discovery.lean tied to src/sock.c, event.c, conn.c by differential execution (engine disc); "
           "the SRV decoder/sorter underneath is Model/Resolver.lean (C15)",
           "harness/eng_disc.c: link-time wrappers for res_query, getaddrinfo, socket, connect, getpeername, recv, "
           "send, fcntl, close and a select() readiness script (the kernel and the DNS server are parameters of the model)"]
ASSUMPTIONS = ["one connection per context; the clock never runs backwards",
               "kernel behaviours per endpoint: refuse (synchronous error), late (EINPROGRESS then error), hang "
               "(never writable), accept / accept0 (connect() = 0)",
               "HAVE_CARES undefined; allocation failures not modelled",
               "legacy-SSL discovery is exercised through xmpp_connect_raw (no TLS handshake on the fake descriptor)"]
RULE = ("SRV answer sets with 0-4 targets (lookup failure, NXDOMAIN, empty and non-SRV answers included; priorities/"
        "weights with ties; shared hosts) x 0-3 addresses per target (IPv4/IPv6, shared) x 5 behaviours per endpoint x "
        "connect variants (raw/client/component, althost, altport, legacy SSL) x loop schedules (ticks around the 5000 ms "
        "timeout, starvation), behaviour changes while an attempt is pending, reconnects; thorough adds every scenario "
        "with <= 3 targets x <= 2 addresses x 4 behaviours; distinct = tag (op kind, bypass, rc, events, state, #attempts)")

TIMEOUT = 5000            # the property's literal (5 s)
PORTS = {"client": 5222, "legacy": 5223, "component": 5347}
FLAG_LEGACY = 4
BEHS = ["refuse", "late", "hang", "accept", "accept0"]


# ---------------------------------------------------------------------------------------------
# DNS response for a given record list (uses the C15 name encoder, so compression varies)

def build_packet(rng, domain, recs, noise=True, rcode=0):
    """recs: list of (prio, weight, port, target bytes) in packet order"""
    table = {}
    qname = [b"_xmpp-client", b"_tcp"] + [l for l in domain.split(b".") if l]
    msg = bytearray(struct.pack(">HBBHHHH", rng.randrange(65536), 0x81, 0x80 | rcode, 1, 0, 0, 0))
    msg += c15.enc_name(qname, table, len(msg), rng, compress=False)
    msg += struct.pack(">HH", 33, 1)
    n_an = 0
    items = [("srv", r) for r in recs]
    if noise:
        for _ in range(rng.choice([0, 0, 0, 1, 2])):
            items.insert(rng.randrange(len(items) + 1), (rng.choice(["a", "cname", "srv-ch"]), None))
    for kind, r in items:
        msg += c15.enc_name(qname, table, len(msg), rng)
        ttl = rng.randrange(1 << 31)
        if kind == "srv":
            prio, weight, port, target = r
            labels = [l for l in target.split(b".") if l]
            rd_pos = len(msg) + 10
            tn = c15.enc_name(labels, table, rd_pos + 6, rng, compress=rng.random() < 0.6)
            rdata = struct.pack(">HHH", prio, weight, port) + tn
            msg += struct.pack(">HHIH", 33, 1, ttl, len(rdata)) + rdata
        elif kind == "srv-ch":      # SRV in class CHAOS: must be ignored
            tn = c15.enc_name([b"zz"], table, len(msg) + 16, rng, compress=False)
            rdata = struct.pack(">HHH", 0, 0, 1) + tn
            msg += struct.pack(">HHIH", 33, 3, ttl, len(rdata)) + rdata
        elif kind == "a":
            msg += struct.pack(">HHIH", 1, 1, ttl, 4) + bytes([10, 9, 9, 9])
        else:
            tn = c15.enc_name([b"cn", b"example"], table, len(msg) + 10, rng)
            msg += struct.pack(">HHIH", 5, 1, ttl, len(tn)) + tn
        n_an += 1
    struct.pack_into(">H", msg, 6, n_an)
    return bytes(msg)


# ---------------------------------------------------------------------------------------------
# independent reader of well-formed responses (the oracle's view of the SRV answer)

def _rd_name(pkt, off, depth=0):
    labels = []
    pos = off
    end = None
    while True:
        if pos >= len(pkt) or depth > 64:
            raise ValueError("name")
        l = pkt[pos]
        if l == 0:
            pos += 1
            break
        if l & 0xC0 == 0xC0:
            ptr = ((l & 0x3F) << 8) | pkt[pos + 1]
            if end is None:
                end = pos + 2
            sub, _ = _rd_name(pkt, ptr, depth + 1)
            labels += sub
            pos = None
            break
        if l & 0xC0:
            raise ValueError("label")
        labels.append(pkt[pos + 1:pos + 1 + l])
        pos += 1 + l
    return labels, (end if end is not None else pos)


def parse_srv(pkt):
    """-> list of (prio, weight, port, target) in packet order; [] if the answer carries none"""
    try:
        if len(pkt) < 12:
            return []
        _, o2, o3, qd, an, _, _ = struct.unpack(">HBBHHHH", pkt[:12])
        if not (o2 & 0x80) or (o3 & 0x0F):
            return []
        pos = 12
        for _ in range(qd):
            _, pos = _rd_name(pkt, pos)
            pos += 4
        recs = []
        for _ in range(an):
            _, pos = _rd_name(pkt, pos)
            typ, cls, _, rdl = struct.unpack(">HHIH", pkt[pos:pos + 10])
            pos += 10
            if typ == 33 and cls == 1:
                prio, weight, port = struct.unpack(">HHH", pkt[pos:pos + 6])
                labels, _ = _rd_name(pkt, pos + 6)
                recs.append((prio, weight, port, b".".join(labels)))
            pos += rdl
        return recs
    except (ValueError, struct.error, IndexError):
        return []


def srv_order(recs):
    """the order the property prescribes: ascending priority, heavier weight first; records that
    tie keep the library's (stable, reversed-arrival) order — c15.expected"""
    return c15.expected(recs)


def jid_domain(jid):
    bare = jid.split(b"/", 1)[0]
    return bare.split(b"@", 1)[1] if b"@" in bare else bare


# ---------------------------------------------------------------------------------------------
# scenarios

class Scen:
    def __init__(self):
        self.srv = None           # None = fail, else packet bytes
        self.hosts = {}           # name -> [addr tokens]
        self.eps = {}             # (addr, port) -> beh

    def script_ops(self):
        ops = ["srv " + ("fail" if self.srv is None else hx(self.srv))]
        for h, al in self.hosts.items():
            ops.append("addrs %s %s" % (hx(h), ",".join(al) if al else "none"))
        for (a, p), b in self.eps.items():
            ops.append("ep %s:%d %s" % (a, p, b))
        return ops


def targets_for(scen_srv, kind, jid, althost, altport, flags):
    """(list of (host, port), srv lookup expected?) from the property's wording"""
    legacy = bool(flags & FLAG_LEGACY)
    dom = jid_domain(jid)
    if kind == "component":
        return [(althost[:255], altport or PORTS["component"])], False
    default = PORTS["legacy"] if legacy else PORTS["client"]
    if althost is not None:
        return [(althost[:255], altport or default)], False
    if legacy:
        return [(dom[:255], altport or default)], False
    recs = parse_srv(scen_srv) if scen_srv is not None else []
    if recs:
        return [(t, port) for _, _, port, t in srv_order(recs)], True
    return [(dom[:255], altport or default)], True


HOSTPOOL = [b"a", b"b", b"c.example", b"d.x.org", b"e"]
DOMAINS = [b"x.org", b"example.net"]


def rand_scenario(rng):
    sc = Scen()
    dom = rng.choice(DOMAINS)
    ntargets = rng.choice([0, 1, 1, 2, 2, 3, 3, 4])
    recs = []
    for _ in range(ntargets):
        recs.append((rng.choice([0, 1, 1, 2, 10, 65535]), rng.choice([0, 0, 1, 5, 5, 100, 65535]),
                     rng.choice([5222, 5222, 5269, 443, rng.randrange(1, 65536)]), rng.choice(HOSTPOOL)))
    k = rng.random()
    if ntargets == 0:
        if k < 0.4:
            sc.srv = None
        elif k < 0.6:
            sc.srv = build_packet(rng, dom, [], rcode=3)           # NXDOMAIN
        else:
            sc.srv = build_packet(rng, dom, [])                    # no SRV among the answers
    else:
        sc.srv = build_packet(rng, dom, recs)
    pool = ["4.%d" % i for i in range(1, 6)] + ["6.%d" % i for i in range(1, 4)]
    for h in HOSTPOOL + [dom]:
        if rng.random() < 0.85:
            n = rng.choice([0, 1, 1, 2, 2, 3])
            sc.hosts[h] = [rng.choice(pool) for _ in range(n)]
    ports = sorted({r[2] for r in recs} | {5222, 5223, 5347, 7777})
    weights = rng.choice([[4, 2, 2, 2, 1], [6, 1, 1, 1, 0], [2, 3, 3, 1, 1], [1, 1, 1, 6, 1]])
    used = sorted({a for al in sc.hosts.values() for a in al})
    for a in used:
        for p in ports:
            b = rng.choices(BEHS, weights=weights)[0]
            # unscripted endpoints refuse: say so explicitly only now and then
            if b != "refuse" or rng.random() < 0.25:
                sc.eps[(a, p)] = b
    return sc, dom, recs


def rand_connect(rng, dom):
    kind = rng.choices(["raw", "client", "component"], weights=[8, 1, 1])[0]
    jid = rng.choice([dom, b"user@" + dom, b"user@" + dom + b"/res"])
    althost = None
    if kind == "component" or rng.random() < 0.2:
        althost = rng.choice(HOSTPOOL + [dom, b"h" * 300])
        if kind == "component" and rng.random() < 0.03:
            althost = None
    altport = rng.choice([0, 0, 0, 7777, 5222])
    if kind == "raw":
        flags = rng.choice([0, 0, 0, 4, 4, 8, 12, 32])
    elif kind == "client":
        flags = rng.choice([0, 0, 8, 32])
    else:
        flags = rng.choice([0, 0, 1, 32, 4])
    return kind, jid, althost, altport, flags


def connect_op(kind, jid, althost, altport, flags):
    return "connect %s %s %s %d %d" % (kind, hx(jid), hx(althost), altport, flags)


def rand_case(rng):
    sc, dom, recs = rand_scenario(rng)
    ops = sc.script_ops()
    segments = rng.choice([1, 1, 1, 1, 2])
    for seg in range(segments):
        kind, jid, althost, altport, flags = rand_connect(rng, dom)
        if althost == b"h" * 300:
            ops.append("addrs %s %s" % (hx(althost[:255]), "4.1,4.2"))
        ops.append(connect_op(kind, jid, althost, altport, flags))
        if kind == "component" and althost is None:
            tg = []
        else:
            tg, _ = targets_for(sc.srv, kind, jid, althost, altport, flags)
        ncand = sum(len(sc.hosts.get(h, [])) for h, _ in tg) + 2
        style = rng.random()
        for _ in range(rng.randrange(0, 2 * ncand)):
            if style < 0.5:
                ms = rng.choice([0, 1, 100, 2500, 4999, 5000, 5001])
            elif style < 0.8:
                ms = rng.choice([5001, 5001, 7000, 1])
            else:
                ms = rng.choice([0, 1, 2500, 5000, 5001, 12000, 60000])
            ops.append("run %d" % ms)
            if rng.random() < 0.04 and sc.eps:
                # an endpoint changes its mind while attempts are pending
                (a, p) = rng.choice(list(sc.eps))
                sc.eps[(a, p)] = rng.choice(BEHS)
                ops.append("ep %s:%d %s" % (a, p, sc.eps[(a, p)]))
        for _ in range(ncand + 1):
            ops.append("run %d" % rng.choice([5001, 5001, 9000]))
        if seg + 1 < segments:
            # after an accept the connection stays up: only a failed attempt can be repeated; the
            # harness answers bad-op otherwise (also a checked behaviour of both drivers)
            if rng.random() < 0.5:
                sc2, _, _ = rand_scenario(rng)
                sc.hosts.update(sc2.hosts)
                for h, al in sc2.hosts.items():
                    ops.append("addrs %s %s" % (hx(h), ",".join(al) if al else "none"))
    ops.append("end")
    return ops


def exhaustive_cases(max_targets, max_addrs):
    """every scenario with <= max_targets targets (distinct priorities, arrival order reversed),
    <= max_addrs addresses each, one of 4 behaviours per endpoint; loop driven past every timeout"""
    import random
    rng = random.Random(14)
    dom = b"x.org"
    hosts = [b"a", b"b", b"c"]
    behs = ["refuse", "late", "hang", "accept"]
    per_target = []
    for n in range(0, max_addrs + 1):
        per_target += [tuple(t) for t in itertools.product(behs, repeat=n)]
    cases = []
    for nt in range(0, max_targets + 1):
        for combo in itertools.product(per_target, repeat=nt):
            sc = Scen()
            recs = [(10 * (i + 1), 0, 5222 + i, hosts[i]) for i in range(nt)]
            sc.srv = build_packet(rng, dom, list(reversed(recs)), noise=False) if nt else None
            k = 1
            for i, behl in enumerate(combo):
                al = []
                for b in behl:
                    a = "4.%d" % k
                    k += 1
                    al.append(a)
                    sc.eps[(a, 5222 + i)] = b
                sc.hosts[hosts[i]] = al
            ops = sc.script_ops() + [connect_op("raw", dom, None, 0, 0)]
            ops += ["run 5001"] * (sum(len(c) for c in combo) + 2) + ["end"]
            cases.append(ops)
    return cases


def corpus():
    return load_corpus(ID)


def generate(rng, tier, override=0):
    cases = []
    if tier == "thorough":
        cases += exhaustive_cases(3, 2)
    else:
        cases += exhaustive_cases(2, 1)
    n = override or (3000 if tier == "quick" else 30000)
    for _ in range(n):
        cases.append(rand_case(rng))
    return cases


# ---------------------------------------------------------------------------------------------
# model-free oracle

def _parse_tr(tok):
    if tok == "-":
        return []
    res = []
    for it in tok.split(","):
        f = it.split(":")
        if f[0] == "g":
            res.append(("g", unhx(f[1]), int(f[2])))
        else:
            res.append(("t", f[1], int(f[2])))
    return res


def _fields(out):
    """'= rc 0 q 1 tr … st …' -> dict"""
    t = out.split(" ")[1:]
    return {t[i]: t[i + 1] for i in range(0, len(t) - 1, 2)}


def py_oracle(ops, outs):
    fails = []
    srv = None
    hosts = {}
    eps = {}
    seg = None      # current discovery: dict
    clock = 0
    state = "disconnected"

    def beh(e):
        return eps.get(e, "refuse")

    def finish_checks(i, seg, why):
        """a failure was reported at op i"""
        if seg["attempts"] != seg["cands"]:
            fails.append((i, "failure-before-all (%s): tried %d of %d candidates %s"
                          % (why, len(seg["attempts"]), len(seg["cands"]), seg["cands"][:6])))
        if seg["gai"] != seg["targets"]:
            fails.append((i, "failure-before-all-resolved (%s): resolved %d of %d targets"
                          % (why, len(seg["gai"]), len(seg["targets"]))))

    def account(i, seg, tr):
        """new trace items of op i"""
        for it in tr:
            if it[0] == "g":
                seg["gai"].append((it[1], it[2]))
                if seg["gai"] != seg["targets"][:len(seg["gai"])]:
                    fails.append((i, "resolve-order: %r not the next target" % (it[1:],)))
            else:
                e = (it[1], it[2])
                if seg["attempts"]:
                    prev = seg["attempts"][-1]
                    b = beh(prev)
                    # moving on is allowed when refused, failed late, or timed out
                    if b in ("hang", "accept", "accept0") and not seg["dynamic"]:
                        if clock - seg["since"] <= TIMEOUT:
                            fails.append((i, "moved-on-early: left %s:%d (%s) after %d ms"
                                          % (prev[0], prev[1], b, clock - seg["since"])))
                seg["attempts"].append(e)
                seg["since"] = clock
                if seg["attempts"] != seg["cands"][:len(seg["attempts"])]:
                    fails.append((i, "not-prefix: attempt #%d %s:%d, expected %s"
                                  % (len(seg["attempts"]), e[0], e[1],
                                     seg["cands"][len(seg["attempts"]) - 1:len(seg["attempts"])])))

    for i, (op, out) in enumerate(zip(ops, outs)):
        t = op.split(" ")
        if out == "= bad-op":
            continue
        if t[0] in ("connect", "run") and not (out.endswith(("disconnected", "connecting", "connected"))
                                               and " tr " in out):
            break           # the harness died while printing this line (reported as a crash)
        if t[0] == "srv":
            srv = None if t[1] == "fail" else unhx(t[1])
        elif t[0] == "addrs":
            hosts[unhx(t[1])] = [] if t[2] == "none" else t[2].split(",")
        elif t[0] == "ep":
            a, p = t[1].split(":")
            eps[(a, int(p))] = t[2]
            if seg is not None and state == "connecting":
                seg["dynamic"] = True
        elif t[0] == "connect":
            f = _fields(out)
            kind, jid = t[1], unhx(t[2])
            althost, altport, flags = unhx(t[3]), int(t[4]), int(t[5])
            rc = int(f["rc"])
            if kind == "component" and (althost is None or flags & 14):
                if rc == 0:
                    fails.append((i, "component-config-accepted"))
                seg = None
                continue
            targets, want_q = targets_for(srv, kind, jid, althost, altport, flags)
            cands = [(a, p) for (h, p) in targets for a in hosts.get(h, [])]
            seg = {"targets": targets, "cands": cands, "attempts": [], "gai": [], "since": clock,
                   "dynamic": False, "done": False}
            if int(f["q"]) != (1 if want_q else 0):
                fails.append((i, "srv-bypass: %s SRV queries, expected %d" % (f["q"], 1 if want_q else 0)))
            account(i, seg, _parse_tr(f["tr"]))
            state = f["st"]
            if rc != 0:
                finish_checks(i, seg, "rc %d" % rc)
                if state != "disconnected":
                    fails.append((i, "failed-but-%s" % state))
                seg["done"] = True
            elif state != "connecting":
                fails.append((i, "rc0-but-%s" % state))
        elif t[0] == "run":
            clock += int(t[1])
            f = _fields(out)
            tr = _parse_tr(f["tr"])
            if seg is None or seg["done"]:
                if tr or f["ev"] != "-":
                    fails.append((i, "activity-after-outcome %s %s" % (f["tr"][:60], f["ev"])))
                continue
            account(i, seg, tr)
            evs = [] if f["ev"] == "-" else f["ev"].split(",")
            state = f["st"]
            if any(e.startswith("DISCONNECT") for e in evs):
                finish_checks(i, seg, f["ev"])
                seg["done"] = True
                if state != "disconnected":
                    fails.append((i, "disconnect-but-%s" % state))
            elif state == "connected":
                seg["done"] = True
                last = seg["attempts"][-1] if seg["attempts"] else None
                if last is None or beh(last) not in ("accept", "accept0"):
                    fails.append((i, "connected-to-nonaccepting %r" % (last,)))
                if not seg["dynamic"]:
                    # every earlier candidate was legitimately abandoned (checked in account());
                    # none that accepts may have been skipped
                    if seg["attempts"] != seg["cands"][:len(seg["attempts"])]:
                        fails.append((i, "not-prefix-at-accept"))
            elif state == "disconnected":
                fails.append((i, "silent-disconnect"))
            if len(evs) > 1:
                fails.append((i, "several-events %s" % f["ev"]))
        elif t[0] == "end":
            if seg is not None and not seg["done"]:
                # liveness: a loop driven past the timeout often enough must have decided
                k = 0
                j = i - 1
                while j >= 0 and ops[j].startswith("run ") and int(ops[j].split(" ")[1]) > TIMEOUT:
                    k += 1
                    j -= 1
                if k >= len(seg["cands"]) + 1:
                    fails.append((i, "undecided after %d timeouts with %d candidates" % (k, len(seg["cands"]))))
            seg = None
            state = "disconnected"
    return fails


def signature(case, i, what):
    import re
    w = what.split(" ")
    if w[0] == "crash":
        m = re.search(r" in (\w+) ", what)
        return "%s:crash:%s" % (ID, m.group(1) if m else "unknown")
    key = w[1] if w[0] in ("ORACLE-FAIL", "crash") and len(w) > 1 else w[0]
    return "%s:%s" % (ID, key.rstrip(":"))


def tags(case, outs):
    res = []
    for op, out in zip(case.ops, outs):
        t = op.split(" ")
        if out == "= bad-op":
            res.append("bad-op:" + t[0])
        elif t[0] == "connect":
            f = _fields(out)
            tr = _parse_tr(f["tr"])
            res.append("connect:%s:alt%d:port%d:leg%d:q%s:rc%s:g%d:t%d:%s"
                       % (t[1], t[3] != "-", t[4] != "0", bool(int(t[5]) & 4), f["q"], f["rc"],
                          min(sum(1 for x in tr if x[0] == "g"), 4), min(sum(1 for x in tr if x[0] == "t"), 4),
                          f["st"]))
        elif t[0] == "run":
            f = _fields(out)
            tr = _parse_tr(f["tr"])
            ms = int(t[1])
            res.append("run:%s:g%d:t%d:%s:%s"
                       % ("gt" if ms > TIMEOUT else ("eq" if ms == TIMEOUT else "lt"),
                          min(sum(1 for x in tr if x[0] == "g"), 3), min(sum(1 for x in tr if x[0] == "t"), 3),
                          f["ev"], f["st"]))
        elif t[0] == "srv":
            res.append("srv:" + ("fail" if t[1] == "fail" else "n%d" % min(len(parse_srv(unhx(t[1]))), 4)))
        else:
            res.append(t[0])
    return res
