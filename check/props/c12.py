"""C12 — every object is freed exactly once; references keep objects alive.  Engine `own` (stateful).

Generator: random programs of a *caller* that respects the documented ownership rules (R1 every release
gives up a reference the caller holds, R2 add_child_ex(.., 0) hands the reference over, R3 a stanza is put
below another one only while it is detached and never below itself / a descendant, R4 borrowed pointers are
used at once): new / clone (also of children, kept beyond the parent) / copy / reply / reply_error /
error_new / new_from_string / add_child / add_child_ex / set_* / del_attribute / to_text / get_text /
release in every order, through handle slots (protocol: harness/eng_own.c).  A separate stream ends with
the explicit release of every handle in random order.

Model-free oracle (`py_oracle`): an abstract reference of the DOCUMENTED semantics — a stanza exists as
long as somebody (a handle or its parent) refers to it; nothing else — with the block price list of
stanza.c / hash.c (1 per node, 1 per name/text, 2 per attribute table + 3 per attribute).  After every op
the live-block count of the instrumented allocator, the return value of xmpp_stanza_release, the reference
counts and the shape of every dumped tree must be what the reference says; after the last release the
count must be 0.  Independent of the Lean model (no pointers, no cascade order, no hash table).
Sanitizer reports, the allocator's own double/foreign-free detector and the allocator-bypass detector
(link-wrapped malloc family, expat / zlib allocator routing) are reported by the harness.
"""
import re

from .common import hx, unhx, load_corpus
from . import c09, c16

ID = "C12"
ENGINE = "own"
VARIANT = "std"
STATEFUL = True
LEVEL = "proof"
FILES = ["stanza.c", "hash.c", "parser_expat.c", "compression.c", "ctx.c", "conn.c", "auth.c", "handler.c"]
ALSO = [("c12conn", 300), ("c06", 1500)]   # + send-queue histories (engine q) end with zero live blocks
TRUSTED = ["model Strophe/Model/Store.lean (heap of stanza nodes with raw pointers, reference counts, liveness, "
           "allocator books) tied to src/stanza.c + src/hash.c by differential execution (engine own): after every "
           "op the live-block count of the instrumented allocator, return codes, reference counts (white box: "
           "stanza->ref) and tree shapes agree",
           "instrumented allocator harness/hcommon.c (live-block table, double/foreign free detection, poison on "
           "free, always-moving realloc) + AddressSanitizer",
           "allocator-bypass detection: --wrap of malloc/calloc/realloc/free/strdup/strndup for the objects of "
           "libstrophe, --wrap of XML_ParserCreate_MM / deflateInit_ / inflateInit_ to check that expat and zlib "
           "are handed the context's allocator (what happens inside libexpat/libz/libc is not visible)",
           "connection-level balance (companion pass c12conn on engine conn): allocator-instrumented exploration, "
           "an oracle, not a theorem"]
ASSUMPTIONS = ["allocation failure paths are not modelled",
               "xmpp_stanza_copy / xmpp_stanza_new_from_string are modelled as read-only walk + construction of fresh "
               "nodes from the tree value of the C09 models; the parser's transient blocks (expat, parser_t) are "
               "returned by parser_free (checked by the count oracle on every parse op, not proved)",
               "documented exception (known finding D28, signature C12:ctx2:bypass): for every context but the first "
               "one parser_expat.c gives expat no memory suite, so expat allocates with libc malloc; `ctx2` programs "
               "are generated in a separate stream",
               "whole-connection balance (expat, OpenSSL, zlib internals, handlers, queues, SM state) is an oracle on "
               "generated sessions (c12conn), not a theorem; hand-over of SM state BETWEEN connection objects has no "
               "op in engine conn"]
RULE = ("random well-owned caller programs over 32 handles: trees of depth <= 5 built bottom-up / top-down, clones "
        "of children and grandchildren kept beyond their parents, copies, replies, reply_errors, error_new, "
        "new_from_string, re-attachment of survivors, attribute churn (overwrite / delete / re-add), releases in "
        "every order (stream `relall`: explicit release of every handle in random order, zero live blocks "
        "demanded before `end`), zlib and second-context allocator rounds; distinct = tag (op kind, result, "
        "shape class of the stanza released / attached)")

XMLNS = b"xmlns"
NSLOT = 32


def corpus():
    # corpus/C12/conn_*.ops belong to the companion pass (engine conn)
    import glob
    import os
    here = os.path.dirname(os.path.dirname(os.path.dirname(os.path.abspath(__file__))))
    res = []
    for f in sorted(glob.glob(os.path.join(here, "corpus", ID, "*.ops"))):
        if os.path.basename(f).startswith("conn_"):
            continue
        with open(f) as fh:
            ops = [l.strip() for l in fh if l.strip() and not l.startswith("#")]
        if ops:
            res.append(ops)
    return res


# =============================================================================================
# abstract reference: who refers to whom

class N:
    __slots__ = ("kind", "data", "attrs", "kids", "parent", "holders", "alive")

    def __init__(self, kind="unk", data=None, attrs=None):
        self.kind, self.data, self.attrs = kind, data, attrs
        self.kids = []
        self.parent = None
        self.holders = 0
        self.alive = True

    def blocks(self):
        return 1 + (1 if self.data is not None else 0) + (2 + 3 * len(self.attrs) if self.attrs is not None else 0)

    def ref(self):
        return self.holders + (1 if self.parent is not None else 0)


def from_c09(t):
    """c09.Node tree -> N tree (fresh, nobody holds it)"""
    n = N(t.kind, t.data, None if t.attrs is None else dict(t.attrs))
    for k in t.kids:
        c = from_c09(k)
        c.parent = n
        n.kids.append(c)
    return n


def to_c09(n, deep=True):
    return c09.Node(n.kind, n.data, None if n.attrs is None else dict(n.attrs),
                    [to_c09(k) for k in n.kids] if deep else [])


def deep_copy(n):
    # xmpp_stanza_copy: the table is created by the first copied attribute
    c = N(n.kind, n.data, dict(n.attrs) if n.attrs else None)
    for k in n.kids:
        kc = deep_copy(k)
        kc.parent = c
        c.kids.append(kc)
    return c


def subtree(n):
    yield n
    for k in n.kids:
        yield from subtree(k)


def dump_str(n):
    r = "#%d" % n.ref()
    kids = "[" + ",".join(dump_str(k) for k in n.kids) + "]"
    if n.kind == "text":
        return "'" + hx(n.data) + "'" + r + (kids if n.kids else "")
    if n.kind == "tag":
        a = ",".join("%s=%s" % (hx(k), hx(v)) for k, v in sorted((n.attrs or {}).items()))
        return "(" + hx(n.data) + r + "{" + a + "}" + kids + ")"
    return "?" + r + (kids if n.kids else "")


class Ref:
    def __init__(self):
        self.slots = [None] * NSLOT
        self.nodes = []          # every node ever created
        self.conns = [None] * 4  # connection objects: None | has an SM state (bool)
        self.sms = [False] * 4   # detached SM states

    def live(self):
        return sum(n.blocks() for n in self.nodes if n.alive)

    def adopt(self, root):
        for n in subtree(root):
            self.nodes.append(n)

    @staticmethod
    def parse_target(tok):
        m = re.fullmatch(r"h(\d+)((?:/\d+)*)", tok)
        if not m or int(m.group(1)) >= NSLOT:
            return None
        return int(m.group(1)), [int(x) for x in m.group(2).split("/")[1:]]

    def resolve(self, tok):
        r = self.parse_target(tok)
        if r is None:
            return "bad-op", None
        v, path = r
        n = self.slots[v]
        if n is None:
            return "novar", None
        for i in path:
            if i >= len(n.kids):
                return "path", None
            n = n.kids[i]
        return None, n

    def slotno(self, tok):
        r = self.parse_target(tok)
        if r is None or r[1]:
            return None
        return r[0]

    def free(self, n):
        n.alive = False
        for k in n.kids:
            k.parent = None
            if k.holders == 0:
                self.free(k)

    def release(self, n):
        """one holder gives up; returns True if the stanza ceased to exist"""
        n.holders -= 1
        if n.holders == 0 and n.parent is None:
            self.free(n)
            return True
        return False


def hexok(tok, allow_null=False):
    if tok == "-":
        return allow_null
    return tok == "." or bool(re.fullmatch(r"(?:[0-9a-fA-F]{2})+", tok))


def expect(ref, op):
    """-> expected '=' line of `op` (None: not determined by the reference); updates `ref`.
    Raises IllOwned when the op breaks an ownership rule (such programs are outside the property)."""
    t = op.split(" ")
    k = t[0]
    bad = "= err bad-op"

    def live(s):
        return "%s live %d" % (s, ref.live())

    def dest(tok):
        w = ref.slotno(tok)
        if w is None:
            return None, bad
        if ref.slots[w] is not None:
            return None, "= err busy"
        return w, None

    def put(w, root):
        if root is None:
            return live("= null")
        ref.adopt(root)
        root.holders += 1
        ref.slots[w] = root
        return live("= ok")

    if k == "end" and len(t) == 1:
        for i in range(NSLOT):
            if ref.slots[i] is not None:
                ref.release(ref.slots[i])
                ref.slots[i] = None
        ref.conns = [None] * 4
        ref.sms = [False] * 4
        return live("= end")

    def small(tok, pfx):
        return int(tok[1]) if re.fullmatch(pfx + "[0-3]", tok) else None

    if k == "gth" and len(t) == 3:
        if not (re.fullmatch(r"\d", t[1]) and re.fullmatch(r"\d", t[2])) or int(t[1]) > 8 or int(t[2]) > int(t[1]):
            return bad
        return live("= gth")
    if k == "cnew" and len(t) == 2:
        c = small(t[1], "c")
        if c is None:
            return bad
        if ref.conns[c] is not None:
            return "= err busy"
        ref.conns[c] = False
        return live("= ok")
    if k == "crestore" and len(t) == 3:
        c = small(t[1], "c")
        if c is None or not hexok(t[2]):
            return bad
        if ref.conns[c] is None:
            return "= err novar"
        if ref.conns[c]:
            return live("= rc -2")
        if c16.py_parse(unhx(t[2])) is None:
            return live("= rc -2")
        ref.conns[c] = True
        return live("= rc 0")
    if k in ("smget", "smset") and len(t) == 3:
        c, v = small(t[1], "c"), small(t[2], "s")
        if c is None or v is None:
            return bad
        if k == "smget":
            if ref.conns[c] is None:
                return "= err novar"
            if ref.sms[v]:
                return "= err busy"
            if ref.conns[c]:
                ref.conns[c], ref.sms[v] = False, True
                return live("= ok")
            return live("= null")
        if ref.conns[c] is None or not ref.sms[v]:
            return "= err novar"
        if ref.conns[c]:
            return live("= rc -2")
        ref.conns[c], ref.sms[v] = True, False
        return live("= rc 0")
    if k == "smfree" and len(t) == 2:
        v = small(t[1], "s")
        if v is None:
            return bad
        if not ref.sms[v]:
            return "= err novar"
        ref.sms[v] = False
        return live("= ok")
    if k == "crel" and len(t) == 2:
        c = small(t[1], "c")
        if c is None:
            return bad
        if ref.conns[c] is None:
            return "= err novar"
        ref.conns[c] = None
        return live("= freed 1")
    if k == "new" and len(t) == 2:
        w, e = dest(t[1])
        if e:
            return e
        return put(w, N())
    if k in ("clone", "copy", "reply") and len(t) == 3 or k == "replyerr" and len(t) == 6:
        if ref.slotno(t[2]) is None:
            return bad
        if k == "replyerr" and not all(hexok(x, True) for x in t[3:6]):
            return bad
        e, n = ref.resolve(t[1])
        if e:
            return "= err " + e
        w, e = dest(t[2])
        if e:
            return e
        if k == "clone":
            n.holders += 1
            ref.slots[w] = n
            return live("= ok")
        if k == "copy":
            return put(w, deep_copy(n))
        if k == "reply":
            r = c09.do_reply(to_c09(n, deep=False))
        else:
            a = [None if x == "-" else c09.cstr(unhx(x)) for x in t[3:6]]
            r = c09.do_reply_error(to_c09(n, deep=False), a[0], a[1], a[2])
        return put(w, from_c09(r) if r is not None else None)
    if k in ("rel", "relkeep") and len(t) == 2:
        v = ref.slotno(t[1])
        if v is None:
            return bad
        if ref.slots[v] is None:
            return "= err novar"
        if k == "relkeep":
            raise IllOwned("relkeep")
        n = ref.slots[v]
        ref.slots[v] = None
        return live("= freed %d" % (1 if ref.release(n) else 0))
    if k in ("add", "addx") and len(t) == 3:
        c = ref.slotno(t[2])
        if c is None:
            return bad
        e, p = ref.resolve(t[1])
        if e:
            return "= err " + e
        ch = ref.slots[c]
        if ch is None:
            return "= err novar"
        if ch.parent is not None:
            raise IllOwned("child is attached")
        if any(x is p for x in subtree(ch)):
            raise IllOwned("cycle")
        ch.parent = p
        p.kids.append(ch)
        if k == "addx":
            ch.holders -= 1
            ref.slots[c] = None
        return live("= rc 0")
    if k in ("name", "text", "textz", "ns", "delattr", "getattr") and len(t) == 3:
        if not hexok(t[2]):
            return bad
        e, n = ref.resolve(t[1])
        if e:
            return "= err " + e
        b = c09.cstr(unhx(t[2]))
        if k == "name":
            if n.kind == "text":
                return live("= rc -2")
            n.kind, n.data = "tag", b
            return live("= rc 0")
        if k in ("text", "textz"):
            if n.kind == "tag":
                return live("= rc -2")
            n.kind, n.data = "text", b
            return live("= rc 0")
        if k == "ns":
            return live("= rc %d" % set_attr(n, XMLNS, b))
        if k == "delattr":
            if n.kind != "tag" or n.attrs is None or b not in n.attrs:
                return live("= rc -1")
            del n.attrs[b]
            return live("= rc 0")
        v = n.attrs.get(b) if (n.kind == "tag" and n.attrs is not None) else None
        return live("= val " + hx(v))
    if k == "attr" and len(t) == 4:
        if not hexok(t[2]) or not hexok(t[3]):
            return bad
        e, n = ref.resolve(t[1])
        if e:
            return "= err " + e
        return live("= rc %d" % set_attr(n, c09.cstr(unhx(t[2])), c09.cstr(unhx(t[3]))))
    if k == "gettext" and len(t) == 2:
        e, n = ref.resolve(t[1])
        if e:
            return "= err " + e
        if n.kind == "text":
            v = n.data
        else:
            v = b"".join(x.data for x in n.kids if x.kind == "text") or None
        return live("= val " + hx(v))
    if k == "errnew" and len(t) == 4:
        if not re.fullmatch(r"-?\d{1,4}", t[1]) or abs(int(t[1])) > 1000 or not hexok(t[2], True):
            return bad
        w, e = dest(t[3])
        if e:
            return e
        return put(w, from_c09(c09.do_error_new(int(t[1]), None if t[2] == "-" else c09.cstr(unhx(t[2])))))
    if k == "parse" and len(t) == 3:
        if not hexok(t[1]):
            return bad
        w, e = dest(t[2])
        if e:
            return e
        r = c09.lib_parse_reference(c09.cstr(unhx(t[1])))
        return put(w, from_c09(r) if r is not None else None)
    if k == "render" and len(t) == 2:
        e, n = ref.resolve(t[1])
        if e:
            return "= err " + e
        if not c09.renderable(to_c09(n)):
            return live("= err -2")
        return None
    if k == "dump" and len(t) == 2:
        e, n = ref.resolve(t[1])
        if e:
            return "= err " + e
        return live("= tree " + dump_str(n))
    if k == "stat" and len(t) == 2:
        e, n = ref.resolve(t[1])
        if e:
            return "= err " + e
        p = n.parent
        idx = [i for i, x in enumerate(p.kids) if x is n][0] if p is not None else 0
        return live("= node ref %d par %d prev %d next %d kids %d"
                    % (n.ref(), 1 if p is not None else 0, 1 if p is not None and idx > 0 else 0,
                       1 if p is not None and idx + 1 < len(p.kids) else 0, 1 if n.kids else 0))
    if k == "zround" and len(t) == 2:
        if not hexok(t[1]):
            return bad
        return live("= zround ok")
    if k == "ctx2" and len(t) == 2:
        if not hexok(t[1]):
            return bad
        r = c09.lib_parse_reference(c09.cstr(unhx(t[1])))
        return live("= ctx2 ok" if r is not None else "= ctx2 null")
    return bad


def set_attr(n, k, v):
    if n.kind != "tag":
        return -2
    if n.attrs is None:
        n.attrs = {}
    n.attrs[k] = v
    return 0


class IllOwned(Exception):
    pass


def well_owned(ops):
    ref = Ref()
    try:
        for op in ops:
            expect(ref, op)
    except IllOwned:
        return False
    except Exception:  # noqa: BLE001
        return True
    return True


def py_oracle(ops, outs):
    fails = []
    ref = Ref()
    for i, op in enumerate(ops):
        if i >= len(outs):
            break
        try:
            want = expect(ref, op)
        except IllOwned as ex:
            fails.append((i, "ill-owned-program %s" % ex))
            break
        except Exception as ex:  # noqa: BLE001 — a bug of the reference must not hide behind a pass
            fails.append((i, "reference-exception %s: %r" % (op.split(" ")[0], ex)))
            break
        out = outs[i]
        if want is None:
            m = re.fullmatch(r"= (\S+) (\d+) live (\d+)", out)
            if not m or m.group(1) == "err":
                fails.append((i, "render-mismatch got %s" % out[:80]))
            elif int(m.group(3)) != ref.live():
                fails.append((i, "live-count %s want %d" % (m.group(3), ref.live())))
            continue
        if out != want:
            mo, mw = re.search(r" live (\d+)$", out), re.search(r" live (\d+)$", want)
            if mo and mw and out[:mo.start()] == want[:mw.start()]:
                what = "live-count got %s want %s" % (mo.group(1), mw.group(1))
                if op == "end":
                    what = "not-all-freed " + what
            elif op.split(" ")[0] in ("rel",) and out.startswith("= freed") and want.startswith("= freed") \
                    and out.split(" ")[2] != want.split(" ")[2]:
                what = "freed-flag got %s want %s" % (out[:40], want[:40])
            else:
                what = "mismatch got %s want %s" % (out[:100], want[:100])
            fails.append((i, what))
            break
    return fails


# =============================================================================================
# generator (keeps its own copy of the reference to stay inside the ownership rules)

NAMES = [b"message", b"iq", b"presence", b"body", b"query", b"x", b"item", b"a", b"b", b"error", b"text"]
KEYS = [b"to", b"from", b"id", b"type", b"k", b"k2", b"aaaa1", b"aaaa9", b"lang", b"q"]
NSS = [b"jabber:client", b"n", b"urn:x", b"jabber:iq:roster", b""]
VALS = [b"v", b"", b"a@b/c", b"x<y&z\"'", b"get", b"0123456789" * 3, "ü中".encode()]
TEXTS = [b"hello", b"", b"a<b", b"x&y", b"line\n2", "ü中😀".encode(), b"t" * 40]


class Gen:
    def __init__(self, rng):
        self.rng = rng
        self.ref = Ref()
        self.ops = []

    def emit(self, *a):
        op = " ".join(str(x) for x in a)
        expect(self.ref, op)        # raises IllOwned if the generator is wrong
        self.ops.append(op)

    # -- choices --------------------------------------------------------------------------------
    def free_slot(self):
        free = [i for i in range(NSLOT) if self.ref.slots[i] is None]
        return self.rng.choice(free) if free else None

    def used(self):
        return [i for i in range(NSLOT) if self.ref.slots[i] is not None]

    def target(self, deep=0.5, pred=None):
        """random target token (slot or path) whose node satisfies pred"""
        rng = self.rng
        used = self.used()
        rng.shuffle(used)
        for v in used:
            n = self.ref.slots[v]
            tok = "h%d" % v
            while n.kids and rng.random() < deep:
                i = rng.randrange(len(n.kids))
                n = n.kids[i]
                tok += "/%d" % i
            if pred is None or pred(n):
                return tok, n
        return None, None

    # -- op emitters ----------------------------------------------------------------------------
    def op_new(self, kind=None):
        w = self.free_slot()
        if w is None:
            return None
        rng = self.rng
        self.emit("new", "h%d" % w)
        kind = kind or rng.choice(["tag", "tag", "tag", "text", "unk"])
        if kind == "tag":
            self.emit("name", "h%d" % w, hx(rng.choice(NAMES)))
            for _ in range(rng.choice([0, 0, 1, 2, 4])):
                self.op_attr("h%d" % w)
        elif kind == "text":
            self.emit(rng.choice(["text", "textz"]), "h%d" % w, hx(rng.choice(TEXTS)))
        return w

    def op_attr(self, tok):
        rng = self.rng
        if rng.random() < 0.3:
            self.emit("ns", tok, hx(rng.choice(NSS)))
        else:
            self.emit("attr", tok, hx(rng.choice(KEYS)), hx(rng.choice(VALS)))

    def op_attach(self):
        """add / addx of a detached held stanza below some target"""
        rng = self.rng
        cands = [v for v in self.used() if self.ref.slots[v].parent is None]
        rng.shuffle(cands)
        for c in cands:
            ch = self.ref.slots[c]
            inside = set(id(x) for x in subtree(ch))
            tok, p = self.target(0.5, lambda n: id(n) not in inside)
            if tok is None:
                continue
            self.emit(rng.choice(["add", "add", "addx"]), tok, "h%d" % c)
            return True
        return False

    def op_clone(self, deep=0.7):
        w = self.free_slot()
        tok, n = self.target(deep)
        if w is None or tok is None:
            return False
        self.emit("clone", tok, "h%d" % w)
        return True

    def op_rel(self):
        used = self.used()
        if not used:
            return False
        self.emit("rel", "h%d" % self.rng.choice(used))
        return True

    def op_make(self):
        """copy / reply / replyerr / errnew / parse into a free slot"""
        rng = self.rng
        w = self.free_slot()
        if w is None:
            return False
        r = rng.random()
        W = "h%d" % w
        if r < 0.35:
            tok, n = self.target(0.4)
            if tok is None:
                return False
            self.emit("copy", tok, W)
        elif r < 0.5:
            tok, n = self.target(0.3, lambda n: n.kind == "tag")
            if tok is None:
                return False
            if rng.random() < 0.7 and (n.attrs is None or b"from" not in n.attrs):
                self.emit("attr", tok, hx(b"from"), hx(b"a@b/c"))
            self.emit("reply", tok, W)
        elif r < 0.7:
            tok, n = self.target(0.3, lambda n: n.kind == "tag")
            if tok is None:
                return False
            if rng.random() < 0.8 and (n.attrs is None or b"from" not in n.attrs):
                self.emit("attr", tok, hx(b"from"), hx(b"a@b/c"))
            if rng.random() < 0.5:
                self.emit("attr", tok, hx(b"to"), hx(b"me@x"))
            a = [rng.choice([b"cancel", b"modify"]), rng.choice([b"item-not-found", b"gone"]),
                 rng.choice([None, b"some text", b""])]
            if rng.random() < 0.1:
                a[rng.randrange(2)] = None
            self.emit("replyerr", tok, W, hx(a[0]), hx(a[1]), hx(a[2]))
        elif r < 0.8:
            self.emit("errnew", rng.randrange(-1, 26), hx(rng.choice([None, b"oops", b""])), W)
        else:
            self.emit("parse", hx(rdoc(rng)), W)
        return True

    def op_mutate(self):
        rng = self.rng
        tok, n = self.target(0.6)
        if tok is None:
            return False
        r = rng.random()
        if r < 0.2:
            self.emit("name", tok, hx(rng.choice(NAMES)))
        elif r < 0.3:
            self.emit(rng.choice(["text", "textz"]), tok, hx(rng.choice(TEXTS)))
        elif r < 0.7:
            self.op_attr(tok)
        else:
            keys = list(n.attrs.keys()) if n.attrs else []
            self.emit("delattr", tok, hx(rng.choice(keys + [b"nokey"])))
        return True

    def op_observe(self):
        rng = self.rng
        tok, n = self.target(0.5)
        if tok is None:
            return False
        r = rng.random()
        if r < 0.3:
            self.emit("render", tok)
        elif r < 0.6:
            self.emit("dump", tok)
        elif r < 0.8:
            self.emit("stat", tok)
        elif r < 0.9:
            self.emit("gettext", tok)
        else:
            self.emit("getattr", tok, hx(rng.choice(KEYS + [XMLNS])))
        return True

    def build_tree(self, depth, fan):
        """a tree in one slot, children attached bottom-up or top-down, some children kept as clones"""
        rng = self.rng
        w = self.op_new("tag")
        if w is None:
            return None
        if depth > 0:
            for _ in range(rng.randrange(0, fan + 1)):
                if len(self.used()) >= NSLOT - 2:
                    break
                if rng.random() < 0.35:
                    c = self.op_new("text")
                else:
                    c = self.build_tree(depth - 1, fan)
                if c is None:
                    break
                how = rng.random()
                if how < 0.45:
                    self.emit("addx", "h%d" % w, "h%d" % c)
                elif how < 0.8:
                    self.emit("add", "h%d" % w, "h%d" % c)
                    self.emit("rel", "h%d" % c)
                else:
                    self.emit("add", "h%d" % w, "h%d" % c)     # the caller keeps its reference to the child
        return w


def rdoc(rng):
    """a stanza as text, inside the fragment grammar of the readers"""
    def el(d):
        name = rng.choice([b"a", b"b", b"iq", b"x"])
        s = b"<" + name
        if rng.random() < 0.5:
            s += b' xmlns="' + rng.choice([b"n", b"urn:x", b"jabber:client"]) + b'"'
        seen = set()
        for _ in range(rng.choice([0, 0, 1, 2])):
            k = rng.choice([b"k", b"id", b"to", b"from"])
            if k in seen:
                continue
            seen.add(k)
            s += b" " + k + b'="' + rng.choice([b"v", b"", b"a&amp;b", b"x&lt;y"]) + b'"'
        if d == 0 or rng.random() < 0.3:
            return s + b"/>"
        s += b">"
        for _ in range(rng.choice([1, 2, 3])):
            if rng.random() < 0.5:
                s += rng.choice([b"text", b"a&amp;b", b"x &lt; y", "ü".encode()])
            else:
                s += el(d - 1)
        return s + b"</" + name + b">"
    r = rng.random()
    if r < 0.08:
        return rng.choice([b"<a", b"<a><b></a>", b"", b"text only", b"<a/><b/>"])
    return el(rng.choice([0, 1, 2, 3]))


def finish(g, explicit):
    rng = g.rng
    if explicit:
        used = g.used()
        rng.shuffle(used)
        for v in used:
            if rng.random() < 0.3:
                g.emit(rng.choice(["dump", "stat", "render"]), "h%d" % v)
            g.emit("rel", "h%d" % v)
    g.emit("end")
    return g.ops


def case_random(rng, tier, explicit=False):
    g = Gen(rng)
    n = rng.choice([10, 30, 60, 120]) if tier == "quick" else rng.choice([30, 100, 300])
    for _ in range(rng.choice([1, 2, 3])):
        g.build_tree(rng.choice([0, 1, 2, 3]), rng.choice([1, 2, 3]))
    while len(g.ops) < n:
        r = rng.random()
        if r < 0.10:
            g.op_new()
        elif r < 0.16:
            g.build_tree(rng.choice([1, 2]), rng.choice([1, 2, 3]))
        elif r < 0.30:
            g.op_clone()
        elif r < 0.42:
            g.op_attach()
        elif r < 0.52:
            g.op_make()
        elif r < 0.66:
            g.op_mutate()
        elif r < 0.82:
            g.op_observe()
        else:
            g.op_rel()
        if len(g.used()) > NSLOT - 4:
            g.op_rel()
            g.op_rel()
    return finish(g, explicit)


def case_survivors(rng, tier):
    """children / grandchildren cloned, the ancestors released first, survivors used and re-attached"""
    g = Gen(rng)
    top = g.build_tree(rng.choice([1, 2, 3]), rng.choice([2, 3]))
    T = "h%d" % top
    root = g.ref.slots[top]
    for x in subtree(root):
        if x.kind == "tag" and rng.random() < 0.6:
            pass
    # make sure namespaces are around (D6: a surviving child renders against its parent's xmlns)
    g.emit("ns", T, hx(rng.choice(NSS)))
    kept = []
    for _ in range(rng.choice([1, 2, 3, 5])):
        w = g.free_slot()
        tok, n = g.target(0.8, lambda n: n.parent is not None)
        if w is None or tok is None:
            break
        if n.kind == "tag" and rng.random() < 0.7:
            g.emit("ns", tok, hx(rng.choice(NSS)))
        g.emit("clone", tok, "h%d" % w)
        kept.append(w)
    # release everything that is not a kept clone, in random order
    others = [v for v in g.used() if v not in kept]
    rng.shuffle(others)
    for v in others:
        g.emit("rel", "h%d" % v)
    for w in kept:
        if g.ref.slots[w] is None:
            continue
        K = "h%d" % w
        g.emit("stat", K)
        g.emit("dump", K)
        g.emit("render", K)
        if rng.random() < 0.5:
            g.emit("gettext", K)
        if rng.random() < 0.5:
            g.op_mutate()
    # re-attach survivors below a fresh parent, render the whole thing
    p = g.op_new("tag")
    if p is not None:
        for w in kept:
            n = g.ref.slots[w]
            if n is None or n.parent is not None or any(x is g.ref.slots[p] for x in subtree(n)):
                continue
            g.emit(rng.choice(["add", "addx"]), "h%d" % p, "h%d" % w)
        g.emit("dump", "h%d" % p)
        g.emit("render", "h%d" % p)
    for _ in range(rng.choice([0, 3, 8])):
        rng.choice([g.op_observe, g.op_rel, g.op_clone, g.op_mutate])()
    return finish(g, rng.random() < 0.5)


def case_attrs(rng, tier):
    """attribute churn on one element: every allocation / release of hash.c"""
    g = Gen(rng)
    w = g.op_new("tag")
    T = "h%d" % w
    keys = KEYS + [XMLNS, b"a", b"aXYZ1", b"a___2"]      # `a…` keys share a bucket
    for _ in range(rng.choice([5, 15, 40])):
        r = rng.random()
        k = rng.choice(keys)
        if r < 0.55:
            g.emit("attr", T, hx(k), hx(rng.choice(VALS)))
        elif r < 0.85:
            g.emit("delattr", T, hx(k))
        elif r < 0.92:
            v = g.free_slot()
            if v is not None:
                g.emit("copy", T, "h%d" % v)
                g.emit("dump", "h%d" % v)
                g.emit("rel", "h%d" % v)
        else:
            g.emit("dump", T)
    return finish(g, rng.random() < 0.5)


def case_stage2(rng, tier):
    """allocator routing: parser rounds and zlib rounds inside ordinary programs"""
    g = Gen(rng)
    for _ in range(rng.choice([1, 2, 4])):
        r = rng.random()
        if r < 0.5:
            w = g.free_slot()
            g.emit("parse", hx(rdoc(rng)), "h%d" % w)
            if g.ref.slots[w] is not None:
                g.emit("render", "h%d" % w)
                v = g.free_slot()
                g.emit("clone", "h%d" % w, "h%d" % v)
                if g.ref.slots[w].kids and rng.random() < 0.7:
                    u = g.free_slot()
                    g.emit("clone", "h%d/0" % w, "h%d" % u)
                g.emit("rel", "h%d" % w)
        else:
            n = rng.choice([1, 10, 300, 4096, 5000, 20000])
            if rng.random() < 0.5:
                data = bytes(rng.randrange(256) for _ in range(n))
            else:
                data = (b"<message to='a@b'>hello</message>" * (n // 30 + 1))[:n]
            g.emit("zround", hx(data))
    return finish(g, rng.random() < 0.5)


def case_handover(rng, tier):
    """SM state handed over BETWEEN connection objects (get / set / free), global timed handlers left
    behind at xmpp_ctx_free; mixed with ordinary stanza traffic; ends with everything released"""
    g = Gen(rng)
    ref = g.ref
    for _ in range(rng.choice([4, 8, 16, 30])):
        r = rng.random()
        conns = [i for i in range(4) if ref.conns[i] is not None]
        free_c = [i for i in range(4) if ref.conns[i] is None]
        held = [i for i in range(4) if ref.sms[i]]
        free_s = [i for i in range(4) if not ref.sms[i]]
        if r < 0.18 and free_c:
            g.emit("cnew", "c%d" % rng.choice(free_c))
        elif r < 0.36 and conns:
            c = rng.choice(conns)
            g.emit("crestore", "c%d" % c, hx(c16.rblob(rng)))
        elif r < 0.54 and conns and free_s:
            g.emit("smget", "c%d" % rng.choice(conns), "s%d" % rng.choice(free_s))
        elif r < 0.70 and conns and held:
            g.emit("smset", "c%d" % rng.choice(conns), "s%d" % rng.choice(held))
        elif r < 0.76 and held:
            g.emit("smfree", "s%d" % rng.choice(held))
        elif r < 0.84 and conns:
            g.emit("crel", "c%d" % rng.choice(conns))
        elif r < 0.92:
            n = rng.randrange(0, 9)
            g.emit("gth", n, rng.randrange(0, n + 1))
        else:
            rng.choice([g.op_new, g.op_observe, g.op_rel, g.op_make])()
    if rng.random() < 0.6:
        order = [("crel", "c%d" % i) for i in range(4) if ref.conns[i] is not None] + \
                [("smfree", "s%d" % i) for i in range(4) if ref.sms[i]]
        rng.shuffle(order)
        for o in order:
            g.emit(*o)
    return finish(g, rng.random() < 0.5)


def case_ctx2(rng, tier):
    """known finding D28 (second context: expat without the context's allocator) — its own stream"""
    return ["ctx2 " + hx(rdoc(rng)), "end"]


def fixed_cases():
    h = hx
    c1 = ["new h0", "name h0 " + h(b"p"), "ns h0 " + h(b"n"), "new h1", "name h1 " + h(b"c"), "ns h1 " + h(b"n"),
          "new h2", "text h2 " + h(b"t"), "addx h1 h2", "add h0 h1", "stat h1", "render h1", "rel h0", "stat h1",
          "dump h1", "render h1", "gettext h1", "clone h1/0 h3", "rel h1", "dump h3", "render h3", "rel h3", "end"]
    c2 = ["new h0", "rel h0", "rel h0", "new h0", "new h0", "clone h5 h1", "clone h0/0 h1", "add h0 h9",
          "name h0 " + h(b"a"), "attr h0 " + h(b"k") + " " + h(b"v"), "attr h0 " + h(b"k") + " " + h(b"w"),
          "delattr h0 " + h(b"k"), "delattr h0 " + h(b"k"), "copy h0 h1", "dump h1", "reply h0 h2",
          "attr h0 " + h(b"from") + " " + h(b"x@y"), "reply h0 h2", "dump h2",
          "replyerr h0 h3 " + h(b"cancel") + " " + h(b"gone") + " " + h(b"why"), "dump h3", "rel h0", "render h3",
          "clone h3/0/1 h4", "rel h3", "dump h4", "errnew 3 " + h(b"t") + " h5", "dump h5", "bogus", "new h32",
          "zround " + h(b"abc"), "end"]
    return [c1, c2]


def generate(rng, tier, override=0):
    cases = fixed_cases()
    n = override or (500 if tier == "quick" else 8000)
    kinds = [(case_random, 0.40), (lambda r, t: case_random(r, t, True), 0.20), (case_survivors, 0.22),
             (case_attrs, 0.06), (case_stage2, 0.06), (case_handover, 0.06)]
    for _ in range(n):
        r = rng.random()
        acc = 0.0
        for fn, w in kinds:
            acc += w
            if r < acc:
                cases.append(fn(rng, tier))
                break
        else:
            cases.append(case_random(rng, tier))
    for _ in range(2 if tier == "quick" else 10):
        cases.append(case_ctx2(rng, tier))
    return cases


# =============================================================================================

def signature(case, i, what):
    op = case.ops[i] if 0 <= i < len(case.ops) else "?"
    kind = op.split(" ")[0]
    w = what.split(" ")
    head = w[0]
    if head == "ORACLE-FAIL" and len(w) > 1:
        head = w[1]
    if head == "crash":
        m = re.search(r"AddressSanitizer: (\S+)|runtime error: (\w+)", what)
        fn = re.search(r" in (\w+) ", what)
        head = "crash-%s-%s" % ((m.group(1) or m.group(2)) if m else "x", fn.group(1) if fn else "x")
    sig = "%s:%s:%s" % (ID, kind, head)
    # a candidate of the shrinker that left the ownership rules is not a smaller witness of the same failure
    if head != "ill-owned-program" and not well_owned(case.ops[: i + 1]):
        sig += ":ill-owned"
    return sig


def tags(case, outs):
    res = []
    ref = Ref()
    for op, out in zip(case.ops, outs):
        t = op.split(" ")
        k = t[0]
        shape = ""
        try:
            if k in ("rel", "add", "addx") and len(t) >= 2:
                tok = t[1] if k == "rel" else t[2]
                v = ref.slotno(tok)
                n = ref.slots[v] if v is not None else None
                if n is not None:
                    shape = ":%s%s%s%s" % ("p" if n.parent is not None else "r", "k" if n.kids else "l",
                                           "s" if n.holders > 1 else "u",
                                           "h" if any(x.holders for x in subtree(n) if x is not n) else "")
            expect(ref, op)
        except Exception:  # noqa: BLE001
            pass
        o = out.split(" ")
        res.append("%s:%s%s" % (k, "-".join(o[1:3])[:20] if k not in ("render", "dump") else o[1][:3] == "err", shape))
    return res
