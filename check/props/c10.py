"""C10 — inbound XML is delivered identically however it is chunked.  Engine `xml` (stateful).

A case is ONE scenario — a list of byte segments separated by stream restarts (`reset`) — delivered
several times, every delivery ending with `end`:
  (a) every segment in one read (the reference delivery, always first),
  (b) every single split point of every segment (two reads; scenarios longer than ~1 KB: every
      split point that is not inside plain text plus a sample of the others, see `deliveries_for`),
  (c) bytewise,
  (d) 50–200 random partitions (quick: 50–80; at least 20 for very long scenarios and for restart
      scenarios, which are delivered at every split point of every stream anyway), half of them
      biased to cut inside markup, entities, CDATA and UTF-8 sequences;
  tiny scenarios in ALL 2^(n-1) partitions.
Scenarios: documents from a grammar (nested elements, prefixes and default namespaces incl.
undeclaration, attributes, the five entities, numeric character references, CDATA, comments, PIs,
2/3/4-byte UTF-8, CR LF, long text, ISO-8859-1 / UTF-16 encodings, an internal DTD entity), malformed
variants (byte edits, truncated entities, illegal characters, bad UTF-8, mismatched tags, undeclared
prefixes, duplicate attributes, junk after the root), and restarts after ANY prefix of a document
(inside tags, entities, text pending, directly after a complete element in the same read — the way
D5 shows in the connection code: `<success/>` processed, restart flagged, next read).

Recorded-parameter replay: `lean_input` builds the Lean driver's input — the C side's `cb …`
lines (raw callbacks of a second expat instance) in front of each op.

Model-free oracles (`py_oracle_ex`):
  (i)   the concatenated event sequence of every delivery equals that of the reference delivery
        (repeated `error`s collapsed: once failed, every further read fails);
  (ii)  for input xml.etree.ElementTree (namespace aware, XMLPullParser so that an open stream is
        fine) accepts, the reference delivery equals what ElementTree reports: stream start with its
        attributes, every top-level child as canonical tree (local names, namespace, attributes,
        children in order, merged text), stream end; and the library reports `error` exactly when
        ElementTree raises;
  (iii) H-expat itself on the recorded `cb` traces: the trace of every delivery equals the
        reference's up to splitting/merging of adjacent character data (and character data directly
        in front of an error, Spec/ExpatTrace.lean `errTail`), character data is NUL-free,
        end-element callbacks are matched, no element callback follows a failure — reported as
        "H-expat:… hypothesis not met on this run", never absorbed;
  plus structural checks (exactly one open per segment before anything else, nothing after close
  but errors).
"""
import re
import xml.etree.ElementTree as ET

from .common import hx, unhx, load_corpus

ID = "C10"
ENGINE = "xml"
# companion pass: what conn.c makes of the parser's events (stream start / restart / end callbacks) runs on engine conn
ALSO = [("c10conn", 400)]
VARIANT = "std"
STATEFUL = True
LEVEL = "proof"
FILES = ["parser_expat.c", "stanza.c", "hash.c"]
TRUSTED = ["model Strophe/Model/Assembly.lean tied to src/parser_expat.c (+ the stanza.c setters it uses) by "
           "differential execution (engine xml) on the raw callback trace of a second expat instance",
           "expat's tokenisation (hypothesis H-expat, checked on every recorded trace by oracle iii)",
           "xml.etree.ElementTree as the independent namespace-aware parser of oracle (ii)"]
ASSUMPTIONS = ["H-expat: for a fixed byte stream the raw callback sequences under two chunkings are equal up to "
               "splitting/merging of adjacent character-data callbacks, errors at the same position (up to character "
               "data directly in front of the error: expat drops the text in front of a `]]>` seen in one buffer), "
               "character data free of NUL, end-element callbacks never outnumber start-element callbacks, no element "
               "callback after a failure until the parser is reset",
               "allocation failure paths and int overflow of the text length (>= 2^31 bytes) are not modelled",
               "parser_reset is called between reads, never from inside a callback (as conn.c/event.c do)",
               "attribute prefixes are discarded by design (Appendix E): generated attributes never collide after "
               "dropping the prefix"]
RULE = ("grammar documents / malformed variants / restart scenarios, each delivered in one read, at every single "
        "split point, bytewise and in random partitions; distinct = tag (op, lexical state at the end of the chunk, "
        "kinds of events delivered, restart with/without pending input)")

SEP = "\x1f"

# ------------------------------------------------------------------------------------------------
# document grammar

NAMES = ["a", "b", "c", "message", "iq", "presence", "body", "x", "query", "item", "success", "features",
         "n-1", "_u", "a.b", "été", "名前", "error"]
ATTRS = ["to", "from", "id", "type", "v", "w", "node", "名", "a-b", "version"]
URIS = ["jabber:client", "urn:x", "http://etherx.jabber.org/streams", "urn:ietf:params:xml:ns:xmpp-sasl", "u",
        "urn:ü", "jabber:iq:roster", "http://jabber.org/protocol/disco#info"]
PREFIXES = ["p", "stream", "ns1", "q", "é"]
WORDS = ["hello", "world", "x", "y z", "0", " ", "  ", "\n", "\r\n", "\t", "foo bar", "a>b", "]]", "]", "=", "'", '"',
         "é", "名前", "\U0001F600", " ", "߿ࠀ\ufffd", "q" * 40]
ENTS = ["&amp;", "&lt;", "&gt;", "&quot;", "&apos;", "&#65;", "&#x41;", "&#x263A;", "&#128512;", "&#xe9;", "&#10;",
        "&#9;", "&#x10FFFF;", "&#13;"]


def gen_text(rng, allow_cdata=True):
    parts = []
    for _ in range(rng.choice([1, 1, 2, 3, 5, 8])):
        k = rng.random()
        if k < 0.45:
            parts.append(rng.choice(WORDS).replace("&", "&amp;").replace("<", "&lt;"))
        elif k < 0.75:
            parts.append(rng.choice(ENTS))
        elif k < 0.87 and allow_cdata:
            inner = rng.choice(["", "x", "<x>", "a&b", "]]", "] ]>", "名", "<![CDATA[", "\n", "&amp;", "]]]"])
            parts.append("<![CDATA[" + inner + "]]>")
        elif k < 0.93 and allow_cdata:
            parts.append("<!--" + rng.choice(["", "c", " - ", "<a>", "é"]) + "-->")
        elif k < 0.97 and allow_cdata:
            parts.append("<?" + rng.choice(["pi", "x-y data", "p <a>"]) + "?>")
        else:
            parts.append(rng.choice(["lorem ipsum ", "名", "&amp;", "z\n"]) * rng.choice([30, 200, 700]))
    return "".join(parts)


def gen_attr_value(rng):
    parts = []
    for _ in range(rng.choice([0, 1, 1, 2, 3])):
        k = rng.random()
        if k < 0.55:
            parts.append(rng.choice(["v", "user@host/res", "1.0", "a b", "x>y", "é", "名", "\U0001F600", "\t",
                                     "\n", "]]>", "="]))
        else:
            parts.append(rng.choice(ENTS + ["&#x20;"]))
    return "".join(parts)


def gen_element(rng, depth, scope, maxdepth):
    """scope: prefixes in scope (list). Returns serialised element."""
    scope = list(scope)
    decls = []
    if rng.random() < 0.3:
        decls.append(("xmlns", rng.choice(URIS + [""] if depth > 1 else URIS)))
    if rng.random() < 0.25:
        p = rng.choice(PREFIXES)
        decls.append(("xmlns:" + p, rng.choice(URIS)))
        if p not in scope:
            scope.append(p)
    name = rng.choice(NAMES)
    if scope and rng.random() < 0.3:
        name = rng.choice(scope) + ":" + name
    attrs = []
    used = set()
    for _ in range(rng.choice([0, 0, 1, 1, 2, 4])):
        a = rng.choice(ATTRS)
        if a in used:
            continue
        used.add(a)
        if scope and rng.random() < 0.15:
            attrs.append((rng.choice(scope) + ":" + a, gen_attr_value(rng)))
        else:
            attrs.append((a, gen_attr_value(rng)))
    if "lang" not in used and rng.random() < 0.15:
        attrs.append(("xml:lang", rng.choice(["en", "de-AT"])))
    allattrs = decls + attrs
    rng.shuffle(allattrs)
    s = "<" + name
    for k, v in allattrs:
        q = rng.choice(["'", '"'])
        v = v.replace(q, "&apos;" if q == "'" else "&quot;")
        s += rng.choice([" ", " ", "  ", "\n", "\t"]) + k + rng.choice(["=", "=", " = "]) + q + v + q
    s += rng.choice(["", "", " ", "\n"])
    items = []
    n_items = rng.choice([0, 0, 1, 1, 2, 3, 5]) if depth < maxdepth else rng.choice([0, 1])
    for _ in range(n_items):
        if depth < maxdepth and rng.random() < 0.5:
            items.append(gen_element(rng, depth + 1, scope, maxdepth))
        else:
            items.append(gen_text(rng))
    if not items and rng.random() < 0.6:
        return s + "/>"
    return s + ">" + "".join(items) + "</" + name + rng.choice(["", "", " ", "\n"]) + ">"


def gen_document(rng, closed=None, big=False):
    """A well-formed stream: optional declaration, root start tag, stanzas, optionally the root end tag."""
    head = rng.choice(["", "", "<?xml version='1.0'?>", "<?xml version=\"1.0\" encoding=\"UTF-8\"?>\n"])
    kind = rng.random()
    scope = []
    if kind < 0.45:
        root = "stream:stream"
        scope = ["stream"]
        open_tag = ("<stream:stream xmlns:stream='http://etherx.jabber.org/streams' xmlns='jabber:client'" +
                    rng.choice(["", " version='1.0'", " from='example.org' id='x1' version='1.0' xml:lang='en'",
                                " id='&#x263A;&amp;'", "\n to = \"a\""]) + ">")
    elif kind < 0.75:
        root = rng.choice(["s", "r", "名"])
        open_tag = "<" + root + rng.choice(["", " a='1'", " xmlns='urn:root'", " b='' a='&lt;'"]) + ">"
    else:
        p = rng.choice(PREFIXES)
        root = p + ":root"
        scope = [p]
        open_tag = "<%s xmlns:%s='%s'%s>" % (root, p, rng.choice(URIS), rng.choice(["", " %s:k='v'" % p, " k='v'"]))
    body = []
    if head and rng.random() < 0.1:
        body.append("<!-- before root -->")
    if rng.random() < 0.05:
        head += "<!DOCTYPE " + root + " [<!ENTITY e \"v<b>w</b>z\">]>"
        dtd = True
    else:
        dtd = False
    n = rng.choice([0, 1, 1, 2, 3, 5]) if not big else rng.choice([10, 30])
    for _ in range(n):
        k = rng.random()
        if k < 0.15:
            body.append(rng.choice([" ", "\n", "  \n", "text at depth one", "&amp;", "<!-- c -->", "<?pi?>"]))
        el = gen_element(rng, 1, scope, rng.choice([1, 2, 3, 4]))
        if dtd and rng.random() < 0.7:
            el = "<d>x&e;y</d>"
        body.append(el)
    if closed is None:
        closed = rng.random() < 0.4
    tail = ""
    if closed:
        tail = "</" + root + ">" + rng.choice(["", "", "\n", " <!-- bye -->", "<?x?>"])
    text = head + body_join(body, open_tag) + tail
    k = rng.random()
    if k < 0.06 and not dtd:
        # ISO-8859-1: expat converts through its internal buffer; keep to Latin-1 code points
        t = re.sub(r"[^\x00-\xff]", "é", text)
        t = re.sub(r"^<\?xml[^>]*\?>\n?", "", t)
        try:
            return ("<?xml version='1.0' encoding='ISO-8859-1'?>" + t).encode("latin-1")
        except UnicodeEncodeError:
            pass
    elif k < 0.09 and not dtd:
        t = re.sub(r"^<\?xml[^>]*\?>\n?", "", text)
        return t.encode("utf-16")
    return text.encode("utf-8")


def body_join(body, open_tag):
    return open_tag + "".join(body)


BAD_SNIPPETS = [b"<", b"&", b"&amp", b"&#0;", b"&#x1F;", b"&#xD800;", b"&bogus;", b"\x00", b"\x1f", b"\xff", b"\xc0\x80",
                b"\xe2\x98", b"\xed\xa0\x80", b"\xf4\x90\x80\x80", b"</b>", b"</>", b"<p9:a/>", b"<a b='1' b='2'/>",
                b"<a b=1/>", b"<a b='<'/>", b"]]>", b"<!DOCTYPE x>", b"<?xml version='1.0'?>", b"<a", b"<a/", b"<a b",
                b"<![CDATA[", b"<!--", b"--", b"<a xmlns:p=''/>", b"<a xmlns:xml='u'/>", b"<xmlns:a/>", b"<a:b:c/>",
                b"\xef\xbf\xbe", b"\xef\xbf\xbf", b"<a>\x0b</a>"]


def mutate(rng, doc):
    b = bytearray(doc)
    k = rng.random()
    if k < 0.45:
        j = rng.randrange(len(b) + 1)
        b[j:j] = rng.choice(BAD_SNIPPETS)
    elif k < 0.6 and b:
        j = rng.randrange(len(b))
        del b[j:j + rng.choice([1, 1, 2, 5])]
    elif k < 0.75 and b:
        j = rng.randrange(len(b))
        b[j] = rng.choice([0, 0x1f, 0x3c, 0x26, 0x80, 0xff, b[j] ^ 0x20, (b[j] + 1) & 255])
    elif k < 0.85:
        b += rng.choice([b"<junk/>", b"junk", b"</s>", b"<s>", b"\x00"])
    elif k < 0.93 and len(b) > 4:
        i, j = sorted(rng.sample(range(len(b)), 2))
        b[i:j] = bytes(reversed(b[i:j]))
    else:
        b = bytearray(doc) + bytearray(doc)   # two roots / stream header twice
    return bytes(b)


# ------------------------------------------------------------------------------------------------
# lexical state at every offset (for biased cuts and coverage tags only; never used by an oracle)

def lex_states(seg):
    """states[i] = lexical state after the first i bytes: t(ext) g(tag) e(ntity) c(data) m(comment) p(i) u(tf8)"""
    if seg[:2] in (b"\xff\xfe", b"\xfe\xff"):
        return ["w"] * (len(seg) + 1)
    st = "t"
    res = ["t"]
    i = 0
    n = len(seg)
    pend = 0
    while i < n:
        c = seg[i]
        if pend:
            pend -= 1
            res.append("u" if pend else st)
            i += 1
            continue
        if c >= 0xC0:
            pend = 1 if c < 0xE0 else (2 if c < 0xF0 else 3)
            res.append("u")
            i += 1
            continue
        if st == "t":
            if seg.startswith(b"<![CDATA[", i):
                st = "c"
            elif seg.startswith(b"<!--", i):
                st = "m"
            elif seg.startswith(b"<?", i):
                st = "p"
            elif c == 0x3C:
                st = "g"
            elif c == 0x26:
                st = "e"
        elif st == "g":
            if c == 0x3E:
                st = "t"
        elif st == "e":
            if c == 0x3B:
                st = "t"
        elif st == "c":
            if i >= 2 and seg[i - 2:i + 1] == b"]]>":
                st = "t"
        elif st == "m":
            if i >= 2 and seg[i - 2:i + 1] == b"-->":
                st = "t"
        elif st == "p":
            if i >= 1 and seg[i - 1:i + 1] == b"?>":
                st = "t"
        res.append(st)
        i += 1
    return res


_LEX = {}


def lex_cached(seg):
    r = _LEX.get(seg)
    if r is None:
        if len(_LEX) > 4000:
            _LEX.clear()
        r = _LEX[seg] = lex_states(seg)
    return r


# ------------------------------------------------------------------------------------------------
# deliveries

def delivery(segs_chunks):
    """segs_chunks: list (per segment) of lists of chunks -> ops"""
    ops = []
    for si, chunks in enumerate(segs_chunks):
        if si:
            ops.append("reset")
        for c in chunks:
            ops.append("feed " + hx(c))
    ops.append("end")
    return ops


def cut(seg, points):
    pts = [0] + sorted(set(p for p in points if 0 < p < len(seg))) + [len(seg)]
    return [seg[a:b] for a, b in zip(pts, pts[1:])] if seg else []


def random_partition(rng, seg, biased):
    n = len(seg)
    if n <= 1:
        return [seg] if seg else []
    k = rng.choice([1, 2, 3, 5, 8, 13, max(1, n // 3)])
    k = min(k, n - 1)
    if biased:
        st = lex_cached(seg)
        hot = [i for i in range(1, n) if st[i] != "t"]
        if hot:
            pts = [rng.choice(hot) for _ in range(k)]
            return cut(seg, pts)
    return cut(seg, rng.sample(range(1, n), k))


def deliveries_for(rng, segs, tier, nrandom=None):
    """All deliveries of one scenario; the reference (one read per segment) comes first."""
    out = [delivery([[s] if s else [] for s in segs])]
    whole = [[s] if s else [] for s in segs]
    total = sum(len(s) for s in segs)
    # (b) every single split point (long scenarios: every point that is not plain text, and a stride
    #     through the rest, about 500 deliveries)
    cap = (600000 if tier == "quick" else 1500000) // max(1, total)     # deliveries this scenario may cost
    budget = max(30, min(500 if tier == "quick" else 3000, cap * 6 // 10))
    for si, s in enumerate(segs):
        pts = list(range(1, len(s)))
        if total > budget:
            st = lex_cached(s)
            hot = [p for p in pts if st[p] != "t"]
            cold = [p for p in pts if st[p] == "t"]
            share = max(1, budget * len(s) // max(1, total))
            if len(hot) > share // 2:
                hot = sorted(rng.sample(hot, share // 2))
            keep = max(1, share - len(hot))
            if len(cold) > keep:
                cold = sorted(rng.sample(cold, keep))
            pts = sorted(hot + cold)
        for p in pts:
            d = list(whole)
            d[si] = [s[:p], s[p:]]
            out.append(delivery(d))
    # (c) bytewise
    if total <= (3000 if tier == "quick" else 20000):
        out.append(delivery([[s[i:i + 1] for i in range(len(s))] for s in segs]))
    # (d) random partitions
    if nrandom is None:
        nrandom = rng.randrange(50, 81) if tier == "quick" else rng.randrange(50, 201)
    nrandom = max(20, min(nrandom, cap * 4 // 10))
    for j in range(nrandom):
        out.append(delivery([random_partition(rng, s, j % 2 == 1) for s in segs]))
    return out


def all_partitions(seg):
    n = len(seg)
    for mask in range(1 << (n - 1)):
        pts = [i + 1 for i in range(n - 1) if mask >> i & 1]
        yield cut(seg, pts)


TINY = [b"<a><b>x</b>", b"<a><b/>t", b"<a><b>&lt;</b>", b"<a><b>\xc3\xa9</b>", b"<a><b>x</b></a>", b"<a><b>&#9;</b>",
        b"<a><b>x<c/>y</b>", b"<p:a xmlns:p='u'/>", b"<a><b k='v'/>", b"<a><b>]]></b>", b"<a></b>"]

RESTART_PREFIXES = [
    b"<stream:stream xmlns:stream='http://etherx.jabber.org/streams' xmlns='jabber:client'>"
    b"<success xmlns='urn:ietf:params:xml:ns:xmpp-sasl'/><x>pending",
    b"<s><a>abcd", b"<s><a>ab&am", b"<s><a><b>t</b>tail", b"<s><a/>", b"<s><a k='v", b"<s><a>\xe5\x90", b"<s><a><![CDATA[x",
    b"<s><a>text</a><b><c>deep text", b"<s>", b"<s", b"", b"<s><a>t</a></s>", b"<s><a>" + b"long text " * 40,
    b"<s><a>x</a><b>y<c/>", b"<s><a>&#x26", b"<s><a>oops</b>",
]


def scenario_cases(rng, segs, tier, nrandom=None):
    ops = []
    for d in deliveries_for(rng, segs, tier, nrandom):
        ops += d
    return ops


def corpus():
    return load_corpus(ID)


def generate(rng, tier, override=0):
    cases = []
    thorough = tier == "thorough"
    n_good = override or (60 if not thorough else 300)
    n_bad = override or (40 if not thorough else 200)
    n_restart = override or (50 if not thorough else 250)
    # fixed: the stream of tests/check_parser.c-like shape and the tiny scenarios in ALL partitions
    for t in (TINY if not override else TINY[:2]):
        if len(t) <= (12 if not thorough else 15):
            ops = []
            for chunks in all_partitions(t):
                ops += delivery([chunks])
            cases.append(ops)
        else:
            cases.append(scenario_cases(rng, [t], tier))
    for i in range(n_good):
        doc = gen_document(rng, big=(rng.random() < 0.04))
        cases.append(scenario_cases(rng, [doc], tier))
    for i in range(n_bad):
        doc = mutate(rng, gen_document(rng))
        if rng.random() < 0.2:
            doc = mutate(rng, doc)
        cases.append(scenario_cases(rng, [doc], tier))
    for i in range(n_restart):
        segs = []
        for _ in range(rng.choice([1, 1, 1, 2, 3])):
            if rng.random() < 0.4:
                segs.append(rng.choice(RESTART_PREFIXES))
            else:
                d = gen_document(rng)
                if rng.random() < 0.15:
                    d = mutate(rng, d)
                k = rng.random()
                if k < 0.7:
                    st = lex_cached(d)
                    if rng.random() < 0.5:
                        # prefer a cut with character data pending
                        cand = [j for j in range(1, len(d)) if st[j] == "t" and d[j - 1:j].isalnum()]
                        p = rng.choice(cand) if cand else rng.randrange(len(d) + 1)
                    else:
                        p = rng.randrange(len(d) + 1)
                    d = d[:p]
                segs.append(d)
        last = gen_document(rng) if rng.random() < 0.8 else rng.choice(RESTART_PREFIXES)
        segs.append(last)
        if rng.random() < 0.1:
            segs.append(b"")     # a restart as the last thing that happens
        cases.append(scenario_cases(rng, segs, tier, nrandom=(20 if not thorough else 60)))
    return cases


# ------------------------------------------------------------------------------------------------
# recorded-parameter replay

def lean_input(ops, extras):
    lines = []
    for i, op in enumerate(ops):
        ex = extras[i] if i < len(extras) else []
        lines += [l for l in ex if l.startswith("cb ")]
        lines.append(op)
    return lines


# ------------------------------------------------------------------------------------------------
# oracles

def split_deliveries(ops):
    """[(first op index, last op index (the `end`, or last op if the case was cut))]"""
    res = []
    start = 0
    for i, op in enumerate(ops):
        if op == "end":
            res.append((start, i))
            start = i + 1
    if start < len(ops):
        res.append((start, len(ops) - 1))
    return res


def parse_events(line):
    if not line.startswith("= ev "):
        return None
    body = line[5:]
    if body == "-":
        return []
    return body.split(" | ")


def collapse_errors(evs, token="error"):
    out = []
    for e in evs:
        if e == token and out and out[-1] == token:
            continue
        out.append(e)
    return out


def norm_cbs(cbs):
    """normal form of a callback trace under H-expat's equivalence (Spec/ExpatTrace.lean
    SameUpToCharSplit): adjacent character-data callbacks merged; character data directly in front of
    an error dropped (expat does not report the text in front of a `]]>` it sees in one buffer, but
    does when the read ends inside the `]]>`); repeated errors collapsed"""
    out = []
    for c in cbs:
        if c.startswith("cb c ") and out and out[-1].startswith("cb c "):
            a, b = out[-1][5:], c[5:]
            a = "" if a == "." else a
            b = "" if b == "." else b
            out[-1] = "cb c " + ((a + b) or ".")
        elif c == "cb err":
            if out and out[-1].startswith("cb c "):
                out.pop()
            if out and out[-1] == "cb err":
                continue
            out.append(c)
        else:
            out.append(c)
    return out


def hexpat_local(cbs):
    """the parts of H-expat that concern ONE trace (one stream): NUL-free character data,
    end-element callbacks matched, no element callback after a failure.  Returns a message or None."""
    depth = 0
    failed = False
    for c in cbs:
        if c.startswith("cb c "):
            h = c[5:]
            if h != "." and any(h[i:i + 2] == "00" for i in range(0, len(h), 2)):
                return "nul-in-character-data"
        elif c.startswith("cb s "):
            if failed:
                return "start-element-after-error"
            depth += 1
        elif c.startswith("cb e "):
            if failed:
                return "end-element-after-error"
            if depth == 0:
                return "unmatched-end-element"
            depth -= 1
        elif c == "cb err":
            failed = True
    return None


def hexs(s):
    b = s.encode("utf-8")
    return b.hex() if b else "."


def split_tag(tag):
    if tag.startswith("{"):
        ns, local = tag[1:].split("}", 1)
        return ns, local
    return None, tag


def et_tree(el):
    ns, local = split_tag(el.tag)
    attrs = {}
    for k, v in el.attrib.items():
        attrs[split_tag(k)[1]] = v
    if ns is not None:
        attrs["xmlns"] = ns
    items = sorted(((k.encode("utf-8"), v) for k, v in attrs.items()))
    s = "<" + hexs(local) + ":" + (hexs(ns) if ns is not None else "-") + ":[" + \
        ",".join((k.hex() or ".") + "=" + hexs(v) for k, v in items) + "]"
    if el.text:
        s += '"' + hexs(el.text) + '"'
    for ch in el:
        s += et_tree(ch)
        if ch.tail:
            s += '"' + hexs(ch.tail) + '"'
    return s + ">"


_ET = {}
EXPAT_ENCODINGS = (b"UTF-8", b"UTF-16", b"ISO-8859-1", b"US-ASCII")


def et_events(seg):
    """(events, failed) as ElementTree sees the segment (one feed, stream possibly left open)"""
    r = _ET.get(seg)
    if r is not None:
        return r
    if len(_ET) > 2000:
        _ET.clear()
    m = re.match(rb"\s*<\?xml[^>]*?encoding\s*=\s*[\'\"]([^\'\"]*)", seg[:200])
    if m and m.group(1).upper() not in EXPAT_ENCODINGS:
        # pyexpat resolves further encoding names through Python's codecs (unknown-encoding handler);
        # libstrophe installs none and refuses them: no verdict from ElementTree
        r = _ET[seg] = (None, None)
        return r
    evs = []
    failed = False
    depth = 0
    p = ET.XMLPullParser(events=("start", "end"))
    try:
        if seg:
            p.feed(seg)
        for kind, el in p.read_events():
            if kind == "start":
                if depth == 0:
                    ns, local = split_tag(el.tag)
                    a = []
                    for k, v in el.attrib.items():
                        kns, kl = split_tag(k)
                        a.append(hexs((kns + SEP + kl) if kns is not None else kl) + "=" + hexs(v))
                    evs.append("open " + hexs(local) + " " + (",".join(a) or "-"))
                depth += 1
            else:
                depth -= 1
                if depth == 1:
                    evs.append("stanza " + et_tree(el))
                elif depth == 0:
                    ns, local = split_tag(el.tag)
                    evs.append("close " + hexs((ns + SEP + local) if ns is not None else local))
    except ET.ParseError:
        failed = True
    except Exception:  # noqa: BLE001 - e.g. ValueError for unsupported constructs: no verdict
        r = _ET[seg] = (None, None)
        return r
    r = _ET[seg] = (evs, failed)
    return r


def delivery_segments(ops, a, b):
    """byte segments and, per segment, the list of op indices of the delivery ops[a..b]"""
    segs = [[]]
    idx = [[]]
    for i in range(a, b + 1):
        op = ops[i]
        if op == "reset":
            segs.append([])
            idx.append([i])
        elif op.startswith("feed "):
            segs[-1].append(unhx(op[5:]))
            idx[-1].append(i)
        else:
            idx[-1].append(i)
    return [b"".join(s) for s in segs], idx


def py_oracle_ex(ops, outs, extras):
    fails = []
    nout = len(outs)
    reference = {}      # tuple(segments) -> (delivery index, per-segment events, per-segment cbs)
    for (a, b) in split_deliveries(ops):
        if b >= nout:
            break       # the driver died inside this delivery: reported as crash by check.py
        segs, idx = delivery_segments(ops, a, b)
        seg_evs = []
        seg_cbs = []
        bad = False
        for ops_idx in idx:
            evs = []
            cbs = []
            for i in ops_idx:
                e = parse_events(outs[i])
                if e is None:
                    fails.append((i, "bad-output %s" % outs[i][:80]))
                    bad = True
                    continue
                evs += e
                if i < len(extras):
                    cbs += [l for l in extras[i] if l.startswith("cb ")]
            seg_evs.append(collapse_errors(evs))
            seg_cbs.append(norm_cbs(cbs))
            bad_h = hexpat_local(cbs)
            if bad_h:
                fails.append((ops_idx[-1] if ops_idx else a, "H-expat:%s hypothesis not met on this run" % bad_h))
        if bad:
            continue
        key = tuple(segs)
        # structural sanity of every delivery
        for si, evs in enumerate(seg_evs):
            kinds = [e.split(" ")[0] for e in evs]
            if kinds and kinds[0] not in ("open", "error"):
                fails.append((idx[si][-1] if idx[si] else a, "structure: first event of a stream is %s" % kinds[0]))
            if kinds.count("open") > 1 or kinds.count("close") > 1:
                fails.append((idx[si][-1], "structure: %d open / %d close in one stream"
                              % (kinds.count("open"), kinds.count("close"))))
            if "close" in kinds and any(k != "error" for k in kinds[kinds.index("close") + 1:]):
                fails.append((idx[si][-1], "structure: events after close"))
        ref = reference.get(key)
        if ref is None:
            reference[key] = (a, seg_evs, seg_cbs)
            # (ii) ElementTree on the reference delivery
            for si, seg in enumerate(segs):
                want, failed = et_events(seg)
                if want is None:
                    continue
                got = seg_evs[si]
                last = idx[si][-1] if idx[si] else a
                got_failed = "error" in got
                if failed != got_failed:
                    fails.append((last, "et-error-mismatch: ElementTree %s, library %s"
                                  % ("rejects" if failed else "accepts", "rejects" if got_failed else "accepts")))
                elif not failed and got != want:
                    k = next((j for j in range(min(len(got), len(want))) if got[j] != want[j]), min(len(got), len(want)))
                    fails.append((last, "et-mismatch at event %d: got %s want %s"
                                  % (k, (got[k] if k < len(got) else "<none>")[:160],
                                     (want[k] if k < len(want) else "<none>")[:160])))
            continue
        # (i) chunk independence against the reference delivery, (iii) H-expat on the recordings
        _, ref_evs, ref_cbs = ref
        for si in range(len(segs)):
            last = idx[si][-1] if idx[si] else a
            got, want = seg_evs[si], ref_evs[si]
            if got != want:
                if len(got) < len(want) and want[:len(got)] == got:
                    fails.append((last, "chunk-dependent:deferred-tail %d of %d events delivered; missing %s"
                                  % (len(got), len(want), want[len(got)][:120])))
                else:
                    k = next((j for j in range(min(len(got), len(want))) if got[j] != want[j]), min(len(got), len(want)))
                    fails.append((last, "chunk-dependent:mismatch at event %d: got %s reference %s"
                                  % (k, (got[k] if k < len(got) else "<none>")[:160],
                                     (want[k] if k < len(want) else "<none>")[:160])))
            gc, wc = seg_cbs[si], ref_cbs[si]
            if gc != wc and len(extras) >= nout:
                if len(gc) < len(wc) and wc[:len(gc)] == gc:
                    fails.append((last, "H-expat:prefix hypothesis not met on this run: %d of %d callbacks"
                                  % (len(gc), len(wc))))
                elif len(gc) and len(gc) <= len(wc) and wc[:len(gc) - 1] == gc[:-1] and gc[-1].startswith("cb c ") \
                        and wc[len(gc) - 1].startswith("cb c ") and wc[len(gc) - 1][5:].startswith(gc[-1][5:].rstrip(".")):
                    fails.append((last, "H-expat:prefix hypothesis not met on this run: %d of %d callbacks "
                                  "(last text partial)" % (len(gc), len(wc))))
                else:
                    k = next((j for j in range(min(len(gc), len(wc))) if gc[j] != wc[j]), min(len(gc), len(wc)))
                    fails.append((last, "H-expat:mismatch hypothesis not met on this run at callback %d: %s vs %s"
                                  % (k, (gc[k] if k < len(gc) else "<none>")[:100],
                                     (wc[k] if k < len(wc) else "<none>")[:100])))
    return fails


def py_oracle(ops, outs):
    """without the recorded callbacks: oracles (i) and (ii) only"""
    return py_oracle_ex(ops, outs, [])


def signature(case, i, what):
    w = what.split(" ")
    if w[0] == "ORACLE-FAIL" and len(w) > 1:
        return "%s:%s" % (ID, w[1])
    if w[0] == "crash":
        m = re.search(r" in (\w+) (\S+)", what)
        if m:
            return "%s:crash:%s" % (ID, m.group(1))
        m = re.search(r"(\w+\.c):\d+", what)
        return "%s:crash:%s" % (ID, m.group(1) if m else "unknown")
    return "%s:%s" % (ID, w[0].rstrip(":"))


def tags(case, outs):
    ops = case.ops
    res = ["?"] * len(ops)
    for (a, b) in split_deliveries(ops):
        segs, idx = delivery_segments(ops, a, b)
        for si, seg in enumerate(segs):
            st = lex_cached(seg) if len(seg) <= 50000 else None
            off = 0
            for i in idx[si]:
                op = ops[i]
                out = outs[i] if i < len(outs) else "?"
                evs = parse_events(out) or []
                kinds = "".join(sorted(set(e[0] for e in evs))) or "-"
                if op.startswith("feed "):
                    n = (len(op) - 5) // 2 if op[5:] != "." else 0
                    off += n
                    res[i] = "feed:%s:%s:%s" % (st[off] if st else "L", kinds,
                                                "1" if n == 1 else ("s" if n < 64 else "L"))
                elif op == "reset":
                    # the state of the PREVIOUS segment when the restart hit
                    prev = segs[si - 1] if si else b""
                    pst = lex_cached(prev)[len(prev)] if len(prev) <= 50000 else "L"
                    res[i] = "reset:%s:%s" % (pst, "empty" if not prev else "data")
                else:
                    res[i] = "end"
    return res
